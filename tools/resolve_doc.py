#!/venv/bin/python
"""keep both sides of a docstring-only merge conflict in harness/translate_code.py"""
import re, sys
p = '/verif/harness/translate_code.py'
s = open(p).read()
s = re.sub(r"<<<<<<< ours\n(.*?)=======\n(.*?)>>>>>>> \w+\n", lambda m: m.group(1) + "\n" + m.group(2), s, count=1, flags=re.S)
open(p, 'w').write(s)
