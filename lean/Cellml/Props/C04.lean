import Cellml.Expr.Infer
namespace Cellml.Props.C04
theorem placeholder : True := trivial
end Cellml.Props.C04
