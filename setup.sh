#!/bin/bash
# Offline setup: translate the tables of /repo into Lean, build the Lean library and the model driver.
set -e
cd "$(dirname "$0")"
/venv/bin/python harness/translate_tables.py
cd lean
lake build Cellml driver 2>&1 | tail -40
