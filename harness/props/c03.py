"""C03 — unit definitions mean what the CellML specification says, in any order."""
import os
import re
import signal
import tempfile
from decimal import Decimal, InvalidOperation
from fractions import Fraction

import mpmath

import unitlib as U
from common import Str, sx
from props.c07 import root_dict

ID = 'C03'
LEAN_MODULES = ['Cellml.Props.C03', 'Cellml.Tie.UnitDefsMake', 'Cellml.Tie.UnitDefsDen', 'Cellml.Tie.UnitDefs', 'Cellml.Tie.GenBWhile', 'Cellml.Tie.GenBUnitDefs', 'Cellml.Tie.GenBCompose', 'Cellml.Props.C03Gen']
N = {'quick': 400, 'thorough': 10000}
RULE = ('random sets of <units> definitions written as CellML 1.0 documents and loaded through cellmlmanip.load_model '
        'in 3 random orders each: 3-12 definitions, chains of user units to depth 8, exponents in '
        '{±1,±2,±3,±1/2,±3/2} (several spellings), all 20 schema prefix names and integer prefixes, multipliers with '
        'small prime factors, new base units, scaled dimensionless units, base_units="no", identifier shapes of the '
        'schema (leading underscores, store1_x, names containing built-in names, Python keywords); 30 % of the cases '
        'carry one injected fault (cycle, dangling reference, duplicate name, built-in override, non-zero offset) and '
        'must raise in every order; plus the exhaustive tier: every key of UNIT_PREFIXES x 7 exponents x 4 multipliers '
        'on one <unit> element (deca, which the schema does not allow, through the public UnitStore API); zero offsets '
        'in every lexical form of xsd:decimal on valid documents; plus the offset test alone (float(offset) != 0) on '
        'arbitrary ASCII text - signs, points, exponents, underscores, inf/nan, the underflow boundary 2^-1075, text that '
        'is not a number - through Parser._make_pint_unit_definition on one <unit> element (the schema validation of '
        'load_model lets only xsd:decimal through). '
        'non-trivial = a fault, or a chain of depth >= 2 loaded in an order that makes the work list re-queue; '
        'distinct = distinct case JSON')
TRUSTED = ['Lean 4.33 kernel', 'axioms: propext, Classical.choice, Quot.sound',
           'harness/translate_tables.py (UNIT_PREFIXES, cellml_units.txt, schema prefix names, _CELLML_UNITS)',
           'correspondence harness harness/props/c03.py + unitlib.py',
           'pint 0.18 expression parsing and root expansion are modelled (mini-pint: Cellml/Units/Core.lean, '
           'Define.lean), not verified',
           'lxml / RELAX NG validation is not modelled: the model starts from the attribute dictionaries']
ASSUMPTIONS = ['floating-point rounding is outside the exact model; scales are compared at relative 1e-9 and the generator '
               'keeps every partial product pint forms within 1e-250 .. 1e250 (no overflow/underflow of binary64)',
               'a Model always gets a fresh UnitStore, so units_found of _add_units equals UnitStore._known_units']
FINGERPRINT = {'cellmlmanip/parser.py': ['Parser._add_units', 'Parser._make_pint_unit_definition', 'UNIT_PREFIXES'],
               'cellmlmanip/units.py': ['UnitStore.add_unit', 'UnitStore.add_base_unit', 'UnitStore.is_defined',
                                       'UnitStore.get_unit', 'UnitStore.format', 'UnitStore._prefix_name',
                                       'UnitStore._prefix_expression', 'UnitStore.__init__', '_WORD', '_STORE_PREFIX',
                                       '_CELLML_UNITS', '_UNSUPPORTED_UNITS']}
LOAD_TIMEOUT_S = 30

EXPONENTS = {Fraction(1): ['1', '1.0', '+1'], Fraction(-1): ['-1', '-1.0'], Fraction(2): ['2', '2.0', '+2'],
             Fraction(-2): ['-2'], Fraction(3): ['3', '3.0'], Fraction(-3): ['-3'],
             Fraction(1, 2): ['0.5', '.5', '5e-1'], Fraction(-1, 2): ['-0.5', '-.5'],
             Fraction(3, 2): ['1.5', '15e-1'], Fraction(-3, 2): ['-1.5']}
SCHEMA_PREFIXES = [p for p in U.SI_PREFIX if p != 'deca']
MULTIPLIERS = ['1000', '0.001', '2.54', '60', '0.5', '1e-3', '3600', '1.000001', '12', '0.01', '1e3', '2.5e-2', '1',
               '7', '0.125', '1.5', '1E2', '9.8', '86400', '4.2e1']
FIXED_NAMES = ['mV', 'ms', 'uA', 'pF', 'cm2', 'mM', 'per_ms', 'uA_per_cm2', 'nS', 'litre_per_s', 'kHz', 'a', 'b_1', '_x',
               'A_per_F', 'metre_per_second', 'voltage', 'store1_x', 'store1_q', 'store12_', 'Unit9', 'e', 'pi', 'x',
               'in', 'is', 'lambda', 'second2', 'u_', 'milli', 'kilo', 'newtons', 'volts', 'k', 'J_per_mol_K', 'percent',
               'halves', 'widget', 'xmetre', 'metres', 'dimensionless_', '__u', '_2x', 'x2y', 'E', 'inf', 'nan', 'L',
               'store', 'store_1', 'Store1_x', 'dimensionless2', 'deca', 'yotta', 'offset', 'units', 'x1e3', '_e3',
               'pi2', '__', 'm', 's', 'V']
FIXED_NAMES = [n for n in FIXED_NAMES if re.fullmatch(r'_*[0-9a-zA-Z][_0-9a-zA-Z]*', n)]
WORDCH = 'abcdefghijklmnopqrstuvwxyzABCDEFGHIJKLMNOPQRSTUVWXYZ0123456789___'
LETTER = 'abcdefghijklmnopqrstuvwxyzABCDEFGHIJKLMNOPQRSTUVWXYZ'
FAULTS = ['cycle', 'dangling', 'duplicate', 'builtin', 'offset']
# spellings of ZERO that the schema (xsd:decimal, value 0.0) allows for the offset attribute; cellmlmanip reads the
# attribute with float() since the repair of finding valid-rejected:zero-offset-spelling (before: only digit strings)
ZERO_OFFSETS = ['0', '0', '00', ' 0 ', '0.0', '0.00', '+0', '-0', '0.', '.0', '-0.0', ' +0.000 ']
# non-zero offsets, among them magnitudes below 1 (a test `int(float(offset)) != 0` would accept those)
NONZERO_OFFSETS = ['273.15', '1', '-3', '0.5', '32', '1.0', '-0.001', '100', '5', '-0.5', '0.25', '.5', '+0.001', '0.000001']
RESERVED = set(U.SI) | {'celsius'}


# ------------------------------------------------------------------------------------------------ generation
def rand_ident(rng, digit_first=False):
    """an identifier of the schema's `ident` pattern `_*[0-9a-zA-Z][_0-9a-zA-Z]*`"""
    head = '_' * rng.choice([0, 0, 0, 0, 1, 1, 2])
    first = rng.choice('0123456789') if digit_first else rng.choice(LETTER)
    tail = ''.join(rng.choice(WORDCH) for _ in range(rng.choice([0, 1, 2, 3, 5, 8])))
    return head + first + tail


def fresh_name(rng, used):
    for _ in range(200):
        r = rng.random()
        if r < 0.55:
            n = rng.choice(FIXED_NAMES)
        elif r < 0.7:   # built-in name inside a longer identifier
            b = rng.choice(U.BUILTIN_POOL + ['dimensionless'])
            n = rng.choice([b + '_' + rand_ident(rng), rand_ident(rng) + '_' + b, b + rng.choice('s2X_'), 'x' + b])
        else:
            n = rand_ident(rng)
        if n not in used and n not in RESERVED:
            return n
    raise RuntimeError('name pool exhausted')


ALIAS = {'metre': 'meter', 'litre': 'liter', 'gray': 'sievert'}


def mixes_dimensionless(d):
    """the definition multiplies the built-in `dimensionless` with units that do not cancel name by name"""
    if d['kind'] != 'def' or not any(e['units'] == 'dimensionless' for e in d['elems']):
        return False
    net = {}
    for e in d['elems']:
        if e['units'] != 'dimensionless':
            n = ALIAS.get(e['units'], e['units'])
            net[n] = net.get(n, 0) + (Fraction(e['exponent']) if 'exponent' in e else 1)
    return any(v != 0 for v in net.values())


def sem_elem(sem, e):
    """meaning of one <unit> element given the meanings of user units: (log10 scale approx as mpf scale, dims)"""
    ref = e['units']
    if ref in U.SI:
        p10, dd = U.SI[ref]
        rs, rd = mpmath.power(10, p10), {k: Fraction(v) for k, v in dd.items()}
    else:
        rs, rd = sem[ref]
    if 'prefix' in e:
        p = U.SI_PREFIX.get(e['prefix'])
        if p is None:
            p = int(e['prefix'])
        rs = rs * mpmath.power(10, p)
    ex = Fraction(e['exponent']) if 'exponent' in e else Fraction(1)
    rs = mpmath.power(rs, mpmath.mpf(ex.numerator) / ex.denominator)
    rd = {k: v * ex for k, v in rd.items() if v * ex != 0}
    if 'multiplier' in e:
        m = Fraction(e['multiplier'])
        rs = rs * mpmath.mpf(m.numerator) / m.denominator
    return rs, rd


def sem_def(sem, d):
    if d['kind'] == 'base':
        return mpmath.mpf(1), {'[' + d['name'] + ']': Fraction(1)}
    scale, dims = mpmath.mpf(1), {}
    for e in d['elems']:
        rs, rd = sem_elem(sem, e)
        scale, dims = scale * rs, U.dim_add(dims, rd)
    return scale, dims


def abs_magnitude(amag, d):
    """upper bound on |log10| of every partial product pint forms while expanding the unit (float range guard)"""
    if d['kind'] == 'base':
        return 0.0
    total = 0.0
    for e in d['elems']:
        ref = e['units']
        a = abs(U.SI[ref][0]) if ref in U.SI else amag[ref]
        if 'prefix' in e:
            p = U.SI_PREFIX.get(e['prefix'])
            a += abs(int(e['prefix']) if p is None else p)
        a *= abs(float(Fraction(e['exponent']))) if 'exponent' in e else 1.0
        if 'multiplier' in e:
            a += abs(float(mpmath.log10(mpmath.mpf(Fraction(e['multiplier']).numerator) / Fraction(e['multiplier']).denominator)))
        total += a
    return total


def rand_elem(rng, ref, p_prefix=0.5, p_exp=0.5, p_mult=0.35):
    e = {'units': ref}
    if rng.random() < p_prefix:
        e['prefix'] = rng.choice(SCHEMA_PREFIXES) if rng.random() < 0.75 else rng.choice(
            [str(rng.randint(-12, 12)), '+%d' % rng.randint(0, 9), '0%d' % rng.randint(0, 9), '-0%d' % rng.randint(1, 9)])
    if rng.random() < p_exp:
        e['exponent'] = rng.choice(EXPONENTS[rng.choice(list(EXPONENTS))])
    if rng.random() < p_mult:
        e['multiplier'] = rng.choice(MULTIPLIERS)
    if rng.random() < 0.05:
        e['offset'] = rng.choice(ZERO_OFFSETS)   # zero in every lexical form of xsd:decimal: must all be accepted
    return e


def gen_valid(rng, n_units=None, chain=None):
    """definitions in dependency order (each refers to built-ins and EARLIER user units) + their exact meaning"""
    n = n_units or rng.randint(3, 12)
    want_chain = chain if chain is not None else rng.choice([1, 2, 3, 4, 6, 8])
    defs, sem, depth, used, amag = [], {}, {}, set(), {}
    chain_tip = None
    for i in range(n):
        name = fresh_name(rng, used)
        used.add(name)
        r = rng.random()
        for _attempt in range(30):
            if r < 0.12:
                d = {'kind': 'base', 'store': 0, 'name': name}
                dep = 0
            else:
                users = [x['name'] for x in defs]
                elems = []
                if chain_tip is not None and depth[chain_tip] < want_chain and rng.random() < 0.7:
                    elems.append(rand_elem(rng, chain_tip, 0.5, 0.4, 0.4))     # extend the chain
                k = rng.choice([0, 1, 1, 2, 3]) if elems else rng.choice([1, 1, 2, 3])
                for _ in range(k):
                    pool = rng.choice([users, users, U.BUILTIN_POOL, U.BUILTIN_POOL + ['dimensionless']]) or U.BUILTIN_POOL
                    elems.append(rand_elem(rng, rng.choice(pool)))
                if r > 0.92:    # a scaled dimensionless unit
                    elems = [rand_elem(rng, 'dimensionless', 0.3, 0.2, 0.9) for _ in range(rng.choice([1, 1, 2]))]
                rng.shuffle(elems)
                d = {'kind': 'def', 'store': 0, 'name': name, 'elems': elems}
                if rng.random() < 0.06:
                    d['base_attr'] = 'no'
                dep = 1 + max([depth.get(e['units'], 0) for e in elems])
            s, dims = sem_def(sem, d)
            if dep <= 8 and abs_magnitude(amag, d) < 250 and not mixes_dimensionless(d) and \
                    all(abs(v) <= 12 for v in dims.values()):
                break
            r = rng.random()
        else:
            d = {'kind': 'def', 'store': 0, 'name': name, 'elems': [{'units': 'second'}]}
            dep = 1
            s, dims = sem_def(sem, d)
        defs.append(d)
        sem[name], depth[name], amag[name] = (s, dims), dep, abs_magnitude(amag, d)
        if d['kind'] == 'def' and (chain_tip is None or dep > depth[chain_tip]):
            chain_tip = name
    return defs


def inject(rng, defs, fault):
    """one fault; returns (defs, description). Every order of the result must be rejected."""
    defs = [dict(d, elems=[dict(e) for e in d['elems']]) if d['kind'] == 'def' else dict(d) for d in defs]
    users = [d for d in defs if d['kind'] == 'def']
    used = {d['name'] for d in defs}
    if fault == 'cycle':
        k = rng.choice([1, 1, 2, 2, 3])
        ring = [fresh_name(rng, used | set()) for _ in range(k)]
        ring = list(dict.fromkeys(ring))
        new = []
        for i, nm in enumerate(ring):
            elems = [rand_elem(rng, ring[(i + 1) % len(ring)])]
            if rng.random() < 0.5:
                elems.append(rand_elem(rng, rng.choice(U.BUILTIN_POOL)))
            rng.shuffle(elems)
            new.append({'kind': 'def', 'store': 0, 'name': nm, 'elems': elems})
        if users and rng.random() < 0.5:     # something valid that hangs off the cycle
            rng.choice(users)['elems'].append(rand_elem(rng, ring[0]))
        return defs + new, 'cycle of %d' % len(ring)
    if fault == 'dangling':
        existing = [d['name'] for d in defs]
        cands = ['nosuchunit', 'celsius', 'Volt', 'meters', 'dimensionles', rand_ident(rng)]
        if existing:
            x = rng.choice(existing)
            cands += [x + '_', x.swapcase(), '_' + x, x[:-1] or 'q']
        ref = rng.choice([c for c in cands if c not in used and c not in U.SI
                          and re.fullmatch(r'_*[0-9a-zA-Z][_0-9a-zA-Z]*', c)] or ['nosuchunit'])
        if users and rng.random() < 0.6:
            rng.choice(users)['elems'].append(rand_elem(rng, ref))
        else:
            defs.append({'kind': 'def', 'store': 0, 'name': fresh_name(rng, used),
                         'elems': [rand_elem(rng, ref)] + ([rand_elem(rng, 'second')] if rng.random() < 0.5 else [])})
        return defs, 'reference to %s' % ref
    if fault == 'duplicate':
        victim = rng.choice(defs)
        r = rng.random()
        if r < 0.4:
            twin = dict(victim)
        elif r < 0.7:
            twin = {'kind': 'def', 'store': 0, 'name': victim['name'], 'elems': [rand_elem(rng, rng.choice(U.BUILTIN_POOL))]}
        else:
            twin = {'kind': 'base', 'store': 0, 'name': victim['name']}
        return defs + [twin], 'second definition of %s (%s after %s)' % (victim['name'], twin['kind'], victim['kind'])
    if fault == 'builtin':
        b = rng.choice(sorted(U.SI))
        if rng.random() < 0.75:
            new = {'kind': 'def', 'store': 0, 'name': b, 'elems': [rand_elem(rng, rng.choice(U.BUILTIN_POOL))]}
        else:
            new = {'kind': 'base', 'store': 0, 'name': b}
        return defs + [new], 'definition of built-in %s' % b
    if fault == 'offset':
        off = rng.choice(NONZERO_OFFSETS)
        if users and rng.random() < 0.5:
            d = rng.choice(users)
            rng.choice(d['elems'])['offset'] = off
        else:
            defs.append({'kind': 'def', 'store': 0, 'name': fresh_name(rng, used),
                         'elems': [{'units': rng.choice(['kelvin', 'second', 'metre']), 'offset': off}]})
        return defs, 'offset %s' % off
    raise ValueError(fault)


def perms_of(rng, n, k=3):
    out = []
    for i in range(k):
        p = list(range(n))
        if i == 0 and rng.random() < 0.5:
            p.reverse()       # dependency order reversed = pop order is dependency order / or worst case
        else:
            rng.shuffle(p)
        out.append(p)
    return out


EXH_EXPONENTS = ['1', '-1', '2', '-2', '3', '0.5', '-1.5']
EXH_MULTIPLIERS = [None, '1000', '2.54', '1e-3']
EXH_REFS = ['metre', 'second', 'volt', 'litre', 'gram', 'w0', 'ku']


def exhaustive_cases(rng, n_perms):
    """every key of UNIT_PREFIXES x 7 exponents x 4 multipliers on one <unit> element"""
    out = []
    for pi, p in enumerate(sorted(U.SI_PREFIX)):
        defs = [{'kind': 'base', 'store': 0, 'name': 'w0'},
                {'kind': 'def', 'store': 0, 'name': 'ku', 'elems': [{'units': 'w0', 'multiplier': '2'}, {'units': 'gram'}]}]
        ref = EXH_REFS[pi % len(EXH_REFS)]
        for xi, ex in enumerate(EXH_EXPONENTS):
            for mi, m in enumerate(EXH_MULTIPLIERS):
                e = {'units': ref, 'prefix': p, 'exponent': ex}
                if m is not None:
                    e['multiplier'] = m
                defs.append({'kind': 'def', 'store': 0, 'name': 'u_%d_%d' % (xi, mi), 'elems': [e]})
        case = {'kind': 'exhaustive', 'defs': defs, 'fault': None, 'what': 'prefix ' + p,
                'perms': [list(range(len(defs)))] + perms_of(rng, len(defs), n_perms - 1)}
        if p not in SCHEMA_PREFIXES:
            case['direct'] = True     # `deca` is a key of UNIT_PREFIXES but not a prefix name of the schema
            case['perms'] = [list(range(len(defs)))]
        out.append(case)
    return out


def gen(rng, n, tier):
    for c in exhaustive_cases(rng, 1 if tier == 'quick' else 3):
        yield c
    for _ in range(max(2, n // 100)):
        yield offset_case([rand_offset_text(rng) for _ in range(60)])
    for _ in range(n):
        yield gen_case(rng)


def gen_case(rng):
    defs = gen_valid(rng)
    fault, what = None, 'valid'
    r = rng.random()
    if r < 0.30:
        fault = rng.choice(FAULTS)
        defs, what = inject(rng, defs, fault)
    elif r < 0.33:
        defs, what = known_shape(rng, defs)
    return {'kind': 'family', 'defs': defs, 'fault': fault, 'what': what, 'perms': perms_of(rng, len(defs))}


def known_shape(rng, defs):
    """valid according to the specification, but one of the recorded weaknesses of the implementation (digit-leading
    names, dimensionless x dimensional: known findings) or a weakness that was repaired (zero offsets spelled with a sign
    or a point: fixed, the oracle demands that they load)"""
    used = {d['name'] for d in defs}
    k = rng.choice(['digit', 'offset', 'mix'])
    if k == 'digit':
        n = rand_ident(rng, digit_first=True)
        while n in used:
            n = rand_ident(rng, digit_first=True)
        defs = defs + [{'kind': 'def', 'store': 0, 'name': n, 'elems': [rand_elem(rng, 'second')]},
                       {'kind': 'def', 'store': 0, 'name': fresh_name(rng, used), 'elems': [rand_elem(rng, n)]}]
        return defs, 'reference to digit-leading name ' + n
    if k == 'offset':
        defs = defs + [{'kind': 'def', 'store': 0, 'name': fresh_name(rng, used),
                        'elems': [dict(rand_elem(rng, 'kelvin'), offset=rng.choice(['0.0', '0.00', '+0', '-0', '0.', '.0', '-0.0']))]}]
        return defs, 'zero offset spelled with a sign or a point'
    defs = defs + [{'kind': 'def', 'store': 0, 'name': fresh_name(rng, used),
                    'elems': [{'units': 'dimensionless', 'multiplier': rng.choice(MULTIPLIERS)},
                              rand_elem(rng, rng.choice(['metre', 'second', 'volt']))]}]
    return defs, 'dimensionless times a dimensional unit'


# ------------------------------------------------------------------------------------------------ the offset test alone
# `load_model` validates against the RELAX NG schema first, so only xsd:decimal text reaches the offset test through the
# public API. The model (Units.offsetRejected = python's float() on ASCII text, Units.floatText / roundsToZero) and the
# source tie speak about EVERY text; these cases compare them with Parser._make_pint_unit_definition itself on one
# <unit> element whose offset is arbitrary ASCII text (signs, points, exponents, PEP 515 underscores, inf / nan, the
# underflow boundary 2^-1075 where float() starts to answer 0.0, text that is not a number).
TWO_M1075 = Fraction(1, 2 ** 1075)


def _exact_decimal(fr):
    """exact decimal expansion of a fraction whose denominator is a power of two"""
    k = 0
    while fr.denominator != 1:
        fr *= 10
        k += 1
    digits = str(fr.numerator).rjust(k + 1, '0')
    return digits[:-k] + '.' + digits[-k:] if k else digits


OFFSET_TEXTS = (ZERO_OFFSETS + NONZERO_OFFSETS + [
    '0e0', '0E5', '-0e-7', '0.0e+3', '00.00', '+.0', '-.0e1', '1e-3', '1E2', '5e-1', '0.5e0', '1e-400', '-1e-400',
    '1e-323', '4.9e-324', '2.5e-324', '2.4e-324', '2.4703282292062327e-324', '2.4703282292062328e-324',
    '0.' + '0' * 330 + '1', '0.' + '0' * 322 + '1', '1e400', '-1e999',
    _exact_decimal(TWO_M1075), _exact_decimal(TWO_M1075)[:-1] + '6', _exact_decimal(TWO_M1075)[:-1] + '4',
    'inf', '-inf', '+Infinity', 'INF', 'nan', '-NaN', 'infinit', 'in f', 'na', 'nane',
    '0_0', '1_0', '0_0.0_0', '1_000.5', '0__0', '_0', '0_', '0._0', '0_.0', '0e_1', '0e1_0', '1_e1', '+_0', '0x0', '0x1p3',
    '', ' ', '+', '-', '.', 'e', 'e0', '0e', '0e+', '.e1', '+-0', '--0', '0 0', '0,0', '0.0.0', '0e0e0', 'zero', 'abc',
    '1/2', '0/5', '0j', '0.0f', '0d', 'O', 'o.o', '  0.00  ', '   ', '1 ', ' -0 '])
OFFSET_ALPHABET = list('0123456789') * 2 + list('000..++--eE__  ') + list('infatyINFx1')


def rand_offset_text(rng):
    r = rng.random()
    if r < 0.35:      # a decimal literal, often zero, in a random spelling
        ip = rng.choice(['', '0', '00', '000', str(rng.randint(0, 30))])
        fp = rng.choice(['', '0', '00', '000000', '5', '001', '0' * rng.randint(1, 12) + str(rng.randint(0, 3))])
        body = ip + rng.choice(['', '.']) + fp if rng.random() < 0.7 else ip + '.' + fp
        if rng.random() < 0.4:
            body += rng.choice('eE') + rng.choice(['', '+', '-']) + str(rng.randint(0, 400))
        if rng.random() < 0.15 and len(body) > 2:
            i = rng.randrange(1, len(body))
            body = body[:i] + '_' + body[i:]
        return rng.choice(['', ' ']) + rng.choice(['', '', '+', '-']) + body + rng.choice(['', ' '])
    if r < 0.5:
        return rng.choice(OFFSET_TEXTS)
    return ''.join(rng.choice(OFFSET_ALPHABET) for _ in range(rng.randint(0, 7)))


def offset_case(texts):
    return {'kind': 'offset', 'texts': list(texts), 'fault': None, 'what': 'offset test on %d texts' % len(texts)}


def impl_offset(case):
    """Parser._make_pint_unit_definition on ONE element with the given offset text: accepted / refused (exception class)"""
    from cellmlmanip.parser import Parser
    out = []
    for t in case['texts']:
        try:
            expr = Parser._make_pint_unit_definition(None, 'u', [{'units': 'kelvin', 'offset': t}])
            out.append({'outcome': 'accepted', 'expr': expr})
        except Exception as e:
            out.append({'outcome': 'err:' + type(e).__name__})
    return {'offsets': out}


_DECIMAL_LITERAL = re.compile(r'^ *[+-]?([0-9]+\.?[0-9]*|\.[0-9]+)([eE][+-]?[0-9]+)? *$')


def oracle_offset(case, obs):
    """an offset that denotes zero must be accepted (and the element means what it means without it), one that denotes
    a non-zero number or no number at all must be refused with ValueError. Exact arithmetic (Fraction of Decimal); no
    judgement in the band 0 < |x| <= 2^-1075 that binary64 cannot tell from zero, nor on text with digits that is
    not a plain decimal literal (underscores, hex …)."""
    fails = []
    for t, o in zip(case['texts'], obs['offsets']):
        want = None
        if _DECIMAL_LITERAL.match(t):
            v = Fraction(Decimal(t.strip(' ')))
            want = 'accepted' if v == 0 else 'refused' if abs(v) > TWO_M1075 else None
        elif not any(c.isdigit() for c in t):
            want = 'refused'
        if want == 'accepted' and o['outcome'] != 'accepted':
            fails.append({'key': 'valid-rejected:zero-offset-spelling',
                          'detail': 'offset=%r denotes zero but is refused (%s)' % (t, o['outcome'])})
        elif want == 'accepted' and o.get('expr') != 'kelvin':
            fails.append({'key': 'offset-changes-meaning', 'detail': 'offset=%r: expression %r' % (t, o.get('expr'))})
        elif want == 'refused' and o['outcome'] != 'err:ValueError':
            fails.append({'key': 'fault-accepted:offset',
                          'detail': 'offset=%r does not denote zero, outcome %s' % (t, o['outcome'])})
    return fails[:6]


def compare_offset(case, obs, replies):
    for t, o, rep in zip(case['texts'], obs['offsets'], replies):
        if not isinstance(rep, list) or len(rep) != 2 or str(rep[0]) != 'offset':
            return 'offset %r: model reply malformed: %r' % (t, rep)
        model = str(rep[1])
        got = 'accepted' if o['outcome'] == 'accepted' else 'refused'
        if model != got:
            return 'offset %r: model %s, implementation %s' % (t, model, o['outcome'])
        if got == 'refused' and o['outcome'] != 'err:ValueError':
            return 'offset %r: model ValueError, implementation %s' % (t, o['outcome'])
    return None



def corpus():
    D = lambda name, *elems, **kw: dict({'kind': 'def', 'store': 0, 'name': name, 'elems': list(elems)}, **kw)
    B = lambda name: {'kind': 'base', 'store': 0, 'name': name}
    cases = []

    def add(defs, fault=None, what='', perms=None):
        n = len(defs)
        cases.append({'kind': 'family', 'defs': defs, 'fault': fault, 'what': what,
                      'perms': perms or [list(range(n)), list(range(n))[::-1], list(range(1, n)) + [0]]})
    # the chain a <- b <- c <- d in the three characteristic orders (pop order = reverse document order)
    add([D('a', {'units': 'volt', 'prefix': 'milli'}), D('b', {'units': 'a', 'exponent': '2'}, {'units': 'second', 'exponent': '-1'}),
         D('c', {'units': 'b', 'multiplier': '60'}), D('d', {'units': 'c', 'exponent': '0.5', 'prefix': '3'})], what='chain')
    add([B('widget'), D('kw', {'units': 'widget', 'prefix': 'kilo', 'exponent': '2'}), D('pct', {'units': 'dimensionless', 'multiplier': '0.01'}),
         D('store1_x', {'units': 'kw', 'exponent': '-0.5'}, {'units': 'pct'})], what='base + scaled dimensionless + store1_x')
    add([D('a', {'units': 'b'}), D('b', {'units': 'c'}), D('c', {'units': 'a'}), D('ok', {'units': 'second'})], 'cycle', 'cycle of 3')
    add([D('a', {'units': 'a'})], 'cycle', 'self reference', perms=[[0]])
    add([D('a', {'units': 'nosuch'}), D('ok', {'units': 'second'})], 'dangling', 'dangling', perms=[[0, 1], [1, 0]])
    add([D('a', {'units': 'second'}), D('a', {'units': 'metre'})], 'duplicate', 'duplicate', perms=[[0, 1], [1, 0]])
    add([B('a'), D('a', {'units': 'metre'})], 'duplicate', 'duplicate base/def', perms=[[0, 1], [1, 0]])
    add([D('volt', {'units': 'second'})], 'builtin', 'override', perms=[[0]])
    add([D('metre', {'units': 'second'})], 'builtin', 'override alias', perms=[[0]])
    add([B('litre')], 'builtin', 'override by base unit', perms=[[0]])
    add([D('fahr', {'units': 'kelvin', 'multiplier': '0.5555', 'offset': '255.37'})], 'offset', 'offset', perms=[[0]])
    # the offset test reads the attribute as a number: every spelling of zero is accepted (and means nothing) ...
    add([D('z%d' % i, {'units': 'kelvin', 'prefix': 'milli', 'offset': z}) for i, z in enumerate(sorted(set(ZERO_OFFSETS)))] +
        [D('zz', {'units': 'z0', 'exponent': '2', 'offset': '0.0'}, {'units': 'second', 'offset': '-0'})],
        what='zero offsets in every spelling', perms=[list(range(len(set(ZERO_OFFSETS)) + 1)), list(range(len(set(ZERO_OFFSETS)) + 1))[::-1]])
    # ... and every non-zero number is refused, also below 1 in magnitude
    for off in ('0.5', '-0.5', '0.001', '.5', '1'):
        add([D('frac', {'units': 'kelvin', 'offset': off}), D('ok', {'units': 'second'})], 'offset', 'offset ' + off,
            perms=[[0, 1], [1, 0]])
    cases.append(offset_case(OFFSET_TEXTS))
    return cases


# ------------------------------------------------------------------------------------------------ implementation
HEADER = '<?xml version="1.0" encoding="utf-8"?>\n<model xmlns="http://www.cellml.org/cellml/1.0#" name="m">\n'


def document(defs, order):
    out = [HEADER]
    names = []
    for i in order:
        d = defs[i]
        if d['kind'] == 'base':
            out.append('  <units name="%s" base_units="yes"/>\n' % d['name'])
        else:
            attr = ' base_units="%s"' % d['base_attr'] if 'base_attr' in d else ''
            out.append('  <units name="%s"%s>\n' % (d['name'], attr))
            for e in d['elems']:
                out.append('    <unit ' + ' '.join('%s="%s"' % (k, e[k]) for k in ('units', 'prefix', 'exponent', 'multiplier',
                                                                              'offset') if k in e) + '/>\n')
            out.append('  </units>\n')
        if d['name'] not in names:
            names.append(d['name'])
    out.append('  <component name="c">\n')
    for i, n in enumerate(names):
        out.append('    <variable name="v%d" units="%s"/>\n' % (i, n))
    out.append('  </component>\n</model>\n')
    return ''.join(out)


class Hang(Exception):
    pass


def _alarm(signum, frame):
    raise Hang()


def guarded(f):
    old = signal.signal(signal.SIGALRM, _alarm)
    signal.setitimer(signal.ITIMER_REAL, LOAD_TIMEOUT_S)
    try:
        return f()
    finally:
        signal.setitimer(signal.ITIMER_REAL, 0)
        signal.signal(signal.SIGALRM, old)


def observe_units(store, defs):
    units = {}
    for d in defs:
        try:
            units[d['name']] = store.format(store.get_unit(d['name']), base_units=True)
        except Exception as e:
            units[d['name']] = 'err:' + type(e).__name__
    return units


def impl(case):
    import logging
    logging.disable(logging.CRITICAL)
    import cellmlmanip
    if case['kind'] == 'offset':
        return impl_offset(case)
    defs = case['defs']
    out = []
    if case.get('direct'):
        stores, outcomes = U.build_impl({'stores': [None], 'defs': defs})
        bad = [o for o in outcomes if o != 'ok']
        return {'perms': [{'outcome': bad[0] if bad else 'ok', 'units': observe_units(stores[0], defs) if not bad else {}}]}
    with tempfile.TemporaryDirectory(prefix='c03-') as tmp:
        for k, order in enumerate(case['perms']):
            path = os.path.join(tmp, 'p%d.cellml' % k)
            with open(path, 'w') as f:
                f.write(document(defs, order))
            try:
                model = guarded(lambda: cellmlmanip.load_model(path))
            except Hang:
                out.append({'outcome': 'hang', 'units': {}})
                continue
            except Exception as e:
                out.append({'outcome': 'err:' + type(e).__name__, 'message': str(e)[:160], 'units': {}})
                continue
            out.append({'outcome': 'ok', 'units': observe_units(model.units, defs)})
    return {'perms': out}


# ------------------------------------------------------------------------------------------------ model
def def_sx(d):
    if d['kind'] == 'base':
        return ['base', 0, Str(d['name'])]
    out = ['def', 0, Str(d['name']), [U.elem_sx(e) for e in d['elems']]]
    if 'base_attr' in d:
        out += [':base_units', Str(d['base_attr'])]
    return out


def requests(case, obs):
    if case['kind'] == 'offset':
        return [sx(['C03', 'offset', Str(t)]) for t in case['texts']]
    return [sx(['C03', ['id', 0], ['defs'] + [def_sx(case['defs'][i]) for i in order]]) for order in case['perms']]


# what pint raises when the expression contains a mangled digit-leading name (2pstoreN_i, 123, 3_storeN_x, …)
MANGLED = ('UndefinedUnitError', 'AttributeError', 'TokenError', 'SyntaxError', 'DefinitionSyntaxError')
MODEL_ERR_OK = {'ValueError': ('ValueError',), 'UndefinedUnitError': MANGLED, 'BadDefinition': None}


def compare(case, obs, replies):
    if case['kind'] == 'offset':
        return compare_offset(case, obs, replies)
    for k, (order, o, rep) in enumerate(zip(case['perms'], obs['perms'], replies)):
        where = 'order %d %s' % (k, [case['defs'][i]['name'] for i in order])
        if not isinstance(rep, list) or not rep:
            return '%s: model reply malformed: %r' % (where, rep)
        if rep[0] == 'unsupported':
            continue      # construct outside the model (dimensionless x dimensional, non-positive multiplier)
        if o['outcome'] == 'hang':
            return '%s: implementation did not return within %d s, model %s' % (where, LOAD_TIMEOUT_S, rep[0])
        if rep[0] == 'err':
            if not o['outcome'].startswith('err:'):
                return '%s: model rejects (%s), implementation %s' % (where, rep[1], o['outcome'])
            allowed = MODEL_ERR_OK.get(rep[1])
            if allowed is not None and o['outcome'][4:] not in allowed:
                return '%s: model error %s, implementation %s (%s)' % (where, rep[1], o['outcome'], o.get('message'))
            continue
        if rep[0] != 'ok':
            return '%s: model reply %r' % (where, rep)
        if o['outcome'] != 'ok':
            return '%s: model loads, implementation %s (%s)' % (where, o['outcome'], o.get('message'))
        for entry in rep[1:]:
            name = str(entry[0])
            text = o['units'].get(name)
            if text is None or text.startswith('err:'):
                return '%s: unit %s: model %s, implementation %s' % (where, name, entry[1:3], text)
            f, d = U.parse_base_format(text)
            if not U.close(U.scale_value(entry[1]), f) or not U.dims_close(root_dict(entry[2]), d):
                return '%s: unit %s: model %s %s, implementation %s' % (where, name, entry[1], entry[2], text)
    return None


# ------------------------------------------------------------------------------------------------ property oracle
def dependency_order(defs):
    """a topological order of a VALID family (the generator's order is one, but do not rely on it)"""
    names = {}
    for i, d in enumerate(defs):
        names.setdefault(d['name'], i)
    done, order = set(), []

    def visit(i, stack):
        if i in done or i in stack:
            return
        d = defs[i]
        if d['kind'] == 'def':
            for e in d['elems']:
                j = names.get(e['units'])
                if j is not None:
                    visit(j, stack | {i})
        done.add(i)
        order.append(i)
    for i in range(len(defs)):
        visit(i, frozenset())
    return order


def is_zero_decimal(text):
    try:
        return Decimal(text.strip()) == 0
    except InvalidOperation:
        return False


def spec_view(defs):
    """the family as the specification reads it: base_units="no" is the same as no attribute"""
    return [{k: v for k, v in d.items() if k != 'base_attr'} for d in defs]


def oracle(case, obs):
    """CellML 1.1 section 5: every user unit is the product over its <unit> children of
    multiplier·(prefix·referenced unit)^exponent — evaluated by unitlib.oracle_family (mpmath, SI table written from
    the specification) — in every order; faulty sets are rejected in every order. No reference to the Lean model."""
    if case['kind'] == 'offset':
        return oracle_offset(case, obs)
    defs = case['defs']
    fails = []
    digit_refs = sorted({e['units'] for d in defs if d['kind'] == 'def' for e in d['elems'] if e['units'][:1].isdigit()})
    odd_zero = sorted({e['offset'] for d in defs if d['kind'] == 'def' for e in d['elems']
                       if 'offset' in e and is_zero_decimal(e['offset']) and not e['offset'].strip().isdigit()})
    if case['fault']:
        for k, o in enumerate(obs['perms']):
            if o['outcome'] == 'hang':
                fails.append({'key': 'hang', 'detail': 'order %d did not return within %d s' % (k, LOAD_TIMEOUT_S)})
            elif not o['outcome'].startswith('err:'):
                fails.append({'key': 'fault-accepted:' + case['fault'],
                              'detail': '%s: order %d %s was loaded without an error' %
                                        (case['what'], k, [defs[i]['name'] for i in case['perms'][k]])})
        return fails[:6]
    order = dependency_order(defs)
    sdefs = spec_view(defs)
    fam = {'stores': [None], 'defs': [sdefs[i] for i in order]}
    sem = U.oracle_family(fam, ['ok'] * len(defs))
    if sem is None:
        return [{'key': 'harness-crash', 'detail': 'generator produced an invalid family without declaring a fault'}]
    # units that the specification gives a dimension although they multiply by `dimensionless`, and what is built on them
    tainted = set()
    for i in order:
        d = defs[i]
        if d['kind'] != 'def':
            continue
        if mixes_dimensionless(d) or any(e['units'] in tainted for e in d['elems']):
            tainted.add(d['name'])
    seen = {}
    for k, o in enumerate(obs['perms']):
        names = [defs[i]['name'] for i in case['perms'][k]]
        if o['outcome'] == 'hang':
            fails.append({'key': 'hang', 'detail': 'order %d did not return within %d s' % (k, LOAD_TIMEOUT_S)})
            continue
        if o['outcome'] != 'ok':
            cls = o['outcome'][4:]
            if digit_refs and cls in MANGLED:
                key = 'valid-rejected:digit-leading-name'
            elif odd_zero and cls == 'ValueError' and 'Offsets' in o.get('message', ''):
                key = 'valid-rejected:zero-offset-spelling'
            elif cls == 'AttributeError' and any(d['name'].endswith('__') for d in defs):
                key = 'valid-rejected:trailing-double-underscore'
            else:
                key = 'valid-rejected'
            fails.append({'key': key, 'detail': 'order %d %s raised %s: %s' % (k, names, cls, o.get('message'))})
            continue
        for d in defs:
            name = d['name']
            text = o['units'].get(name, 'err:missing')
            want = sem[(0, name)]
            wantd = {re.sub(r'^\[\d+:(.*)\]$', r'\1', U.PINT_BASE.get(b, b)): v for b, v in want.dims.items()}
            if text.startswith('err:'):
                if name in tainted and text == 'err:KeyError':
                    key = 'unit-unusable:dimensionless-times-dimensional'
                else:
                    key = 'unit-unusable'
                fails.append({'key': key, 'detail': 'order %d: unit %s was loaded but get_base_units raises %s' % (k, name, text[4:])})
                continue
            f, got = U.parse_base_format(text)
            if not U.close(f, want.scale) or not U.dims_close(got, wantd):   # pint prints 6 significant digits
                key = 'si-meaning:base-units-no' if name in no_attr_dependents(defs) else 'si-meaning'
                fails.append({'key': key, 'detail': 'order %d: unit %s expands to "%s", the specification says %s %s'
                                                    % (k, name, text, mpmath.nstr(want.scale, 15), wantd)})
                continue
            if name in seen and (not U.close(seen[name][0], f) or not U.dims_close(seen[name][1], got)):
                fails.append({'key': 'order-dependent', 'detail': 'unit %s: "%s" in order %d, %s in an earlier order'
                                                                  % (name, text, k, seen[name])})
            seen.setdefault(name, (f, got))
    return fails[:8]


def no_attr_dependents(defs):
    """names that (transitively) refer to a definition carrying base_units="no" (including those definitions)"""
    bad = {d['name'] for d in defs if d.get('base_attr') == 'no'}
    changed = True
    while changed:
        changed = False
        for d in defs:
            if d['kind'] == 'def' and d['name'] not in bad and any(e['units'] in bad for e in d['elems']):
                bad.add(d['name'])
                changed = True
    return bad


# ------------------------------------------------------------------------------------------------ bookkeeping
def chain_depth(defs):
    depth = {}
    for i in dependency_order(defs):
        d = defs[i]
        depth[d['name']] = 0 if d['kind'] == 'base' else 1 + max([depth.get(e['units'], 0) for e in d['elems']] or [0])
    return max(depth.values() or [0])


def requeues(defs, order):
    """does the work list have to defer a definition in this document order? (pop order = reverse document order)"""
    found = set(U.SI) | {d['name'] for d in defs if d['kind'] == 'base'}
    for i in reversed(order):
        d = defs[i]
        if d['kind'] == 'def':
            if any(e['units'] not in found for e in d['elems']):
                return True
            found.add(d['name'])
    return False


def nontrivial(case, obs):
    if case['kind'] == 'offset':
        return len({o['outcome'] for o in obs['offsets']}) > 1
    if case['fault']:
        return True
    return chain_depth(case['defs']) >= 2 and any(requeues(case['defs'], p) for p in case['perms'])


def tag(case, obs):
    if case['kind'] == 'offset':
        return 'offset-test'
    if case['fault']:
        return 'fault=' + case['fault']
    if case['kind'] == 'exhaustive':
        return 'exhaustive'
    outs = {o['outcome'] for o in obs['perms']}
    return 'valid depth=%d %s' % (chain_depth(case['defs']), 'ok' if outs == {'ok'} else 'rejected')


def shrink(v):
    """drop definitions while the same oracle key still fails"""
    case = v['case']
    key = v['failures'][0]['key']
    if case['kind'] == 'offset':
        for t in case['texts']:
            c2 = offset_case([t])
            f2 = oracle_offset(c2, impl_offset(c2))
            if any(f['key'] == key for f in f2):
                return {'case': c2, 'failures': f2, 'obs': impl_offset(c2)}
        return v
    defs = case['defs']
    if case['fault']:
        return v     # removing a definition could remove the injected fault itself
    changed = True
    while changed and len(defs) > 1:
        changed = False
        for i in range(len(defs)):
            cand = defs[:i] + defs[i + 1:]
            n = len(cand)
            c2 = dict(case, defs=cand, perms=[list(range(n)), list(range(n))[::-1]])
            try:
                o2 = impl(c2)
                f2 = oracle(c2, o2)
            except Exception:
                continue
            if any(f['key'] == key for f in f2):
                case, defs, changed = c2, cand, True
                v = {'case': c2, 'failures': [f for f in f2 if f['key'] == key], 'obs': o2}
                break
    return v


MANIFEST = {
    'technique': 'Lean 4 theorems over an executable model of the _add_units work list + mini-pint, generated-table '
                 'theorems, differential correspondence through cellmlmanip.load_model',
    'text': ('Proved in Lean (lean/Cellml/Props/C03.lean, standard axioms only), for ALL sets of definitions, any size, '
             'any chain depth, any order: (1) tables: each of the 20 schema prefix names maps to its SI power of ten, '
             'the key set of UNIT_PREFIXES is the schema names + deca, each of the 33 built-in names expands to the '
             'scale and base-unit exponents of CellML 1.1 table 2 written by hand from the specification (one theorem '
             'per entry); (2) worklist_terminates: the loop is total (well-founded on (|deque|, |deque|+1-iteration)) '
             'and agrees with a fuel-bounded loop within n(n+1)/2+n+2 passes; (3) worklist_sound_partial: after a '
             'successful load every unit expands in the registry to its denotation Den (the inductive relation '
             'prod multiplier*(10^prefix*Den(ref))^exponent), which is unique (den_functional) and independent of the '
             'order (den_perm); word_subst_correct for identifiers starting with a letter or underscore; (4) success is '
             'equivalent to order-free conditions (worklist_loadable at full strength, worklist_complete_partial), hence '
             'worklist_perm_partial: a permutation changes neither whether the document loads nor the meaning of any '
             'name; (5) rejection at full strength: duplicate names, built-in override, rejected/non-zero offsets, '
             'dangling references, cycles of any length all give an error; the offset test (float(offset) != 0) is exact '
             '(offset_test_exact) and zero offsets in any spelling have no effect (zero_offsets_ignored). _partial = hypothesis that every REFERENCED '
             'name starts with a letter or underscore; counterexample digit_leading_reference_rejected is proved. '
             'The model is tied to parser.py/units.py by seeded correspondence through load_model on generated CellML '
             'documents (3 orders each, chains to depth 8, all prefixes, 10 exponents in several spellings, faults), '
             'and an independent mpmath oracle of the specification formula searches for failing inputs. Three defects '
             'found and fixed in /repo (base_units="no" treated as base unit; names ending in "__"; zero offsets spelled '
             '"0.0", "+0", "-0" refused), two known findings (digit-leading names, dimensionless x dimensional).'),
    'note': ('Trusted: Lean kernel; propext, Classical.choice, Quot.sound; the translator for UNIT_PREFIXES, '
             'cellml_units.txt, the schema prefix list, _CELLML_UNITS; the correspondence harness. pint 0.18 (expression '
             'parsing, root expansion) and lxml/RELAX NG validation are modelled or outside the model, not verified. '
             'Scale equality is equality of prime-exponent vectors. Floating-point rounding is outside the exact model.'),
}
