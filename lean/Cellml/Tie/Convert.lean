import Cellml.Tie.ConvertPw
import Cellml.Tie.ConvertN

/-! # Tie: `UnitCalculator.convert_expression_recursively` (generated from units.py) = `Convert.convert` (hand model)

    The python function is recursive; it is translated with open recursion (`rec`). The theorem says that the hand
    model is a fixpoint of the generated functional: with the model playing the recursive calls, one level of the
    generated code computes the model - result triple `(new_expr, was_converted, actual_units)` and exception class -
    for every expression in `wfTop` and every target (or `None`).
    Parts: `ConvertCases.lean` (helpers `maybe_convert_expr` = `Convert.maybeConv`, `maybe_convert_child`; one lemma per
    constructor), `ConvertN.lean` (the n-ary classes `Add`, `Mul`, `And`, `Or`, `Max`/`Min`/…: the generated loops run
    over the FLAT operand list along the left spine of the node - `add (add a b) c` is `Add(a, b, c)` - and equal the
    model's nested recursion: `add_loop`, `mul_loop`, `and_loop`, `or_loop`, `fn_loop`), `ConvertPw.lean` (the Piecewise
    loop). The closed form (recursion closed, no `modelRec`) is `Cellml/Props/C05Gen.lean`. -/

namespace Cellml.Tie.PConvert
open Units Infer Convert Cellml.Gen

/-- the expressions that are images of SymPy objects at the top node: a Piecewise is a chain ending in `undef`, and the
    class names `floor` / `ceiling` / `Abs` are the constructors `E.floor` / `E.ceil` / `E.abs`, never `fn1` / `fnN` -/
def wfTop : E → Bool
  | .ite _ _ el => isChain el
  | .fn1 f _ => !Py.isIn f ["floor", "ceiling", "Abs"]
  | .fnN f _ _ => !Py.isIn f ["floor", "ceiling", "Abs"]
  | _ => true

/-- **`UnitCalculator.convert_expression_recursively` = `Convert.convert`** (fixpoint form) -/
theorem convert_tie (reg : Registry) (Γ : VarEnv) (ex : E) (tgt : Option Container) (h : wfTop ex = true) :
    Gen.Convert.convertExpressionRecursively (convView reg Γ) (modelRec reg Γ) ex tgt
      = encConv (Convert.convert reg Γ ex tgt) := by
  cases ex with
  | qty v u => exact tie_qty reg Γ v u tgt
  | cf s u => exact tie_cf reg Γ s u tgt
  | var i => exact tie_var reg Γ i tgt
  | add a b => exact tie_add reg Γ a b tgt
  | mul a b => exact tie_mul reg Γ a b tgt
  | pow b x => exact tie_pow reg Γ b x tgt
  | abs a => exact tie_abs reg Γ a tgt
  | floor a => exact tie_floor reg Γ a tgt
  | ceil a => exact tie_ceil reg Γ a tgt
  | fn1 f a => exact tie_fn1 reg Γ f a tgt (by simpa [wfTop] using h)
  | fnN f a b => exact tie_fnN reg Γ f a b tgt (by simpa [wfTop] using h)
  | ite c t el => exact tie_ite reg Γ c t el tgt (by simpa [wfTop] using h)
  | undef => exact tie_undef reg Γ tgt
  | deriv v t => exact tie_deriv reg Γ v t tgt
  | rel r a b => exact tie_rel reg Γ r a b tgt
  | and a b => exact tie_and reg Γ a b tgt
  | or a b => exact tie_or reg Γ a b tgt
  | not a => exact tie_not reg Γ a tgt
  | other n => exact tie_other reg Γ n tgt
  | _ => exact tie_numLeaf reg Γ _ tgt rfl

/-- the same with the model's own result type: what the generated code returns determines `e`, `wc`, `u` of the model's
    result (the fourth field `same` is `!wc`, `Convert.convert_ident`) and the class of its error -/
theorem convert_tie_ok (reg : Registry) (Γ : VarEnv) (ex : E) (tgt : Option Container) (h : wfTop ex = true) (r : CR)
    (hr : Convert.convert reg Γ ex tgt = .ok r) :
    Gen.Convert.convertExpressionRecursively (convView reg Γ) (modelRec reg Γ) ex tgt = .ok (r.e, r.wc, some r.u) := by
  rw [convert_tie reg Γ ex tgt h, hr]; rfl

/-- `UnitStore.convert_expression_recursively(expr, to_units)`: the expression of the model's result -/
theorem storeConvert_tie (reg : Registry) (Γ : VarEnv) (ex : E) (tgt : Option Container) :
    Gen.Convert.storeConvertExpressionRecursively (modelRec reg Γ) ex tgt
      = (encConv (Convert.convert reg Γ ex tgt)).map (fun r => r.1) := by
  unfold Gen.Convert.storeConvertExpressionRecursively modelRec
  cases encConv (Convert.convert reg Γ ex tgt) with
  | error e =>
    simp [bind, Except.bind, Except.map, tryCatch, tryCatchThe, MonadExceptOf.tryCatch, Except.tryCatch, throw, throwThe,
      MonadExceptOf.throw]
  | ok r =>
    simp [bind, Except.bind, Except.map, tryCatch, tryCatchThe, MonadExceptOf.tryCatch, Except.tryCatch, pure,
      Except.pure, StateT.pure]

/-- `UnitStore.evaluate_units_and_fix(expr)`: `(actual_units, new_expr)` of the model's result for target `None` -/
theorem storeEvaluateUnitsAndFix_tie (reg : Registry) (Γ : VarEnv) (ex : E) :
    Gen.Convert.storeEvaluateUnitsAndFix (modelRec reg Γ) ex
      = (encConv (Convert.convert reg Γ ex none)).map (fun r => (r.2.2, r.1)) := by
  unfold Gen.Convert.storeEvaluateUnitsAndFix modelRec
  cases encConv (Convert.convert reg Γ ex none) with
  | error e =>
    simp [bind, Except.bind, Except.map, tryCatch, tryCatchThe, MonadExceptOf.tryCatch, Except.tryCatch, throw, throwThe,
      MonadExceptOf.throw]
  | ok r =>
    simp [bind, Except.bind, Except.map, tryCatch, tryCatchThe, MonadExceptOf.tryCatch, Except.tryCatch, pure,
      Except.pure, StateT.pure]

end Cellml.Tie.PConvert
