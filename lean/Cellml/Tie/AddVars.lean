import Cellml.Tie.AddVarsLeaf
import Mathlib.Tactic.SplitIfs

/-! # Tie: `Parser._add_variables` / `Parser._get_variable_name` (generated from the source) = `Load.checkVars`
    (what it raises) + `Load.entry` (what it records), i.e. the leaf `Cellml.Tie.addVariables` of `_add_components` -/

set_option linter.unusedSimpArgs false

namespace Cellml.Tie.PAddVars
open Load Cellml.Tie Cellml.Gen Cellml.Tie.Py

theorem getVariableName_tie (c x : String) : AddVars.getVariableName c (.str x) = .ok (.ref (c, x)) := rfl

theorem lookup_cons_if {β} (k a : String) (b : β) (l : List (String × β)) :
    List.lookup k ((a, b) :: l) = if k = a then some b else List.lookup k l := by
  rw [List.lookup_cons]; by_cases h : k = a
  · simp [h]
  · have : (k == a) = false := by simpa using h
    simp [this, h]

theorem bind_ok {ε α β} (a : α) (f : α → Except ε β) : (Except.ok a >>= f) = f a := rfl
theorem bind_err {ε α β} (e : ε) (f : α → Except ε β) : (Except.error e >>= f) = Except.error e := rfl

def stepSpec (ust : Units.Store) (cname : String) (v : VarElem) (s : CompsState × List (AttrVal × VRef)) :
    Except PyErr (ForInStep (CompsState × List (AttrVal × VRef))) :=
  match Units.getUnit ust v.decl.units with
  | .error _ => .error ⟨"KeyError"⟩
  | .ok c =>
    if s.1.acc.1.contains (cname, v.decl.name) then .error ⟨"ValueError"⟩
    else if (match v.decl.cmeta with | some id => s.1.acc.2.contains id | none => false) then .error ⟨"ValueError"⟩
    else if v.badInit then .error ⟨"ValueError"⟩
    else .ok (.yield ({ s.1 with
        acc := ((cname, v.decl.name) :: s.1.acc.1,
                match v.decl.cmeta with | some id => id :: s.1.acc.2 | none => s.1.acc.2),
        vt := s.1.vt ++ [((cname, v.decl.name),
                ⟨c, v.decl.pub, v.decl.priv, v.decl.init, v.decl.cmeta, v.decl.units⟩)] },
      Py.setItem s.2 (.ref (cname, v.decl.name)) (cname, v.decl.name)))

@[reducible] def genStep (ust : Units.Store) (e : CompElemV) (variable_element : VarElem)
    (__s : CompsState × List (AttrVal × VRef)) : Except PyErr (ForInStep (CompsState × List (AttrVal × VRef))) :=
            if Py.isIn (withNs XmlNs.CMETA "id") (Py.keys (attribOf variable_element)) = true then do
              let __x ← dictPop (attribOf variable_element) (withNs XmlNs.CMETA "id")
              let __do_lift ← dictGetItem (Py.setItem __x.snd "cmeta_id" __x.fst) "name"
              let __do_lift ← AddVars.getVariableName e.name __do_lift
              let __do_lift_1 ←
                dictGetItem (Py.setItem (Py.setItem __x.snd "cmeta_id" __x.fst) "name" __do_lift) "units"
              let __do_lift_2 ← unitsGetUnit { ust := ust } __do_lift_1
              let __x_1 ←
                modelAddVariable { ust := ust } __s.fst
                    (Py.setItem (Py.setItem (Py.setItem __x.snd "cmeta_id" __x.fst) "name" __do_lift) "units"
                      __do_lift_2)
              let __do_lift ←
                dictGetItem
                    (Py.setItem (Py.setItem (Py.setItem __x.snd "cmeta_id" __x.fst) "name" __do_lift) "units"
                      __do_lift_2)
                    "name"
              pure (ForInStep.yield (__x_1.snd, Py.setItem __s.snd __do_lift __x_1.fst))
            else do
              let __do_lift ← dictGetItem (attribOf variable_element) "name"
              let __do_lift ← AddVars.getVariableName e.name __do_lift
              let __do_lift_1 ← dictGetItem (Py.setItem (attribOf variable_element) "name" __do_lift) "units"
              let __do_lift_2 ← unitsGetUnit { ust := ust } __do_lift_1
              let __x ←
                modelAddVariable { ust := ust } __s.fst
                    (Py.setItem (Py.setItem (attribOf variable_element) "name" __do_lift) "units" __do_lift_2)
              let __do_lift ←
                dictGetItem (Py.setItem (Py.setItem (attribOf variable_element) "name" __do_lift) "units" __do_lift_2)
                    "name"
              pure (ForInStep.yield (__x.snd, Py.setItem __s.snd __do_lift __x.fst))

attribute [local irreducible] String.decEq

theorem genStep_eq (ust : Units.Store) (e : CompElemV) (v : VarElem) (s : CompsState × List (AttrVal × VRef)) :
    genStep ust e v s = stepSpec ust e.name v s := by
  obtain ⟨⟨name, units, pub, priv, init, cmeta⟩, bad⟩ := v
  unfold genStep stepSpec
  cases cmeta <;> cases bad <;> cases init <;>
    simp only [attribOf, withNs, XmlNs, String.reduceAppend, List.cons_append, List.nil_append, List.append_nil,
      Bool.false_eq_true, if_false, if_true, Py.isIn, Py.keys, Py.setItem, DictLike.keys, DictLike.setItem, List.map_cons, List.map_nil,
      List.contains_cons, List.contains_nil, String.reduceBEq, Bool.or_false, Bool.or_true, Bool.false_or, Bool.true_or]
  all_goals
    simp only [dictGetItem, dictPop, lookup_cons_if, List.lookup_nil, String.reduceEq, if_true, if_false, bind_ok,
      getVariableName_tie, setAssoc, unitsGetUnit, dictErase]
  all_goals cases hu : Units.getUnit ust units <;> simp only [bind_ok, bind_err]
  all_goals
    simp only [modelAddVariable, kwargNames, List.any_cons, List.any_nil, List.contains_cons, List.contains_nil,
      String.reduceBEq, Bool.or_false, Bool.or_true, Bool.true_or, Bool.false_or, Bool.not_true, Bool.not_false,
      Bool.false_eq_true, if_false, if_true,
      lookup_cons_if, List.lookup_nil, String.reduceEq, ifaceArg, ifaceOfStr_ifaceStr]
  all_goals try (split_ifs <;> rfl)

/-! ## the loop -/

theorem setAssoc_append {κ ν} [DecidableEq κ] (k : κ) (v : ν) : ∀ d : List (κ × ν), (∀ p ∈ d, p.1 ≠ k) →
    setAssoc k v d = d ++ [(k, v)]
  | [], _ => rfl
  | (k', v') :: r, h => by
    have h1 : k' ≠ k := h (k', v') List.mem_cons_self
    simp only [setAssoc, h1, if_false, List.cons_append]
    rw [setAssoc_append k v r (fun p hp => h p (List.mem_cons_of_mem _ hp))]

/-- `Load.checkVars` over `<variable>` elements, with the ValueError of `float(initial_value)` at the place where the
    code has it (inside `Variable.__init__`, after the two checks of `add_variable`); exception classes only -/
def varsSpec (ust : Units.Store) (cname : String) : List VarElem → List VRef × List String →
    Except PyErr (List VRef × List String)
  | [], acc => .ok acc
  | v :: r, acc =>
      match Units.getUnit ust v.decl.units with
      | .error _ => .error ⟨"KeyError"⟩
      | .ok _ =>
        if acc.1.contains (cname, v.decl.name) then .error ⟨"ValueError"⟩
        else if (match v.decl.cmeta with | some id => acc.2.contains id | none => false) then .error ⟨"ValueError"⟩
        else if v.badInit then .error ⟨"ValueError"⟩
        else varsSpec ust cname r ((cname, v.decl.name) :: acc.1,
               match v.decl.cmeta with | some id => id :: acc.2 | none => acc.2)

theorem loop_spec (ust : Units.Store) (cname : String) : ∀ (vs : List VarElem) (st : CompsState)
    (vls : List (AttrVal × VRef)), (∀ p ∈ vls, ∃ r ∈ st.acc.1, p.1 = .ref r) →
    forIn vs (st, vls) (stepSpec ust cname) =
      match varsSpec ust cname vs st.acc with
      | .error x => .error x
      | .ok acc' => .ok ({ st with acc := acc', vt := st.vt ++ vs.map (fun v => entry ust cname v.decl) },
          vls ++ vs.map (fun v => (AttrVal.ref (cname, v.decl.name), (cname, v.decl.name)))) := by
  intro vs
  induction vs with
  | nil => intro st vls _; simp [varsSpec]; rfl
  | cons v r ih =>
    intro st vls hinv
    rw [List.forIn_cons]
    simp only [stepSpec, varsSpec]
    cases hu : Units.getUnit ust v.decl.units with
    | error a => simp only [bind_err]
    | ok c =>
      simp only []
      by_cases h1 : st.acc.1.contains (cname, v.decl.name) = true
      · simp only [h1, if_true, bind_err, Bool.false_eq_true, if_false]
      · by_cases h2 : (match v.decl.cmeta with | some id => st.acc.2.contains id | none => false) = true
        · simp only [h1, h2, if_true, if_false, bind_err, Bool.false_eq_true]
        · by_cases h3 : v.badInit = true
          · simp only [h1, h2, h3, if_true, if_false, bind_err, Bool.false_eq_true]
          · simp only [h1, h2, h3, if_false, bind_ok, Bool.false_eq_true]
            have hk : ∀ p ∈ vls, p.1 ≠ AttrVal.ref (cname, v.decl.name) := by
              intro p hp heq
              obtain ⟨r', hr', hpr⟩ := hinv p hp
              rw [hpr] at heq
              injection heq with heq
              subst heq
              exact h1 (by simpa using hr')
            simp only [Py.setItem, DictLike.setItem]
            rw [setAssoc_append _ _ vls hk, ih]
            · cases varsSpec ust cname r _ with
              | error x => rfl
              | ok acc' => simp [entry, hu, List.append_assoc]
            · intro p hp
              rcases List.mem_append.mp hp with hp | hp
              · obtain ⟨r', hr', hpr⟩ := hinv p hp
                exact ⟨r', List.mem_cons_of_mem _ hr', hpr⟩
              · simp only [List.mem_singleton] at hp
                subst hp
                exact ⟨_, List.mem_cons_self, rfl⟩

theorem varsSpec_checkVars (ust : Units.Store) (cname : String) : ∀ (vs : List VarElem) (acc : List VRef × List String),
    (∀ v ∈ vs, v.badInit = false) →
    varsSpec ust cname vs acc = errClass Err.className (checkVars ust cname (vs.map (·.decl)) acc)
  | [], _, _ => rfl
  | v :: r, (names, ids), h => by
    have hv : v.badInit = false := h v List.mem_cons_self
    have hr := fun acc' => varsSpec_checkVars ust cname r acc' (fun v' h' => h v' (List.mem_cons_of_mem _ h'))
    simp only [varsSpec, List.map_cons, checkVars, hv, Bool.false_eq_true, if_false]
    cases Units.getUnit ust v.decl.units with
    | error a => rfl
    | ok c =>
      simp only []
      cases hc : v.decl.cmeta with
      | none => simp only [Bool.false_eq_true, if_false]; split_ifs <;> first | rfl | exact hr _
      | some id => simp only []; split_ifs <;> first | rfl | exact hr _

/-! ## the function -/

/-- **`Parser._add_variables`**, for every unit store, `<component>` element (any `<variable>` children, readable
    `initial_value` or not) and parser state: the generated function raises what `varsSpec` (= `Load.checkVars` plus the
    ValueError of an unreadable `initial_value`) raises, same class, same first offender; otherwise it returns the lookup
    flat name ↦ Variable in document order and has appended `Load.entry` of every variable to the table. -/
theorem addVariables_spec (ust : Units.Store) (e : CompElemV) (st : CompsState) :
    AddVars.addVariables ⟨ust⟩ e st =
      match varsSpec ust e.name e.vars st.acc with
      | .error x => .error x
      | .ok acc' => .ok (e.vars.map (fun v => (AttrVal.ref (e.name, v.decl.name), (e.name, v.decl.name))),
          { st with acc := acc', vt := st.vt ++ e.vars.map (fun v => entry ust e.name v.decl) }) := by
  unfold AddVars.addVariables
  simp only [findall, beq_self_eq_true, if_true]
  show (do let __s ← forIn e.vars (st, Py.emptyDict) (genStep ust e); pure (__s.snd, __s.fst)) = _
  rw [show genStep ust e = stepSpec ust e.name from funext fun v => funext fun s => genStep_eq ust e v s]
  rw [loop_spec ust e.name e.vars st Py.emptyDict (by intro p hp; cases hp)]
  cases varsSpec ust e.name e.vars st.acc with
  | error x => rfl
  | ok acc' => simp [Py.emptyDict, bind_ok]; rfl

/-- **`Parser._add_variables` = the leaf `Cellml.Tie.addVariables`** (`Load.checkVars` + `Load.entry`) that the
    generated `_add_components` and the loader theorems use, on every `<component>` element of the models (all
    `initial_value`s readable): same result (the keys of the lookup are the flat names), same state, same exception
    class (KeyError: unknown unit; ValueError: duplicate variable name, duplicate cmeta id). -/
theorem genAddVariables_eq (ust : Units.Store) (e : CompElem) (st : CompsState) :
    AddVars.addVariables ⟨ust⟩ (ofCompElem e) st =
      (Cellml.Tie.addVariables ⟨ust⟩ st e).map
        (fun r => (r.1.map (fun p => (AttrVal.ref p.1, p.2)), r.2)) := by
  rw [addVariables_spec, varsSpec_checkVars _ _ _ _ (by
    intro v hv; simp only [ofCompElem, List.mem_map] at hv; obtain ⟨d, _, rfl⟩ := hv; rfl)]
  simp only [ofCompElem, List.map_map, Cellml.Tie.addVariables]
  have hm : List.map ((fun x => x.decl) ∘ fun d => ({ decl := d } : VarElem)) e.comp.vars = e.comp.vars := by
    simp [Function.comp_def]
  rw [hm]
  cases checkVars ust e.comp.name e.comp.vars st.acc with
  | error err => rfl
  | ok acc' => simp [errClass, Except.map, Function.comp_def]

/-- **the leaf of the generated `_add_components` IS the generated `_add_variables`**: `genAddVariables` (the generated
    function, re-keyed) equals the hand-written `Cellml.Tie.addVariables` for every store, state and element -/
theorem genAddVariables_leaf (self : CompsView) (st : CompsState) (e : CompElem) :
    genAddVariables self st e = Cellml.Tie.addVariables self st e := by
  obtain ⟨ust⟩ := self
  unfold genAddVariables
  rw [genAddVariables_eq]
  cases Cellml.Tie.addVariables ⟨ust⟩ st e with
  | error x => rfl
  | ok r =>
    obtain ⟨l, st'⟩ := r
    simp only [Except.map, List.map_map]
    congr 2
    conv => rhs; rw [← List.map_id l]
    apply List.map_congr_left
    intro p _
    rfl

end Cellml.Tie.PAddVars
