"""Extension of the code translator for the Sing2 package (`_get_singularity` of _singularity_fixes.py).

`BlockFn`: spec key `'block': '<name>'` - the translated text is not the whole function but ONE `for` statement of it:
the (first, in source order) `for` loop whose target is the name `<name>` (e.g. `for fp1 in fraction_part_1:`), translated
by the ordinary rules of `translate_code.Fn` (loop, `break`, nested `if`s, assignments) as a function of the names in
`params`; the value of the spec key `returns` is returned after the loop. Everything else defers to `Fn`."""
import ast
import copy

from translate_code import Fn, TranslationError


class BlockFn(Fn):
    def __init__(self, spec, node):
        name = spec.get('block')
        if name:
            loops = sorted((s for s in ast.walk(node) if isinstance(s, ast.For) and isinstance(s.target, ast.Name)
                            and s.target.id == name), key=lambda s: s.lineno)
            if not loops:
                raise TranslationError('no `for %s in …` loop in %s' % (name, node.name))
            node = copy.copy(node)
            node.body = [loops[0]]
        super().__init__(spec, node)
