"""Code-translator spec (see harness/translate_code.py and harness/code_specs/__init__.py)."""

GROUP = {'name': 'ConnLoop',
 'imports': ['Cellml.Tie.LoaderView'],
 'header': 'open Load',
 'functions': [{'file': 'cellmlmanip/parser.py',
                'func': 'Parser._add_connections',
                'lean_name': 'addConnectionsBody',
                'while_body': 0,
                'loop_state': ['connections_to_process', 'unchanged_loop_count', 'st'],
                'params': ['self', 'connections_to_process', 'unchanged_loop_count', 'st'],
                # the test of `while connections_to_process:` as a definition of its own (`addConnectionsBody_test`):
                # used by the closed loop `genConnectLoop` of lean/Cellml/Tie/ConnLoopClosed.lean
                'emit_loop_test': '(connections_to_process : List (VRef × VRef)) : Bool',
                'signature': '(self : ConnLoopView) (connections_to_process : List (VRef × VRef)) '
                             '(unchanged_loop_count : Nat) (st : CState) : Except PyErr (List (VRef × VRef) × Nat × '
                             'CState)',
                'patterns': [('self.model.units.get_conversion_factor(from_unit=__A.units, to_unit=__B.units)',
                              '← self.factor {A} {B}'),
                             ('cf == 1', '(scaleIsOne cf)'),
                             ('__A.assigned_to', '(st.asg {A})'),
                             ('__A.cmeta_id', '(cmetaOf st {A})'),
                             ('self.model.create_quantity(__A, __B.units / __C.units)',
                              '({A}, self.unitsOf {B}, self.unitsOf {C})')],
                'stmt_patterns': [('connection = connections_to_process.popleft()',
                                   'let (connection, rest__) ← popleft connections_to_process\n'
                                   'connections_to_process := rest__'),
                                  ('connections_to_process.append(__A)',
                                   'connections_to_process := connections_to_process ++ [{A}]'),
                                  ('connected_variable_mapping[__A.name] = __B',
                                   'st := { st with mapping := ({A}, {B}) :: st.mapping }'),
                                  ('__A.assigned_to = __B', 'st := setAssigned st {A} {B}'),
                                  ('self.model.transfer_cmeta_id(source=__A, target=__B)',
                                   'st ← transferCmeta st {A} {B}'),
                                  ('self.model.add_equation(sympy.Eq(__A, __B * __C))',
                                   'st ← addConvEq st {A} {B} {C}')]}]}
