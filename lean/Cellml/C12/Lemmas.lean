import Mathlib.Tactic.Ring
import Mathlib.Tactic.FieldSimp
import Mathlib.Tactic.Linarith
import Mathlib.Algebra.Order.Field.Basic
import Cellml.C12.Window
import Cellml.C12.Piecewise
import Cellml.C12.Fix
import Cellml.C12.Traverse
set_option linter.unusedSectionVars false

/-! # C12 — helper lemmas and the semantics used by the property theorems (proof side only, not linked into the
    driver): the order lemmas relating the model's `if`-based `lo`/`hi`/`min2`/`max2` to `min`/`max`; the value of an
    expression tree over an arbitrary ordered field with an arbitrary interpretation of `exp`, of the other functions
    and of the other variables (`eval`); "the voltage lies outside every generated range" (`clear`); the lemmas about
    wrapping, dropping factors one, substitution; the list lemmas for the traversal. -/

namespace C12
open C12.Expr
variable {K : Type} [Field K] [LinearOrder K] [IsStrictOrderedRing K]

theorem lo_eq_min (a b : K) : lo a b = min a b := by
  unfold lo; split
  · rename_i h; exact (min_eq_right (le_of_lt h)).symm
  · rename_i h; exact (min_eq_left (not_lt.mp h)).symm

theorem hi_eq_max (a b : K) : hi a b = max a b := by
  unfold hi; split
  · rename_i h; exact (max_eq_left (le_of_lt h)).symm
  · rename_i h; exact (max_eq_right (not_lt.mp h)).symm

theorem vmin_eq (k c δ : K) (hk : k ≠ 0) : vminOf k c δ = spOf k c + δ / k := by
  unfold vminOf spOf; field_simp; ring

theorem vmax_eq (k c δ : K) (hk : k ≠ 0) : vmaxOf k c δ = spOf k c - δ / k := by
  unfold vmaxOf spOf; field_simp; ring

theorem affine_eq (k c V : K) (hk : k ≠ 0) : k * V + c = k * (V - spOf k c) := by
  unfold spOf; field_simp; ring

/-- the range after the swap is `[sp − δ/|k|, sp + δ/|k|]` -/
theorem lo_window (k c δ : K) (hk : k ≠ 0) (hδ : 0 < δ) :
    lo (vminOf k c δ) (vmaxOf k c δ) = spOf k c - δ / |k| ∧
    hi (vminOf k c δ) (vmaxOf k c δ) = spOf k c + δ / |k| := by
  rw [lo_eq_min, hi_eq_max, vmin_eq k c δ hk, vmax_eq k c δ hk]
  rcases lt_or_gt_of_ne hk with h | h
  · have hd : δ / k < 0 := div_neg_of_pos_of_neg hδ h
    rw [abs_of_neg h, div_neg]
    constructor
    · rw [min_eq_left (by linarith)]; ring
    · rw [max_eq_right (by linarith)]; ring
  · have hd : 0 < δ / k := div_pos hδ h
    rw [abs_of_pos h]
    constructor
    · rw [min_eq_right (by linarith)]
    · rw [max_eq_left (by linarith)]

theorem coeff_mem (V a b : K) (hab : a < b) (h : a ≤ V ∧ V ≤ b) : 0 ≤ coeff V a b ∧ coeff V a b ≤ 1 := by
  unfold coeff
  have hb : 0 < b - a := by linarith
  constructor
  · exact div_nonneg (by linarith) (le_of_lt hb)
  · rw [div_le_one hb]; linarith

theorem min2_eq (a b : K) : min2 a b = min a b := lo_eq_min a b
theorem max2_eq (a b : K) : max2 a b = max a b := by
  unfold max2; split
  · rename_i h; exact (max_eq_right (le_of_lt h)).symm
  · rename_i h; exact (max_eq_left (not_lt.mp h)).symm



/-- `w` lies within `m` -/
def Within (w m : Win K) : Prop := m.lo ≤ w.lo ∧ w.hi ≤ m.hi

theorem Win.lo_eq (w : Win K) : w.lo = min w.vmin w.vmax := lo_eq_min _ _
theorem Win.hi_eq (w : Win K) : w.hi = max w.vmin w.vmax := hi_eq_max _ _

theorem within_trans {a b c : Win K} (h1 : Within a b) (h2 : Within b c) : Within a c :=
  ⟨le_trans h2.1 h1.1, le_trans h1.2 h2.2⟩

theorem min4_le (a b c d : K) : let m := min (min (min a b) c) d; m ≤ a ∧ m ≤ b ∧ m ≤ c ∧ m ≤ d := by
  intro m
  refine ⟨?_, ?_, ?_, ?_⟩
  · exact le_trans (min_le_left _ _) (le_trans (min_le_left _ _) (min_le_left _ _))
  · exact le_trans (min_le_left _ _) (le_trans (min_le_left _ _) (min_le_right _ _))
  · exact le_trans (min_le_left _ _) (min_le_right _ _)
  · exact min_le_right _ _

theorem le_max4 (a b c d : K) : let m := max (max (max a b) c) d; a ≤ m ∧ b ≤ m ∧ c ≤ m ∧ d ≤ m := by
  intro m
  refine ⟨?_, ?_, ?_, ?_⟩
  · exact le_trans (le_trans (le_max_left _ _) (le_max_left _ _)) (le_max_left _ _)
  · exact le_trans (le_trans (le_max_right _ _) (le_max_left _ _)) (le_max_left _ _)
  · exact le_trans (le_max_right _ _) (le_max_left _ _)
  · exact le_max_right _ _

def lhss (l : List Eqn) : List String := l.map (·.lhs)

theorem removeEq_of_notMem (l : List Eqn) (n : String) (h : n ∉ lhss l) : removeEq l n = l := by
  unfold removeEq
  apply List.filter_eq_self.mpr
  intro e he
  have : e.lhs ≠ n := fun hh => h (by rw [← hh]; exact List.mem_map.mpr ⟨e, he, rfl⟩)
  simpa using this

theorem perm_remove_add (l : List Eqn) (n : String) (r : Expr)
    (hn : (lhss l).Nodup) (hm : n ∈ lhss l) : (lhss (removeEq l n ++ [⟨n, r⟩])).Perm (lhss l) := by
  induction l with
  | nil => simp [lhss] at hm
  | cons a l ih =>
    simp only [lhss, List.map_cons, List.nodup_cons] at hn
    by_cases ha : a.lhs = n
    · have hnot : n ∉ lhss l := by rw [← ha]; exact hn.1
      have : removeEq (a :: l) n = l := by
        unfold removeEq
        rw [List.filter_cons_of_neg (by simp [ha])]
        exact removeEq_of_notMem l n hnot
      rw [this]
      simp only [lhss, List.map_append, List.map_cons, List.map_nil]
      rw [ha]
      exact List.perm_append_singleton n (List.map (fun x => x.lhs) l)
    · have hm' : n ∈ lhss l := by
        simp only [lhss, List.map_cons, List.mem_cons] at hm
        rcases hm with h | h
        · exact absurd h.symm ha
        · exact h
      have : removeEq (a :: l) n = a :: removeEq l n := by
        unfold removeEq
        rw [List.filter_cons_of_pos (by simp [ha])]
      rw [this]
      simp only [lhss, List.cons_append, List.map_cons]
      exact List.Perm.cons _ (ih hn.2 hm')

theorem step_perm (fix : Expr → Option Expr) (excl : List String) (st : TState) (e : Eqn)
    (hn : (lhss st.eqs).Nodup) (hm : e.lhs ∈ lhss st.eqs) :
    (lhss (step fix excl st e).eqs).Perm (lhss st.eqs) := by
  unfold step
  split
  · exact List.Perm.refl _
  · dsimp only
    split
    · exact perm_remove_add _ _ _ hn hm
    · exact List.Perm.refl _

theorem foldl_perm (fix : Expr → Option Expr) (excl : List String) (order : List Eqn) (st : TState)
    (hn : (lhss st.eqs).Nodup) (hm : ∀ e ∈ order, e.lhs ∈ lhss st.eqs) :
    (lhss (order.foldl (step fix excl) st).eqs).Perm (lhss st.eqs) := by
  induction order generalizing st with
  | nil => exact List.Perm.refl _
  | cons e es ih =>
    simp only [List.foldl_cons]
    have hp := step_perm fix excl st e hn (hm e (List.mem_cons_self))
    have hn' : (lhss (step fix excl st e).eqs).Nodup := hp.nodup_iff.mpr hn
    have hm' : ∀ e' ∈ es, e'.lhs ∈ lhss (step fix excl st e).eqs := fun e' he' =>
      hp.mem_iff.mpr (hm e' (List.mem_cons_of_mem _ he'))
    exact (ih _ hn' hm').trans hp

theorem mem_removeEq (l : List Eqn) (n : String) (e : Eqn) (he : e ∈ l) (hne : e.lhs ≠ n) : e ∈ removeEq l n := by
  unfold removeEq
  exact List.mem_filter.mpr ⟨he, by simpa using hne⟩

/-- two equations of a model with the same left-hand side are the same equation -/
theorem eq_of_lhs (l : List Eqn) (hn : (lhss l).Nodup) (a b : Eqn) (ha : a ∈ l) (hb : b ∈ l) (h : a.lhs = b.lhs) :
    a = b := by
  induction l with
  | nil => cases ha
  | cons x xs ih =>
    simp only [lhss, List.map_cons, List.nodup_cons] at hn
    rcases List.mem_cons.mp ha with rfl | ha' <;> rcases List.mem_cons.mp hb with rfl | hb'
    · rfl
    · exact absurd (List.mem_map.mpr ⟨b, hb', h.symm⟩) hn.1
    · exact absurd (List.mem_map.mpr ⟨a, ha', h⟩) hn.1
    · exact ih hn.2 ha' hb'

/-- an equation is left alone by a step when it is not the one visited, or is skipped, or `fix` reports no change -/
theorem step_keeps (fix : Expr → Option Expr) (excl : List String) (st : TState) (e e0 : Eqn)
    (h0 : e0 ∈ st.eqs)
    (h : e.lhs ≠ e0.lhs ∨ e.rhs.isPiecewise = true ∨ excl.contains e.lhs = true ∨ fix (subst st.env e.rhs) = none) :
    e0 ∈ (step fix excl st e).eqs := by
  unfold step
  split
  · exact h0
  · rename_i hs
    dsimp only
    split
    · rename_i new hf
      rcases h with h | h | h | h
      · exact List.mem_append_left _ (mem_removeEq _ _ _ h0 (fun hh => h hh.symm))
      · simp [h] at hs
      · have hs' : e.rhs.isPiecewise = false ∧ ¬ e.lhs ∈ excl := by simpa using hs
        have h' : e.lhs ∈ excl := by simpa using h
        exact absurd h' hs'.2
      · rw [h] at hf; cases hf
    · exact h0

theorem sameSp_none (rs : List Res) (h : ∀ r ∈ rs, r.win = none) : sameSp rs = none := by
  match rs with
  | [] => rfl
  | [_] => rfl
  | r :: r' :: rs => simp [sameSp, h r (by simp)]

/-- an arbitrary interpretation of what the model does not define: `exp`, other functions, other variables -/
structure Interp (K : Type) where
  ex : K → K
  fn : String → List K → K
  var : String → K → K

mutual
/-- the value of an expression at voltage `v` -/
def eval (I : Interp K) (v : K) : Expr → K
  | .num q => (q : K)
  | .volt => v
  | .var n => I.var n v
  | .add as => evalSum I v as
  | .mul as => evalProd I v as
  | .pow b n => (eval I v b) ^ n
  | .exp a => I.ex (eval I v a)
  | .pw lo hi f => interp (fun x => eval I x f) v (lo : K) (hi : K)
  | .fn name as => I.fn name (evalList I v as)
def evalSum (I : Interp K) (v : K) : List Expr → K
  | [] => 0
  | a :: as => eval I v a + evalSum I v as
def evalProd (I : Interp K) (v : K) : List Expr → K
  | [] => 1
  | a :: as => eval I v a * evalProd I v as
def evalList (I : Interp K) (v : K) : List Expr → List K
  | [] => []
  | a :: as => eval I v a :: evalList I v as
end

mutual
/-- `v` lies in none of the generated ranges met when the expression is evaluated at `v` -/
def clear (v : K) : Expr → Prop
  | .num _ | .volt | .var _ => True
  | .add as | .mul as | .fn _ as => clearL v as
  | .pow b _ => clear v b
  | .exp a => clear v a
  | .pw lo hi f => ¬ ((lo : K) ≤ v ∧ v ≤ (hi : K)) ∧ clear v f
def clearL (v : K) : List Expr → Prop
  | [] => True
  | a :: as => clear v a ∧ clearL v as
end



theorem eval_wrapWin (I : Interp K) (v : K) (w : Win Rat) (e : Expr) (h : clear v (wrapWin w e)) :
    eval I v (wrapWin w e) = eval I v e ∧ clear v e := by
  simp only [wrapWin, clear] at h
  refine ⟨?_, h.2⟩
  simp only [wrapWin, eval, interp]
  rw [if_neg h.1]

theorem eval_wrap (I : Interp K) (v : K) (r : Res) (h : clear v (wrap r)) :
    eval I v (wrap r) = eval I v r.ex := by
  unfold wrap at h ⊢
  split
  · rename_i w hw; rw [hw] at h; exact (eval_wrapWin I v w r.ex h).1
  · rfl

theorem eval_foldl_wrap (I : Interp K) (v : K) (ws : List (Win Rat)) (e : Expr)
    (h : clear v (ws.foldl (fun e w' => wrapWin w' e) e)) :
    eval I v (ws.foldl (fun e w' => wrapWin w' e) e) = eval I v e ∧ clear v e := by
  induction ws generalizing e with
  | nil => exact ⟨rfl, h⟩
  | cons w ws ih =>
    simp only [List.foldl_cons] at h ⊢
    obtain ⟨h1, h2⟩ := ih (wrapWin w e) h
    obtain ⟨h3, h4⟩ := eval_wrapWin I v w e h2
    exact ⟨h1.trans h3, h4⟩

theorem evalProd_filter (I : Interp K) (v : K) (as : List Expr) :
    evalProd I v (as.filter (fun a => !isOne a)) = evalProd I v as := by
  induction as with
  | nil => rfl
  | cons a as ih =>
    by_cases h : isOne a = true
    · rw [List.filter_cons_of_neg (by simp [h])]
      have : eval I v a = 1 := by
        cases a <;> simp [isOne] at h
        subst h; simp [eval]
      simp [evalProd, this, ih]
    · rw [List.filter_cons_of_pos (by simp [h])]
      simp [evalProd, ih]

theorem eval_mkMul (I : Interp K) (v : K) (as : List Expr) : eval I v (mkMul as) = evalProd I v as := by
  match as with
  | [] => simp [mkMul, eval, evalProd]
  | [a] => simp [mkMul, evalProd]
  | a :: b :: as => simp [mkMul, eval]

theorem eval_dropOnes (I : Interp K) (v : K) (e : Expr) : eval I v (dropOnes e) = eval I v e := by
  cases e <;> simp [dropOnes]
  rename_i as
  rw [eval_mkMul, evalProd_filter]; simp [eval]


theorem evalSum_map_wrap (I : Interp K) (v : K) (rec : Expr → Res)
    (hrec : ∀ a, clear v (wrap (rec a)) → eval I v (wrap (rec a)) = eval I v a) (as : List Expr)
    (h : clearL v ((as.map rec).map wrap)) :
    evalSum I v ((as.map rec).map wrap) = evalSum I v as := by
  induction as with
  | nil => rfl
  | cons a as ih =>
    simp only [List.map_cons, clearL] at h
    simp only [List.map_cons, evalSum, hrec a h.1, ih h.2]

theorem evalProd_map_wrap (I : Interp K) (v : K) (rec : Expr → Res)
    (hrec : ∀ a, clear v (wrap (rec a)) → eval I v (wrap (rec a)) = eval I v a) (as : List Expr)
    (h : clearL v ((as.map rec).map wrap)) :
    evalProd I v ((as.map rec).map wrap) = evalProd I v as := by
  induction as with
  | nil => rfl
  | cons a as ih =>
    simp only [List.map_cons, clearL] at h
    simp only [List.map_cons, evalProd, hrec a h.1, ih h.2]

theorem wrap_none (e : Expr) (c : Bool) : wrap ⟨none, e, c⟩ = e := rfl
theorem wrap_some (w : Win Rat) (e : Expr) (c : Bool) : wrap ⟨some w, e, c⟩ = wrapWin w e := rfl

theorem fixBody_outside (I : Interp K) (v : K) (det : List Expr → List (Win Rat)) (rec : Expr → Res)
    (hrec : ∀ a, clear v (wrap (rec a)) → eval I v (wrap (rec a)) = eval I v a) (e : Expr)
    (h : clear v (wrap (fixBody det rec e))) :
    eval I v (wrap (fixBody det rec e)) = eval I v e := by
  cases e with
  | add as =>
    simp only [fixBody] at h ⊢
    split at h
    · rename_i w hw
      rw [wrap_some] at h ⊢
      exact (eval_wrapWin I v w _ h).1
    · rename_i hw
      rw [wrap_none] at h ⊢
      simp only [clear] at h
      simp only [eval]
      exact evalSum_map_wrap I v rec hrec as h
  | pow a k =>
    simp only [fixBody] at h ⊢
    by_cases hk : (k == -1) = true
    · rw [if_pos hk] at h ⊢
      have hk' : k = -1 := by simpa using hk
      rw [wrap_none] at h ⊢
      simp only [clear, clearL, and_true, true_and] at h
      simp only [eval, evalProd, hk']
      rw [hrec a h]; simp
    · rw [if_neg hk]; rfl
  | mul as =>
    simp only [fixBody] at h ⊢
    split at h
    · rename_i hd
      rw [wrap_none] at h ⊢
      simp only [clear] at h
      simp only [eval]
      exact evalProd_map_wrap I v rec hrec as h
    · rename_i w ws hd
      rw [wrap_some] at h ⊢
      obtain ⟨h1, h2⟩ := eval_wrapWin I v w _ h
      rw [h1]
      exact (eval_foldl_wrap I v ws _ h2).1
  | num q => rfl
  | volt => rfl
  | var n => rfl
  | exp a => rfl
  | pw lo hi f => rfl
  | fn name as => rfl





/-- **Outside every generated range the repaired expression has the value of the original one** — for every
    expression, every detector, every interpretation of `exp`, the other functions and the other variables. -/
theorem fixParts_outside (I : Interp K) (v : K) (det : List Expr → List (Win Rat)) :
    ∀ (n : Nat) (e : Expr), clear v (wrap (fixParts det n e)) →
      eval I v (wrap (fixParts det n e)) = eval I v e := by
  intro n
  induction n with
  | zero => intro e _; rfl
  | succ n ih =>
    intro e h
    unfold fixParts at h ⊢
    split
    · rfl
    · rename_i hx
      rw [if_neg hx] at h
      rw [fixBody_outside I v det _ ih _ h, eval_dropOnes]

theorem removeSing_outside (I : Interp K) (v : K) (det : List Expr → List (Win Rat)) (e new : Expr)
    (h : removeSing det e = some new) (hc : clear v new) : eval I v new = eval I v e := by
  unfold removeSing at h
  split at h
  · cases h
  · dsimp only at h
    split at h
    · cases h; exact fixParts_outside I v det _ e hc
    · cases h


/-- `I` agrees with the remembered right-hand sides -/
def EnvOK (I : Interp K) (env : Env) : Prop := ∀ n r, lookup env n = some r → ∀ v, eval I v r = I.var n v

mutual
theorem eval_subst (I : Interp K) (env : Env) (h : EnvOK I env) : ∀ (e : Expr) (v : K), eval I v (subst env e) = eval I v e
  | .num _, _ => rfl
  | .volt, _ => rfl
  | .var n, v => by
      simp only [subst]
      cases hl : lookup env n with
      | none => rfl
      | some r => simp only [eval]; exact h n r hl v
  | .add as, v => by simp only [subst, eval]; exact evalSum_subst I env h as v
  | .mul as, v => by simp only [subst, eval]; exact evalProd_subst I env h as v
  | .pow b n, v => by simp only [subst, eval, eval_subst I env h b v]
  | .exp a, v => by simp only [subst, eval, eval_subst I env h a v]
  | .pw lo hi f, v => by
      simp only [subst, eval]
      have : (fun x => eval I x (subst env f)) = (fun x => eval I x f) := funext (fun x => eval_subst I env h f x)
      rw [this]
  | .fn name as, v => by simp only [subst, eval, evalList_subst I env h as v]
theorem evalSum_subst (I : Interp K) (env : Env) (h : EnvOK I env) : ∀ (as : List Expr) (v : K), evalSum I v (substL env as) = evalSum I v as
  | [], _ => rfl
  | a :: as, v => by simp only [substL, evalSum, eval_subst I env h a v, evalSum_subst I env h as v]
theorem evalProd_subst (I : Interp K) (env : Env) (h : EnvOK I env) : ∀ (as : List Expr) (v : K), evalProd I v (substL env as) = evalProd I v as
  | [], _ => rfl
  | a :: as, v => by simp only [substL, evalProd, eval_subst I env h a v, evalProd_subst I env h as v]
theorem evalList_subst (I : Interp K) (env : Env) (h : EnvOK I env) : ∀ (as : List Expr) (v : K), evalList I v (substL env as) = evalList I v as
  | [], _ => rfl
  | a :: as, v => by simp only [substL, evalList, eval_subst I env h a v, evalList_subst I env h as v]
end


/-- `I` is a solution of the model: every equation holds at every voltage -/
def Solves (I : Interp K) (eqs : List Eqn) : Prop := ∀ e ∈ eqs, ∀ v, I.var e.lhs v = eval I v e.rhs

/-- `I` satisfies the equations at every voltage that lies outside the generated ranges of the equation -/
def SolvesOutside (I : Interp K) (eqs : List Eqn) : Prop :=
  ∀ e ∈ eqs, ∀ v, clear v e.rhs → I.var e.lhs v = eval I v e.rhs

theorem mem_removeEq_sub (l : List Eqn) (n : String) (e : Eqn) (h : e ∈ removeEq l n) : e ∈ l :=
  (List.mem_filter.mp h).1

theorem step_sound (I : Interp K) (det : List Expr → List (Win Rat)) (excl : List String) (st : TState) (e : Eqn)
    (he : ∀ v, I.var e.lhs v = eval I v e.rhs) (henv : EnvOK I st.env) (hst : SolvesOutside I st.eqs) :
    EnvOK I (step (removeSing det) excl st e).env ∧ SolvesOutside I (step (removeSing det) excl st e).eqs := by
  unfold step
  split
  · exact ⟨henv, hst⟩
  · dsimp only
    split
    · rename_i new hf
      refine ⟨henv, ?_⟩
      intro e' he' v hc
      rcases List.mem_append.mp he' with h | h
      · exact hst e' (mem_removeEq_sub _ _ _ h) v hc
      · have : e' = ⟨e.lhs, new⟩ := by simpa using h
        subst this
        dsimp only at hc ⊢
        rw [removeSing_outside I v det _ new hf hc, eval_subst I st.env henv, he v]
    · refine ⟨?_, hst⟩
      intro n r hl v
      simp only [lookup] at hl
      split at hl
      · rename_i hm
        have hm' : e.lhs = n := by simpa using hm
        cases hl
        rw [eval_subst I st.env henv, ← hm', he v]
      · exact henv n r hl v

end C12
