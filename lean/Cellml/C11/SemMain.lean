import Cellml.C11.SemMul2

/-! C11 — `print_means`, part 5: sums, chains, piecewise; the statement proved by induction. -/
namespace C11
set_option linter.unusedSimpArgs false
variable {K : Type} [Field K] (S : Sem K)

/-- the emitted code means what the expression means, per sort -/
def Tc (s : Srt) (e : E) : Prop :=
  match s with
  | .A => (evD S (pr e).doc).num = (ev S e).num
  | .B => (evD S (pr e).doc).num = (ev S e).num ∧ (evD S (pr e).doc).bool = (ev S e).bool
  | .P => (evD S (pr e).doc).num = (ev S e).num ∧ (evD S (pr e).base).bool = (ev S e).bool

def T (e : E) : Prop := isList e = true ∨ ∀ s, wf s e = true → (pr e).st = .ok → Tc S s e

def DeepT (e : E) : Prop := T S e ∧ ∀ c ∈ kids e, (T S c ∧ ∀ c' ∈ kids c, T S c')

def MT (e : E) : Prop := DeepT S e ∧ ∀ h ∈ toList e, DeepT S h

theorem T_elim (e : E) (ht : T S e) (hl : isList e = false) (s : Srt) (hw : wf s e = true)
    (hs : (pr e).st = .ok) : Tc S s e := by
  rcases ht with h | h
  · rw [hl] at h; cases h
  · exact h s hw hs

theorem Tc_num (s : Srt) (e : E) (h : Tc S s e) : (evD S (pr e).doc).num = (ev S e).num := by
  cases s
  · exact h
  · exact h.1
  · exact h.1

theorem ev_nums_list (l : E) (hp : proper l = true) :
    (ev S l).nums = (toList l).map (fun h => (ev S h).num) ∧
      (ev S l).bools = (toList l).map (fun h => (ev S h).bool) := by
  induction l with
  | nil => simp [ev, toList]
  | cons h t _ iht =>
      simp only [proper] at hp
      simp [ev, toList, (iht hp).1, (iht hp).2]
  | _ => simp [proper] at hp

theorem evD_nums_list (l : E) (hp : proper l = true) :
    (evD S (pr l).doc).nums = (toList l).map (fun h => (evD S (pr h).doc).num) := by
  induction l with
  | nil => simp [pr, okDoc, evD, toList]
  | cons h t _ iht =>
      simp only [proper] at hp
      simp [pr, evD, toList, iht hp]
  | _ => simp [proper] at hp

/-! ## sums -/

theorem addStep_num (acc : Option Doc) (i : Item)
    (hi : PyOK i.doc = true ∧ 40 ≤ level i.doc) (hprec : 40 ≤ prec i.e) :
    ∃ r, addStep acc i = some r ∧
      (evD S r).num = (match acc with | none => 0 | some a => (evD S a).num) + (evD S i.doc).num := by
  have hbr : decide (prec i.e < 40) = false := by simp; omega
  cases acc with
  | none =>
      simp only [addStep, hbr, Bool.false_eq_true, if_false]
      by_cases hs : startsMinus i.doc = true
      · simp only [hs, if_true]; exact ⟨_, rfl, by simp⟩
      · simp only [hs, Bool.false_eq_true, if_false]; exact ⟨_, rfl, by simp⟩
  | some a =>
      simp only [addStep, hbr, Bool.false_eq_true, if_false]
      by_cases hs : startsMinus i.doc = true
      · simp only [hs, if_true]
        exact ⟨_, rfl, peelSplice_num S i.doc hi.1 hi.2 hs a⟩
      · simp only [hs, Bool.false_eq_true, if_false]
        exact ⟨_, rfl, spliceSum_plus_num S a i.doc⟩

theorem foldl_addStep_num (items : List Item) : ∀ acc,
    (∀ i ∈ items, (PyOK i.doc = true ∧ 40 ≤ level i.doc) ∧ 40 ≤ prec i.e) → items ≠ [] →
    ∃ r, items.foldl addStep acc = some r ∧
      (evD S r).num = (match acc with | none => 0 | some a => (evD S a).num) +
        sumK (items.map (fun i => (evD S i.doc).num)) := by
  induction items with
  | nil => intro _ _ h; exact absurd rfl h
  | cons i is ih =>
      intro acc hall _
      obtain ⟨r, hr, hv⟩ := addStep_num S acc i (hall i (by simp)).1 (hall i (by simp)).2
      simp only [List.foldl_cons, hr, List.map_cons, sumK]
      cases is with
      | nil => exact ⟨r, rfl, by simp [sumK, hv]⟩
      | cons j js =>
          obtain ⟨r2, hr2, hv2⟩ := ih (some r) (fun k hk => hall k (by simp [hk])) (by simp)
          exact ⟨r2, hr2, by rw [hv2]; simp only [hv]; ring⟩

theorem addDoc_num (items : List Item) (hne : items ≠ [])
    (hall : ∀ i ∈ items, (PyOK i.doc = true ∧ 40 ≤ level i.doc) ∧ 40 ≤ prec i.e) :
    (evD S (addDoc items)).num = sumK (items.map (fun i => (evD S i.doc).num)) := by
  obtain ⟨r, hr, hv⟩ := foldl_addStep_num S items none hall hne
  simp only [addDoc, hr, Option.getD_some, hv]; simp

/-! ## `and` / `or` chains -/

theorem andChain_val (i j : Item) (js : List Item) :
    (evD S (boolChain spliceAnd 30 (i :: j :: js))).bool = ((i :: j :: js).map (fun k => (evD S k.doc).bool)).all id ∧
      (evD S (boolChain spliceAnd 30 (i :: j :: js))).num =
        b2k (((i :: j :: js).map (fun k => (evD S k.doc).bool)).all id) := by
  have hf : ∀ (l : List Item) (acc : Doc),
      (evD S (l.foldl (fun acc k => spliceAnd acc (bracket k.e k.doc 30)) acc)).bool =
        ((evD S acc).bool && (l.map (fun k => (evD S k.doc).bool)).all id) ∧
      (l ≠ [] → (evD S (l.foldl (fun acc k => spliceAnd acc (bracket k.e k.doc 30)) acc)).num =
        b2k ((evD S acc).bool && (l.map (fun k => (evD S k.doc).bool)).all id)) := by
    intro l; induction l with
    | nil => intro acc; simp
    | cons k ks ih =>
        intro acc
        have h1 := spliceAnd_bool S acc (bracket k.e k.doc 30)
        have h2 := ih (spliceAnd acc (bracket k.e k.doc 30))
        simp only [List.foldl_cons, List.map_cons, List.all_cons, id]
        refine ⟨by rw [h2.1, h1.1, evD_bracket, Bool.and_assoc], fun _ => ?_⟩
        cases ks with
        | nil => simp [h1.2, evD_bracket]
        | cons _ _ => rw [h2.2 (by simp), h1.1, evD_bracket, Bool.and_assoc]
  have := hf (j :: js) (bracket i.e i.doc 30)
  simp only [boolChain, List.map_cons, List.all_cons, id] at this ⊢
  rw [evD_bracket] at this
  exact ⟨this.1, this.2 (by simp)⟩

theorem orChain_val (i j : Item) (js : List Item) :
    (evD S (boolChain spliceOr 20 (i :: j :: js))).bool = ((i :: j :: js).map (fun k => (evD S k.doc).bool)).any id ∧
      (evD S (boolChain spliceOr 20 (i :: j :: js))).num =
        b2k (((i :: j :: js).map (fun k => (evD S k.doc).bool)).any id) := by
  have hf : ∀ (l : List Item) (acc : Doc),
      (evD S (l.foldl (fun acc k => spliceOr acc (bracket k.e k.doc 20)) acc)).bool =
        ((evD S acc).bool || (l.map (fun k => (evD S k.doc).bool)).any id) ∧
      (l ≠ [] → (evD S (l.foldl (fun acc k => spliceOr acc (bracket k.e k.doc 20)) acc)).num =
        b2k ((evD S acc).bool || (l.map (fun k => (evD S k.doc).bool)).any id)) := by
    intro l; induction l with
    | nil => intro acc; simp
    | cons k ks ih =>
        intro acc
        have h1 := spliceOr_bool S acc (bracket k.e k.doc 20)
        have h2 := ih (spliceOr acc (bracket k.e k.doc 20))
        simp only [List.foldl_cons, List.map_cons, List.any_cons, id]
        refine ⟨by rw [h2.1, h1.1, evD_bracket, Bool.or_assoc], fun _ => ?_⟩
        cases ks with
        | nil => simp [h1.2, evD_bracket]
        | cons _ _ => rw [h2.2 (by simp), h1.1, evD_bracket, Bool.or_assoc]
  have := hf (j :: js) (bracket i.e i.doc 20)
  simp only [boolChain, List.map_cons, List.any_cons, id] at this ⊢
  rw [evD_bracket] at this
  exact ⟨this.1, this.2 (by simp)⟩

/-! ## Piecewise -/

theorem pwInner_val (items : List Item) (hst : (pwInner items).1 = .ok)
    (hall : ∀ i ∈ items, i.st = .ok → (evD S i.doc).num = (ev S i.e).num ∧
      (isTruePair i.e = false → (evD S i.base).bool = (ev S i.e).bool))
    (htrue : ∀ i ∈ items, isTruePair i.e = true → (ev S i.e).bool = true) :
    (evD S (pwInner items).2).num =
      pwVal (evD S nanDoc).num (items.map (fun i => (ev S i.e).num)) (items.map (fun i => (ev S i.e).bool)) := by
  induction items with
  | nil => simp [pwInner, pwVal]
  | cons i is ih =>
      simp only [pwInner] at hst ⊢
      split
      next ht =>
        simp only [ht, if_true] at hst
        simp [pwVal, htrue i (by simp) ht, (hall i (by simp) hst).1]
      next ht =>
        simp only [ht, Bool.false_eq_true, if_false, join_ok] at hst
        have hi := hall i (by simp) hst.1
        have := ih hst.2 (fun j hj => hall j (by simp [hj])) (fun j hj => htrue j (by simp [hj]))
        simp only [List.map_cons, pwVal, evD, evD_paren, this, hi.1, hi.2 (by simpa using ht)]

end C11
