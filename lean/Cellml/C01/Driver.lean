import Cellml.Basic.Sexp
import Cellml.Units.Wire
import Cellml.Load.Loader

/-! Channel C01 (also usable by C13/C15/C17):
    `(C01 load (units u…) (comps c…) (encaps e…) (conns k…) (free q))`
      u = `(base 0 "name")` | `(def 0 "name" (elem…))`
      c = `("name" (vars ("v" "units" pub priv init cmeta)…) (eqs (lhs rhs)…))`, init = `none | (some p/q)`
      e = `(none|(some "parent") "component")`,  k = `("c1" "v1" "c2" "v2")`
      expressions: `(num p/q "unit") (var "x") (diff "x" "t") (add a b) (sub a b) (mul a b) (div a b) (neg a) (pow a n)`
    → `(ok (eqs (lhs (leaf…))…) (vars (name init cmeta)…) (values (name p/q)…) (derivs (name p/q)…) (roots (name root)…))`
    | `(err Class "what")`. -/
namespace C01
open Sexp Load

def iface? : Sexp → Option Iface
  | .atom "in" => some .inn
  | .atom "out" => some .out
  | .atom "none" => some .none
  | _ => none

partial def expr? : Sexp → Option (Expr String String)
  | .list [.atom "num", q, u] => do some (.num (← rat? q) (← atomOf? u))
  | .list [.atom "var", x] => do some (.var (← atomOf? x))
  | .list [.atom "diff", x, t] => do some (.diff (← atomOf? x) (← atomOf? t))
  | .list [.atom "add", a, b] => do some (.add (← expr? a) (← expr? b))
  | .list [.atom "sub", a, b] => do some (.sub (← expr? a) (← expr? b))
  | .list [.atom "mul", a, b] => do some (.mul (← expr? a) (← expr? b))
  | .list [.atom "div", a, b] => do some (.div (← expr? a) (← expr? b))
  | .list [.atom "neg", a] => do some (.neg (← expr? a))
  | .list [.atom "pow", a, n] => do some (.powi (← expr? a) (← int? n))
  | _ => none

def lhs? : Sexp → Option (Lhs String)
  | .list [.atom "var", x] => do some (.var (← atomOf? x))
  | .list [.atom "diff", x, t] => do some (.diff (← atomOf? x) (← atomOf? t))
  | _ => none

def optRat? : Sexp → Option (Option Rat)
  | .atom "none" => some none
  | .list [.atom "some", q] => do some (some (← rat? q))
  | _ => none

def optStr? : Sexp → Option (Option String)
  | .atom "none" => some none
  | .list [.atom "some", s] => do some (some (← atomOf? s))
  | _ => none

def var? : Sexp → Option VarDecl
  | .list [n, u, pub, priv, init, cm] => do
      some ⟨← atomOf? n, ← atomOf? u, ← iface? pub, ← iface? priv, ← optRat? init, ← optStr? cm⟩
  | _ => none

def eqn? : Sexp → Option (Eqn String String)
  | .list [l, r] => do some ⟨← lhs? l, ← expr? r⟩
  | _ => none

def comp? : Sexp → Option Comp
  | .list [n, .list (.atom "vars" :: vs), .list (.atom "eqs" :: es)] => do
      some ⟨← atomOf? n, ← vs.mapM var?, ← es.mapM eqn?⟩
  | _ => none

def unit? : Sexp → Option UnitDecl
  | .list [.atom "base", _, n] => do some (.base (← atomOf? n))
  | .list [.atom "def", _, n, es] => do some (.derived (← atomOf? n) (← Units.Wire.elems? es))
  | _ => none

def encap? : Sexp → Option (Option String × String)
  | .list [p, c] => do some (← optStr? p, ← atomOf? c)
  | _ => none

def conn? : Sexp → Option Conn
  | .list [a, b, c, d] => do some ⟨← atomOf? a, ← atomOf? b, ← atomOf? c, ← atomOf? d⟩
  | _ => none

def doc? : List Sexp → Option Doc
  | .list (.atom "units" :: us) :: .list (.atom "comps" :: cs) :: .list (.atom "encaps" :: es) ::
      .list (.atom "conns" :: ks) :: _ => do
      some { units := ← us.mapM unit?, comps := ← cs.mapM comp?, encaps := ← es.mapM encap?, conns := ← ks.mapM conn? }
  | _ => none

def flatName (v : VRef) : String := v.1 ++ "$" ++ v.2

def lhsName : Lhs VRef → String
  | .var a => flatName a
  | .diff x t => "d(" ++ flatName x ++ ")/d(" ++ flatName t ++ ")"

def ofOptRat : Option Rat → Sexp
  | none => .atom "none"
  | some q => .list [.atom "some", ofRat q]

def ofOptStr : Option String → Sexp
  | none => .atom "none"
  | some s => .list [.atom "some", .str s]

def errSexp (e : Err) : Sexp := .list [.atom "err", .atom e.className, .str e.what]

def loadReply (doc : Doc) (free : Rat) : Sexp :=
  match load doc with
  | .error e => errSexp e
  | .ok F =>
    let tb := evalFlat F free
    let eqs := F.eqs.map (fun e => Sexp.list [.str (lhsName e.lhs), .list (e.rhs.leaves.map (fun l => .str (lhsName l)))])
    let vars := F.vars.map (fun v => Sexp.list [.str (flatName v.ref), ofOptRat v.init, ofOptStr v.cmeta])
    let values := F.eqs.filterMap (fun e => match e.lhs with
      | .var a => some (Sexp.list [.str (flatName a), ofRat (tget tb (.v a))])
      | _ => none)
    let derivs := F.eqs.filterMap (fun e => match e.lhs with
      | .diff x _ => some (Sexp.list [.str (flatName x), ofRat (tget tb (.d x))])
      | _ => none)
    .list [.atom "ok", .list (.atom "eqs" :: eqs), .list (.atom "vars" :: vars), .list (.atom "values" :: values),
           .list (.atom "derivs" :: derivs)]

def handle (args : List Sexp) : Sexp :=
  match args with
  | .atom "load" :: rest =>
      match doc? rest with
      | none => .atom "bad-document"
      | some doc =>
          let free := match rest.getLast? with
            | some (.list [.atom "free", q]) => (rat? q).getD 0
            | _ => 0
          loadReply doc free
  | _ => .atom "bad-request"

end C01
