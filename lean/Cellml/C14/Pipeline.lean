import Cellml.C14.Binary64
import Cellml.Generated.Tables

/-! # C14 model, part 2: the stages a number passes through in cellmlmanip, as functions on bit patterns.

    | stage                                  | source                                   | model            |
    |----------------------------------------|------------------------------------------|------------------|
    | plain `<cn>`                           | parser.py `_cn_handler`: `float(text.strip())`                | `cnPlain`     |
    | `<cn type="e-notation">m<sep/>e</cn>`  | `float('%se%d' % (m.strip(), int(e.strip())))` — ONE parse   | `cnENotation` |
    | `initial_value="…"`                    | model.py `Variable.__init__`: `float(initial_value)`          | `initialValue`|
    | `Quantity._value`, `float(quantity)`   | model.py 1078-1111: the float object is stored and returned   | `quantityValue` |
    | `get_value`                            | model.py 331-370: `float(initial_value)` / `float(rhs)`       | `getValue`    |
    | `d.evalf(FLOAT_PRECISION)`             | model.py 513-515 → `Quantity._eval_evalf(prec)` = `sympy.Float(self._value, prec)` | `evalfStage` |
    | `float(Float)`                         | printer.py `_print_Float`                                      | inside `evalfStage` (`toFloat`) |
    | `str(float)`                           | printer.py `_print_float`: any text that parses back           | `Emits`       |

    sympy's route for `evalf(n)` on a `Quantity` (sympy 1.14, read from its source and observed):
    `prec = dps_to_prec(n)`; `_eval_evalf(prec + 4)` is called; it passes that *bit* count as the `dps` argument of
    `sympy.Float`, which therefore holds the double with `dps_to_prec(prec + 4)` bits (216 for n = 17); `evalf`
    rounds the result to its working precision `prec + 4` (64) and then to `prec` bits (60) — two roundings, visible as
    double rounding at small `n`; `float()` re-rounds to 53 bits (`_as_mpf_val(53)`) and calls `math.ldexp`.
    Each of these is a rounding step of the model (`roundSig`); the theorems show that none of them rounds when the
    translated `FLOAT_PRECISION` gives at least 53 bits. A zero of either sign becomes sympy's integer `Zero`
    (mpmath has no signed zero): the sign bit of `-0.0` is lost there — modelled as it is. -/

namespace C14

/-! ## sympy's precision conversion -/

/-- `sympy.core.evalf.dps_to_prec`: `max(1, int(round((int(n)+1)*3.3219280948873626)))`, as exact decimal arithmetic
    (agreement with the floating-point evaluation is part of the correspondence check) -/
def dpsToPrec (dps : Nat) : Nat :=
  max 1 (roundDivEven ((dps + 1) * 33219280948873626) (10 ^ 16))

/-- the binary precision `evalf(FLOAT_PRECISION)` asks for -/
def evalfPrec (fp : Nat) : Nat := dpsToPrec fp

/-- the binary precision of the `sympy.Float` built inside `Quantity._eval_evalf` (bits passed as dps, 4 guard bits) -/
def innerPrec (fp : Nat) : Nat := dpsToPrec (dpsToPrec fp + 4)

/-! ## binary floats of arbitrary precision (mpmath's `(man, exp)`, scaled by 2^1074 so that `exp ≥ 0`) -/

/-- number of bits of `m` (0 for 0) -/
def bitLen (m : Nat) : Nat := if m = 0 then 0 else Nat.log2 m + 1

/-- mpmath `normalize`: round the significand to `p` bits, nearest-even; unchanged when it already fits -/
def roundSig (p : Nat) (mj : Nat × Nat) : Nat × Nat :=
  let (m, j) := mj
  if bitLen m ≤ p then (m, j)
  else
    let s := bitLen m - p
    (roundDivEven m (2 ^ s), j + s)

/-- `(man, exp)` of a finite magnitude pattern, scaled: value · 2^1074 = man · 2^exp -/
def decodeScaled (b : Nat) : Nat × Nat :=
  let e := b / 2 ^ 52
  let f := b % 2 ^ 52
  if e = 0 then (f, 0) else (2 ^ 52 + f, e - 1)

/-- `math.ldexp(man, exp)`: the double nearest to `man · 2^exp` (scaled) -/
def ldexpScaled (mj : Nat × Nat) : Nat := ratToBits (mj.1 * 2 ^ mj.2) (2 ^ 1074)

/-- `Float.__float__` = `mlib.to_float(self._as_mpf_val(53))`: round to 53 bits, then `ldexp` -/
def toFloat (mj : Nat × Nat) : Nat := ldexpScaled (roundSig 53 mj)

/-- `float(quantity.evalf(fp))` on bit patterns -/
def evalfStage (fp : Nat) (b : Nat) : Nat :=
  if !isFiniteBits b then b                         -- inf/nan: outside the property (sympy turns them into oo/nan)
  else
    let mj := decodeScaled (magOf b)
    if mj.1 = 0 then 0                               -- sympy `Zero`: the sign of -0.0 is dropped here
    else
      let wide := roundSig (innerPrec fp) mj          -- sympy.Float(self._value, prec + 4): bits taken as digits
      let guard := roundSig (evalfPrec fp + 4) wide   -- evalf: `re._to_mpmath(prec + 4)` (working precision)
      let kept := roundSig (evalfPrec fp) guard       -- evalf: `Float._new(re, prec)` (requested precision)
      withSign (isNeg b) (toFloat kept)

/-! ## the stages -/

def cnPlain (text : List Char) : Option Nat := decToBitsL (strip text)

/-- Python `int(text)` for ASCII decimal integers: `ws [sign] digits ws` -/
def parseIntL (cs : List Char) : Option Int :=
  let (neg, u) := takeSign (strip cs)
  let (ds, rest) := spanDigits u
  if ds.isEmpty || !rest.isEmpty then none
  else
    let v : Int := digitsToNat ds
    some (if neg then -v else v)

def digitChar (d : Nat) : Char := Char.ofNat (48 + d)

/-- decimal digits of `n`, most significant first (fuel = n + 1 is always enough) -/
def natDigitsAux : Nat → Nat → List Char → List Char
  | 0, _, acc => acc
  | fuel + 1, n, acc =>
    let acc' := digitChar (n % 10) :: acc
    if n / 10 = 0 then acc' else natDigitsAux fuel (n / 10) acc'

def natDigits (n : Nat) : List Char := natDigitsAux (n + 1) n []

/-- Python `'%d' % z` -/
def renderInt (z : Int) : List Char :=
  if z < 0 then '-' :: natDigits z.natAbs else natDigits z.natAbs

/-- the text cellmlmanip hands to `float()` for an e-notation `<cn>`: `'%se%d' % (mantissa.strip(), int(exponent))` -/
def enotationText (mant : List Char) (z : Int) : List Char := strip mant ++ 'e' :: renderInt z

def cnENotation (mant expo : List Char) : Option Nat :=
  match parseIntL expo with
  | none => none
  | some z => decToBitsL (enotationText mant z)

def initialValue (text : List Char) : Option Nat := decToBitsL text

/-- `Quantity.__init__` stores the float object, `Quantity.__float__` returns `float(self._value)` -/
def quantityValue (b : Nat) : Nat := b

/-- `Model.get_value`: `float(variable.initial_value)` for a state, `float(rhs)` for a variable defined by a number -/
def getValue (b : Nat) : Nat := quantityValue b

/-- the number in the unit-stripped equation, read back with `float()` -/
def strippedValue (b : Nat) : Nat := evalfStage Cellml.Gen.floatPrecision b

/-- the printer may emit any text that `float()` reads back as the same double (`str(float)` is such a text) -/
def Emits (b : Nat) (text : List Char) : Prop := decToBitsL text = some b

/-- how a literal is written in the document -/
inductive Source where
  | plain (text : List Char)
  | enotation (mant expo : List Char)
  | initial (text : List Char)

def sourceBits : Source → Option Nat
  | .plain t => cnPlain t
  | .enotation m e => cnENotation m e
  | .initial t => initialValue t

/-- the exact text that is parsed (once) for a source -/
def sourceText : Source → Option (List Char)
  | .plain t => some (strip t)
  | .enotation m e => (parseIntL e).map (enotationText m)
  | .initial t => some t

/-- everything observable about one literal: quantity, get_value, stripped equation -/
structure Observed where
  quantity : Nat
  getValue : Nat
  stripped : Nat
deriving Repr, DecidableEq

def pipeline (s : Source) : Option Observed :=
  (sourceBits s).map fun b =>
    { quantity := quantityValue b, getValue := getValue (quantityValue b), stripped := strippedValue (quantityValue b) }

/-! ## the contrast: what a two-step reading of e-notation would compute -/

/-- `float(mantissa) * 10**exponent` for `0 ≤ exponent ≤ 22` (where `10**exponent` is an exact double): the mantissa is
    rounded, then the exact product of the two doubles is rounded again -/
def twoStep (mant : List Char) (expo : Nat) : Option Nat :=
  match decToBitsL mant with
  | none => none
  | some b =>
    some (withSign (isNeg b) (ratToBits (scaledOfBits (magOf b) * 10 ^ expo) (2 ^ 1074)))

end C14
