import Cellml.Props.C16
import Cellml.Props.C07Gen
import Cellml.Tie.GenBIso

/-! # C16 about the GENERATED code — `prefix_injective`, `frame_run` (with `frame`, the probe forms,
    `names_unknown_elsewhere`), `shared_convert` of `Props/C16.lean`, restated for the definitions generated from the
    source text of `cellmlmanip/units.py`: `Gen.Units.prefixName`, `Gen.UnitsInit.init`, `Gen.Units.addUnit`,
    `Gen.Units.addBaseUnit`, `Gen.Units.getUnit`, `Gen.Units.isDefined`, `Gen.Units.getConversionFactor`.
    The process over these methods (`genStep`, `genRun`, `genObsStore`, `genProbe`, `genCrossFactor`) is defined in
    `Tie/GenBIso.lean`.

    * `prefix_injective`, `shared_convert`, and the equality of the OBSERVATIONS with the hand model's: no tie
      hypothesis (`prefixName_tie`, `getUnit_tie`, `isDefined_tie`, `getConversionFactor_tie` are unconditional).
    * `frame`, `frame_run`, … carry `OpDom` / `RunDom`: the domain of `addUnit_tie` for every `add_unit` of the run
      (`hsup`: no `dimensionless` mixed with dimensional units, and `hdef`: no multiplier ≤ 0 — the hand model ABSTAINS
      there). The hypotheses of the original theorems do NOT imply it; `genStep_differs_dimensionless_mixed` shows the
      generated step really differs from `Iso.step` outside. For `newStore`, `add_base_unit`, definitions refused for an
      offset or a malformed number there is no condition — and, since the repair of the hand model
      (notes/reports/MODELFIX_Units.md), none for unknown names with a total exponent of zero either: what was
      `genStep_differs_zero_exponent` is now the equality `genStep_agrees_zero_exponent`. -/

namespace Cellml.Props.C16Gen
open Units Units.Wire Iso PMap Cellml.Gen Cellml.Tie Cellml.Tie.PUnits Cellml.Tie.PGenB

/-! ### names -/

/-- the generated `_prefix_name` is injective on (store id, user name): the `UnitStore` objects of two stores
    (whatever registries and rules they hold) never map two different (store, name) pairs to one registry key -/
theorem prefix_injective (sti stj : Store) (regi regj : Registry) (rulesi rulesj : List Rule) (n₁ n₂ : String)
    (h₁ : Cellml.Gen.cellmlUnits.contains n₁ = false) (h₂ : Cellml.Gen.cellmlUnits.contains n₂ = false)
    (hne : (sti.id, n₁) ≠ (stj.id, n₂)) :
    Id.run (Gen.Units.prefixName (storeObj sti regi rulesi) n₁) ≠
      Id.run (Gen.Units.prefixName (storeObj stj regj rulesj) n₂) := by
  rw [prefixName_tie, prefixName_tie]
  exact C16.prefix_injective sti.id stj.id n₁ n₂ h₁ h₂ hne

/-- … in particular for two stores built by the generated `__init__` in one process: the ids it assigns are the
    positions in the store list (`init_tie`), so different stores ⇒ different keys for every pair of user names -/
theorem prefix_injective_created (w : World) (share₁ share₂ : Option Nat) (self₁ self₂ : StoreRef)
    (o₁ o₂ : StoreRef) (n₁ n₂ : Nat) (regs₁ regs₂ : List Registry)
    (hc₁ : UnitsInit.init self₁ (shareArg w share₁) w.stores.length w.regs = .ok (o₁, n₁, regs₁))
    (hc₂ : UnitsInit.init self₂ (shareArg (w.newStore share₁) share₂) (w.newStore share₁).stores.length
      (w.newStore share₁).regs = .ok (o₂, n₂, regs₂))
    (x y : String) (hx : Cellml.Gen.cellmlUnits.contains x = false) (_hy : Cellml.Gen.cellmlUnits.contains y = false) :
    o₁._prefix ++ x ≠ o₂._prefix ++ y := by
  obtain ⟨p₁, h₁, hs₁, hp₁⟩ := init_tie w share₁ self₁
  obtain ⟨p₂, h₂, _, hp₂⟩ := init_tie (w.newStore share₁) share₂ self₂
  rw [hc₁] at h₁; rw [hc₂] at h₂
  simp only [Except.ok.injEq, Prod.mk.injEq] at h₁ h₂
  rw [h₁.1, h₂.1, init_prefix p₁ x hx, init_prefix p₂ y _hy]
  apply C16.prefix_injective _ _ _ _ hx _hy
  intro heq
  have hid := (Prod.mk.inj heq).1
  rw [hp₁, hp₂, hs₁] at hid
  simp at hid

/-! ### frame -/

/-- **frame** for the generated methods: an operation that does not act on store `j` leaves everything observable
    through `j` (generated `get_unit` of every known name, `_known_units`) unchanged -/
theorem frame (w : World) (h : Inv w) (op : Op) (j : Nat) (hj : j < w.stores.length) (hop : op.actsOn j = false)
    (hdom : OpDom w op) : genObsStore (genStep w op) j = genObsStore w j := by
  rw [genStep_eq w op hdom, genObsStore_eq, genObsStore_eq, C16.frame w h op j hj hop]

theorem frame_probe (w : World) (h : Inv w) (op : Op) (j : Nat) (hj : j < w.stores.length)
    (hop : op.actsOn j = false) (hdom : OpDom w op) (name : String) :
    genProbe (genStep w op) j name = genProbe w j name := by
  rw [genStep_eq w op hdom, genProbe_eq, genProbe_eq, C16.frame_probe w h op j hj hop]

/-- **frame_run** for the generated methods: any list of operations none of which acts on store `j` — generated
    `__init__`, `add_unit`, `add_base_unit` on other stores, successful or raising — leaves `genObsStore j` unchanged -/
theorem frame_run (w : World) (h : Inv w) (ops : List Op) (j : Nat) (hj : j < w.stores.length)
    (hops : ∀ op ∈ ops, op.actsOn j = false) (hdom : RunDom w ops) :
    genObsStore (genRun w ops) j = genObsStore w j := by
  rw [genRun_eq ops w hdom, genObsStore_eq, genObsStore_eq, C16.frame_run w h ops j hj hops]

theorem frame_run_probe (w : World) (h : Inv w) (ops : List Op) (j : Nat) (hj : j < w.stores.length)
    (hops : ∀ op ∈ ops, op.actsOn j = false) (hdom : RunDom w ops) (name : String) :
    genProbe (genRun w ops) j name = genProbe w j name := by
  rw [genRun_eq ops w hdom, genProbe_eq, genProbe_eq, C16.frame_run_probe w h ops j hj hops]

/-- the generated `get_unit` of store `j` on a name only other stores define raises, and the generated `is_defined`
    says no, whatever the others do -/
theorem names_unknown_elsewhere (w : World) (h : Inv w) (ops : List Op) (j : Nat) (hj : j < w.stores.length)
    (hops : ∀ op ∈ ops, op.actsOn j = false) (hdom : RunDom w ops) (name : String) (stj : Store) (rj : Nat)
    (reg : Registry) (hw : w.regOf j = some (stj, rj, reg))
    (hunknown : Id.run (Gen.Units.isDefined (storeObj stj reg []) name) = false) :
    genProbe (genRun w ops) j name = some (false, none) := by
  rw [isDefined_tie] at hunknown
  rw [genRun_eq ops w hdom, genProbe_eq]
  exact C16.names_unknown_elsewhere w h ops j hj hops name stj rj reg hw hunknown

/-! ### conversion across stores -/

theorem genGetUnit_ok_iff (st : Store) (reg : Registry) (rules : List Rule) (x : String) (a : Container) :
    Gen.Units.getUnit (storeObj st reg rules) x = .ok ⟨a⟩ ↔ Units.getUnit st x = .ok a := by
  rw [getUnit_tie]
  cases Units.getUnit st x <;> simp [errClass, Except.map]

/-- **shared_convert** for the generated methods: units handed out (generated `get_unit`) by two stores that share a
    registry convert (generated `get_conversion_factor` of store `i`) exactly as within one store — the result is
    `get_conversion_factor` on the shared registry, its value is the magnitude of the generated `convert(1 * a, b)`
    — and both units are defined in the shared registry: every law of `Props/C07Gen.lean` applies across stores -/
theorem shared_convert (w : World) (h : Inv w) (i j ri : Nat) (sti stj : Store) (reg : Registry) (x y : String)
    (a b : Container) (hi : w.stores[i]? = some (sti, ri)) (hj : w.stores[j]? = some (stj, ri))
    (hr : w.regs[ri]? = some reg)
    (ha : Gen.Units.getUnit (storeObj sti reg []) x = .ok ⟨a⟩)
    (hb : Gen.Units.getUnit (storeObj stj reg []) y = .ok ⟨b⟩) :
    genCrossFactor w i x j y = Gen.Units.getConversionFactor (storeObj sti reg []) ⟨a⟩ ⟨b⟩ ∧
    (∀ f, (genCrossFactor w i x j y).map cfScale = .ok f ↔ C07Gen.conv1 sti reg a b = .ok (C07Gen.num f b)) ∧
    allKnown reg a = true ∧ allKnown reg b = true := by
  have ha' := (genGetUnit_ok_iff sti reg [] x a).mp ha
  have hb' := (genGetUnit_ok_iff stj reg [] y b).mp hb
  have hx : genCrossFactor w i x j y = Gen.Units.getConversionFactor (storeObj sti reg []) ⟨a⟩ ⟨b⟩ := by
    simp only [genCrossFactor, regOf_eq_some.mpr ⟨hi, hr⟩, regOf_eq_some.mpr ⟨hj, hr⟩, ha, hb, bind, Except.bind,
      ne_eq, not_true_eq_false, if_false]
  refine ⟨hx, ?_, getUnit_allKnown w h i ri sti reg hi hr x a ha', getUnit_allKnown w h j ri stj reg hj hr y b hb'⟩
  intro f
  rw [hx, genFactor_plain, genConvert_plain_ok]
  cases hf : factor reg a b with
  | error e => simp [Except.map]
  | ok f' =>
    by_cases h0 : f' = []
    · subst h0; simp [Except.map, cfScale]
    · simp [Except.map, cfScale, h0]

/-- the model-level form: the generated cross-store factor is the hand model's `Iso.crossFactor` -/
theorem shared_convert_model (w : World) (i j ri : Nat) (sti stj : Store) (reg : Registry) (x y : String)
    (a b : Container) (hi : w.stores[i]? = some (sti, ri)) (hj : w.stores[j]? = some (stj, ri))
    (hr : w.regs[ri]? = some reg) (ha : Units.getUnit sti x = .ok a) (hb : Units.getUnit stj y = .ok b) (f : Scale) :
    (genCrossFactor w i x j y).map cfScale = .ok f ↔ crossFactor w i x j y = .ok f := by
  have ha' := (genGetUnit_ok_iff sti reg [] x a).mpr ha
  have hb' := (genGetUnit_ok_iff stj reg [] y b).mpr hb
  rw [crossFactor_shared w i j ri sti stj reg x y a b hi hj hr ha hb]
  simp only [genCrossFactor, regOf_eq_some.mpr ⟨hi, hr⟩, regOf_eq_some.mpr ⟨hj, hr⟩, ha', hb', bind, Except.bind,
    ne_eq, not_true_eq_false, if_false]
  show (Gen.Units.getConversionFactor (storeObj sti reg []) ⟨a⟩ ⟨b⟩).map cfScale = .ok f ↔ _
  rw [genFactor_plain]
  cases hf : factor reg a b with
  | error e => simp [Except.map]
  | ok f' =>
    by_cases h0 : f' = []
    · subst h0; simp [Except.map, cfScale]
    · simp [Except.map, cfScale, h0]

/-! ### non-vacuity, and where the generated step leaves the hand model -/

/-- the demo process of `Props/C16.lean` lies inside the tie domain: `frame_run` applies to it -/
example : RunDom {} C16.demoOps := by decide +kernel

example : (genRun {} C16.demoOps).stores.map (fun p => (p.1.id, p.1.known, p.2)) =
    [(0, ["mV"], 0), (1, ["widget", "mV"], 0), (2, ["kW"], 1)] := by decide +kernel

example : (genCrossFactor (genRun {} C16.demoOps) 0 "mV" 1 "mV").map cfScale = .ok [(2, 3), (5, 3)] := by
  decide +kernel

/-- `add_unit('x', '((nosuch)**0)')` — pint evaluates the unknown name and raises `UndefinedUnitError`; the hand model
    (since its repair) looks every identifier up as well: the generated step and `Iso.step` are the SAME state, in which
    `x` is not defined. (Before the repair `Iso.step` defined `x`: `genStep_differs_zero_exponent`.) -/
theorem genStep_agrees_zero_exponent :
    let w := run {} [.newStore none]
    let op := Op.addUnit 0 "x" [{ units := "nosuch", exponent := some "0" }]
    genStep w op = step w op ∧ (step w op).stores.map (·.1.known) = [[]] ∧
      errClass addErrClass (Units.addUnit builtinRegistry ⟨0, []⟩ "x" [{ units := "nosuch", exponent := some "0" }]) =
        .error ⟨"UndefinedUnitError"⟩ :=
  ⟨genStep_eq _ _ (by decide +kernel), by decide +kernel, by decide +kernel⟩

/-- for ANY state: an operation whose definition has a value and does not mix `dimensionless` with dimensional units is
    inside the domain, whatever names it mentions (no condition on the registry is left in `OpDom`) -/
theorem opDom_of_value (w : World) (s : Nat) (name : String) (elems : List UnitElem)
    (h : ∀ st ri reg, w.regOf s = some (st, ri, reg) →
      ∃ k c d, defMeaning st.id elems = .ok (k, c, d) ∧ ¬ (norm c ≠ [] ∧ d = true)) :
    OpDom w (.addUnit s name elems) := by
  cases hr : w.regOf s with
  | none => simp only [OpDom, hr]
  | some p =>
    obtain ⟨st, ri, reg⟩ := p
    obtain ⟨k, c, d, hd, hs⟩ := h st ri reg hr
    simp only [OpDom, hr, AddDom, hd]
    exact hs

/-- the order of the tests: `add_unit('metre', '((second)**x)')` is `ValueError: Cannot redefine CellML unit` in the
    code (the name is tested before the expression is evaluated) and in the hand model (before its repair:
    `BadDefinition`); for every name that fails a name test: `PUnits.addUnit_tie_name` -/
example : errClass addErrClass (Units.addUnit builtinRegistry ⟨0, []⟩ "metre" [{ units := "second", exponent := some "x" }]) =
      .error ⟨"ValueError"⟩ ∧
    Gen.Units.addUnit (storeObj ⟨0, []⟩ builtinRegistry []) "metre" ⟨[{ units := "second", exponent := some "x" }], id⟩ =
      .error ⟨"ValueError"⟩ := by
  refine ⟨by decide +kernel, ?_⟩
  exact (addUnit_tie_name ⟨0, []⟩ builtinRegistry [] "metre" _ (by decide +kernel) (Or.inl (by decide +kernel))).1

/-- outside `hsup`: `dimensionless` (carrying the multiplier) times a dimensional unit — the hand model abstains
    (`AddErr.unsupported`, known finding `unit-unusable:dimensionless-times-dimensional`), the code defines the unit. -/
theorem genStep_differs_dimensionless_mixed :
    let w := run {} [.newStore none]
    let op := Op.addUnit 0 "km" [{ units := "dimensionless", multiplier := some "1000" }, { units := "metre" }]
    (genStep w op).stores.map (·.1.known) = [["km"]] ∧ (step w op).stores.map (·.1.known) = [[]] := by
  decide +kernel

end Cellml.Props.C16Gen
