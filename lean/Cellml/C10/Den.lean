import Cellml.Model.Roles

/-! # C10: what a variable's definition denotes at the initial state

    `Den fn M i q`: item `i` (a variable or an expression) has the value `q` when states are at their initial values,
    the free variable is 0, a derivative stands for the right-hand side of its ODE, every other variable for its
    definition, and an uninterpreted application `opq id args` for `fn id vals` where `vals` are the values of its
    argument places (`fn`: the interpretation, `Model/Roles.lean`; every theorem is for ALL interpretations). An
    inductive relation: no fuel, no memo, no evaluation order — the specification `getValue` is measured against.
    Core Lean only. -/

namespace Model

inductive Item | v (n : Nat) | e (x : Expr)

inductive Den (fn : Interp) (M : RModel) : Item → Rat → Prop
  | state {v q} : isState M v = true → initOf M.st v = some q → Den fn M (.v v) q
  | defn {v r q} : isState M v = false → varRhs M v = some r → Den fn M (.e r) q → Den fn M (.v v) q
  | free {v} : isState M v = false → varRhs M v = none → freeVar M = some v → Den fn M (.v v) 0
  | num (q) : Den fn M (.e (.num q)) q
  | var {v q} : Den fn M (.v v) q → Den fn M (.e (.var v)) q
  | deriv {s t r q} : odeRhs M s t = some r → Den fn M (.e r) q → Den fn M (.e (.deriv s t)) q
  | bin {op a b p q r} : Den fn M (.e a) p → Den fn M (.e b) q → applyBin op p q = some r → Den fn M (.e (.bin op a b)) r
  | pow {a n p r} : Den fn M (.e a) p → powInt p n = some r → Den fn M (.e (.pow a n)) r
  /-- an opaque term denotes `fn id vals` when its argument places denote `vals` (one value per place) -/
  | opq {id} {args : List Expr} {vals : List Rat} {r} : vals.length = args.length →
      (∀ (i : Nat) (a : Expr) (p : Rat), args[i]? = some a → vals[i]? = some p → Den fn M (.e a) p) →
      fn id vals = some r → Den fn M (.e (.opq id args)) r

variable {fn : Interp} {M : RModel}

/-- the expressions of a list denote the values of a list, place by place -/
def Dens (fn : Interp) (M : RModel) (args : List Expr) (vals : List Rat) : Prop :=
  vals.length = args.length ∧ ∀ (i : Nat) (a : Expr) (p : Rat), args[i]? = some a → vals[i]? = some p → Den fn M (.e a) p

/-- a definition denotes at most one value -/
theorem den_unique {i : Item} {q q' : Rat} (h : Den fn M i q) (h' : Den fn M i q') : q = q' := by
  induction h generalizing q' with
  | state hs hi =>
    cases h' with
    | state _ hi' => rw [hi] at hi'; exact Option.some.inj hi'
    | defn hs' _ _ => rw [hs] at hs'; cases hs'
    | free hs' _ _ => rw [hs] at hs'; cases hs'
  | defn hs hr _ ih =>
    cases h' with
    | state hs' _ => rw [hs] at hs'; cases hs'
    | defn _ hr' hd' => rw [hr] at hr'; cases hr'; exact ih hd'
    | free _ hr' _ => rw [hr] at hr'; cases hr'
  | free hs hr _ =>
    cases h' with
    | state hs' _ => rw [hs] at hs'; cases hs'
    | defn _ hr' _ => rw [hr] at hr'; cases hr'
    | free _ _ _ => rfl
  | num q => cases h'; rfl
  | var _ ih => cases h' with | var hd' => exact ih hd'
  | deriv ho _ ih =>
    cases h' with
    | deriv ho' hd' => rw [ho] at ho'; cases ho'; exact ih hd'
  | bin _ _ hab iha ihb =>
    cases h' with
    | bin ha' hb' hab' =>
      have := iha ha'; subst this
      have := ihb hb'; subst this
      rw [hab] at hab'; exact Option.some.inj hab'
  | pow _ hp ih =>
    cases h' with
    | pow ha' hp' =>
      have := ih ha'; subst this
      rw [hp] at hp'; exact Option.some.inj hp'
  | @opq _ _ vals _ hl _ hf ih =>
    cases h' with
    | @opq _ _ vals' _ hl' hd' hf' =>
      have : vals = vals' := by
        apply List.ext_getElem (by rw [hl, hl'])
        intro i h1 h2
        have ha : i < _ := hl ▸ h1
        exact ih i _ _ (List.getElem?_eq_getElem ha) (List.getElem?_eq_getElem h1)
          (hd' i _ _ (List.getElem?_eq_getElem ha) (List.getElem?_eq_getElem h2))
      subst this
      rw [hf] at hf'; exact Option.some.inj hf'

-- ------------------------------------------------------------------------------------------------ inversion
theorem den_var_iff {v : Nat} {q : Rat} : Den fn M (.e (.var v)) q ↔ Den fn M (.v v) q :=
  ⟨fun h => by cases h with | var h => exact h, Den.var⟩

theorem den_deriv_iff {s t : Nat} {r : Expr} (ho : odeRhs M s t = some r) {q : Rat} :
    Den fn M (.e (.deriv s t)) q ↔ Den fn M (.e r) q :=
  ⟨fun h => by cases h with | deriv ho' h => rw [ho] at ho'; cases ho'; exact h, Den.deriv ho⟩

theorem not_den_deriv {s t : Nat} (ho : odeRhs M s t = none) (q : Rat) : ¬ Den fn M (.e (.deriv s t)) q := by
  intro h; cases h with | deriv ho' _ => rw [ho] at ho'; cases ho'

theorem den_bin_iff {op : BinOp} {a b : Expr} {r : Rat} :
    Den fn M (.e (.bin op a b)) r ↔ ∃ p q, Den fn M (.e a) p ∧ Den fn M (.e b) q ∧ applyBin op p q = some r :=
  ⟨fun h => by cases h with | bin ha hb hab => exact ⟨_, _, ha, hb, hab⟩,
   fun ⟨_, _, ha, hb, hab⟩ => Den.bin ha hb hab⟩

theorem den_pow_iff {a : Expr} {n : Int} {r : Rat} :
    Den fn M (.e (.pow a n)) r ↔ ∃ p, Den fn M (.e a) p ∧ powInt p n = some r :=
  ⟨fun h => by cases h with | pow ha hp => exact ⟨_, ha, hp⟩, fun ⟨_, ha, hp⟩ => Den.pow ha hp⟩

theorem den_opq_iff {id : String} {args : List Expr} {r : Rat} :
    Den fn M (.e (.opq id args)) r ↔ ∃ vals, Dens fn M args vals ∧ fn id vals = some r :=
  ⟨fun h => by cases h with | opq hl hd hf => exact ⟨_, ⟨hl, hd⟩, hf⟩, fun ⟨_, ⟨hl, hd⟩, hf⟩ => Den.opq hl hd hf⟩

theorem dens_nil_iff {vals : List Rat} : Dens fn M [] vals ↔ vals = [] :=
  ⟨fun h => List.eq_nil_of_length_eq_zero h.1, fun h => by subst h; exact ⟨rfl, fun i a p ha => by simp at ha⟩⟩

theorem dens_cons_iff {a : Expr} {as : List Expr} {vals : List Rat} :
    Dens fn M (a :: as) vals ↔ ∃ p ps, vals = p :: ps ∧ Den fn M (.e a) p ∧ Dens fn M as ps := by
  constructor
  · rintro ⟨hl, hd⟩
    cases vals with
    | nil => simp at hl
    | cons p ps =>
      refine ⟨p, ps, rfl, hd 0 a p rfl rfl, by simpa using hl, fun i x y hx hy => hd (i + 1) x y ?_ ?_⟩
      · simpa using hx
      · simpa using hy
  · rintro ⟨p, ps, rfl, h1, hl, hd⟩
    refine ⟨by simp [hl], fun i x y hx hy => ?_⟩
    cases i with
    | zero => simp at hx hy; subst hx; subst hy; exact h1
    | succ i => exact hd i x y (by simpa using hx) (by simpa using hy)

theorem Dens.cons {a : Expr} {as : List Expr} {p : Rat} {ps : List Rat} (h : Den fn M (.e a) p) (hs : Dens fn M as ps) :
    Dens fn M (a :: as) (p :: ps) := dens_cons_iff.mpr ⟨p, ps, rfl, h, hs⟩

theorem Dens.nil : Dens fn M [] [] := dens_nil_iff.mpr rfl

/-- every place of a list that denotes values denotes one -/
theorem Dens.mem {args : List Expr} {vals : List Rat} (h : Dens fn M args vals) {a : Expr} (ha : a ∈ args) :
    ∃ p, Den fn M (.e a) p := by
  obtain ⟨i, hi, rfl⟩ := List.mem_iff_getElem.mp ha
  have hv : i < vals.length := h.1 ▸ hi
  exact ⟨vals[i], h.2 i _ _ (List.getElem?_eq_getElem hi) (List.getElem?_eq_getElem hv)⟩

theorem dens_unique {args : List Expr} {vals vals' : List Rat} (h : Dens fn M args vals) (h' : Dens fn M args vals') :
    vals = vals' := by
  apply List.ext_getElem (by rw [h.1, h'.1])
  intro i h1 h2
  have ha : i < args.length := h.1 ▸ h1
  exact den_unique (h.2 i _ _ (List.getElem?_eq_getElem ha) (List.getElem?_eq_getElem h1))
    (h'.2 i _ _ (List.getElem?_eq_getElem ha) (List.getElem?_eq_getElem h2))

theorem den_num_iff {p q : Rat} : Den fn M (.e (.num p)) q ↔ q = p :=
  ⟨fun h => by cases h; rfl, fun h => by subst h; exact Den.num _⟩

end Model
