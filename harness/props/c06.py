"""C06 — changing the units of a model variable never changes what the model computes."""
import os
from fractions import Fraction

from common import Str, sx

ID = 'C06'
LEAN_MODULES = ['Cellml.Props.C06', 'Cellml.Tie.ConvertVarHelpers', 'Cellml.Tie.ConvertVarDriver', 'Cellml.Tie.ConvertVarWF', 'Cellml.Tie.GenDConvertVar', 'Cellml.Props.C06Gen',
                'Cellml.Tie.ConvertVarE', 'Cellml.Tie.ConvertVarERefine', 'Cellml.Props.C06GenE']
N = {'quick': 120, 'thorough': 2000}
RULE = ('histories of 1-4 convert_variable calls on (a) five bundled example models (test_simple_odes, basic_ode, '
        'repeated_ode_for_conversion_tests, literals_for_conversion_tests, hodgkin_huxley 1952; about a quarter of the '
        'cases) and (b) generated unit-consistent ODE systems built through the API (1-3 states, 1-4 computed '
        'variables, constants, derivatives referenced on the right-hand sides of assignments AND of other ODEs (about '
        '45% of the generated models; pattern ode-deriv-ref converts the referenced state as INPUT, then often the '
        'free variable), shared subterms, families mV/V/uV, ms/s/us and concentrations M/mM/uM/nM/pM/mol_per_mm3; '
        'initial values are non-dyadic decimals from 1e-9 to 1e6 in magnitude, conversion factors from 1e-15 to 1e12; '
        'the moved initial value is compared with original x factor at relative 1e-12). Each call: a variable that occurs in the equations (state, free, constant, computed, or a variable '
        'an earlier call returned), a target of the same dimension (other scale, or an equivalent unit = no-op), both '
        'directions, with/without move_annotations; scripted patterns state-then-time, time-then-state, same variable '
        'twice, converted-again. After every call the model is snapshotted and evaluated at 3 points. non-trivial = at '
        'least one call with factor != 1; distinct = distinct case JSON')
TRUSTED = ['Lean 4.33 kernel', 'axioms: propext, Classical.choice, Quot.sound',
           'correspondence harness harness/props/c06.py (sympy -> X encoder, reference evaluator at 40 digits)',
           'the conversion factor is an input of the model (UnitStore.get_conversion_factor is the subject of C07)',
           'sympy canonicalisation of `rhs * cf`, `new / cf`, xreplace is observed (leaves compared), not modelled']
ASSUMPTIONS = ['the model satisfies the C08 invariant, has one free variable and no d x/d x (WF); numeric factors only '
               '(symbolic factors from conversion rules: C19); right-hand sides are compared as (lhs, multiset of '
               'variable / derivative / number leaves) and by value, not by tree shape']
FINGERPRINT = {'cellmlmanip/model.py': ['Model.convert_variable', 'Model._convert_variable_instance',
                                       'Model._convert_state_variable_deriv', 'Model._convert_free_variable_deriv',
                                       'Model._remove_ode_and_assign_rhs_to_new_variable',
                                       'Model._replace_references_to_derivatives', 'Model.get_unique_name',
                                       'Model.add_equation', 'Model.remove_equation', 'Model.transfer_cmeta_id',
                                       'Model.get_free_variable', 'Model.get_state_variables']}

FILES = ['test_simple_odes', 'basic_ode', 'repeated_ode_for_conversion_tests', 'literals_for_conversion_tests',
         'hodgkin_huxley_squid_axon_model_1952_modified']
CELLML_DIR = os.path.join(os.environ.get('CELLML_REPO', '/repo'), 'tests', 'cellml_files')
BASES = ['ampere', 'candela', 'kilogram', 'kelvin', 'meter', 'mole', 'radian', 'second']
FAMILY = {'mV': 'volt / 1000', 'uV': 'volt * 1e-6', 'ms': 'second / 1000', 'us': 'second * 1e-6',
          # concentrations: mM = mmol/L = mol/m3; mol_per_mm3 = 1e9 mol/m3
          'mM': 'mole / meter**3', 'M': 'mole / meter**3 * 1e3', 'uM': 'mole / meter**3 * 1e-3',
          'nM': 'mole / meter**3 * 1e-6', 'pM': 'mole / meter**3 * 1e-9', 'mol_per_mm3': 'mole / meter**3 * 1e9'}
BUILTIN = {'V': 'volt', 's': 'second', 'dl': 'dimensionless'}
PREC = 40


# ---------------------------------------------------------------------------------------------- building models
def unit_of(store, cache, spec):
    """spec: family name | ['/', a, b] | ['*', a, b]"""
    if isinstance(spec, str):
        if spec not in cache:
            if spec in BUILTIN:
                cache[spec] = store.get_unit(BUILTIN[spec])
            else:
                cache[spec] = store.add_unit(spec, FAMILY[spec])
        return cache[spec]
    a, b = unit_of(store, cache, spec[1]), unit_of(store, cache, spec[2])
    return a / b if spec[0] == '/' else a * b


def build_expr(m, cache, V, e):
    import sympy
    k = e[0]
    if k == 'q':
        return m.create_quantity(float(e[1]), unit_of(m.units, cache, e[2]))
    if k == 'v':
        return V[e[1]]
    if k == 'd':
        return sympy.Derivative(V[e[1]], V[e[2]])
    a, b = build_expr(m, cache, V, e[1]), build_expr(m, cache, V, e[2])
    return {'+': lambda: a + b, '-': lambda: a - b, '*': lambda: a * b, '/': lambda: a / b}[k]()


def build_model(case):
    """the model of a case, through the public API (generated) or the loader (bundled)"""
    import cellmlmanip
    import sympy
    from cellmlmanip.model import Model
    if case['kind'] == 'file':
        return cellmlmanip.load_model(os.path.join(CELLML_DIR, case['file'] + '.cellml'))
    spec = case['model']
    m = Model('m')
    cache, V = {}, {}
    for name, unit, init, cmeta in spec['vars']:
        V[name] = m.add_variable(name, unit_of(m.units, cache, unit),
                                 initial_value=None if init is None else float(init), cmeta_id=cmeta)
    for lhs, rhs in spec['eqs']:
        left = V[lhs[1]] if lhs[0] == 'v' else sympy.Derivative(V[lhs[1]], V[lhs[2]])
        m.add_equation(sympy.Eq(left, build_expr(m, cache, V, rhs)))
    return m


# ---------------------------------------------------------------------------------------------- observing a model
def unit_sd(m, unit):
    """(scale as decimal text, exponents of the eight base units)"""
    q = m.units._registry.Quantity(1, unit).to_base_units()
    dims = [0] * 8
    for name, p in dict(q.units._units).items():
        base = name.split('_', 1)[1] if name.startswith('store') else name
        if base not in BASES or float(p) != int(p):
            raise ValueError('unit outside the eight integer base dimensions: %s' % unit)
        dims[BASES.index(base)] = int(p)
    return '%.12g' % float(q.magnitude), dims


def enc(m, ids, e):
    """sympy expression -> X tree (nested lists): ['v', i] ['d', x, t] ['q', text, scale, dims] [op, a, b]
    ['f1', name, a] ['f2', name, a, b]. n-ary Add/Mul are left-nested in args order; factors with exponent -1 go
    to a denominator."""
    import sympy
    from cellmlmanip.model import Quantity, Variable
    if isinstance(e, Variable):
        return ['v', ids[e]]
    if isinstance(e, Quantity):
        s, d = unit_sd(m, e.units)
        return ['q', repr(float(e)), s, d]
    if e.is_Derivative:
        return ['d', ids[e.args[0]], ids[e.args[1][0]]]
    if e.is_Number or e.is_NumberSymbol:
        return ['q', repr(float(e)), '1.0', [0] * 8]
    if e.is_Add:
        parts = [enc(m, ids, a) for a in e.args]
        out = parts[0]
        for p in parts[1:]:
            out = ['+', out, p]
        return out
    if e.is_Mul:
        num = [a for a in e.args if not (a.is_Pow and a.args[1] == -1)]
        den = [a.args[0] for a in e.args if a.is_Pow and a.args[1] == -1]

        def prod(xs):
            out = enc(m, ids, xs[0])
            for x in xs[1:]:
                out = ['*', out, enc(m, ids, x)]
            return out
        top = prod(num) if num else ['q', '1.0', '1.0', [0] * 8]
        return ['/', top, prod(den)] if den else top
    if e.is_Pow and e.args[1] == -1:
        return ['/', ['q', '1.0', '1.0', [0] * 8], enc(m, ids, e.args[0])]
    name = 'pow' if e.is_Pow else type(e).__name__
    args = [enc(m, ids, a) for a in e.args]
    if not args:
        return ['f1', name, ['q', '0.0', '1.0', [0] * 8]]
    if len(args) == 1:
        return ['f1', name, args[0]]
    out = args[-1]
    for a in reversed(args[:-1]):
        out = ['f2', name, a, out]
    return out


def leaves(x, out=None):
    """sorted atoms of an X tree: variables, derivative atoms, numbers other than +-1"""
    top = out is None
    if top:
        out = []
    k = x[0]
    if k == 'v':
        out.append(('v', int(x[1])))
    elif k == 'd':
        out.append(('d', int(x[1]), int(x[2])))
    elif k == 'q':
        val = float(Fraction(str(x[1])))
        if abs(abs(val) - 1.0) > 1e-12:
            out.append(('q', val))
    elif k == 'f1':
        leaves(x[2], out)
    elif k == 'f2':
        leaves(x[2], out)
        leaves(x[3], out)
    else:
        leaves(x[1], out)
        leaves(x[2], out)
    return sorted(out, key=repr) if top else out


def evaluate(m, point):
    """value of every variable and derivative that follows from `point` (values of the state variables and of the
    free variable), by recursive evaluation of the defining equations at PREC digits; None where undefined"""
    import sympy
    from cellmlmanip.model import Quantity
    defs = {eq.lhs: eq.rhs for eq in m.equations}
    vals = dict(point)
    busy = set()

    def value(atom):
        if atom in vals:
            return vals[atom]
        if atom not in defs or atom in busy:
            return None
        busy.add(atom)
        rhs = defs[atom]
        subs, ok = {}, True
        for a in m.find_variables_and_derivatives([rhs]):
            val = value(a)
            if val is None:
                ok = False
                break
            subs[a] = val
        res = None
        if ok:
            for q in rhs.atoms(Quantity):
                subs[q] = sympy.Float(float(q), PREC)
            try:
                r = sympy.N(rhs.xreplace(subs), PREC)
                if r.is_number and r.is_real and r.is_finite:
                    res = sympy.Float(r, PREC)
            except Exception:
                res = None
        busy.discard(atom)
        vals[atom] = res
        return res

    for eq in m.equations:
        value(eq.lhs)
    out_v, out_d = {}, {}
    for k, val in vals.items():
        if val is None:
            continue
        if k.is_Derivative:
            out_d[k.args[0].name + '|' + k.args[1][0].name] = str(val)
        else:
            out_v[k.name] = str(val)
    return out_v, out_d


def snapshot(m, track, points):
    import sympy
    vs = list(m.variables())
    ids = {v: i for i, v in enumerate(vs)}
    snap = {'vars': [], 'eqs': [], 'eqtext': [], 'units': [], 'vals': [], 'dvals': []}
    for v in vs:
        s, d = unit_sd(m, v.units)
        snap['vars'].append([v.name, s, d, None if v.initial_value is None else repr(float(v.initial_value)),
                             v.cmeta_id])
    for eq in m.equations:
        lhs = ['v', ids[eq.lhs]] if not eq.lhs.is_Derivative else ['d', ids[eq.lhs.args[0]], ids[eq.lhs.args[1][0]]]
        snap['eqs'].append([lhs, enc(m, ids, eq.rhs)])
        snap['eqtext'].append(str(eq)[:160])
        try:
            ok = bool(m.units.is_equivalent(m.units.evaluate_units(eq.lhs), m.units.evaluate_units(eq.rhs)))
        except Exception as e:
            ok = 'err:' + type(e).__name__
        snap['units'].append(ok)
    states = m.get_state_variables(sort=False)
    snap['states'] = [ids[x] for x in states]
    snap['vardef'] = sorted(ids[v] for v in vs if v not in states and m.get_definition(v) is not None)
    try:
        snap['free'] = ids[m.get_free_variable()]
    except ValueError:
        snap['free'] = None
    cm = []
    for v in vs:
        if v.cmeta_id is not None:
            try:
                cm.append([v.cmeta_id, ids[m.get_variable_by_cmeta_id(v.cmeta_id)]])
            except Exception as e:
                cm.append([v.cmeta_id, 'err:' + type(e).__name__])
    snap['cmeta'] = sorted(cm)
    for pt in points:
        cur = {}
        for orig, (var, fac) in track.items():
            cur[var] = sympy.Float(sympy.Rational(str(pt[orig])) * sympy.Rational(fac.numerator, fac.denominator), PREC)
        missing = [x.name for x in states if x not in cur]
        if missing:
            raise RuntimeError('state variables without a value: %s' % missing)
        v_, d_ = evaluate(m, cur)
        snap['vals'].append(v_)
        snap['dvals'].append(d_)
    return snap


def target_unit(m, spec, v, n):
    if spec[0] == 'unit':
        name = spec[1]
        if name in BUILTIN:
            return m.units.get_unit(BUILTIN[name])
        return m.units.get_unit(name) if m.units.is_defined(name) else m.units.add_unit(name, FAMILY[name])
    text = m.units.format(v.units)
    return m.units.add_unit('c06_target%d' % n, '(%s) * 1e%d' % (text, int(spec[1])))


# ---------------------------------------------------------------------------------------------- implementation
def impl(case):
    from cellmlmanip.model import DataDirectionFlow
    m = build_model(case)
    by_name = {v.name: v for v in m.variables()}
    track = {}
    for name in case['points'][0]:
        track[name] = (by_name[name], Fraction(1))
    snaps = [snapshot(m, track, case['points'])]
    steps, rets = [], []
    for n, (vspec, tspec, direction, move) in enumerate(case['steps']):
        vs = list(m.variables())
        ids = {v: i for i, v in enumerate(vs)}
        v = rets[vspec[1]] if isinstance(vspec, list) else m.get_variable_by_name(vspec)
        rec = {'v': ids[v], 'vname': v.name, 'dir': direction, 'move': bool(move), 'err': None,
               'was_state': v in m.get_state_variables(), 'was_free': snaps[-1]['free'] == ids[v],
               'had_def': m.get_definition(v) is not None}
        try:
            unit = target_unit(m, tspec, v, n)
            rec['target'] = list(unit_sd(m, unit))
            cf = m.units.get_conversion_factor(v.units, unit)
            rec['cf'] = 'one' if (isinstance(cf, int) and cf == 1) or cf == 1 else repr(float(cf))
            new = m.convert_variable(v, unit, DataDirectionFlow.INPUT if direction == 'in' else DataDirectionFlow.OUTPUT,
                                     move_annotations=bool(move))
        except Exception as e:
            rec['err'] = type(e).__name__ + ': ' + str(e)[:200]
            steps.append(rec)
            break
        rets.append(new)
        vs2 = list(m.variables())
        if vs2[:len(vs)] != vs:
            rec['err'] = 'variables() lost or reordered a pre-existing variable'
            steps.append(rec)
            break
        rec['ret'] = vs2.index(new)
        rec['same'] = new is v
        if direction == 'in' and new is not v:
            cfq = Fraction(1) if rec['cf'] == 'one' else Fraction(rec['cf'])
            for k, (var, fac) in list(track.items()):
                if var is v:
                    track[k] = (new, fac * cfq)
        steps.append(rec)
        snaps.append(snapshot(m, track, case['points']))
    return {'steps': steps, 'snaps': snaps}


# ---------------------------------------------------------------------------------------------- generation
SCALES = [-12, -9, -6, -3, -2, -1, 1, 2, 3, 6, 9, 12]
CONC = ['mM', 'M', 'uM', 'nM', 'pM', 'mol_per_mm3']
FAMS = {'mV': ['mV', 'V', 'uV'], 'V': ['mV', 'V', 'uV'], 'uV': ['mV', 'V', 'uV'],
        'ms': ['ms', 's', 'us'], 's': ['ms', 's', 'us'], 'us': ['ms', 's', 'us']}
FAMS.update({c: CONC for c in CONC})


def wide_init(rng):
    """a non-dyadic decimal between 1e-9 and 1e6 in magnitude"""
    digits = rng.choice([2, 3, 5, 8])
    return ('-' if rng.random() < 0.2 else '') + '%.*ge%d' % (digits, rng.uniform(1, 9.999), rng.randint(-9, 5))
_FILE_INFO = {}


def dec(rng, lo, hi):
    return '%.4g' % rng.uniform(lo, hi)


def file_info(name):
    """names of the variables of a bundled model by role (computed once per process)"""
    if name not in _FILE_INFO:
        import logging
        logging.disable(logging.CRITICAL)
        m = build_model({'kind': 'file', 'file': name})
        used = set()
        for eq in m.equations:
            used |= {a.name for a in eq.atoms() if hasattr(a, 'initial_value')}
        states = m.get_state_variables()
        free = m.get_free_variable()
        info = {'states': [[x.name, x.initial_value] for x in states], 'free': free.name, 'const': [], 'comp': []}
        for v in m.variables():
            if v.name in used and v not in states and v is not free:
                d = m.get_definition(v)
                if d is not None:
                    info['const' if m.is_constant(v) else 'comp'].append(v.name)
        _FILE_INFO[name] = info
    return _FILE_INFO[name]


def gen_model(rng):
    """a unit-consistent ODE system: states, constants, computed variables, a derivative used on a right-hand side"""
    tu = rng.choice(['ms', 'ms', 's'])
    vars_ = [['t', tu, None, rng.choice(['time', 'time', None])]]
    nst, nal, nco = rng.choice([1, 2, 2, 3]), rng.randint(1, 4), rng.randint(0, 2)
    st, al, co = [], [], []
    units = {'t': tu}
    for i in range(nst):
        n = 'x%d' % i
        units[n] = rng.choice(['mV', 'V', 'mM', 'uM', 'nM'])
        init = wide_init(rng) if rng.random() < 0.6 else str(rng.randint(-5, 5))
        vars_.append([n, units[n], init, rng.choice([n, n + '_id', None])])
        st.append(n)
    for i in range(nco):
        n = 'c%d' % i
        units[n] = rng.choice(['mV', 'V', 'uV', 'dl', 'mM'])
        vars_.append([n, units[n], None, rng.choice([n, None])])
        co.append(n)
    for i in range(nal):
        n = 'a%d' % i
        units[n] = rng.choice(['mV', 'V', 'uV'])
        vars_.append([n, units[n], None, rng.choice([n, None, None])])
        al.append(n)
    eqs = []

    def num(lo=1, hi=4):
        return str(rng.randint(lo, hi)) + rng.choice(['', '.5', '.25'])

    def term(v, target):
        """k * v or v / k with k carrying the units that make the result `target`"""
        if rng.random() < 0.3:
            return ['/', ['v', v], ['q', num(), ['/', units[v], target]]]
        return ['*', ['q', num(), ['/', target, units[v]]], ['v', v]]

    for c in co:
        eqs.append([['v', c], ['q', num(), units[c]]])
    defined = list(co)
    shared = None
    for a in al:
        pool = st + defined
        rhs = ['q', num(1, 3), units[a]]
        for v in rng.sample(pool, rng.randint(0, min(2, len(pool)))):
            rhs = [rng.choice(['+', '+', '-']), rhs, term(v, units[a])]
        if rng.random() < 0.4:
            rhs = ['+', rhs, ['*', ['q', '0.5', ['/', units[a], tu]], ['v', 't']]]
        if shared is not None and shared[1] == units[a] and rng.random() < 0.5:
            rhs = ['+', rhs, shared[0]]
        if shared is None and rng.random() < 0.5:
            shared = (rhs, units[a])
        eqs.append([['v', a], rhs])
        defined.append(a)
    dref_in_ode = []
    for i, x in enumerate(st):
        ru = ['/', units[x], tu]
        rhs = ['q', num(1, 3), ru]
        for v in rng.sample(st + al + co, rng.randint(1, 2)):
            rhs = [rng.choice(['+', '+', '-']), rhs, term(v, ru)]
        if i > 0 and rng.random() < 0.6:     # d x_i/dt = … + k * d x_j/dt for an earlier state x_j
            y = rng.choice(st[:i])
            rhs = [rng.choice(['+', '-']), rhs, ['*', ['q', num(), ['/', units[x], units[y]]], ['d', y, 't']]]
            dref_in_ode.append(y)
        eqs.append([['d', x, 't'], rhs])
    for _ in range(rng.choice([0, 1, 1, 2])):
        x = rng.choice(st)
        n = 'dref%d' % len([v for v in vars_ if v[0].startswith('dref')])
        vars_.append([n, ['/', units[x], tu], None, None])
        units[n] = ['/', units[x], tu]
        rhs = ['*', ['d', x, 't'], ['q', num(), 'dl']]
        if rng.random() < 0.4 and al:
            a = rng.choice(al)
            rhs = ['+', rhs, ['*', ['q', num(), ['/', units[n], units[a]]], ['v', a]]]
        eqs.append([['v', n], rhs])
    if rng.random() < 0.15:   # a name that will clash with the generated one
        x = rng.choice(st)
        vars_.append([x + '_converted', units[x], None, None])
        eqs.append([['v', x + '_converted'], ['q', '7', units[x]]])
    info = {'states': [[x, None] for x in st], 'free': 't', 'const': co, 'dref_in_ode': dref_in_ode,
            'comp': al + [v[0] for v in vars_ if v[0].startswith('dref')]}
    return {'vars': vars_, 'eqs': eqs}, info, units


def gen_steps(rng, info, units):
    states = [x[0] for x in info['states']]
    every = states + [info['free']] + info['const'] + info['comp']

    def target(v):
        u = units.get(v) if (units and isinstance(v, str)) else None
        r = rng.random()
        if isinstance(u, str) and u in FAMS and r < 0.7:
            return ['unit', rng.choice(FAMS[u])]
        if r < 0.82 or (isinstance(u, str) and u in FAMS):
            return ['scale', rng.choice(SCALES)]
        return ['scale', 0]

    def step(v, direction=None):
        return [v, target(v), direction or rng.choice(['in', 'in', 'out']), rng.random() < 0.7]

    pat = rng.choice(['state-time', 'time-state', 'twice', 'again', 'random', 'random', 'random', 'single'])
    x = rng.choice(states)
    if info.get('dref_in_ode') and rng.random() < 0.6:
        pat = 'ode-deriv-ref'
        steps = [step(rng.choice(info['dref_in_ode']), 'in')]
        if rng.random() < 0.6:
            steps.append(step(info['free'], 'in'))
    elif pat == 'state-time':
        steps = [step(x, 'in'), step(info['free'], 'in')]
    elif pat == 'time-state':
        steps = [step(info['free'], 'in'), step(x, 'in')]
    elif pat == 'twice':
        v = rng.choice(every)
        steps = [step(v), step(v)]
    elif pat == 'again':
        v = rng.choice(every)
        steps = [step(v), step(['ret', 0])]
    elif pat == 'single':
        steps = [step(rng.choice(every))]
    else:
        steps = []
    while len(steps) < 4 and (not steps or rng.random() < 0.55):
        cands = every + [['ret', k] for k in range(len(steps))]
        steps.append(step(rng.choice(cands)))
    return steps, pat


def gen(rng, n, tier):
    for i in range(n):
        if rng.random() < 0.25:
            name = FILES[i % len(FILES)] if rng.random() < 0.6 else rng.choice(FILES)
            info = file_info(name)
            steps, pat = gen_steps(rng, info, None)
            pt = []
            for _ in range(3):
                p = {info['free']: dec(rng, 0.5, 5)}
                for x, init in info['states']:
                    p[x] = ('%.6g' % (init * rng.uniform(1.01, 1.2))) if init else dec(rng, 0.2, 3)
                pt.append(p)
            yield {'kind': 'file', 'file': name, 'steps': steps, 'points': pt, 'pattern': pat}
        else:
            spec, info, units = gen_model(rng)
            steps, pat = gen_steps(rng, info, units)
            pt = []
            for _ in range(3):
                p = {'t': dec(rng, 0.5, 5)}
                for x, _i in info['states']:
                    p[x] = dec(rng, -3, 3)
                pt.append(p)
            yield {'kind': 'gen', 'model': spec, 'steps': steps, 'points': pt, 'pattern': pat}


# ---------------------------------------------------------------------------------------------- model side
def rat(text):
    return Fraction(str(text))


def x_sx(x):
    k = x[0]
    if k == 'v':
        return ['v', int(x[1])]
    if k == 'd':
        return ['d', int(x[1]), int(x[2])]
    if k == 'q':
        return ['q', rat(x[1]), rat(x[2]), [int(i) for i in x[3]]]
    if k == 'f1':
        return ['f1', Str(x[1]), x_sx(x[2])]
    if k == 'f2':
        return ['f2', Str(x[1]), x_sx(x[2]), x_sx(x[3])]
    return [k, x_sx(x[1]), x_sx(x[2])]


def requests(case, obs):
    s0 = obs['snaps'][0]
    names = [v[0] for v in s0['vars']]
    vars_ = [[Str(n), rat(s), [int(i) for i in d], 'none' if i0 is None else rat(i0), 'none' if c is None else Str(c)]
             for n, s, d, i0, c in s0['vars']]
    eqs = [[x_sx(l), x_sx(r)] for l, r in s0['eqs']]
    steps = []
    for st in obs['steps']:
        if st['err']:
            break
        steps.append([st['v'], rat(st['target'][0]), [int(i) for i in st['target'][1]],
                      Fraction(1) if st['cf'] == 'one' else rat(st['cf']), st['dir'], bool(st['move'])])
    pts = [[[names.index(n), rat(val)] for n, val in sorted(p.items())] for p in case['points']]
    return [sx(['C06', ['vars'] + vars_, ['eqs'] + eqs, ['steps'] + steps, ['points'] + pts])]


def mp(x):
    import mpmath
    mpmath.mp.dps = 50
    if isinstance(x, Fraction):
        return mpmath.mpf(x.numerator) / x.denominator
    s = str(x)
    if '/' in s:
        f = Fraction(s)
        return mpmath.mpf(f.numerator) / f.denominator
    return mpmath.mpf(s)


def close(a, b, rel=1e-9):
    a, b = mp(a), mp(b)
    return abs(a - b) <= rel * max(abs(a), abs(b)) or max(abs(a), abs(b)) < 1e-200


def sx_tree(t):
    """X tree from the driver's reply (parse_sx output) in the same shape as `enc` produces"""
    k = str(t[0])
    if k == 'v':
        return ['v', int(t[1])]
    if k == 'd':
        return ['d', int(t[1]), int(t[2])]
    if k == 'q':
        return ['q', str(t[1]), str(t[2]), [int(i) for i in t[3]]]
    if k == 'f1':
        return ['f1', str(t[1]), sx_tree(t[2])]
    if k == 'f2':
        return ['f2', str(t[1]), sx_tree(t[2]), sx_tree(t[3])]
    return [k, sx_tree(t[1]), sx_tree(t[2])]


def same_leaves(a, b):
    if len(a) != len(b):
        return False
    qa, qb = sorted(x[1] for x in a if x[0] == 'q'), sorted(x[1] for x in b if x[0] == 'q')
    if [x for x in a if x[0] != 'q'] != [x for x in b if x[0] != 'q'] or len(qa) != len(qb):
        return False
    return all(close(repr(x), repr(y)) for x, y in zip(qa, qb))


def opt(a):
    return None if str(a) == 'none' else a


def compare_snap(k, snap, rep, step):
    ret, raised, mvars, meqs, mvd, mod, mfree, mcm, _mrep, mvals, munits = rep
    where = 'after call %d: ' % k if k else 'initial model: '
    if str(raised) != 'false':
        return where + 'the model says a call raised'
    if step is not None and int(ret) != step['ret']:
        return where + 'returned variable: model %s, implementation %s' % (ret, step['ret'])
    if len(mvars) != len(snap['vars']):
        return where + '%d variables in the model, %d in the implementation' % (len(mvars), len(snap['vars']))
    for i, (mv, iv) in enumerate(zip(mvars, snap['vars'])):
        if str(mv[0]) != iv[0] or [int(x) for x in mv[2]] != iv[2] or not close(mv[1], iv[1]):
            return where + 'variable %d: model %s, implementation %s' % (i, mv[:3], iv[:3])
        mi, mc = opt(mv[3]), opt(mv[4])
        if (mi is None) != (iv[3] is None) or (mi is not None and not close(mi, iv[3], 1e-12)):
            return where + 'initial value of %s: model %s, implementation %s' % (iv[0], mi, iv[3])
        if (None if mc is None else str(mc)) != iv[4]:
            return where + 'cmeta id of %s: model %s, implementation %s' % (iv[0], mc, iv[4])
    if len(meqs) != len(snap['eqs']):
        return where + '%d equations in the model, %d in the implementation' % (len(meqs), len(snap['eqs']))
    for i, (me, ie) in enumerate(zip(meqs, snap['eqs'])):
        ml, il = sx_tree(me[0]), ie[0]
        if ml != il or not same_leaves(leaves(sx_tree(me[1])), leaves(ie[1])):
            return where + 'equation %d: model %s = %s, implementation %s (%s)' % (
                i, ml, leaves(sx_tree(me[1])), snap['eqtext'][i], leaves(ie[1]))
    if sorted(int(x) for x in mvd) != snap['vardef'] or [int(x) for x in mod] != snap['states']:
        return where + 'definition maps: model %s / %s, implementation %s / %s' % (mvd, mod, snap['vardef'], snap['states'])
    if (None if opt(mfree) is None else int(mfree)) != snap['free']:
        return where + 'free variable: model %s, implementation %s' % (mfree, snap['free'])
    if sorted([str(c), int(v)] for c, v in mcm) != snap['cmeta']:
        return where + 'cmeta map: model %s, implementation %s' % (mcm, snap['cmeta'])
    for i, (mu, iu) in enumerate(zip(munits, snap['units'])):
        if str(mu) != 'none' and (str(mu) == 'true') != (iu is True):
            return where + 'units of equation %d (%s): model consistent=%s, implementation %s' % (i, snap['eqtext'][i], mu, iu)
    names = [v[0] for v in snap['vars']]
    for p, (mv, md) in enumerate(mvals):
        for i, val in enumerate(mv):
            if opt(val) is None:
                continue
            got = snap['vals'][p].get(names[i])
            if got is None or not close(val, got):
                return where + 'value of %s at point %d: model %s, implementation %s' % (names[i], p, val, got)
        for x, t, val in md:
            if opt(val) is None:
                continue
            got = snap['dvals'][p].get(names[int(x)] + '|' + names[int(t)])
            if got is None or not close(val, got):
                return where + 'value of d %s/d %s at point %d: model %s, implementation %s' % (
                    names[int(x)], names[int(t)], p, val, got)
    return None


def compare(case, obs, replies):
    rep = replies[0]
    n = len([s for s in obs['steps'] if not s['err']])
    if not isinstance(rep, list) or len(rep) != n + 1 or len(obs['snaps']) != n + 1:
        return 'model reply malformed or of the wrong length: %r' % (str(rep)[:200],)
    for k in range(n + 1):
        mm = compare_snap(k, obs['snaps'][k], rep[k], obs['steps'][k - 1] if k else None)
        if mm:
            return mm
    return None


# ---------------------------------------------------------------------------------------------- property oracle
def strip_snap(s):
    """what a no-op must leave identical"""
    return {k: s[k] for k in ('vars', 'eqs', 'states', 'vardef', 'free', 'cmeta')}


def oracle(case, obs):
    """The property on the implementation's own observations (no reference to the Lean model): values of the model
    before and after each call at 3 points (reference evaluator, 40 digits), units of both sides of every equation,
    initial values, cmeta ids, names."""
    fails = []
    snaps, steps = obs['snaps'], obs['steps']
    for k, st in enumerate(steps):
        who = 'call %d (%s, %s, %s)' % (k + 1, st['vname'], st['dir'], 'state' if st['was_state'] else
                                        'free' if st['was_free'] else 'defined' if st['had_def'] else 'undefined')
        kind = ('state' if st['was_state'] else 'free' if st['was_free'] else 'other') + '-' + st['dir']
        if st['err']:
            fails.append({'key': 'exception:' + st['err'].split(':')[0], 'detail': who + ': ' + st['err']})
            break
        a, b = snaps[k], snaps[k + 1]
        names_a = [v[0] for v in a['vars']]
        names_b = [v[0] for v in b['vars']]
        v, ret = st['v'], st['ret']
        if st['cf'] == 'one' or st['same']:
            if not (st['cf'] == 'one' and st['same']):
                fails.append({'key': 'noop-mismatch', 'detail': who + ': factor %s but returned %s' % (st['cf'], names_b[ret])})
            if strip_snap(a) != strip_snap(b):
                diff = [f for f in strip_snap(a) if a[f] != b[f]]
                fails.append({'key': 'noop-changed-model', 'detail': who + ': equivalent units, yet %s changed' % diff})
            continue
        cf = mp(st['cf'])
        # ---- names and pre-existing variables
        if len(set(names_b)) != len(names_b):
            fails.append({'key': 'meta:name-clash', 'detail': who + ': duplicate variable names %s' % names_b})
        if not names_b[ret].startswith(st['vname'] + '_converted') or ret < len(names_a):
            fails.append({'key': 'meta:new-name', 'detail': who + ': returned %s' % names_b[ret]})
        for i, (va, vb) in enumerate(zip(a['vars'], b['vars'])):
            if va[:3] != vb[:3]:
                fails.append({'key': 'meta:var-changed', 'detail': who + ': %s became %s' % (va[:3], vb[:3])})
            if i != v and (va[3] != vb[3] or va[4] != vb[4]):
                fails.append({'key': 'meta:other-var', 'detail': who + ': %s became %s' % (va, vb)})
        nb, ob_, oa = b['vars'][ret], b['vars'][v], a['vars'][v]
        if nb[2] != st['target'][1] or not close(nb[1], st['target'][0]) or nb[2] != oa[2] \
                or not close(mp(oa[1]) / mp(nb[1]), cf):
            fails.append({'key': 'meta:units', 'detail': who + ': new variable %s, target %s, factor %s' % (nb, st['target'], st['cf'])})
        # ---- initial values
        if st['dir'] == 'in':
            want = None if oa[3] is None else mp(oa[3]) * cf
            if ob_[3] is not None or (want is None) != (nb[3] is None) or (want is not None and not close(want, nb[3], 1e-12)):
                fails.append({'key': 'meta:initial-value', 'detail': who + ': %s -> original %s, new %s' % (oa[3], ob_[3], nb[3])})
        elif ob_[3] != oa[3] or nb[3] is not None:
            fails.append({'key': 'meta:initial-value', 'detail': who + ': %s -> original %s, new %s' % (oa[3], ob_[3], nb[3])})
        # ---- cmeta ids
        if st['move'] and oa[4] is not None:
            if nb[4] != oa[4] or ob_[4] is not None or [oa[4], ret] not in b['cmeta']:
                fails.append({'key': 'meta:cmeta', 'detail': who + ': id %s -> original %s, new %s, lookup %s' % (oa[4], ob_[4], nb[4], b['cmeta'])})
        elif nb[4] is not None or ob_[4] != oa[4]:
            fails.append({'key': 'meta:cmeta', 'detail': who + ': id %s -> original %s, new %s' % (oa[4], ob_[4], nb[4])})
        if sorted(c for c, _ in a['cmeta']) != sorted(c for c, _ in b['cmeta']) or \
                any(not isinstance(t, int) for _, t in b['cmeta']):
            fails.append({'key': 'meta:cmeta', 'detail': who + ': ids %s -> %s' % (a['cmeta'], b['cmeta'])})
        # ---- units of the equations
        if all(u is True for u in a['units']) and not all(u is True for u in b['units']):
            bad = [b['eqtext'][i] for i, u in enumerate(b['units']) if u is not True]
            fails.append({'key': 'units-inconsistent-after', 'detail': who + ': %s' % bad[:3]})
        # ---- values
        moved = (lambda i: ret if (i == v and st['dir'] == 'in') else i)
        for p in range(len(a['vals'])):
            va_, vb_ = a['vals'][p], b['vals'][p]
            for n, val in va_.items():
                if n not in vb_ or not close(val, vb_[n]):
                    fails.append({'key': 'value-changed:' + kind, 'detail': who + ': %s was %s, is %s (point %d)' % (n, val, vb_.get(n), p)})
                    break
            if names_a[v] in va_:
                got = vb_.get(names_b[ret])
                if got is None or not close(mp(va_[names_a[v]]) * cf, got):
                    fails.append({'key': 'new-not-scaled', 'detail': who + ': original %s, new %s, factor %s' % (va_[names_a[v]], got, st['cf'])})
            elif names_b[ret] in vb_ and st['dir'] == 'out':
                fails.append({'key': 'new-not-scaled', 'detail': who + ': the original has no value but the new variable has'})
            for key, val in a['dvals'][p].items():
                xn, tn = key.split('|')
                x, t = names_a.index(xn), names_a.index(tn)
                want = mp(val) * (cf if moved(x) != x else 1) / (cf if moved(t) != t else 1)
                got = b['dvals'][p].get(names_b[moved(x)] + '|' + names_b[moved(t)])
                if got is None:
                    fails.append({'key': 'derivative-missing', 'detail': who + ': d %s/d %s has no counterpart' % (xn, tn)})
                elif not close(want, got):
                    fails.append({'key': 'derivative-not-rescaled', 'detail': who + ': d %s/d %s was %s, now %s, expected %s'
                                  % (xn, tn, val, got, want)})
            if len(b['dvals'][p]) != len(a['dvals'][p]):
                fails.append({'key': 'derivative-missing', 'detail': who + ': %d derivatives before, %d after'
                              % (len(a['dvals'][p]), len(b['dvals'][p]))})
    seen, out = set(), []
    for f in fails:
        if f['key'] not in seen:
            seen.add(f['key'])
            out.append(f)
    return out[:8]


def nontrivial(case, obs):
    return any(s.get('cf') not in (None, 'one') and not s['err'] for s in obs['steps'])


def tag(case, obs):
    kinds = []
    for s in obs['steps']:
        k = 'S' if s['was_state'] else 'T' if s['was_free'] else 'o'
        kinds.append(k + ('i' if s['dir'] == 'in' else 'u') + ('=' if s.get('cf') == 'one' else ''))
    return ('file ' if case['kind'] == 'file' else 'gen ') + case.get('pattern', '?') + ' n=%d' % len(obs['steps'])


def corpus():
    """the docstring's model with its three worked examples, a name clash, and a conversion chain"""
    model = {'vars': [['time', 'ms', None, 'time'], ['sv1', 'mV', '2', 'sv11']],
             'eqs': [[['d', 'sv1', 'time'], ['q', '1', ['/', 'mV', 'ms']]]]}
    pts = [{'time': '1.5', 'sv1': '2.25'}, {'time': '0.5', 'sv1': '-1.5'}, {'time': '3', 'sv1': '0.75'}]
    out = []
    for steps in ([['sv1', ['unit', 'V'], 'out', True]], [['sv1', ['unit', 'V'], 'in', True]],
                  [['time', ['unit', 's'], 'in', True]],
                  [['sv1', ['unit', 'V'], 'in', False], ['time', ['unit', 's'], 'in', True], ['sv1', ['unit', 'uV'], 'in', True],
                   [['ret', 0], ['unit', 'mV'], 'in', True]],
                  [['time', ['unit', 's'], 'in', True], [['ret', 0], ['unit', 'us'], 'in', True], ['sv1', ['unit', 'mV'], 'out', True]]):
        out.append({'kind': 'gen', 'model': model, 'steps': steps, 'points': pts, 'pattern': 'docstring'})
    clash = {'vars': [['t', 'ms', None, None], ['x', 'mV', '1', 'x'], ['x_converted', 'mV', None, None],
                      ['x_converted_a', 'mV', None, None], ['r', ['/', 'mV', 'ms'], None, None]],
             'eqs': [[['v', 'x_converted'], ['q', '7', 'mV']], [['v', 'x_converted_a'], ['q', '8', 'mV']],
                     [['d', 'x', 't'], ['*', ['q', '2', ['/', 'dl', 'ms']], ['v', 'x_converted']]],
                     [['v', 'r'], ['+', ['d', 'x', 't'], ['d', 'x', 't']]]]}
    out.append({'kind': 'gen', 'model': clash, 'steps': [['x', ['unit', 'V'], 'in', True], ['t', ['unit', 's'], 'in', True]],
                'points': [{'t': '1', 'x': '2'}, {'t': '2', 'x': '3'}, {'t': '0.25', 'x': '-1'}], 'pattern': 'clash'})
    # the right-hand side of an ODE mentions the derivative of another state (dy/dt = 0.5 + 2 dV/dt, dz/dt = y - dy/dt)
    oderef = {'vars': [['t', 'ms', None, 'time'], ['V', 'mV', '-75.3', 'V'], ['y', 'mV', '0.4', None], ['z', 'V', '1.7e-3', 'z']],
              'eqs': [[['d', 'V', 't'], ['+', ['q', '1.25', ['/', 'mV', 'ms']], ['*', ['q', '0.3', ['/', 'dl', 'ms']], ['v', 'y']]]],
                      [['d', 'y', 't'], ['+', ['q', '0.5', ['/', 'mV', 'ms']], ['*', ['q', '2', 'dl'], ['d', 'V', 't']]]],
                      [['d', 'z', 't'], ['-', ['*', ['q', '0.7', ['/', 'V', ['*', 'mV', 'ms']]], ['v', 'y']],
                                          ['*', ['q', '0.001', ['/', 'V', 'mV']], ['d', 'y', 't']]]]]}
    pts3 = [{'t': '1.5', 'V': '-70.1', 'y': '0.3', 'z': '0.002'}, {'t': '0.2', 'V': '12.5', 'y': '-1.1', 'z': '-0.4'},
            {'t': '7', 'V': '3.3', 'y': '2.7', 'z': '1.9'}]
    for steps in ([['V', ['unit', 'V'], 'in', True]],
                  [['V', ['unit', 'V'], 'in', True], ['t', ['unit', 's'], 'in', True]],
                  [['y', ['unit', 'uV'], 'in', False], ['V', ['unit', 'V'], 'in', True], ['t', ['unit', 'us'], 'in', True]],
                  [['t', ['unit', 's'], 'in', True], ['V', ['unit', 'uV'], 'in', True], ['y', ['unit', 'V'], 'out', True]]):
        out.append({'kind': 'gen', 'model': oderef, 'steps': steps, 'points': pts3, 'pattern': 'ode-deriv-ref'})
    # tiny and huge initial values, factors 1e-9 … 1e12 (Ca_i = 7.1e-05 mM into mol/mm3)
    conc = {'vars': [['t', 'ms', None, 'time'], ['Ca_i', 'mM', '7.1e-05', 'Ca_i'], ['Na_i', 'mM', '8.23461e3', 'Na_i'],
                     ['K', 'nM', '-3.3333337e-9', None]],
            'eqs': [[['d', 'Ca_i', 't'], ['*', ['q', '-0.2', ['/', 'dl', 'ms']], ['v', 'Ca_i']]],
                    [['d', 'Na_i', 't'], ['+', ['q', '0.125', ['/', 'mM', 'ms']], ['*', ['q', '3', ['/', 'dl', 'ms']], ['v', 'Ca_i']]]],
                    [['d', 'K', 't'], ['*', ['q', '1.5', ['/', 'nM', ['*', 'mM', 'ms']]], ['v', 'Na_i']]]]}
    pts4 = [{'t': '1.5', 'Ca_i': '7.3e-05', 'Na_i': '8.1', 'K': '0.3'}, {'t': '0.2', 'Ca_i': '1.2e-4', 'Na_i': '9.5', 'K': '-2'},
            {'t': '7', 'Ca_i': '3.3e-6', 'Na_i': '2.7', 'K': '1.9e3'}]
    for steps in ([['Ca_i', ['unit', 'mol_per_mm3'], 'in', True]],
                  [['Na_i', ['unit', 'pM'], 'in', True], ['K', ['unit', 'mol_per_mm3'], 'in', False]],
                  [['Ca_i', ['scale', 12], 'in', True], ['Na_i', ['scale', -12], 'in', True], ['t', ['unit', 'us'], 'in', True]],
                  [['K', ['unit', 'M'], 'in', True], [['ret', 0], ['unit', 'pM'], 'in', True]]):
        out.append({'kind': 'gen', 'model': conc, 'steps': steps, 'points': pts4, 'pattern': 'wide-init'})
    return out


MANIFEST = {
    'technique': 'Lean 4 theorems over an executable model of convert_variable + differential correspondence',
    'text': ('Proved in Lean for every well-formed model, every variable, every factor other than 1 and both '
             'directions (lean/Cellml/Props/C06.lean): convert_var_sound — every point solution of the model (any '
             'field, any reading of the function symbols) extends to a point solution of the converted model that '
             'agrees on all pre-existing variables and derivatives, has new = cf * original, x_orig_deriv = dx/dt and '
             'every derivative rescaled by the state and time factors, and every point solution of the converted model '
             'restricts to one of the original; the four cases OUTPUT, INPUT constant/computed, INPUT state, INPUT '
             'free variable are all proved in full. convert_var_wf: no internal call raises and the result is '
             'well-formed again; convert_var_seq / convert_var_twice: any sequence of calls, product of factors; '
             'convert_var_noop: factor 1 returns the model unchanged; convert_var_names_fresh; convert_var_meta '
             '(initial values, cmeta ids); convert_var_units (unit consistency with units as scale + dimension). '
             'Tie: seeded histories of 1-4 calls on five bundled models and generated ODE systems, compared with the '
             'compiled model after every call (variables with units / initial values / cmeta ids, equations as '
             'left-hand side + leaves, definition maps, free variable, values of all variables and derivatives at 3 '
             'points); independent oracle: reference evaluation at 40 digits before and after, evaluate_units of both '
             'sides of each equation.'),
    'note': ('Trusted: Lean kernel; propext, Classical.choice, Quot.sound; the harness (encoder of sympy trees, '
             'reference evaluator). The conversion factor is an input (C07). sympy canonicalisation of the products '
             'convert_variable builds is observed, not modelled. Symbolic factors from conversion rules: C19.'),
}
