import Cellml.Iso.Process
import Cellml.Props.C16

/-! # C16, model-level half: operations on one model leave every other model of the process as it was

    Model: `Iso/Process.lean` (`Iso.Process.Proc`: the global cells of cellmlmanip — store counter and registries,
    the heap of `sympy.Dummy` objects, the module constant `ONE`, the mutable handler table, the two `lru_cache`s —
    plus the list of models). Theorems, for every SymPy (`Sym`), every reachable process state and every finite
    interleaving of operations:

    * `inv_reachable`: the ownership invariant `PInv` (each model has its own store; its variables are objects whose
      `_model` is that model; the quantities it handed out, and every atom of its equations, carry units of ITS store;
      both memo tables are sound; `ONE` is what the import made it);
    * `frame_model`, `frame_model_run`, `frame_model_reachable`: an operation on model `i` (or on a store that is not
      the store of `j`) leaves `obsModel j` — variables, equations, the unit of every quantity resolved through `j`'s
      store, cmeta ids — and the answers of the memoised analysis for `j`'s expressions unchanged, for separate and
      for shared registries (the unit part is `Iso.step_view`, the lemma behind `frame` / `frame_run` of Props/C16);
    * `cache_key_sound`: a memoised answer is the value of the pure analysis at its key whatever filled the table, and
      the keys of two different models differ (their `V` differ);
    * `one_not_mutated`: no operation re-binds `ONE` or changes the object;
    * `units_own`: every quantity of every equation carries a unit of the store of its own model. -/

namespace Cellml.Props.C16Process
open Units Units.Wire Iso Iso.Process

/-! ### heaps -/

/-- objects persist; only a variable owned by model `m` may get another cmeta id -/
def HeapUpd (m : Nat) (h h' : List Obj) : Prop :=
  ∀ (id : Nat) (o : Obj), h[id]? = some o → h'[id]? = some o ∨ ∃ n u c c', o = Obj.var n u m c ∧ h'[id]? = some (Obj.var n u m c')

theorem lt_of_getElem? {α} {l : List α} {i : Nat} {a : α} (h : l[i]? = some a) : i < l.length :=
  (List.getElem?_eq_some_iff.mp h).1

theorem getElem?_append_of_some {α} {l x : List α} {i : Nat} {a : α} (h : l[i]? = some a) : (l ++ x)[i]? = some a := by
  rw [List.getElem?_append_left (lt_of_getElem? h)]; exact h

theorem heapUpd_append (m : Nat) (h x : List Obj) : HeapUpd m h (h ++ x) := by
  intro _ _ ho; exact Or.inl (getElem?_append_of_some ho)

theorem heapUpd_refl (m : Nat) (h : List Obj) : HeapUpd m h h := by intro _ _ ho; exact Or.inl ho

/-- plain extension -/
def HeapExt (h h' : List Obj) : Prop := ∀ (id : Nat) (o : Obj), h[id]? = some o → h'[id]? = some o

theorem heapExt_refl (h : List Obj) : HeapExt h h := by intro _ _ ho; exact ho
theorem heapExt_append (h x : List Obj) : HeapExt h (h ++ x) := by intro _ _ ho; exact getElem?_append_of_some ho
theorem HeapExt.trans {a b c : List Obj} (h₁ : HeapExt a b) (h₂ : HeapExt b c) : HeapExt a c := by
  intro id o ho; exact h₂ id o (h₁ id o ho)
theorem HeapExt.upd {a b : List Obj} (m : Nat) (h : HeapExt a b) : HeapUpd m a b := by
  intro id o ho; exact Or.inl (h id o ho)

theorem TokOk_mono {vars vars' qtys qtys' : List Nat} (hv : ∀ v ∈ vars, v ∈ vars') (hq : ∀ q ∈ qtys, q ∈ qtys')
    {t : Tok} (h : TokOk vars qtys t) : TokOk vars' qtys' t := by
  cases t with
  | v id => exact hv id h
  | q id => exact hq id h
  | num r => trivial
  | op n a => trivial

/-! ### the invariant -/

structure PInv (sym : Sym) (p : Proc) : Prop where
  world : Iso.Inv p.world
  storeLt : ∀ (m : Nat) (mm : MModel), p.models[m]? = some mm → mm.store < p.world.stores.length
  storeInj : ∀ (m m' : Nat) (mm mm' : MModel), p.models[m]? = some mm → p.models[m']? = some mm' →
    mm.store = mm'.store → m = m'
  varsOwn : ∀ (m : Nat) (mm : MModel), p.models[m]? = some mm → ∀ v ∈ mm.vars,
    ∃ n u c, p.heap[v]? = some (Obj.var n (.ofStore mm.store u) m c)
  qtysOwn : ∀ (m : Nat) (mm : MModel), p.models[m]? = some mm → ∀ q ∈ mm.qtys,
    ∃ x u, p.heap[q]? = some (Obj.qty x (.ofStore mm.store u))
  toksOwn : ∀ (m : Nat) (mm : MModel), p.models[m]? = some mm → ∀ e ∈ mm.eqs,
    e.lhs ∈ mm.vars ∧ ∀ t ∈ e.rhs, TokOk mm.vars mm.qtys t
  singOk : CacheOk sym.analyse p.singCache
  pwOk : CacheOk sym.piecewise p.pwCache
  keysOwn : ∀ (k : SingKey) (r : SingRes), (k, r) ∈ p.singCache →
    ∃ (m : Nat) (mm : MModel), p.models[m]? = some mm ∧ k.V ∈ mm.vars
  oneOk : p.heap[p.one]? = some (Obj.qty 1 (.bare "dimensionless"))

theorem inv_init (sym : Sym) : PInv sym {} where
  world := inv_empty
  storeLt := by intro m mm h; simp at h
  storeInj := by intro m m' mm mm' h; simp at h
  varsOwn := by intro m mm h; simp at h
  qtysOwn := by intro m mm h; simp at h
  toksOwn := by intro m mm h; simp at h
  singOk := by intro k v h; simp at h
  pwOk := by intro k v h; simp at h
  keysOwn := by intro k r h; simp at h
  oneOk := rfl

/-! ### what "model `j` looks the same" means, and why the observation follows -/

/-- model `j` is the same record in both states, its store shows the same root form for every name, and the objects
    it refers to are unchanged -/
def Agree (p p' : Proc) (j : Nat) : Prop :=
  ∃ mj, p.models[j]? = some mj ∧ p'.models[j]? = some mj ∧ SameView p.world p'.world mj.store ∧
    ∀ id, id ∈ mj.vars ∨ id ∈ mj.qtys → p'.heap[id]? = p.heap[id]?

theorem Agree.trans {p p' p'' : Proc} {j : Nat} (h₁ : Agree p p' j) (h₂ : Agree p' p'' j) : Agree p p'' j := by
  obtain ⟨mj, a1, a2, a3, a4⟩ := h₁
  obtain ⟨mj', b1, b2, b3, b4⟩ := h₂
  rw [a2] at b1
  cases b1
  exact ⟨mj, a1, b2, a3.trans b3, fun id hid => (b4 id hid).trans (a4 id hid)⟩

theorem obsQUnit_same {w w' : World} {s : Nat} (hv : SameView w w' s) (u : List (String × Int)) :
    obsQUnit w' (.ofStore s u) = obsQUnit w (.ofStore s u) := by
  simp only [obsQUnit, hv.probe]

theorem obsObj_same (sym : Sym) {p p' : Proc} {j : Nat} (h : PInv sym p) {mj : MModel} (hm : p.models[j]? = some mj)
    (hv : SameView p.world p'.world mj.store) {id : Nat} (hid : id ∈ mj.vars ∨ id ∈ mj.qtys)
    (hh : p'.heap[id]? = p.heap[id]?) : obsObj p' id = obsObj p id := by
  unfold obsObj
  rw [hh]
  rcases hid with hid | hid
  · obtain ⟨n, u, c, ho⟩ := h.varsOwn j mj hm id hid
    simp only [ho, obsQUnit_same hv]
  · obtain ⟨x, u, ho⟩ := h.qtysOwn j mj hm id hid
    simp only [ho, obsQUnit_same hv]

theorem evalf_same {heap heap' : List Obj} {qtys : List Nat} {vars : List Nat} {e : Ex}
    (ht : ∀ t ∈ e, TokOk vars qtys t) (hh : ∀ id ∈ qtys, heap'[id]? = heap[id]?) : evalf heap' e = evalf heap e := by
  unfold evalf
  apply List.map_congr_left
  intro t htm
  cases t with
  | q id => simp only [hh id (ht _ htm)]
  | v id => rfl
  | num r => rfl
  | op n a => rfl

/-- a sound table answers with the value of the analysis at the key -/
theorem lruCall_fst {κ ν : Type} [BEq κ] [LawfulBEq κ] (f : κ → ν) (cache : List (κ × ν)) (h : CacheOk f cache)
    (k : κ) : (lruCall f cache k).1 = f k := (Cellml.Props.C16.cache_sound f cache h k).1

theorem lruCall_ok {κ ν : Type} [BEq κ] [LawfulBEq κ] (f : κ → ν) (cache : List (κ × ν)) (h : CacheOk f cache)
    (k : κ) : CacheOk f (lruCall f cache k).2 :=
  Cellml.Props.C16.cache_evict_sound f _ (Cellml.Props.C16.cache_sound f cache h k).2 _

theorem lruCalls_ok {κ ν : Type} [BEq κ] [LawfulBEq κ] (f : κ → ν) (ks : List κ) :
    ∀ cache, CacheOk f cache → (lruCalls f cache ks).1 = ks.map f ∧ CacheOk f (lruCalls f cache ks).2 := by
  induction ks with
  | nil => intro cache h; exact ⟨rfl, h⟩
  | cons k ks ih =>
      intro cache h
      obtain ⟨h1, h2⟩ := ih _ (lruCall_ok f cache h k)
      refine ⟨?_, h2⟩
      show (lruCall f cache k).1 :: (lruCalls f (lruCall f cache k).2 ks).1 = f k :: ks.map f
      rw [h1, lruCall_fst f cache h k]

/-- **observation from agreement** -/
theorem Agree.obs (sym : Sym) {p p' : Proc} {j : Nat} (h : PInv sym p) (h' : PInv sym p') (ha : Agree p p' j) :
    obsModel p' j = obsModel p j ∧
    ∀ mj, p.models[j]? = some mj → ∀ e ∈ mj.eqs, ∀ V u fn,
      analysisAnswer sym p' e.rhs V u fn = analysisAnswer sym p e.rhs V u fn := by
  obtain ⟨mj, hm, hm', hv, hh⟩ := ha
  constructor
  · simp only [obsModel, hm, hm', hv.obsStore, Option.some.injEq, ModelObs.mk.injEq, true_and, and_true]
    constructor
    · apply List.map_congr_left
      intro v hvm
      rw [obsObj_same sym h hm hv (Or.inl hvm) (hh v (Or.inl hvm))]
    · apply List.map_congr_left
      intro e he
      congr 1
      apply List.map_congr_left
      intro t ht
      have hok := (h.toksOwn j mj hm e he).2 t ht
      cases t with
      | v id => simp only [obsTok, obsObj_same sym h hm hv (Or.inl hok) (hh id (Or.inl hok))]
      | q id => simp only [obsTok, obsObj_same sym h hm hv (Or.inr hok) (hh id (Or.inr hok))]
      | num r => rfl
      | op n a => rfl
  · intro mj2 hm2 e he V u fn
    rw [hm] at hm2
    cases hm2
    unfold analysisAnswer
    rw [lruCall_fst _ _ h'.singOk, lruCall_fst _ _ h.singOk,
      evalf_same (h.toksOwn j mj hm e he).2 (fun id hid => hh id (Or.inr hid))]

/-! ### an operation local to model `m` -/

theorem getElem?_set_self' {α} {l : List α} {i : Nat} {a b : α} (h : l[i]? = some a) : (l.set i b)[i]? = some b := by
  rw [List.getElem?_set_self (lt_of_getElem? h)]

/-- The shape shared by all model-level operations: the world is untouched, model `m` is replaced by a record with the
    same store and at least the same variables, the heap only grows (or a variable of `m` gets a cmeta id), and the new
    record of `m` owns what it refers to. Then the invariant is kept and every other model agrees. -/
theorem local_step (sym : Sym) (p p' : Proc) (m : Nat) (mm mm' : MModel) (h : PInv sym p)
    (hm : p.models[m]? = some mm) (hw : p'.world = p.world) (hmods : p'.models = p.models.set m mm')
    (hstore : mm'.store = mm.store) (hvsub : ∀ v ∈ mm.vars, v ∈ mm'.vars)
    (hheap : HeapUpd m p.heap p'.heap) (hone : p'.one = p.one)
    (hs : CacheOk sym.analyse p'.singCache) (hp : CacheOk sym.piecewise p'.pwCache)
    (hk : ∀ k r, (k, r) ∈ p'.singCache → (k, r) ∈ p.singCache ∨ k.V ∈ mm'.vars)
    (hv : ∀ v ∈ mm'.vars, ∃ n u c, p'.heap[v]? = some (.var n (.ofStore mm.store u) m c))
    (hq : ∀ q ∈ mm'.qtys, ∃ x u, p'.heap[q]? = some (.qty x (.ofStore mm.store u)))
    (ht : ∀ e ∈ mm'.eqs, e.lhs ∈ mm'.vars ∧ ∀ t ∈ e.rhs, TokOk mm'.vars mm'.qtys t) :
    PInv sym p' ∧ ∀ j, j ≠ m → ∀ mj, p.models[j]? = some mj → Agree p p' j := by
  have hmlt : m < p.models.length := lt_of_getElem? hm
  have hget : ∀ k, p'.models[k]? = if k = m then some mm' else p.models[k]? := by
    intro k
    rw [hmods, List.getElem?_set]
    by_cases hkm : m = k
    · subst hkm; simp [hmlt]
    · simp [hkm, Ne.symm hkm]
  -- objects of other models are untouched
  have hvar : ∀ (k : Nat), k ≠ m → ∀ (id : Nat) n u c, p.heap[id]? = some (Obj.var n u k c) →
      p'.heap[id]? = some (Obj.var n u k c) := by
    intro k hkm id n u c ho
    rcases hheap id _ ho with h1 | ⟨n', u', c', c'', heq, _⟩
    · exact h1
    · cases heq; exact absurd rfl hkm
  have hqty : ∀ (id : Nat) x u, p.heap[id]? = some (Obj.qty x u) → p'.heap[id]? = some (Obj.qty x u) := by
    intro id x u ho
    rcases hheap id _ ho with h1 | ⟨n', u', c', c'', heq, _⟩
    · exact h1
    · cases heq
  refine ⟨?_, ?_⟩
  · refine ⟨by rw [hw]; exact h.world, ?_, ?_, ?_, ?_, ?_, hs, hp, ?_, ?_⟩
    · intro k mk hk'
      rw [hget] at hk'
      rw [hw]
      split at hk'
      · cases hk'; rw [hstore]; exact h.storeLt m mm hm
      · exact h.storeLt k mk hk'
    · intro k k' mk mk' hk1 hk2 heq
      rw [hget] at hk1 hk2
      split at hk1 <;> split at hk2
      · subst_vars; rfl
      · cases hk1; rename_i h1 h2; subst h1
        exact (h.storeInj _ _ mm mk' hm hk2 (by rw [← hstore]; exact heq))
      · cases hk2; rename_i h1 h2; subst h2
        exact (h.storeInj _ _ mk mm hk1 hm (by rw [← hstore]; exact heq))
      · exact h.storeInj k k' mk mk' hk1 hk2 heq
    · intro k mk hk' v hvm
      rw [hget] at hk'
      split at hk'
      · cases hk'; rename_i h1; subst h1; rw [hstore]; exact hv v hvm
      · rename_i hne
        obtain ⟨n, u, c, ho⟩ := h.varsOwn k mk hk' v hvm
        exact ⟨n, u, c, hvar k hne v _ _ _ ho⟩
    · intro k mk hk' q hqm
      rw [hget] at hk'
      split at hk'
      · cases hk'; rw [hstore]; exact hq q hqm
      · obtain ⟨x, u, ho⟩ := h.qtysOwn k mk hk' q hqm
        exact ⟨x, u, hqty q _ _ ho⟩
    · intro k mk hk' e he
      rw [hget] at hk'
      split at hk'
      · cases hk'; exact ht e he
      · exact h.toksOwn k mk hk' e he
    · intro k r hkr
      rcases hk k r hkr with hold | hnew
      · obtain ⟨m0, mm0, hm0, hV⟩ := h.keysOwn k r hold
        by_cases h0 : m0 = m
        · subst h0
          rw [hm] at hm0; cases hm0
          exact ⟨m0, mm', by rw [hget]; simp, hvsub _ hV⟩
        · exact ⟨m0, mm0, by rw [hget]; simp [h0]; exact hm0, hV⟩
      · exact ⟨m, mm', by rw [hget]; simp, hnew⟩
    · rw [hone]; exact hqty _ _ _ h.oneOk
  · intro j hjm mj hmj
    refine ⟨mj, hmj, by rw [hget]; simp [hjm]; exact hmj, ?_, ?_⟩
    · rw [hw]; exact sameView_refl _ h.world _ (h.storeLt j mj hmj)
    · intro id hid
      rcases hid with hid | hid
      · obtain ⟨n, u, c, ho⟩ := h.varsOwn j mj hmj id hid
        rw [ho]; exact hvar j hjm id _ _ _ ho
      · obtain ⟨x, u, ho⟩ := h.qtysOwn j mj hmj id hid
        rw [ho]; exact hqty id _ _ ho


theorem agree_refl (sym : Sym) {p : Proc} (h : PInv sym p) {j : Nat} {mj : MModel} (hm : p.models[j]? = some mj) :
    Agree p p j :=
  ⟨mj, hm, hm, sameView_refl _ h.world _ (h.storeLt j mj hm), fun _ _ => rfl⟩

theorem getElem?_append_self {α} (l : List α) (x : α) (r : List α) : (l ++ x :: r)[l.length]? = some x := by
  rw [List.getElem?_append_right (Nat.le_refl _)]; simp

/-! ### the operations one by one -/

theorem newStore_length (w : World) (share : Option Nat) :
    (w.newStore share).stores.length = w.stores.length + 1 := by
  unfold World.newStore
  split <;> simp

theorem units_spec (sym : Sym) (p : Proc) (h : PInv sym p) (uop : Iso.Op) :
    PInv sym { p with world := Iso.step p.world uop } ∧
    ∀ j mj, p.models[j]? = some mj → uop.actsOn mj.store = false →
      Agree p { p with world := Iso.step p.world uop } j := by
  refine ⟨⟨inv_step _ _ h.world, ?_, h.storeInj, h.varsOwn, h.qtysOwn, h.toksOwn, h.singOk, h.pwOk, h.keysOwn,
    h.oneOk⟩, ?_⟩
  · intro m mm hm
    exact Nat.lt_of_lt_of_le (h.storeLt m mm hm) (stores_length_step _ _ h.world)
  · intro j mj hm hact
    exact ⟨mj, hm, hm, step_view _ h.world uop _ (h.storeLt j mj hm) hact, fun _ _ => rfl⟩

theorem newModel_spec (sym : Sym) (p : Proc) (h : PInv sym p) (share : Option Nat) :
    PInv sym (newModel p share) ∧ ∀ j mj, p.models[j]? = some mj → Agree p (newModel p share) j := by
  have hw : (newModel p share).world = Iso.step p.world (.newStore share) := rfl
  have hget : ∀ (k : Nat) (mk : MModel), (newModel p share).models[k]? = some mk ↔
      p.models[k]? = some mk ∨ (k = p.models.length ∧ mk = { store := p.world.stores.length }) := by
    intro k mk; exact getElem?_snoc _ _ _ _
  have hlen : (newModel p share).world.stores.length = p.world.stores.length + 1 := newStore_length _ _
  refine ⟨⟨by rw [hw]; exact inv_step _ _ h.world, ?_, ?_, ?_, ?_, ?_, h.singOk, h.pwOk, ?_, h.oneOk⟩, ?_⟩
  · intro m mm hm
    rw [hlen]
    rcases (hget m mm).mp hm with h1 | ⟨_, rfl⟩
    · exact Nat.lt_succ_of_lt (h.storeLt m mm h1)
    · exact Nat.lt_succ_self _
  · intro m m' mm mm' hm hm' heq
    rcases (hget m mm).mp hm with h1 | ⟨e1, rfl⟩ <;> rcases (hget m' mm').mp hm' with h2 | ⟨e2, rfl⟩
    · exact h.storeInj m m' mm mm' h1 h2 heq
    · have := h.storeLt m mm h1; simp only at heq; omega
    · have := h.storeLt m' mm' h2; simp only at heq; omega
    · rw [e1, e2]
  · intro m mm hm v hv
    rcases (hget m mm).mp hm with h1 | ⟨_, rfl⟩
    · exact h.varsOwn m mm h1 v hv
    · simp at hv
  · intro m mm hm q hq
    rcases (hget m mm).mp hm with h1 | ⟨_, rfl⟩
    · exact h.qtysOwn m mm h1 q hq
    · simp at hq
  · intro m mm hm e he
    rcases (hget m mm).mp hm with h1 | ⟨_, rfl⟩
    · exact h.toksOwn m mm h1 e he
    · simp at he
  · intro k r hkr
    obtain ⟨m, mm, hm, hV⟩ := h.keysOwn k r hkr
    exact ⟨m, mm, (hget m mm).mpr (Or.inl hm), hV⟩
  · intro j mj hm
    refine ⟨mj, hm, (hget j mj).mpr (Or.inl hm), ?_, fun _ _ => rfl⟩
    rw [hw]
    exact step_view _ h.world _ _ (h.storeLt j mj hm) rfl

theorem addVariable_spec (sym : Sym) (p : Proc) (h : PInv sym p) (m : Nat) (name unit : String) :
    PInv sym (addVariable p m name unit) ∧
    ∀ j, j ≠ m → ∀ mj, p.models[j]? = some mj → Agree p (addVariable p m name unit) j := by
  unfold addVariable
  split
  · rename_i mm hm
    split
    · refine local_step sym p _ m mm _ h hm rfl rfl rfl (fun v hv => List.mem_append_left _ hv)
        (heapUpd_append _ _ _) rfl h.singOk h.pwOk (fun k r hkr => Or.inl hkr) ?_ ?_ ?_
      · intro v hv
        rcases List.mem_append.mp hv with hv | hv
        · obtain ⟨n, u, c, ho⟩ := h.varsOwn m mm hm v hv
          exact ⟨n, u, c, getElem?_append_of_some ho⟩
        · simp only [List.mem_singleton] at hv
          subst hv
          exact ⟨_, _, _, getElem?_append_self _ _ _⟩
      · intro q hq
        obtain ⟨x, u, ho⟩ := h.qtysOwn m mm hm q hq
        exact ⟨x, u, getElem?_append_of_some ho⟩
      · intro e he
        obtain ⟨h1, h2⟩ := h.toksOwn m mm hm e he
        exact ⟨List.mem_append_left _ h1, fun t ht =>
          TokOk_mono (fun v hv => List.mem_append_left _ hv) (fun q hq => hq) (h2 t ht)⟩
    · exact ⟨h, fun j _ mj hmj => agree_refl sym h hmj⟩
  · exact ⟨h, fun j _ mj hmj => agree_refl sym h hmj⟩

theorem createQuantity_spec (sym : Sym) (p : Proc) (h : PInv sym p) (m : Nat) (value : Rat) (unit : String) :
    PInv sym (createQuantity p m value unit) ∧
    ∀ j, j ≠ m → ∀ mj, p.models[j]? = some mj → Agree p (createQuantity p m value unit) j := by
  unfold createQuantity
  split
  · rename_i mm hm
    split
    · refine local_step sym p _ m mm _ h hm rfl rfl rfl (fun v hv => hv)
        (heapUpd_append _ _ _) rfl h.singOk h.pwOk (fun k r hkr => Or.inl hkr) ?_ ?_ ?_
      · intro v hv
        obtain ⟨n, u, c, ho⟩ := h.varsOwn m mm hm v hv
        exact ⟨n, u, c, getElem?_append_of_some ho⟩
      · intro q hq
        rcases List.mem_append.mp hq with hq | hq
        · obtain ⟨x, u, ho⟩ := h.qtysOwn m mm hm q hq
          exact ⟨x, u, getElem?_append_of_some ho⟩
        · simp only [List.mem_singleton] at hq
          subst hq
          exact ⟨_, _, getElem?_append_self _ _ _⟩
      · intro e he
        obtain ⟨h1, h2⟩ := h.toksOwn m mm hm e he
        exact ⟨h1, fun t ht => TokOk_mono (fun v hv => hv) (fun q hq => List.mem_append_left _ hq) (h2 t ht)⟩
    · exact ⟨h, fun j _ mj hmj => agree_refl sym h hmj⟩
  · exact ⟨h, fun j _ mj hmj => agree_refl sym h hmj⟩

theorem addEquation_spec (sym : Sym) (p : Proc) (h : PInv sym p) (m : Nat) (lhs : Nat) (rhs : Ex) :
    PInv sym (addEquation p m lhs rhs) ∧
    ∀ j, j ≠ m → ∀ mj, p.models[j]? = some mj → Agree p (addEquation p m lhs rhs) j := by
  unfold addEquation
  split
  · rename_i mm hm
    split
    · rename_i hg
      refine local_step sym p _ m mm _ h hm rfl rfl rfl (fun v hv => hv)
        (heapUpd_refl _ _) rfl h.singOk h.pwOk (fun k r hkr => Or.inl hkr)
        (h.varsOwn m mm hm) (h.qtysOwn m mm hm) ?_
      intro e he
      rcases List.mem_append.mp he with he | he
      · exact h.toksOwn m mm hm e he
      · simp only [List.mem_singleton] at he
        subst he
        exact hg
    · exact ⟨h, fun j _ mj hmj => agree_refl sym h hmj⟩
  · exact ⟨h, fun j _ mj hmj => agree_refl sym h hmj⟩

theorem convertVariable_spec (sym : Sym) (p : Proc) (h : PInv sym p) (m v : Nat) (unit : String) (cf : Rat) :
    PInv sym (convertVariable p m v unit cf) ∧
    ∀ j, j ≠ m → ∀ mj, p.models[j]? = some mj → Agree p (convertVariable p m v unit cf) j := by
  unfold convertVariable
  split
  · rename_i mm name s fs owner c hm hv
    split
    · rename_i hg
      obtain ⟨hvm, hs, _⟩ := hg
      refine local_step sym p _ m mm _ h hm rfl rfl rfl (fun v hv => List.mem_append_left _ hv)
        (heapUpd_append _ _ _) rfl h.singOk h.pwOk (fun k r hkr => Or.inl hkr) ?_ ?_ ?_
      · intro v' hv'
        rcases List.mem_append.mp hv' with hv' | hv'
        · obtain ⟨n, u, c, ho⟩ := h.varsOwn m mm hm v' hv'
          exact ⟨n, u, c, getElem?_append_of_some ho⟩
        · simp only [List.mem_singleton] at hv'
          subst hv'
          refine ⟨name ++ "_converted", [(unit, 1)], none, ?_⟩
          show (p.heap ++ [_, _])[p.heap.length + 1]? = _
          rw [List.getElem?_append_right (Nat.le_succ _)]
          simp
      · intro q hq
        rcases List.mem_append.mp hq with hq | hq
        · obtain ⟨x, u, ho⟩ := h.qtysOwn m mm hm q hq
          exact ⟨x, u, getElem?_append_of_some ho⟩
        · simp only [List.mem_singleton] at hq
          subst hq
          exact ⟨_, _, getElem?_append_self _ _ _⟩
      · intro e he
        rcases List.mem_append.mp he with he | he
        · obtain ⟨h1, h2⟩ := h.toksOwn m mm hm e he
          exact ⟨List.mem_append_left _ h1, fun t ht =>
            TokOk_mono (fun v hv => List.mem_append_left _ hv) (fun q hq => List.mem_append_left _ hq) (h2 t ht)⟩
        · simp only [List.mem_singleton] at he
          subst he
          refine ⟨List.mem_append_right _ (List.mem_singleton.mpr rfl), ?_⟩
          intro t ht
          simp only [List.mem_cons, List.not_mem_nil, or_false] at ht
          rcases ht with rfl | rfl | rfl
          · trivial
          · exact List.mem_append_left _ hvm
          · exact List.mem_append_right _ (List.mem_singleton.mpr rfl)
    · exact ⟨h, fun j _ mj hmj => agree_refl sym h hmj⟩
  · exact ⟨h, fun j _ mj hmj => agree_refl sym h hmj⟩

theorem addCmetaId_spec (sym : Sym) (p : Proc) (h : PInv sym p) (m v : Nat) :
    PInv sym (addCmetaId p m v) ∧
    ∀ j, j ≠ m → ∀ mj, p.models[j]? = some mj → Agree p (addCmetaId p m v) j := by
  unfold addCmetaId
  split
  · rename_i mm name u owner hm hv
    split
    · rename_i hvm
      obtain ⟨n, u', c, ho⟩ := h.varsOwn m mm hm v hvm
      rw [hv] at ho
      simp only [Option.some.injEq, Obj.var.injEq] at ho
      obtain ⟨hn, hu, ho3, _⟩ := ho
      subst hn hu
      subst owner
      have hvlt : v < p.heap.length := lt_of_getElem? hv
      refine local_step sym p _ m mm _ h hm rfl rfl rfl (fun v hv => hv) ?_ rfl h.singOk h.pwOk
        (fun k r hkr => Or.inl hkr) ?_ ?_ (h.toksOwn m mm hm)
      · intro id o ho
        by_cases hid : v = id
        · subst hid
          right
          rw [hv] at ho
          cases ho
          exact ⟨name, _, none, some (freshCmeta (mm.cmeta.map (·.1)) (mm.cmeta.length + 1) name), rfl,
            by simp [hvlt]⟩
        · left
          simp only [List.getElem?_set, hid, if_false]
          exact ho
      · intro v' hv'
        by_cases hid : v = v'
        · subst hid
          exact ⟨name, u', some (freshCmeta (mm.cmeta.map (·.1)) (mm.cmeta.length + 1) name), by simp [hvlt]⟩
        · obtain ⟨n, u, c, ho⟩ := h.varsOwn m mm hm v' hv'
          exact ⟨n, u, c, by simp only [List.getElem?_set, hid, if_false]; exact ho⟩
      · intro q hq
        obtain ⟨x, u, ho⟩ := h.qtysOwn m mm hm q hq
        have hid : v ≠ q := by
          intro heq; subst heq; rw [hv] at ho; cases ho
        exact ⟨x, u, by simp only [List.getElem?_set, hid, if_false]; exact ho⟩
    · exact ⟨h, fun j _ mj hmj => agree_refl sym h hmj⟩
  · exact ⟨h, fun j _ mj hmj => agree_refl sym h hmj⟩


/-! ### `remove_fixable_singularities`: the loop -/

theorem lruCall_mem {κ ν : Type} [BEq κ] (f : κ → ν) (cache : List (κ × ν)) (k : κ) (k' : κ) (r : ν)
    (h : (k', r) ∈ (lruCall f cache k).2) : (k', r) ∈ cache ∨ k' = k := by
  unfold lruCall cachedCall at h
  have h := List.mem_of_mem_take h
  split at h
  · exact Or.inl h
  · rcases List.mem_cons.mp h with h | h
    · cases h; exact Or.inr rfl
    · exact Or.inl h

theorem replanted_all (s : Nat) (u : List (String × Int)) (one : Rat) (r : SingRes) :
    ∀ o ∈ replanted s (.ofStore s u) one r, ∃ x u', o = Obj.qty x (.ofStore s u') := by
  intro o ho
  unfold replanted at ho
  rcases List.mem_cons.mp ho with ho | ho
  · exact ⟨_, _, ho⟩
  · obtain ⟨t, _, ht⟩ := List.mem_flatMap.mp ho
    simp only [List.mem_cons, List.not_mem_nil, or_false] at ht
    rcases ht with rfl | rfl | rfl <;> exact ⟨_, _, rfl⟩

theorem TokOk_skeleton (vars qtys : List Nat) (x : Ex) : ∀ t ∈ skeleton x, TokOk vars qtys t := by
  intro t ht
  have := (List.mem_filter.mp ht).2
  cases t <;> simp_all [TokOk]

/-- the loop invariant -/
structure FixGood (sym : Sym) (s : Nat) (vars : List Nat) (V : Nat) (p : Proc) (q0 : List Nat) (st : FixSt) : Prop where
  ext : HeapExt p.heap st.heap
  sub : ∀ q ∈ q0, q ∈ st.qtys
  qtys : ∀ q ∈ st.qtys, ∃ x u, st.heap[q]? = some (Obj.qty x (.ofStore s u))
  eqs : ∀ e ∈ st.eqs, e.lhs ∈ vars ∧ ∀ t ∈ e.rhs, TokOk vars st.qtys t
  sing : CacheOk sym.analyse st.sing
  pw : CacheOk sym.piecewise st.pw
  keys : ∀ (k : SingKey) (r : SingRes), (k, r) ∈ st.sing → (k, r) ∈ p.singCache ∨ k.V = V

theorem heapExt_ite (c : Bool) (h x : List Obj) : HeapExt h (if c = true then h ++ x else h) := by
  split
  · exact heapExt_append _ _
  · exact heapExt_refl _

theorem fixEq_good (sym : Sym) (s : Nat) (vars : List Nat) (V : Nat) (p : Proc) (q0 : List Nat) (u : List (String × Int))
    (one uo : Rat) (fn : String) (excl : List Nat) (st : FixSt) (e : Eqn)
    (g : FixGood sym s vars V p q0 st) (hV : V ∈ vars) (hl : e.lhs ∈ vars) (hr : ∀ t ∈ e.rhs, TokOk vars q0 t) :
    FixGood sym s vars V p q0 (fixEq sym s V (.ofStore s u) one uo fn excl st e) := by
  have hr' : ∀ t ∈ e.rhs, TokOk vars st.qtys t := fun t ht => TokOk_mono (fun _ h => h) g.sub (hr t ht)
  unfold fixEq
  split
  · refine { g with eqs := ?_ }
    intro e' he'
    rcases List.mem_append.mp he' with he' | he'
    · exact g.eqs e' he'
    · simp only [List.mem_singleton] at he'
      subst he'
      exact ⟨hl, hr'⟩
  · dsimp only
    have hsing := lruCall_ok sym.analyse st.sing g.sing ⟨evalf st.heap e.rhs, V, uo, fn⟩
    have hkeys : ∀ (k : SingKey) (r : SingRes),
        (k, r) ∈ (lruCall sym.analyse st.sing ⟨evalf st.heap e.rhs, V, uo, fn⟩).2 → (k, r) ∈ p.singCache ∨ k.V = V := by
      intro k r hkr
      rcases lruCall_mem _ _ _ _ _ hkr with h1 | h1
      · exact g.keys k r h1
      · right; rw [h1]
    have hext1 := g.ext.trans (heapExt_ite (st.sing.lookup ⟨evalf st.heap e.rhs, V, uo, fn⟩).isNone st.heap
      (placeholders (lruCall sym.analyse st.sing ⟨evalf st.heap e.rhs, V, uo, fn⟩).1))
    have hstep := heapExt_ite (st.sing.lookup ⟨evalf st.heap e.rhs, V, uo, fn⟩).isNone st.heap
      (placeholders (lruCall sym.analyse st.sing ⟨evalf st.heap e.rhs, V, uo, fn⟩).1)
    split
    · refine ⟨hext1, g.sub, ?_, ?_, hsing, g.pw, hkeys⟩
      · intro q hq
        obtain ⟨x, u', ho⟩ := g.qtys q hq
        exact ⟨x, u', hstep _ _ ho⟩
      · intro e' he'
        rcases List.mem_append.mp he' with he' | he'
        · exact g.eqs e' he'
        · simp only [List.mem_singleton] at he'
          subst he'
          exact ⟨hl, hr'⟩
    · refine ⟨hext1.trans (heapExt_append _ _), fun q hq => List.mem_append_left _ (g.sub q hq), ?_, ?_, hsing,
        (lruCalls_ok sym.piecewise _ _ g.pw).2, hkeys⟩
      · intro q hq
        rcases List.mem_append.mp hq with hq | hq
        · obtain ⟨x, u', ho⟩ := g.qtys q hq
          exact ⟨x, u', heapExt_append _ _ _ _ (hstep _ _ ho)⟩
        · obtain ⟨k, hk, rfl⟩ := List.mem_map.mp hq
          have hk' := List.mem_range.mp hk
          rw [List.getElem?_append_right (Nat.le_add_left _ _), Nat.add_sub_cancel]
          obtain ⟨x, u', ho⟩ := replanted_all s u one _ _ (List.getElem_mem hk')
          exact ⟨x, u', by rw [List.getElem?_eq_getElem hk', ho]⟩
      · intro e' he'
        rcases List.mem_append.mp he' with he' | he'
        · obtain ⟨h1, h2⟩ := g.eqs e' he'
          exact ⟨h1, fun t ht => TokOk_mono (fun _ h => h) (fun q hq => List.mem_append_left _ hq) (h2 t ht)⟩
        · simp only [List.mem_singleton] at he'
          subst he'
          refine ⟨hl, ?_⟩
          intro t ht
          rcases List.mem_append.mp ht with ht | ht
          · rcases List.mem_append.mp ht with ht | ht
            · rcases List.mem_cons.mp ht with rfl | ht
              · trivial
              · obtain ⟨id, hid, rfl⟩ := List.mem_map.mp ht
                exact List.mem_append_right _ hid
            · rcases List.mem_cons.mp ht with rfl | ht
              · exact hV
              · obtain ⟨x, _, hx⟩ := List.mem_flatMap.mp ht
                exact TokOk_skeleton _ _ x t hx
          · exact TokOk_mono (fun _ h => h) (fun q hq => List.mem_append_left _ hq) (hr' t ht)

theorem foldl_good (sym : Sym) (s : Nat) (vars : List Nat) (V : Nat) (p : Proc) (q0 : List Nat) (u : List (String × Int))
    (one uo : Rat) (fn : String) (excl : List Nat) (hV : V ∈ vars) :
    ∀ (eqs : List Eqn) (st : FixSt), FixGood sym s vars V p q0 st →
      (∀ e ∈ eqs, e.lhs ∈ vars ∧ ∀ t ∈ e.rhs, TokOk vars q0 t) →
      FixGood sym s vars V p q0 (eqs.foldl (fixEq sym s V (.ofStore s u) one uo fn excl) st) := by
  intro eqs
  induction eqs with
  | nil => intro st g _; exact g
  | cons e es ih =>
      intro st g he
      exact ih _ (fixEq_good sym s vars V p q0 u one uo fn excl st e g hV (he e (by simp)).1 (he e (by simp)).2)
        (fun e' he' => he e' (by simp [he']))

theorem removeSing_spec (sym : Sym) (p : Proc) (h : PInv sym p) (m V : Nat) (excl : List Nat) :
    PInv sym (removeSing sym p m V excl) ∧
    ∀ j, j ≠ m → ∀ mj, p.models[j]? = some mj → Agree p (removeSing sym p m V excl) j := by
  unfold removeSing
  split
  · rename_i mm n vu owner c oneValue ou hm hV hone
    split
    · rename_i hVm
      obtain ⟨n', u, c', ho⟩ := h.varsOwn m mm hm V hVm
      rw [hV] at ho
      simp only [Option.some.injEq, Obj.var.injEq] at ho
      obtain ⟨_, hu, _, _⟩ := ho
      subst hu
      have g0 : FixGood sym mm.store mm.vars V p mm.qtys
          { heap := p.heap, qtys := mm.qtys, sing := p.singCache, pw := p.pwCache, eqs := [] } :=
        ⟨heapExt_refl _, fun _ h => h, h.qtysOwn m mm hm, (by intro e he; cases he), h.singOk, h.pwOk,
          fun k r hkr => Or.inl hkr⟩
      have g := foldl_good sym mm.store mm.vars V p mm.qtys u oneValue (1 / 10000000) (handlerOf p "exp") excl hVm
        mm.eqs _ g0 (h.toksOwn m mm hm)
      refine local_step sym p _ m mm _ h hm rfl rfl rfl (fun v hv => hv) (g.ext.upd m) rfl g.sing g.pw ?_ ?_
        g.qtys g.eqs
      · intro k r hkr
        rcases g.keys k r hkr with h1 | h1
        · exact Or.inl h1
        · right; rw [h1]; exact hVm
      · intro v hv
        obtain ⟨n, u, c, ho⟩ := h.varsOwn m mm hm v hv
        exact ⟨n, u, c, g.ext _ _ ho⟩
    · exact ⟨h, fun j _ mj hmj => agree_refl sym h hmj⟩
  · exact ⟨h, fun j _ mj hmj => agree_refl sym h hmj⟩


/-! ### every operation -/

theorem step_spec (sym : Sym) (p : Proc) (h : PInv sym p) (op : POp) :
    PInv sym (step sym p op) ∧
    ∀ j mj, p.models[j]? = some mj → op.actsOn j mj.store = false → Agree p (step sym p op) j := by
  have hne : ∀ {m j : Nat}, (m == j) = false → j ≠ m := by
    intro m j hmj heq; subst heq; simp at hmj
  cases op with
  | units uop =>
      obtain ⟨h1, h2⟩ := units_spec sym p h uop
      exact ⟨h1, fun j mj hm hact => h2 j mj hm hact⟩
  | newModel share =>
      obtain ⟨h1, h2⟩ := newModel_spec sym p h share
      exact ⟨h1, fun j mj hm _ => h2 j mj hm⟩
  | addVariable m name unit =>
      obtain ⟨h1, h2⟩ := addVariable_spec sym p h m name unit
      exact ⟨h1, fun j mj hm hact => h2 j (hne hact) mj hm⟩
  | createQuantity m value unit =>
      obtain ⟨h1, h2⟩ := createQuantity_spec sym p h m value unit
      exact ⟨h1, fun j mj hm hact => h2 j (hne hact) mj hm⟩
  | addEquation m lhs rhs =>
      obtain ⟨h1, h2⟩ := addEquation_spec sym p h m lhs rhs
      exact ⟨h1, fun j mj hm hact => h2 j (hne hact) mj hm⟩
  | convertVariable m v unit cf =>
      obtain ⟨h1, h2⟩ := convertVariable_spec sym p h m v unit cf
      exact ⟨h1, fun j mj hm hact => h2 j (hne hact) mj hm⟩
  | removeSing m V excl =>
      obtain ⟨h1, h2⟩ := removeSing_spec sym p h m V excl
      exact ⟨h1, fun j mj hm hact => h2 j (hne hact) mj hm⟩
  | addCmetaId m v =>
      obtain ⟨h1, h2⟩ := addCmetaId_spec sym p h m v
      exact ⟨h1, fun j mj hm hact => h2 j (hne hact) mj hm⟩
  | setHandler tag cls =>
      exact ⟨⟨h.world, h.storeLt, h.storeInj, h.varsOwn, h.qtysOwn, h.toksOwn, h.singOk, h.pwOk, h.keysOwn, h.oneOk⟩,
        fun j mj hm _ => agree_refl sym h hm⟩

theorem inv_step (sym : Sym) (p : Proc) (h : PInv sym p) (op : POp) : PInv sym (step sym p op) :=
  (step_spec sym p h op).1

theorem inv_run (sym : Sym) (ops : List POp) : ∀ p, PInv sym p → PInv sym (run sym p ops) := by
  induction ops with
  | nil => intro p h; exact h
  | cons op ops ih => intro p h; exact ih _ (inv_step sym p h op)

/-- every process state reachable from the freshly imported package satisfies the ownership invariant -/
theorem inv_reachable (sym : Sym) (ops : List POp) : PInv sym (run sym {} ops) := inv_run sym ops _ (inv_init sym)

theorem run_agree (sym : Sym) (ops : List POp) : ∀ (p : Proc), PInv sym p → ∀ (j : Nat) (mj : MModel),
    p.models[j]? = some mj → (∀ op ∈ ops, op.actsOn j mj.store = false) → Agree p (run sym p ops) j := by
  induction ops with
  | nil => intro p h j mj hm _; exact agree_refl sym h hm
  | cons op ops ih =>
      intro p h j mj hm hops
      obtain ⟨h1, h2⟩ := step_spec sym p h op
      have a1 := h2 j mj hm (hops op (by simp))
      obtain ⟨mj', e1, e2, _, _⟩ := id a1
      rw [hm] at e1; cases e1
      exact Agree.trans a1 (ih _ h1 j mj e2 (fun o ho => hops o (by simp [ho])))

/-! ### the theorems -/

/-- **frame_model**: an operation that does not act on model `j` — an operation on another model `i ≠ j`, on a store
    other than `j`'s, the creation of a model or store (own or SHARED registry), a change of the global handler table —
    leaves the observation of `j` unchanged: its variables, its equations with the unit of every quantity (resolved
    through `j`'s own store: `is_defined` and root form of every factor), its cmeta ids, everything observable through
    its unit store, and the answer of the memoised analysis for each of its expressions, for every `V`, offset and
    `exp` function. -/
theorem frame_model (sym : Sym) (p : Proc) (h : PInv sym p) (op : POp) (j : Nat) (mj : MModel)
    (hm : p.models[j]? = some mj) (hop : op.actsOn j mj.store = false) :
    obsModel (step sym p op) j = obsModel p j ∧
    ∀ e ∈ mj.eqs, ∀ V u fn,
      analysisAnswer sym (step sym p op) e.rhs V u fn = analysisAnswer sym p e.rhs V u fn := by
  obtain ⟨h1, h2⟩ := step_spec sym p h op
  obtain ⟨o1, o2⟩ := (h2 j mj hm hop).obs sym h h1
  exact ⟨o1, o2 mj hm⟩

/-- **frame_model_run**: the same for every finite interleaving of operations none of which acts on `j` -/
theorem frame_model_run (sym : Sym) (p : Proc) (h : PInv sym p) (ops : List POp) (j : Nat) (mj : MModel)
    (hm : p.models[j]? = some mj) (hops : ∀ op ∈ ops, op.actsOn j mj.store = false) :
    obsModel (run sym p ops) j = obsModel p j ∧
    ∀ e ∈ mj.eqs, ∀ V u fn,
      analysisAnswer sym (run sym p ops) e.rhs V u fn = analysisAnswer sym p e.rhs V u fn := by
  obtain ⟨o1, o2⟩ := (run_agree sym ops p h j mj hm hops).obs sym h (inv_run sym ops p h)
  exact ⟨o1, o2 mj hm⟩

/-- unconditional form: after ANY history `ops₀` of the process, any further work elsewhere leaves model `j` as it was -/
theorem frame_model_reachable (sym : Sym) (ops₀ ops : List POp) (j : Nat) (mj : MModel)
    (hm : (run sym {} ops₀).models[j]? = some mj) (hops : ∀ op ∈ ops, op.actsOn j mj.store = false) :
    obsModel (run sym {} (ops₀ ++ ops)) j = obsModel (run sym {} ops₀) j ∧
    ∀ e ∈ mj.eqs, ∀ V u fn,
      analysisAnswer sym (run sym {} (ops₀ ++ ops)) e.rhs V u fn =
        analysisAnswer sym (run sym {} ops₀) e.rhs V u fn := by
  have : run sym {} (ops₀ ++ ops) = run sym (run sym {} ops₀) ops := by simp [Process.run, List.foldl_append]
  rw [this]
  exact frame_model_run sym _ (inv_reachable sym ops₀) ops j mj hm hops

/-- the variables of two different models are different objects (`Variable._model` names the owner) -/
theorem vars_disjoint (sym : Sym) (p : Proc) (h : PInv sym p) (i j : Nat) (mi mj : MModel)
    (hi : p.models[i]? = some mi) (hj : p.models[j]? = some mj) (hij : i ≠ j) (V V' : Nat)
    (hV : V ∈ mi.vars) (hV' : V' ∈ mj.vars) : V ≠ V' := by
  intro heq
  subst heq
  obtain ⟨n, u, c, ho⟩ := h.varsOwn i mi hi V hV
  obtain ⟨n', u', c', ho'⟩ := h.varsOwn j mj hj V hV'
  rw [ho] at ho'
  simp only [Option.some.injEq, Obj.var.injEq] at ho'
  exact hij ho'.2.2.1

/-- **cache_key_sound**, for every reachable process state (every history of calls by every model):
    (1) the memoised answer for any key is the value of the pure analysis at that key — a function of the key alone,
        whatever filled (or was evicted from) the table;
    (2) the same for `_generate_piecewise`;
    (3) keys made by two different models differ, whatever the expressions, offsets and `exp` functions (their `V`
        differ), for both tables;
    (4) every key in the table carries the `V` of some model of the process (so by (3) of exactly one). -/
theorem cache_key_sound (sym : Sym) (ops : List POp) :
    let p := run sym {} ops
    (∀ k : SingKey, (lruCall sym.analyse p.singCache k).1 = sym.analyse k) ∧
    (∀ k : PwKey, (lruCall sym.piecewise p.pwCache k).1 = sym.piecewise k) ∧
    (∀ (i j : Nat) (mi mj : MModel), p.models[i]? = some mi → p.models[j]? = some mj → i ≠ j →
      ∀ V ∈ mi.vars, ∀ V' ∈ mj.vars,
        (∀ e e' u u' f f', (⟨e, V, u, f⟩ : SingKey) ≠ ⟨e', V', u', f'⟩) ∧
        (∀ e e' a a' b b' c c', (⟨e, V, a, b, c⟩ : PwKey) ≠ ⟨e', V', a', b', c'⟩)) ∧
    (∀ (k : SingKey) (r : SingRes), (k, r) ∈ p.singCache →
      ∃ (m : Nat) (mm : MModel), p.models[m]? = some mm ∧ k.V ∈ mm.vars) := by
  intro p
  have h : PInv sym p := inv_reachable sym ops
  refine ⟨fun k => lruCall_fst _ _ h.singOk k, fun k => lruCall_fst _ _ h.pwOk k, ?_, h.keysOwn⟩
  intro i j mi mj hi hj hij V hV V' hV'
  have hne := vars_disjoint sym p h i j mi mj hi hj hij V V' hV hV'
  refine ⟨?_, ?_⟩
  · intro e e' u u' f f' heq
    exact hne (SingKey.mk.inj heq).2.1
  · intro e e' a a' b b' c c' heq
    exact hne (PwKey.mk.inj heq).2.1

theorem step_one (sym : Sym) (p : Proc) (op : POp) : (step sym p op).one = p.one := by
  cases op with
  | units uop => rfl
  | newModel share => rfl
  | addVariable m name unit => simp only [Process.step, addVariable]; split <;> (try split) <;> rfl
  | createQuantity m value unit => simp only [Process.step, createQuantity]; split <;> (try split) <;> rfl
  | addEquation m lhs rhs => simp only [Process.step, addEquation]; split <;> (try split) <;> rfl
  | convertVariable m v unit cf => simp only [Process.step, convertVariable]; split <;> (try split) <;> rfl
  | removeSing m V excl => simp only [Process.step, removeSing]; split <;> (try split) <;> rfl
  | addCmetaId m v => simp only [Process.step, addCmetaId]; split <;> (try split) <;> rfl
  | setHandler tag cls => rfl

/-- **one_not_mutated**: in every reachable state the name `ONE` is bound to the object the import created
    (heap index 1) and that object is still `Quantity(1.0, 'dimensionless')` with its placeholder string unit: no
    operation of any model re-binds it or writes to it (it is only read, as a template) -/
theorem one_not_mutated (sym : Sym) (ops : List POp) :
    (run sym {} ops).one = 1 ∧ (run sym {} ops).heap[1]? = some (Obj.qty 1 (.bare "dimensionless")) := by
  have hone : ∀ (ops : List POp) (p : Proc), (run sym p ops).one = p.one := by
    intro ops
    induction ops with
    | nil => intro p; rfl
    | cons op ops ih => intro p; exact (ih _).trans (step_one sym p op)
  have h := (inv_reachable sym ops).oneOk
  rw [hone ops {}] at h ⊢
  exact ⟨rfl, h⟩

/-- one-step form from any state satisfying the invariant -/
theorem one_not_mutated_step (sym : Sym) (p : Proc) (h : PInv sym p) (op : POp) :
    (step sym p op).one = p.one ∧ (step sym p op).heap[p.one]? = p.heap[p.one]? := by
  refine ⟨step_one sym p op, ?_⟩
  have h' := (inv_step sym p h op).oneOk
  rw [step_one] at h'
  rw [h', h.oneOk]

/-- **units_own**: in every reachable state, every quantity in every equation of every model carries a unit of the
    store of ITS model (never a string placeholder, never a unit named in another model's store), and every variable
    in it is a variable of that model -/
theorem units_own (sym : Sym) (ops : List POp) (m : Nat) (mm : MModel)
    (hm : (run sym {} ops).models[m]? = some mm) (e : Eqn) (he : e ∈ mm.eqs) :
    (∀ id, Tok.q id ∈ e.rhs → ∃ x u, (run sym {} ops).heap[id]? = some (Obj.qty x (.ofStore mm.store u))) ∧
    (∀ id, Tok.v id ∈ e.rhs → ∃ n u c, (run sym {} ops).heap[id]? = some (Obj.var n (.ofStore mm.store u) m c)) := by
  have h := inv_reachable sym ops
  obtain ⟨_, h2⟩ := h.toksOwn m mm hm e he
  exact ⟨fun id hid => h.qtysOwn m mm hm id (h2 _ hid), fun id hid => h.varsOwn m mm hm id (h2 _ hid)⟩

/-- two models never have the same store (each `Model.__init__` creates its own `UnitStore`) -/
theorem stores_distinct (sym : Sym) (ops : List POp) (i j : Nat) (mi mj : MModel)
    (hi : (run sym {} ops).models[i]? = some mi) (hj : (run sym {} ops).models[j]? = some mj) (hij : i ≠ j) :
    mi.store ≠ mj.store :=
  fun heq => hij ((inv_reachable sym ops).storeInj i j mi mj hi hj heq)

/-! ### non-vacuity: a concrete process with two models SHARING a registry, equal names, both repaired -/

/-- a SymPy that finds one singularity at `V = -5` in every expression containing `exp` -/
def demoSym : Sym where
  analyse k := if k.expr.contains (.op "exp" 1) then [(-5 - 1 / 10000000, -5 + 1 / 10000000, -5)] else []
  piecewise k := .op "Piecewise" 2 :: k.expr

def demoOps : List POp :=
  [.newModel none, .newModel (some 0),
   .units (.addUnit 0 "mV" [{ units := "volt", pfx := some "milli" }]),
   .units (.addUnit 1 "mV" [{ units := "volt", pfx := some "micro" }]),
   .addVariable 0 "V" "mV", .addVariable 1 "V" "mV",          -- heap 2, 3
   .addVariable 0 "i" "mV", .addVariable 1 "i" "mV",          -- heap 4, 5
   .createQuantity 0 5 "mV", .createQuantity 1 5 "mV",        -- heap 6, 7
   .addEquation 0 4 [.op "Mul" 2, .v 2, .op "exp" 1, .q 6],
   .addEquation 1 5 [.op "Mul" 2, .v 3, .op "exp" 1, .q 7],
   .addEquation 1 5 [.v 2],                                   -- refused: a variable of model 0
   .removeSing 0 2 [], .addCmetaId 0 2, .convertVariable 0 4 "volt" (1 / 1000), .removeSing 0 2 []]

/-- model 1 after everything model 0 did (repair, annotation, conversion, second repair) = model 1 before it: the
    hypotheses of `frame_model_reachable` are met by the demo -/
example : obsModel (Process.run demoSym {} demoOps) 1 = obsModel (Process.run demoSym {} (demoOps.take 13)) 1 :=
  (frame_model_reachable demoSym (demoOps.take 13) (demoOps.drop 13) 1
    { store := 1, vars := [3, 5], qtys := [7], eqs := [⟨5, [.op "Mul" 2, .v 3, .op "exp" 1, .q 7]⟩] }
    (by decide +kernel) (by decide)).1

/-- … the observation is not empty, and model 0 DID change: repaired with 4 new quantities, one converted variable;
    the refused equation (a variable of model 0 in model 1) changed nothing -/
example : ((Process.run demoSym {} demoOps).models.map (fun mm => (mm.store, mm.vars, mm.qtys, mm.eqs.length))) =
    [(0, [2, 4, 16], [6, 11, 12, 13, 14, 15], 2), (1, [3, 5], [7], 1)] := by decide +kernel
example : (obsModel (Process.run demoSym {} demoOps) 1).map (fun o => o.vars.length) = some 2 := by decide +kernel
example : (Process.run demoSym {} demoOps).singCache.length = 2 := by decide +kernel
example : (Process.run demoSym {} demoOps).heap.length = 17 := by decide +kernel
/-- the copy of `ONE` planted in model 0 carries model 0's own `dimensionless`, the bounds carry the unit of its `V` -/
example : (Process.run demoSym {} demoOps).heap[11]? = some (.qty 1 (.ofStore 0 [("dimensionless", 1)])) := by
  decide +kernel
example : (Process.run demoSym {} demoOps).heap[12]? =
    some (.qty (-5 - 1 / 10000000) (.ofStore 0 [("mV", 1)])) := by decide +kernel
/-- the first repair of model 1 MISSES the cache although model 0 analysed the same-looking expression: its key
    carries `V = 3`, the keys of model 0 carry `V = 2` -/
example : ((Process.run demoSym {} (demoOps ++ [.removeSing 1 3 []])).singCache.map (·.1.V)) = [3, 2, 2] := by
  decide +kernel

end Cellml.Props.C16Process
