import Cellml.Units.Rules
import Cellml.Tie.Prelude

/-! # Symbolic view of `Model.convert_variable` for the hand model of C19 (`Units.convertVariable`, Units/Rules.lean)

    `Units.convertVariable reg rules a b dir kind hasInit nOdes` is "the part of `Model.convert_variable` that depends on
    the factor": whether the original variable is returned, which exception is raised, and — when a conversion
    happens — the factor, whether the initial value is scaled by it, and the SHAPES of the equations that mention the
    factor, in the order they are added. This view runs the python code on symbolic values: a `Variable` / expression is
    an `SV`, `add_equation` logs the shape of the equation (`classify`), `add_variable` logs whether the initial value it
    is given was scaled. How the variable is defined (`VarKind`), whether it has an initial value, the number of ODEs and
    the conversion factor are inputs, as in the hand model. Core Lean only. -/

namespace Cellml.Tie.CVSym
open Units Cellml.Tie

/-- a conversion factor other than the int `1`: number × symbols -/
abbrev Factor := Scale × Syms

/-- the sympy objects `convert_variable` handles -/
inductive SV
  | orig                        -- `original_variable`
  | new                         -- the variable `_convert_variable_instance` creates
  | time                        -- a free variable that is not `original_variable`
  | rhsVar                      -- an `…_orig_deriv` variable
  | stateVar                    -- the state variable of an ODE of the loop over the ODEs
  | origRhs                     -- the right-hand side of the equation defining `original_variable`
  | odeRhs                      -- the right-hand side of an ODE
  | deriv (x t : SV)            -- `sympy.Derivative(x, t)`
  | mulCf (a : SV) (c : Factor) -- `a * cf`
  | divCf (a : SV) (c : Factor) -- `a / cf`
deriving DecidableEq, Repr

/-- `sympy.Eq(lhs, rhs)` -/
structure SEq where
  lhs : SV
  rhs : SV
deriving DecidableEq, Repr

instance : HMul SV Factor SV := ⟨SV.mulCf⟩
instance : HDiv SV Factor SV := ⟨SV.divCf⟩

/-- the shape of an equation that mentions the factor (the `EqForm`s of the hand model, by their doc comments) -/
def classify : SEq → Option (EqForm × Factor)
  | ⟨.new, .mulCf .orig c⟩ => some (.newFromOrig, c)               -- new = orig · cf
  | ⟨.new, .mulCf .origRhs c⟩ => some (.newFromRhs, c)             -- new = rhs · cf
  | ⟨.orig, .divCf .new c⟩ => some (.origFromNew, c)               -- orig = new / cf
  | ⟨.deriv .new .time, .mulCf .rhsVar c⟩ => some (.odeOfNew, c)   -- d new / d t = rhs_var · cf
  | ⟨.deriv .stateVar .new, .divCf .rhsVar c⟩ => some (.odeWrtNew, c)  -- d x / d new = rhs_var / cf
  | _ => none

/-- `d.args[0]`, `d.args[1]` of a `Derivative` (the `(t, 1)` tuple folded into `t`) -/
def SV.arg0 : SV → SV
  | .deriv x _ => x
  | a => a
def SV.arg1 : SV → SV
  | .deriv _ t => t
  | a => a

/-- an initial value: as it was, or multiplied by `float(cf)` -/
inductive InitV
  | raw
  | scaled (c : Factor)
deriving DecidableEq, Repr

/-- `initial_value * float(cf)` (evaluated only under the source's `is not None` test) -/
instance : HMul (Option InitV) Factor (Option InitV) := ⟨fun o c => o.map (fun _ => .scaled c)⟩

/-- what is recorded of the model's mutations -/
structure SymSt where
  log : List (EqForm × Factor) := []      -- the equations that mention the factor, in the order they are added
  initScaled : Bool := false              -- a variable was added with a scaled initial value
deriving DecidableEq, Repr

/-- `self.add_equation(eq)` -/
def SymSt.addEquation (st : SymSt) (e : SEq) : SymSt :=
  match classify e with
  | some f => { st with log := st.log ++ [f] }
  | none => st

/-- `self.add_variable(…, initial_value=iv)` -/
def SymSt.addVariable (st : SymSt) (iv : Option InitV) : SymSt :=
  match iv with
  | some (.scaled _) => { st with initScaled := true }
  | _ => st

/-- python uses a value it has just tested with `is not None` as the value itself -/
class AsSEq (α : Type) where
  asSEq : α → SEq
instance : AsSEq SEq := ⟨id⟩
instance : AsSEq (Option SEq) := ⟨fun o => o.getD ⟨.orig, .orig⟩⟩
/-- `equation.args[1]` -/
def eqArg1 {α} [AsSEq α] (e : α) : SV := (AsSEq.asSEq e).rhs

/-- the inputs of the hand model, as the python code reads them -/
structure SymView where
  /-- `self.units.get_conversion_factor(…)`: `none` is the int `1` -/
  getCf : Except PyErr (Option Factor)
  kind : VarKind
  hasInit : Bool
  nOdes : Nat
  /-- `original_variable._cmeta_id` (does not matter for the outcome) -/
  cmeta : Option Unit

/-- `assert original_variable.name in self._name_to_variable`: the hand model is about variables of the model -/
def SymView.inModel (_self : SymView) (_v : SV) : Bool := true
/-- `v.initial_value` -/
def SymView.initOf (self : SymView) (_v : SV) : Option InitV := if self.hasInit then some .raw else none
def SymView.cmetaOf (self : SymView) (_v : SV) : Option Unit := self.cmeta
/-- `self._var_definition_map.get(v)` -/
def SymView.varDefOf (self : SymView) (_v : SV) : Option SEq :=
  if self.kind = .defined then some ⟨.orig, .origRhs⟩ else none
/-- `self._ode_definition_map[v]` of a state variable -/
def SymView.odeOf (_self : SymView) (v : SV) : SEq := ⟨.deriv v .time, .odeRhs⟩
/-- `self.get_state_variables()` (on the right of `in`) -/
def SymView.stateSymbols (self : SymView) : List SV := if self.kind = .state then [.orig] else []
/-- `self.get_free_variable()` -/
def SymView.getFreeVariable (self : SymView) : Except PyErr (Option SV) :=
  if self.kind = .free then .ok (some .orig)
  else if self.kind = .state then .ok (some .time)
  else .error ⟨"ValueError"⟩
/-- `sorted(self._ode_definition_map.items(), key=…)` when `original_variable` is the free variable: `nOdes` ODEs -/
def SymView.sortedOdeItems (self : SymView) : List (Unit × SEq) :=
  List.replicate self.nOdes ((), ⟨.deriv .stateVar .orig, .odeRhs⟩)

/-- `cf == 1` (`get_conversion_factor` answers the int `1` for a factor of one; a symbolic factor is never `== 1`) -/
def cfIsOne (cf : Option Factor) : Bool := cf.isNone
/-- `isinstance(cf, numbers.Number)` -/
def cfIsNumber : Option Factor → Bool
  | some (_, y) => y == []
  | none => true
/-- the factor as the helpers receive it -/
def cfGet (cf : Option Factor) : Factor := cf.getD ([], [])
/-- `float(cf)`: `TypeError` for a symbolic factor -/
def floatM (c : Factor) : Except PyErr Factor := if c.2 == [] then .ok c else .error ⟨"TypeError"⟩

/-- class names of the unit errors -/
def uerrClass : UErr → String
  | .dimensionality => "DimensionalityError"
  | .undefinedUnit => "UndefinedUnitError"
  | .valueError => "ValueError"
  | .other w => w

/-- the view of the hand model's inputs -/
def symView (reg : Registry) (rules : List Rule) (a b : Container) (kind : VarKind) (hasInit : Bool) (nOdes : Nat)
    (cmeta : Option Unit) : SymView :=
  { getCf := match conversionFactorR reg rules a b with
      | .ok o => .ok o
      | .error e => .error ⟨uerrClass e⟩,
    kind := kind, hasInit := hasInit, nOdes := nOdes, cmeta := cmeta }

end Cellml.Tie.CVSym
