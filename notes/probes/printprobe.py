"""Scratch probe: Printer over every (parent, child, position) combination + random trees; emitted code is executed (C11)."""
import random, sys, collections, math, cmath, itertools, logging
import sympy as sp
from cellmlmanip.printer import Printer
seed = int(sys.argv[1]) if len(sys.argv) > 1 else 0; N = int(sys.argv[2]) if len(sys.argv) > 2 else 2000
rng = random.Random(seed); finds = collections.defaultdict(list); stats = collections.Counter()
P = Printer()
x, y, z, w = sp.symbols('x y z w', real=True)
ENV = {'x': 1.7, 'y': 0.6, 'z': 1.3, 'w': 2.2}
SUB = {x: 1.7, y: 0.6, z: 1.3, w: 2.2}
atoms = [x, y, z, w, sp.Integer(2), sp.Integer(-3), sp.Rational(2, 3), sp.Rational(-1, 2), sp.Float(2.5), sp.Float(-1.5), sp.Integer(1), sp.Integer(-1), sp.Integer(0)]
def U(f, *a): return f(*a, evaluate=False)
BIN = {'add': lambda a, b, ev: sp.Add(a, b, evaluate=ev), 'sub': lambda a, b, ev: sp.Add(a, sp.Mul(-1, b, evaluate=ev), evaluate=ev),
       'mul': lambda a, b, ev: sp.Mul(a, b, evaluate=ev), 'div': lambda a, b, ev: sp.Mul(a, sp.Pow(b, -1, evaluate=ev), evaluate=ev),
       'pow': lambda a, b, ev: sp.Pow(a, b, evaluate=ev)}
UN = {'neg': lambda a, ev: sp.Mul(-1, a, evaluate=ev), 'abs': lambda a, ev: sp.Abs(a, evaluate=ev), 'sqrt': lambda a, ev: sp.Pow(a, sp.Rational(1, 2), evaluate=ev),
      'rsqrt': lambda a, ev: sp.Pow(a, sp.Rational(-1, 2), evaluate=ev), 'inv': lambda a, ev: sp.Pow(a, -1, evaluate=ev), 'exp': lambda a, ev: sp.exp(a, evaluate=ev),
      'sin': lambda a, ev: sp.sin(a, evaluate=ev), 'sec': lambda a, ev: sp.sec(a), 'acot': lambda a, ev: sp.acot(a), 'log': lambda a, ev: sp.log(a, evaluate=ev)}
FUNCS1 = [sp.sin, sp.cos, sp.tan, sp.sinh, sp.cosh, sp.tanh, sp.asin, sp.acos, sp.atan, sp.asinh, sp.acosh, sp.atanh, sp.exp, sp.log, sp.floor, sp.ceiling, sp.Abs,
          sp.sec, sp.csc, sp.cot, sp.sech, sp.csch, sp.coth, sp.asec, sp.acsc, sp.acot, sp.asech, sp.acsch, sp.acoth, sp.sqrt, sp.factorial]
def pw(a, b, ev): return sp.Piecewise((a, x < y), (b, True), evaluate=ev)
def truth(e):
    v = e.xreplace(SUB)
    if v in (sp.true, sp.false): return bool(v)
    if isinstance(v, sp.logic.boolalg.Boolean) : return bool(sp.simplify(v))
    return complex(sp.N(v, 30))
def check(e, tag):
    stats['exprs'] += 1
    try: s = P.doprint(e)
    except ValueError as ex: stats['ValueError'] += 1; return
    except Exception as ex: finds['doprint EXC ' + type(ex).__name__].append((tag, sp.srepr(e)[:120])); return
    try: exp = truth(e)
    except Exception as ex: stats['truth-exc'] += 1; return
    if not isinstance(exp, bool) and (exp != exp or abs(exp) == float('inf')): stats['truth nan/inf'] += 1; return
    try: got = eval(s, {'math': math, '__builtins__': {'abs': abs, 'float': float}}, dict(ENV))
    except (ZeroDivisionError, OverflowError) as ex: stats['eval arith exc'] += 1; return
    except ValueError as ex:     # math domain error where sympy gives complex: compare: expected must be non-real
        if not isinstance(exp, bool) and abs(exp.imag) > 1e-12: stats['domain (complex expected)'] += 1; return
        finds['eval ValueError ' + str(ex)[:30]].append((tag, s, sp.srepr(e)[:100])); return
    except TypeError as ex:
        if isinstance(exp, complex) and abs(exp.imag) > 1e-12: stats['domain (complex expected)'] += 1; return
        finds['eval TypeError ' + str(ex)[:40]].append((tag, s)); return
    except Exception as ex: finds['eval EXC ' + type(ex).__name__].append((tag, s, sp.srepr(e)[:100])); return
    if isinstance(exp, bool) or isinstance(got, bool):
        ok = bool(got) == bool(exp) if isinstance(exp, bool) else False
    else:
        got = complex(got); ok = abs(got - exp) <= 1e-9 * max(1, abs(exp))
    if not ok:
        if not isinstance(exp, bool) and abs(exp.imag) > 1e-12: stats['complex expected, real printed'] += 1; return
        finds['WRONG VALUE'].append((tag, s, got, exp, sp.srepr(e)[:110]))
# exhaustive (parent, child, position)
kids = []
for ev in (True, False):
    for nm, f in BIN.items():
        for a, b in [(x, y), (x, sp.Integer(2)), (sp.Integer(-3), y), (x, sp.Rational(-1, 2)), (sp.Float(-1.5), y)]:
            try: kids.append(('%s[%s]' % (nm, ev), f(a, b, ev)))
            except Exception: pass
    for nm, f in UN.items():
        for a in (x, sp.Integer(-3), sp.Rational(2, 3)):
            try: kids.append(('%s[%s]' % (nm, ev), f(a, ev)))
            except Exception: pass
    kids.append(('pw[%s]' % ev, pw(x, y, ev)))
kids += [('atom', a) for a in atoms]
for ev in (True, False):
    for (kn, kexp) in kids:
        for pn, f in BIN.items():
            for other in (z, sp.Integer(2), sp.Integer(-2), sp.Rational(1, 3), sp.Float(-2.5)):
                for pos in (0, 1):
                    try: e = f(kexp, other, ev) if pos == 0 else f(other, kexp, ev)
                    except Exception: continue
                    check(e, '%s[%s] pos%d child=%s' % (pn, ev, pos, kn))
        for pn, f in UN.items():
            try: check(f(kexp, ev), '%s[%s] child=%s' % (pn, ev, kn))
            except Exception: pass
        for a, b in ((kexp, z), (z, kexp)):
            try:
                check(pw(a, b, ev), 'pw child=%s' % kn)
                for rel in (sp.Lt, sp.Le, sp.Gt, sp.Ge, sp.Eq, sp.Ne): check(rel(a, b, evaluate=ev), '%s child=%s' % (rel.__name__, kn))
            except Exception: pass
for f in FUNCS1:
    for a in (x, y, w, x + y, -x, x * y, x**2, 1/w):
        try: check(f(a), 'fn ' + f.__name__)
        except Exception: pass
for a, b, c in itertools.product([x < y, y < z, sp.Eq(x, w), x > y], repeat=3):
    for e in (sp.And(a, sp.Or(b, c)), sp.Or(a, sp.And(b, c)), sp.And(a, b, c), sp.Or(sp.Not(a), b), sp.Piecewise((x, sp.And(a, b)), (y, sp.Or(b, c)), (z, True))):
        check(e, 'logic')
# random deeper trees
def rnd(d):
    if d == 0 or rng.random() < 0.2: return rng.choice(atoms[:9])
    r = rng.random(); ev = rng.random() < 0.6
    if r < 0.6: nm = rng.choice(list(BIN)); return BIN[nm](rnd(d-1), rnd(d-1), ev)
    if r < 0.85: nm = rng.choice(list(UN)); return UN[nm](rnd(d-1), ev)
    return pw(rnd(d-1), rnd(d-1), True)
for i in range(N):
    try: e = rnd(rng.randint(2, 5))
    except Exception: stats['gen-exc'] += 1; continue
    check(e, 'random')
print(dict(stats))
for k, v in finds.items():
    print('##', k, len(v))
    seen = set()
    for item in sorted(v, key=lambda t: len(str(t[1]))):
        if item[1] in seen: continue
        seen.add(item[1]); print('     ', item[:4])
        if len(seen) >= 12: break
print('---- WRONG VALUE by tag')
c = collections.Counter(t[0] for t in finds['WRONG VALUE'])
for k, v in c.most_common(60): print(v, k, '   e.g.', next(t[1] for t in finds['WRONG VALUE'] if t[0] == k), '|', next(t[4] for t in finds['WRONG VALUE'] if t[0] == k)[:90])
