import Cellml.Model.ConvertVar
import Cellml.C08.Lemmas

/-! Lemmas for C06, structural part (core Lean only): the invariant of a model state as `convert_variable` meets it,
    and what each call used by `convert_variable` does to a state that satisfies it. -/

namespace Model.CV
open Model

-- ================================================================================================ lists
theorem nodup_of_nodup_map {α β : Type} (f : α → β) : ∀ {l : List α}, (l.map f).Nodup → l.Nodup
  | [], _ => List.nodup_nil
  | a :: l, h => by
    simp only [List.map_cons, List.nodup_cons, List.mem_map, not_exists, not_and] at h
    exact List.nodup_cons.mpr ⟨fun ha => h.1 a ha rfl, nodup_of_nodup_map f h.2⟩

theorem inj_of_nodup_map {α β : Type} (f : α → β) : ∀ {l : List α}, (l.map f).Nodup →
    ∀ {a b : α}, a ∈ l → b ∈ l → f a = f b → a = b
  | [], _, _, _, ha, _, _ => by cases ha
  | c :: l, h, a, b, ha, hb, hf => by
    simp only [List.map_cons, List.nodup_cons, List.mem_map, not_exists, not_and] at h
    rcases List.mem_cons.mp ha with ha | ha <;> rcases List.mem_cons.mp hb with hb | hb
    · rw [ha, hb]
    · rw [ha] at hf; exact absurd hf.symm (h.1 b hb)
    · rw [hb] at hf; exact absurd hf (h.1 a ha)
    · exact inj_of_nodup_map f h.2 ha hb hf

-- ================================================================================================ invariant
def CLhs.vars : CLhs → List Nat
  | .var v => [v]
  | .deriv x t => [x, t]

/-- every variable an equation mentions -/
def CEqn.allVars (e : CEqn) : List Nat := e.lhs.vars ++ e.rhs.vars

/-- the equation only mentions variables that exist -/
def EqScoped (n : Nat) (e : CEqn) : Prop := ∀ i ∈ e.allVars, i < n

/-- the key under which an equation is filed, tagged with the map (`true`: `_ode_definition_map`) -/
def keyKind (e : CEqn) : Bool × Nat :=
  match e.lhs with
  | .var v => (false, v)
  | .deriv x _ => (true, x)

/-- the variable an equation defines -/
def defKey (e : CEqn) : Nat := (keyKind e).2

/-- The part of the C08 invariant that holds between any two calls made by `convert_variable`: nothing raised, the
    equations mention existing variables only, no two equations are filed under the same key of the same map, and the
    two maps are exactly the equations filed by left-hand side. -/
structure Inv0 (s : CState) : Prop where
  notRaised : s.raised = false
  scopedE : ∀ e ∈ s.equations, EqScoped s.vars.length e
  keys : (s.equations.map keyKind).Nodup
  vdKeys : (s.varDef.map (·.1)).Nodup
  odKeys : (s.odeDef.map (·.1)).Nodup
  vd : ∀ v e, (v, e) ∈ s.varDef ↔ e ∈ s.equations ∧ e.lhs = .var v
  od : ∀ x e, (x, e) ∈ s.odeDef ↔ e ∈ s.equations ∧ ∃ t, e.lhs = .deriv x t

/-- no variable has both an ODE and an assignment (`_check_duplicate_definitions`) -/
def Cross (E : List CEqn) : Prop :=
  ∀ e₁ ∈ E, ∀ e₂ ∈ E, ∀ v x t, e₁.lhs = .var v → e₂.lhs = .deriv x t → v ≠ x

/-- all ODEs are with respect to the same variable (the `assert` in `convert_variable`) -/
def OneFree (E : List CEqn) : Prop :=
  ∀ e₁ ∈ E, ∀ e₂ ∈ E, ∀ x₁ t₁ x₂ t₂, e₁.lhs = .deriv x₁ t₁ → e₂.lhs = .deriv x₂ t₂ → t₁ = t₂

/-- no `d x / d x` -/
def NoSelf (E : List CEqn) : Prop := ∀ e ∈ E, ∀ x t, e.lhs = .deriv x t → x ≠ t

/-- a well-formed model: what `add_equation` / `add_variable` guarantee (C08) plus one free variable -/
structure WF (s : CState) : Prop where
  inv : Inv0 s
  cross : Cross s.equations
  oneFree : OneFree s.equations
  noSelf : NoSelf s.equations

theorem Inv0.congr {s s' : CState} (h : Inv0 s) (hr : s'.raised = s.raised) (he : s'.equations = s.equations)
    (hv : s'.varDef = s.varDef) (ho : s'.odeDef = s.odeDef) (hl : s.vars.length ≤ s'.vars.length) : Inv0 s' where
  notRaised := by rw [hr]; exact h.notRaised
  scopedE := by
    rw [he]; intro e he' i hi
    exact Nat.lt_of_lt_of_le (h.scopedE e he' i hi) hl
  keys := by rw [he]; exact h.keys
  vdKeys := by rw [hv]; exact h.vdKeys
  odKeys := by rw [ho]; exact h.odKeys
  vd := by rw [hv, he]; exact h.vd
  od := by rw [ho, he]; exact h.od

theorem keyKind_var {e : CEqn} {v : Nat} (h : e.lhs = .var v) : keyKind e = (false, v) := by
  simp [keyKind, h]

theorem keyKind_deriv {e : CEqn} {x t : Nat} (h : e.lhs = .deriv x t) : keyKind e = (true, x) := by
  simp [keyKind, h]

/-- two equations of the list with the same key of the same map are the same equation -/
theorem Inv0.key_inj {s : CState} (h : Inv0 s) {e₁ e₂ : CEqn} (h₁ : e₁ ∈ s.equations) (h₂ : e₂ ∈ s.equations)
    (hk : keyKind e₁ = keyKind e₂) : e₁ = e₂ :=
  inj_of_nodup_map _ h.keys h₁ h₂ hk

theorem Inv0.nodup {s : CState} (h : Inv0 s) : s.equations.Nodup := nodup_of_nodup_map _ h.keys

theorem Inv0.hasKey_varDef {s : CState} (h : Inv0 s) (v : Nat) :
    hasKey v s.varDef = true ↔ ∃ e ∈ s.equations, e.lhs = .var v := by
  rw [hasKey_iff]
  constructor
  · rintro ⟨e, he⟩; exact ⟨e, (h.vd v e).mp he⟩
  · rintro ⟨e, he⟩; exact ⟨e, (h.vd v e).mpr he⟩

theorem Inv0.hasKey_odeDef {s : CState} (h : Inv0 s) (x : Nat) :
    hasKey x s.odeDef = true ↔ ∃ e ∈ s.equations, ∃ t, e.lhs = .deriv x t := by
  rw [hasKey_iff]
  constructor
  · rintro ⟨e, he⟩; exact ⟨e, (h.od x e).mp he⟩
  · rintro ⟨e, he⟩; exact ⟨e, (h.od x e).mpr he⟩

theorem Inv0.lookup_varDef {s : CState} (h : Inv0 s) (v : Nat) (e : CEqn) :
    s.varDef.lookup v = some e ↔ e ∈ s.equations ∧ e.lhs = .var v := by
  rw [lookup_eq_some_iff _ _ _ (fun a b ha hb => functional_of_keys_nodup _ h.vdKeys v a b ha hb)]
  exact h.vd v e

theorem Inv0.lookup_odeDef {s : CState} (h : Inv0 s) (x : Nat) (e : CEqn) :
    s.odeDef.lookup x = some e ↔ e ∈ s.equations ∧ ∃ t, e.lhs = .deriv x t := by
  rw [lookup_eq_some_iff _ _ _ (fun a b ha hb => functional_of_keys_nodup _ h.odKeys x a b ha hb)]
  exact h.od x e

theorem Inv0.lookup_varDef_none {s : CState} (h : Inv0 s) (v : Nat) (hn : s.varDef.lookup v = none) :
    ∀ e ∈ s.equations, e.lhs ≠ .var v := by
  intro e he hl
  have := (h.lookup_varDef v e).mpr ⟨he, hl⟩
  rw [hn] at this; cases this

theorem hasKey_false_iff {α β : Type} [DecidableEq α] (k : α) (l : List (α × β)) :
    hasKey k l = false ↔ ¬ ∃ v, (k, v) ∈ l := by
  rw [← hasKey_iff]; cases hasKey k l <;> simp

-- ================================================================================================ add_equation
theorem keys_append_nodup {s : CState} (h : Inv0 s) (e : CEqn) (hk : ∀ e0 ∈ s.equations, keyKind e0 ≠ keyKind e) :
    ((s.equations ++ [e]).map keyKind).Nodup := by
  rw [List.map_append, List.nodup_append]
  refine ⟨h.keys, by simp, ?_⟩
  intro a ha b hb
  simp only [List.map_cons, List.map_nil, List.mem_cons, List.not_mem_nil, or_false] at hb
  obtain ⟨e0, he0, rfl⟩ := List.mem_map.mp ha
  rw [hb]; exact hk e0 he0

theorem assoc_append_nodup {l : List (Nat × CEqn)} (hn : (l.map (·.1)).Nodup) (k : Nat) (e : CEqn)
    (hk : hasKey k l = false) : ((l ++ [(k, e)]).map (·.1)).Nodup := by
  rw [List.map_append, List.nodup_append]
  refine ⟨hn, by simp, ?_⟩
  intro a ha b hb
  simp only [List.map_cons, List.map_nil, List.mem_cons, List.not_mem_nil, or_false] at hb
  rw [hb]; intro hak; rw [hak] at ha
  have := (hasKey_iff_mem_keys k l).mpr ha
  rw [hk] at this; cases this

/-- `add_equation` on a state satisfying the invariant, when no equation is filed under the same key of the same map
    and — if duplicates are checked — none under the same key of the other map either: the equation is appended -/
theorem addEq_ok {s : CState} (h : Inv0 s) (e : CEqn) (chk : Bool) (hs : EqScoped s.vars.length e)
    (hk : ∀ e0 ∈ s.equations, keyKind e0 ≠ keyKind e)
    (hc : chk = true → ∀ e0 ∈ s.equations, defKey e0 ≠ defKey e) :
    (addEq s e chk).equations = s.equations ++ [e] ∧ (addEq s e chk).vars = s.vars ∧
    (addEq s e chk).cmetaMap = s.cmetaMap ∧ Inv0 (addEq s e chk) := by
  have hsc : ∀ e' ∈ s.equations ++ [e], EqScoped s.vars.length e' := by
    intro e' he'
    rcases List.mem_append.mp he' with he' | he'
    · exact h.scopedE e' he'
    · simp only [List.mem_cons, List.not_mem_nil, or_false] at he'; rw [he']; exact hs
  cases hl : e.lhs with
  | var v =>
    have hvd : hasKey v s.varDef = false := by
      rw [hasKey_false_iff]; rintro ⟨e0, he0⟩
      have := (h.vd v e0).mp he0
      exact hk e0 this.1 (by rw [keyKind_var this.2, keyKind_var hl])
    have hchk : (chk && isDefined s v) = false := by
      cases chk with
      | false => rfl
      | true =>
        simp only [Bool.true_and, isDefined, hvd, Bool.or_false]
        rw [hasKey_false_iff]; rintro ⟨e0, he0⟩
        obtain ⟨hm, t, ht⟩ := (h.od v e0).mp he0
        exact hc rfl e0 hm (by simp [defKey, keyKind_deriv ht, keyKind_var hl])
    have hadd : addEq s e chk = { s with varDef := s.varDef ++ [(v, e)], equations := s.equations ++ [e] } := by
      simp only [addEq, hl, hchk, Bool.false_eq_true, if_false]
      rw [insertKey_of_not_hasKey _ _ _ hvd]
    rw [hadd]; refine ⟨rfl, rfl, rfl, ?_⟩
    refine { notRaised := h.notRaised, scopedE := hsc, keys := keys_append_nodup h e hk,
             vdKeys := assoc_append_nodup h.vdKeys v e hvd, odKeys := h.odKeys, vd := ?_, od := ?_ }
    · intro v' e'
      simp only [List.mem_append, List.mem_cons, List.not_mem_nil, or_false, Prod.mk.injEq]
      constructor
      · rintro (h1 | ⟨rfl, rfl⟩)
        · have := (h.vd v' e').mp h1; exact ⟨Or.inl this.1, this.2⟩
        · exact ⟨Or.inr rfl, hl⟩
      · rintro ⟨h1 | h1, h2⟩
        · exact Or.inl ((h.vd v' e').mpr ⟨h1, h2⟩)
        · subst h1; rw [hl] at h2; cases h2; exact Or.inr ⟨rfl, rfl⟩
    · intro x e'
      simp only [List.mem_append, List.mem_cons, List.not_mem_nil, or_false]
      constructor
      · intro h1; have := (h.od x e').mp h1; exact ⟨Or.inl this.1, this.2⟩
      · rintro ⟨h1 | h1, t, h2⟩
        · exact (h.od x e').mpr ⟨h1, t, h2⟩
        · subst h1; rw [hl] at h2; cases h2
  | deriv x t =>
    have hod : hasKey x s.odeDef = false := by
      rw [hasKey_false_iff]; rintro ⟨e0, he0⟩
      obtain ⟨hm, t0, ht0⟩ := (h.od x e0).mp he0
      exact hk e0 hm (by rw [keyKind_deriv ht0, keyKind_deriv hl])
    have hchk : (chk && isDefined s x) = false := by
      cases chk with
      | false => rfl
      | true =>
        simp only [Bool.true_and, isDefined, hod, Bool.false_or]
        rw [hasKey_false_iff]; rintro ⟨e0, he0⟩
        obtain ⟨hm, ht⟩ := (h.vd x e0).mp he0
        exact hc rfl e0 hm (by simp [defKey, keyKind_deriv hl, keyKind_var ht])
    have hadd : addEq s e chk = { s with odeDef := s.odeDef ++ [(x, e)], equations := s.equations ++ [e] } := by
      simp only [addEq, hl, hchk, Bool.false_eq_true, if_false]
      rw [insertKey_of_not_hasKey _ _ _ hod]
    rw [hadd]; refine ⟨rfl, rfl, rfl, ?_⟩
    refine { notRaised := h.notRaised, scopedE := hsc, keys := keys_append_nodup h e hk,
             vdKeys := h.vdKeys, odKeys := assoc_append_nodup h.odKeys x e hod, vd := ?_, od := ?_ }
    · intro v e'
      simp only [List.mem_append, List.mem_cons, List.not_mem_nil, or_false]
      constructor
      · intro h1; have := (h.vd v e').mp h1; exact ⟨Or.inl this.1, this.2⟩
      · rintro ⟨h1 | h1, h2⟩
        · exact (h.vd v e').mpr ⟨h1, h2⟩
        · subst h1; rw [hl] at h2; cases h2
    · intro x' e'
      simp only [List.mem_append, List.mem_cons, List.not_mem_nil, or_false, Prod.mk.injEq]
      constructor
      · rintro (h1 | ⟨rfl, rfl⟩)
        · have := (h.od x' e').mp h1; exact ⟨Or.inl this.1, this.2⟩
        · exact ⟨Or.inr rfl, t, hl⟩
      · rintro ⟨h1 | h1, t', h2⟩
        · exact Or.inl ((h.od x' e').mpr ⟨h1, t', h2⟩)
        · subst h1; rw [hl] at h2; cases h2; exact Or.inr ⟨rfl, rfl⟩

-- ================================================================================================ remove_equation
/-- `remove_equation` of an equation of the list, on a state satisfying the invariant -/
theorem removeEq_ok {s : CState} (h : Inv0 s) (e : CEqn) (he : e ∈ s.equations) :
    (removeEq s e).equations = s.equations.erase e ∧ (removeEq s e).vars = s.vars ∧
    (removeEq s e).cmetaMap = s.cmetaMap ∧ Inv0 (removeEq s e) := by
  have hsc : ∀ e' ∈ s.equations.erase e, EqScoped s.vars.length e' :=
    fun e' he' => h.scopedE e' (List.mem_of_mem_erase he')
  have hkeys : ((s.equations.erase e).map keyKind).Nodup :=
    List.Nodup.sublist ((List.erase_sublist (a := e) (l := s.equations)).map keyKind) h.keys
  have hne : ∀ e', e' ∈ s.equations.erase e ↔ e' ≠ e ∧ e' ∈ s.equations := fun e' => h.nodup.mem_erase_iff
  cases hl : e.lhs with
  | var v =>
    have hvd : hasKey v s.varDef = true := (h.hasKey_varDef v).mpr ⟨e, he, hl⟩
    have hrem : removeEq s e = { s with equations := s.equations.erase e, varDef := eraseKey v s.varDef } := by
      simp only [removeEq, he, if_true, hl, hvd]
    rw [hrem]; refine ⟨rfl, rfl, rfl, ?_⟩
    refine { notRaised := h.notRaised, scopedE := hsc, keys := hkeys,
             vdKeys := List.Nodup.sublist (keys_eraseKey_sublist v s.varDef) h.vdKeys, odKeys := h.odKeys,
             vd := ?_, od := ?_ }
    · intro v' e'
      rw [mem_eraseKey, h.vd, hne]
      constructor
      · rintro ⟨⟨h1, h2⟩, h3⟩
        refine ⟨⟨?_, h1⟩, h2⟩
        intro hee; subst hee; rw [hl] at h2; cases h2; exact h3 rfl
      · rintro ⟨⟨h1, h2⟩, h3⟩
        refine ⟨⟨h2, h3⟩, ?_⟩
        intro hv; apply h1
        exact h.key_inj h2 he (by rw [keyKind_var h3, keyKind_var hl]; simpa using hv)
    · intro x e'
      rw [h.od, hne]
      constructor
      · rintro ⟨h1, t, h2⟩
        refine ⟨⟨?_, h1⟩, t, h2⟩
        intro hee; subst hee; rw [hl] at h2; cases h2
      · rintro ⟨⟨_, h2⟩, h3⟩; exact ⟨h2, h3⟩
  | deriv x t =>
    have hod : hasKey x s.odeDef = true := (h.hasKey_odeDef x).mpr ⟨e, he, t, hl⟩
    have hrem : removeEq s e = { s with equations := s.equations.erase e, odeDef := eraseKey x s.odeDef } := by
      simp only [removeEq, he, if_true, hl, hod]
    rw [hrem]; refine ⟨rfl, rfl, rfl, ?_⟩
    refine { notRaised := h.notRaised, scopedE := hsc, keys := hkeys, vdKeys := h.vdKeys,
             odKeys := List.Nodup.sublist (keys_eraseKey_sublist x s.odeDef) h.odKeys, vd := ?_, od := ?_ }
    · intro v e'
      rw [h.vd, hne]
      constructor
      · rintro ⟨h1, h2⟩
        refine ⟨⟨?_, h1⟩, h2⟩
        intro hee; subst hee; rw [hl] at h2; cases h2
      · rintro ⟨⟨_, h2⟩, h3⟩; exact ⟨h2, h3⟩
    · intro x' e'
      rw [mem_eraseKey, h.od, hne]
      constructor
      · rintro ⟨⟨h1, t', h2⟩, h3⟩
        refine ⟨⟨?_, h1⟩, t', h2⟩
        intro hee; subst hee; rw [hl] at h2; cases h2; exact h3 rfl
      · rintro ⟨⟨h1, h2⟩, t', h3⟩
        refine ⟨⟨h2, t', h3⟩, ?_⟩
        intro hv; apply h1
        exact h.key_inj h2 he (by rw [keyKind_deriv h3, keyKind_deriv hl]; simpa using hv)

/-- after `remove_equation`, nothing is filed under the key of the removed equation in its map -/
theorem key_absent_after_erase {s : CState} (h : Inv0 s) (e : CEqn) (he : e ∈ s.equations) :
    ∀ e0 ∈ s.equations.erase e, keyKind e0 ≠ keyKind e := by
  intro e0 he0 hk
  have := (h.nodup.mem_erase_iff).mp he0
  exact this.1 (h.key_inj this.2 he hk)

-- ================================================================================================ get_unique_name
theorem length_append_a (b : String) : (b ++ "_a").length = b.length + 2 := by
  rw [String.length_append]; rfl

/-- the candidates get longer, so a name that was tried can be forgotten: `names'` is what is still to be avoided -/
theorem uniqueName_spec (names : List String) : ∀ (fuel : Nat) (names' : List String) (b : String),
    (∀ n ∈ names, n ∈ names' ∨ n.length < b.length) → names'.length ≤ fuel → uniqueName names fuel b ∉ names := by
  intro fuel
  induction fuel with
  | zero =>
    intro names' b hcov hlen hb
    have : names' = [] := List.eq_nil_of_length_eq_zero (Nat.le_zero.mp hlen)
    subst this
    rcases hcov _ hb with h | h
    · cases h
    · exact Nat.lt_irrefl _ h
  | succ fuel ih =>
    intro names' b hcov hlen
    unfold uniqueName
    by_cases hb : b ∈ names
    · rw [if_pos hb]
      have hb' : b ∈ names' := by
        rcases hcov b hb with h | h
        · exact h
        · exact absurd h (Nat.lt_irrefl _)
      apply ih (names'.erase b)
      · intro n hn
        rcases hcov n hn with h | h
        · by_cases hnb : n = b
          · right; rw [hnb, length_append_a]; omega
          · left; exact (List.mem_erase_of_ne hnb).mpr h
        · right; rw [length_append_a]; omega
      · rw [List.length_erase_of_mem hb']
        have : 0 < names'.length := List.length_pos_of_mem hb'
        omega
    · rw [if_neg hb]; exact hb

/-- `get_unique_name` answers a name that is not in use -/
theorem freshName_fresh (s : CState) (base : String) : freshName s base ∉ names s :=
  uniqueName_spec (names s) _ (names s) base (fun _ hn => Or.inl hn) (Nat.le_refl _)

-- ================================================================================================ add_variable
theorem addVariable_eq (s : CState) (name : String) (u : U) (i : Option Rat) (hn : name ∉ names s) :
    addVariable s name u i = ({ s with vars := s.vars ++ [⟨name, u, i, none⟩] }, s.vars.length) := by
  simp only [addVariable, hn, if_false]

theorem Inv0.addVar {s : CState} (h : Inv0 s) (x : CVar) : Inv0 { s with vars := s.vars ++ [x] } :=
  h.congr rfl rfl rfl rfl (by simp)

theorem length_setV (vs : List CVar) (i : Nat) (f : CVar → CVar) : (setV vs i f).length = vs.length := by
  unfold setV; split <;> simp

theorem getElem?_setV (vs : List CVar) (i j : Nat) (f : CVar → CVar) :
    (setV vs i f)[j]? = if j = i then (vs[j]?).map f else vs[j]? := by
  unfold setV
  split
  · rename_i v hv
    rw [List.getElem?_set]
    by_cases hji : j = i
    · subst hji
      have hlt : j < vs.length := by
        rcases Nat.lt_or_ge j vs.length with h | h
        · exact h
        · rw [List.getElem?_eq_none h] at hv; cases hv
      have hv' : vs[j] = v := by
        have := List.getElem?_eq_getElem hlt
        rw [hv] at this; exact (Option.some.inj this).symm
      simp [hlt, hv']
    · have : ¬ i = j := fun h => hji h.symm
      simp [hji, this]
  · rename_i hv
    by_cases hji : j = i
    · subst hji; rw [if_pos rfl, hv]; rfl
    · simp [hji]

/-- `transfer_cmeta_id` from a variable that has a cmeta id to one that has none: nothing but the ids changes -/
theorem transferCmeta_ok {s : CState} (h : Inv0 s) (src dst : Nat) (c : String) (hs : cmetaOfV s src = some c)
    (hd : cmetaOfV s dst = none) :
    (transferCmeta s src dst).equations = s.equations ∧ (transferCmeta s src dst).vars.length = s.vars.length ∧
    Inv0 (transferCmeta s src dst) := by
  have : transferCmeta s src dst =
      { s with vars := setV (setV s.vars dst (fun x => { x with cmeta := some c })) src
                            (fun x => { x with cmeta := none }),
               cmetaMap := insertKey c dst s.cmetaMap } := by
    simp only [transferCmeta, hs, hd]
  rw [this]
  refine ⟨rfl, by simp [length_setV], h.congr rfl rfl rfl rfl (by simp [length_setV])⟩

-- ================================================================================================ fresh keys
theorem Inv0.defKey_lt {s : CState} (h : Inv0 s) {e : CEqn} (he : e ∈ s.equations) : defKey e < s.vars.length := by
  have := h.scopedE e he
  unfold EqScoped CEqn.allVars at this
  cases hl : e.lhs with
  | var v => exact this v (by simp [hl, CLhs.vars]) |> (by simpa [defKey, keyKind, hl] using ·)
  | deriv x t => exact this x (by simp [hl, CLhs.vars]) |> (by simpa [defKey, keyKind, hl] using ·)

/-- an equation that defines a variable newer than all the model's equations know is filed under a fresh key -/
theorem Inv0.fresh_key {s : CState} (h : Inv0 s) (e : CEqn) {m : Nat} (hm : s.vars.length ≤ m)
    (hl : m ≤ defKey e) :
    (∀ e0 ∈ s.equations, keyKind e0 ≠ keyKind e) ∧ (∀ e0 ∈ s.equations, defKey e0 ≠ defKey e) := by
  have key : ∀ e0 ∈ s.equations, defKey e0 ≠ defKey e := by
    intro e0 he0 hk
    have := h.defKey_lt he0
    omega
  refine ⟨?_, key⟩
  intro e0 he0 hk
  exact key e0 he0 (by unfold defKey; rw [hk])

theorem defKey_var {e : CEqn} {v : Nat} (h : e.lhs = .var v) : defKey e = v := by simp [defKey, keyKind, h]
theorem defKey_deriv {e : CEqn} {x t : Nat} (h : e.lhs = .deriv x t) : defKey e = x := by simp [defKey, keyKind, h]

theorem EqScoped.mono {n m : Nat} {e : CEqn} (h : EqScoped n e) (hnm : n ≤ m) : EqScoped m e :=
  fun i hi => Nat.lt_of_lt_of_le (h i hi) hnm

theorem eqScoped_iff (n : Nat) (e : CEqn) : EqScoped n e ↔ (∀ i ∈ e.lhs.vars, i < n) ∧ (∀ i ∈ e.rhs.vars, i < n) := by
  unfold EqScoped CEqn.allVars
  constructor
  · intro h; exact ⟨fun i hi => h i (List.mem_append_left _ hi), fun i hi => h i (List.mem_append_right _ hi)⟩
  · rintro ⟨h1, h2⟩ i hi
    rcases List.mem_append.mp hi with hi | hi
    · exact h1 i hi
    · exact h2 i hi

end Model.CV
