import Cellml.Iso.Namespace

/-! # The process state of cellmlmanip: everything that outlives a call and is not owned by one Model / UnitStore

    `Iso/Namespace.lean` models the unit-store half of C16 (`Units.Wire.World`: registries, stores, the class counter
    `UnitStore._next_id`). This file puts the MODELS on top of it (core Lean only):

    * the global cells of the inventory (notes/reports/TIE2_Iso2.md): `world` (registries, stores, `_next_id` = number
      of stores), `heap` (every `sympy.Dummy` the process created, i.e. every `Quantity` / `Variable`; the class
      counter `sympy.Dummy._count` is its length; a Dummy is equal to another one only if it IS the other one, so the
      heap index is the identity AND the equality of the object), `one` (the module constant
      `_singularity_fixes.ONE`), `handlers` (the mutable module table `parser.SIMPLE_MATHML_TO_SYMPY_CLASSES`, written
      by `Transpiler.set_mathml_handler`), `singCache` / `pwCache` (the two `functools.lru_cache(maxsize=128)` of
      `_get_singularity` / `_generate_piecewise`);
    * a list of models, each with a reference to its own store (`Model.__init__` always creates a NEW `UnitStore`,
      which may share the registry of the store it is given), its variables (`_name_to_variable`), its equations, its
      cmeta registry (`_cmeta_id_to_variable`), and the quantities `create_quantity` handed out (`qtys`: no python
      attribute, the contract of `add_equation`: "all numbers and variables used in the equation must have been
      obtained from this model");
    * quantities and variables name the store of their unit (`QUnit.ofStore s factors`: a pint `Unit` made of names
      looked up in store `s`; `QUnit.bare`: a python `str`, the placeholder of `ONE` and `_float_dummies`);
    * operations indexed by the model they act on (`POp`), `step`, `run`.

    SymPy itself is a parameter (`Sym`): the pure analysis behind `_get_singularity` and the expression built by
    `_generate_piecewise`, as functions of their positional arguments (the memo keys). Expressions are token lists in
    prefix order (enough to speak about the atoms of an expression, `xreplace` on atoms, and equality of keys). -/

namespace Iso.Process
open Units Units.Wire Iso

/-- what hangs on `.units` of a Quantity / Variable -/
inductive QUnit where
  /-- a pint `Unit` built from names of store `store` (`get_unit(name)`, or `units / original_variable.units`) -/
  | ofStore (store : Nat) (factors : List (String × Int))
  /-- a python `str`: `Quantity(1.0, 'dimensionless')`, `Quantity(f, 'dimensionless')` -/
  | bare (text : String)
deriving Repr, DecidableEq

/-- a `sympy.Dummy` object on the heap -/
inductive Obj where
  /-- `Quantity(value, units)`: attributes `_value`, `units` (symbol name `'_' + '{:g}'.format(value)`, real) -/
  | qty (value : Rat) (units : QUnit)
  /-- `Variable(name, units, model, …, cmeta_id)`: `_model` is the index of the owning model -/
  | var (name : String) (units : QUnit) (model : Nat) (cmeta : Option String)
  /-- any other Dummy (it only advances the counter) -/
  | other
deriving Repr, DecidableEq

inductive Tok where
  | v (id : Nat)                       -- a Variable (heap index)
  | q (id : Nat)                       -- a Quantity (heap index)
  | num (r : Rat)                      -- a plain sympy number
  | op (name : String) (arity : Nat)   -- function / operator head
deriving Repr, DecidableEq

abbrev Ex := List Tok

structure Eqn where
  lhs : Nat
  rhs : Ex
deriving Repr, DecidableEq

structure MModel where
  /-- `self.units`: index of the model's own store in `World.stores` -/
  store : Nat
  /-- `self._name_to_variable.values()`, in the order added -/
  vars : List Nat := []
  /-- what `self.create_quantity` returned so far -/
  qtys : List Nat := []
  /-- `self.equations` -/
  eqs : List Eqn := []
  /-- `self._cmeta_id_to_variable` -/
  cmeta : List (String × Nat) := []
deriving Repr, DecidableEq

/-- the positional arguments of `_get_singularity(expr, V, U_offset, exp_function)` = its `lru_cache` key -/
structure SingKey where
  expr : Ex
  V : Nat
  uOffset : Rat
  expFn : String
deriving Repr, DecidableEq

/-- the positional arguments of `_generate_piecewise(expr, V, sp, Vmin, Vmax)` = its `lru_cache` key. The three
    quantities are placeholders made by `_float_dummies` inside the `_get_singularity` call that found them; they are
    represented by their values -/
structure PwKey where
  expr : Ex
  V : Nat
  sp : Rat
  vmin : Rat
  vmax : Rat
deriving Repr, DecidableEq

/-- `[(Vmin, Vmax, sp), …]` -/
abbrev SingRes := List (Rat × Rat × Rat)

/-- SymPy: the two memoised functions as pure functions of their keys -/
structure Sym where
  analyse : SingKey → SingRes
  piecewise : PwKey → Ex

structure Proc where
  world : World := {}
  /-- `_singularity_fixes.py` 36 and 38 create `ONE` twice at import; the name is bound to the second object -/
  heap : List Obj := [.qty 1 (.bare "dimensionless"), .qty 1 (.bare "dimensionless")]
  one : Nat := 1
  models : List MModel := []
  /-- `parser.SIMPLE_MATHML_TO_SYMPY_CLASSES` as the list of overrides (latest first) of the original table -/
  handlers : List (String × String) := []
  singCache : List (SingKey × SingRes) := []
  pwCache : List (PwKey × Ex) := []
deriving Repr

/-! ### the memoising decorator -/

/-- `maxsize=128` of both decorators -/
def maxsize : Nat := 128

/-- `functools.lru_cache(maxsize)`: a hit returns the stored value; a miss computes, stores, and evicts beyond
    `maxsize` (which entry is evicted does not matter for anything proved here: every sub-list of a sound table is
    sound) -/
def lruCall {κ ν : Type} [BEq κ] (f : κ → ν) (cache : List (κ × ν)) (k : κ) : ν × List (κ × ν) :=
  ((cachedCall f cache k).1, (cachedCall f cache k).2.take maxsize)

/-- memoised calls threaded through the table -/
def lruCalls {κ ν : Type} [BEq κ] (f : κ → ν) : List (κ × ν) → List κ → List ν × List (κ × ν)
  | cache, [] => ([], cache)
  | cache, k :: ks =>
      let r := lruCall f cache k
      let rs := lruCalls f r.2 ks
      (r.1 :: rs.1, rs.2)

/-! ### reading the state -/

/-- `parser.SIMPLE_MATHML_TO_SYMPY_CLASSES[tag]` for a tag of the original table whose class is printed `tag` -/
def handlerOf (p : Proc) (tag : String) : String := (p.handlers.lookup tag).getD tag

/-- `store.get_unit(name)` succeeds -/
def unitOk (w : World) (s : Nat) (name : String) : Bool :=
  match w.stores[s]? with
  | some (st, _) => match getUnit st name with | .ok _ => true | .error _ => false
  | none => false

/-- `expr.xreplace({d: d.evalf(FLOAT_PRECISION) for d in expr.atoms(Quantity)})` (`check_U_expr`) -/
def evalf (heap : List Obj) (e : Ex) : Ex :=
  e.map (fun t => match t with
    | .q id => match heap[id]? with
      | some (.qty x _) => .num x
      | _ => t
    | t => t)

def isPiecewise : Ex → Bool
  | .op "Piecewise" _ :: _ => true
  | _ => false

/-- operators and plain numbers of an expression (its atoms are re-created by the caller) -/
def skeleton (e : Ex) : Ex := e.filter (fun t => match t with | .op _ _ => true | .num _ => true | _ => false)

def varName (heap : List Obj) (id : Nat) : Option String :=
  match heap[id]? with
  | some (.var n _ _ _) => some n
  | _ => none

/-- `cmeta_id = get_display_name(variable); while self.has_cmeta_id(cmeta_id): cmeta_id += '_'` -/
def freshCmeta (taken : List String) : Nat → String → String
  | 0, c => c
  | fuel + 1, c => if taken.contains c then freshCmeta taken fuel (c ++ "_") else c

/-- the token belongs to the model: "obtained from this model" -/
def TokOk (vars qtys : List Nat) : Tok → Prop
  | .v id => id ∈ vars
  | .q id => id ∈ qtys
  | _ => True

instance (vars qtys : List Nat) (t : Tok) : Decidable (TokOk vars qtys t) := by
  cases t <;> simp only [TokOk] <;> infer_instance

/-! ### operations -/

inductive POp where
  /-- `UnitStore()`, `UnitStore(other)`, `stores[s].add_unit(…)`, `stores[s].add_base_unit(…)` on store index `s`
      (a model's store included: `model.units.add_unit`) -/
  | units (op : Iso.Op)
  /-- `Model(name[, unit_store=stores[share]])` / `load_model(path[, unit_store=…])` before its contents are added -/
  | newModel (share : Option Nat)
  /-- `models[m].add_variable(name, unit)` -/
  | addVariable (m : Nat) (name unit : String)
  /-- `models[m].create_quantity(value, unit)` -/
  | createQuantity (m : Nat) (value : Rat) (unit : String)
  /-- `models[m].add_equation(Eq(lhs, rhs))` within its contract -/
  | addEquation (m : Nat) (lhs : Nat) (rhs : Ex)
  /-- `models[m].convert_variable(v, unit, OUTPUT)` with conversion factor `cf ≠ 1` -/
  | convertVariable (m : Nat) (v : Nat) (unit : String) (cf : Rat)
  /-- `models[m].remove_fixable_singularities(V, exclude)` -/
  | removeSing (m : Nat) (V : Nat) (excl : List Nat)
  /-- `models[m].add_cmeta_id(v)` -/
  | addCmetaId (m : Nat) (v : Nat)
  /-- `Transpiler.set_mathml_handler(tag, cls)` -/
  | setHandler (tag cls : String)
deriving Repr

/-- does the operation act on model `j`, whose store is `s`? -/
def POp.actsOn : POp → (j s : Nat) → Bool
  | .units op, _, s => op.actsOn s
  | .newModel _, _, _ => false
  | .addVariable m _ _, j, _ => m == j
  | .createQuantity m _ _, j, _ => m == j
  | .addEquation m _ _, j, _ => m == j
  | .convertVariable m _ _ _, j, _ => m == j
  | .removeSing m _ _, j, _ => m == j
  | .addCmetaId m _, j, _ => m == j
  | .setHandler _ _, _, _ => false

def setModel (p : Proc) (m : Nat) (mm : MModel) : Proc := { p with models := p.models.set m mm }

/-- `Model.__init__`: a NEW `UnitStore(unit_store)` (the counter `_next_id` advances; the registry is shared or new),
    empty maps, no equations -/
def newModel (p : Proc) (share : Option Nat) : Proc :=
  { p with world := p.world.newStore share, models := p.models ++ [{ store := p.world.stores.length }] }

def addVariable (p : Proc) (m : Nat) (name unit : String) : Proc :=
  match p.models[m]? with
  | some mm =>
      if unitOk p.world mm.store unit && !(mm.vars.filterMap (varName p.heap)).contains name then
        { p with heap := p.heap ++ [.var name (.ofStore mm.store [(unit, 1)]) m none],
                 models := p.models.set m { mm with vars := mm.vars ++ [p.heap.length] } }
      else p
  | none => p

def createQuantity (p : Proc) (m : Nat) (value : Rat) (unit : String) : Proc :=
  match p.models[m]? with
  | some mm =>
      if unitOk p.world mm.store unit then
        { p with heap := p.heap ++ [.qty value (.ofStore mm.store [(unit, 1)])],
                 models := p.models.set m { mm with qtys := mm.qtys ++ [p.heap.length] } }
      else p
  | none => p

def addEquation (p : Proc) (m : Nat) (lhs : Nat) (rhs : Ex) : Proc :=
  match p.models[m]? with
  | some mm =>
      if lhs ∈ mm.vars ∧ ∀ t ∈ rhs, TokOk mm.vars mm.qtys t then
        setModel p m { mm with eqs := mm.eqs ++ [⟨lhs, rhs⟩] }
      else p
  | none => p

/-- model.py 764-897 (direction OUTPUT): `cf = create_quantity(cf, units / original_variable.units)`,
    `new = add_variable(name + '_converted', units)`, `add_equation(Eq(new, original * cf))`. The unit of the new
    quantity is a quotient of two units of the acting model's store. -/
def convertVariable (p : Proc) (m : Nat) (v : Nat) (unit : String) (cf : Rat) : Proc :=
  match p.models[m]?, p.heap[v]? with
  | some mm, some (.var name (.ofStore s fs) _ _) =>
      if v ∈ mm.vars ∧ s = mm.store ∧ unitOk p.world mm.store unit = true then
        let h := p.heap.length
        { p with heap := p.heap ++ [.qty cf (.ofStore mm.store ((unit, 1) :: fs.map (fun f => (f.1, -f.2)))),
                                    .var (name ++ "_converted") (.ofStore mm.store [(unit, 1)]) m none],
                 models := p.models.set m { mm with vars := mm.vars ++ [h + 1], qtys := mm.qtys ++ [h],
                                                    eqs := mm.eqs ++ [⟨h + 1, [.op "Mul" 2, .v v, .q h]⟩] } }
      else p
  | _, _ => p

/-- the state threaded through the loop of `_singularity_fixes.remove_fixable_singularities` -/
structure FixSt where
  heap : List Obj
  qtys : List Nat
  sing : List (SingKey × SingRes)
  pw : List (PwKey × Ex)
  eqs : List Eqn

/-- the placeholders `_float_dummies` creates for one analysis result (on a cache miss) -/
def placeholders (r : SingRes) : List Obj :=
  r.flatMap (fun t => [.qty t.1 (.bare "dimensionless"), .qty t.2.1 (.bare "dimensionless"),
                       .qty t.2.2 (.bare "dimensionless")])

/-- what the re-unit step creates with `model.create_quantity(q._value, dimensionless if q is ONE else V.units)`:
    one copy of the template `ONE` with the model's own `dimensionless`, and the range bounds / singular points with
    the unit of `V` -/
def replanted (s : Nat) (vu : QUnit) (oneValue : Rat) (r : SingRes) : List Obj :=
  .qty oneValue (.ofStore s [("dimensionless", 1)]) ::
    r.flatMap (fun t => [.qty t.1 vu, .qty t.2.1 vu, .qty t.2.2 vu])

/-- one iteration of the loop on equation `e` -/
def fixEq (sym : Sym) (s V : Nat) (vu : QUnit) (oneValue uOffset : Rat) (expFn : String) (excl : List Nat)
    (st : FixSt) (e : Eqn) : FixSt :=
  if isPiecewise e.rhs || excl.contains e.lhs then { st with eqs := st.eqs ++ [e] }
  else
    let key : SingKey := ⟨evalf st.heap e.rhs, V, uOffset, expFn⟩
    let miss := (st.sing.lookup key).isNone
    let r := lruCall sym.analyse st.sing key
    let heap1 := if miss then st.heap ++ placeholders r.1 else st.heap
    if r.1.isEmpty then { st with heap := heap1, sing := r.2, eqs := st.eqs ++ [e] }
    else
      let pws := lruCalls sym.piecewise st.pw (r.1.map (fun t => (⟨e.rhs, V, t.2.2, t.1, t.2.1⟩ : PwKey)))
      let news := replanted s vu oneValue r.1
      let ids := (List.range news.length).map (· + heap1.length)
      { heap := heap1 ++ news, qtys := st.qtys ++ ids, sing := r.2, pw := pws.2,
        eqs := st.eqs ++ [⟨e.lhs, .op "Piecewise" 2 :: ids.map .q ++ .v V :: (pws.1.flatMap skeleton) ++ e.rhs⟩] }

/-- `Model.remove_fixable_singularities(V, exclude)`: `exp_function` is read from the global handler table at call
    time; `ONE` is read (its value) but never written -/
def removeSing (sym : Sym) (p : Proc) (m : Nat) (V : Nat) (excl : List Nat) : Proc :=
  match p.models[m]?, p.heap[V]?, p.heap[p.one]? with
  | some mm, some (.var _ vu _ _), some (.qty oneValue _) =>
      if V ∈ mm.vars then
        let st := mm.eqs.foldl (fixEq sym mm.store V vu oneValue (1 / 10000000) (handlerOf p "exp") excl)
          { heap := p.heap, qtys := mm.qtys, sing := p.singCache, pw := p.pwCache, eqs := [] }
        { p with heap := st.heap, singCache := st.sing, pwCache := st.pw,
                 models := p.models.set m { mm with qtys := st.qtys, eqs := st.eqs } }
      else p
  | _, _, _ => p

def addCmetaId (p : Proc) (m : Nat) (v : Nat) : Proc :=
  match p.models[m]?, p.heap[v]? with
  | some mm, some (.var name u owner none) =>
      if v ∈ mm.vars then
        let cid := freshCmeta (mm.cmeta.map (·.1)) (mm.cmeta.length + 1) name
        { p with heap := p.heap.set v (.var name u owner (some cid)),
                 models := p.models.set m { mm with cmeta := (cid, v) :: mm.cmeta } }
      else p
  | _, _ => p

def step (sym : Sym) (p : Proc) : POp → Proc
  | .units op => { p with world := Iso.step p.world op }
  | .newModel share => newModel p share
  | .addVariable m name unit => addVariable p m name unit
  | .createQuantity m value unit => createQuantity p m value unit
  | .addEquation m lhs rhs => addEquation p m lhs rhs
  | .convertVariable m v unit cf => convertVariable p m v unit cf
  | .removeSing m V excl => removeSing sym p m V excl
  | .addCmetaId m v => addCmetaId p m v
  | .setHandler tag cls => { p with handlers := (tag, cls) :: p.handlers }

def run (sym : Sym) (p : Proc) (ops : List POp) : Proc := ops.foldl (step sym) p

/-! ### observations -/

inductive QUnitObs where
  | ofStore (store : Nat) (factors : List (String × Int × Option (Bool × Option UnitObs)))
  | bare (text : String)
deriving Repr, DecidableEq

/-- the unit of a quantity as its store shows it: every factor with `is_defined` and root form -/
def obsQUnit (w : World) : QUnit → QUnitObs
  | .ofStore s fs => .ofStore s (fs.map (fun f => (f.1, f.2, probe w s f.1)))
  | .bare t => .bare t

inductive ObjObs where
  | qty (value : Rat) (units : QUnitObs)
  | var (name : String) (units : QUnitObs) (model : Nat) (cmeta : Option String)
  | other
  | dangling
deriving Repr, DecidableEq

def obsObj (p : Proc) (id : Nat) : ObjObs :=
  match p.heap[id]? with
  | some (.qty x u) => .qty x (obsQUnit p.world u)
  | some (.var n u m c) => .var n (obsQUnit p.world u) m c
  | some .other => .other
  | none => .dangling

/-- a token with the object it refers to -/
def obsTok (p : Proc) : Tok → Tok × Option ObjObs
  | .v id => (.v id, some (obsObj p id))
  | .q id => (.q id, some (obsObj p id))
  | t => (t, none)

structure ModelObs where
  /-- everything observable through the model's unit store (`Iso.obsStore`) -/
  units : Option StoreObs
  /-- the variables: name, units (resolved through the store), owner, cmeta id -/
  vars : List (Nat × ObjObs)
  /-- the equations; every atom with its object, hence the units of every quantity -/
  eqs : List (Nat × List (Tok × Option ObjObs))
  /-- the cmeta registry -/
  cmeta : List (String × Nat)
deriving Repr, DecidableEq

def obsModel (p : Proc) (j : Nat) : Option ModelObs :=
  match p.models[j]? with
  | some mj => some { units := obsStore p.world mj.store,
                      vars := mj.vars.map (fun v => (v, obsObj p v)),
                      eqs := mj.eqs.map (fun e => (e.lhs, e.rhs.map (obsTok p))),
                      cmeta := mj.cmeta }
  | none => none

/-- the answer of the memoised analysis `_get_singularity(check_U_expr, V, U_offset, exp_function)` in the current
    process state (whatever other calls filled the table before) -/
def analysisAnswer (sym : Sym) (p : Proc) (e : Ex) (V : Nat) (uOffset : Rat) (expFn : String) : SingRes :=
  (lruCall sym.analyse p.singCache ⟨evalf p.heap e, V, uOffset, expFn⟩).1

end Iso.Process
