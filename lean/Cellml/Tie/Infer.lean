import Cellml.Tie.InferCheck
import Cellml.Expr.InferLemmas

set_option linter.constructorNameAsVariable false
set_option linter.unusedSimpArgs false

/-! # Tie: `UnitCalculator.traverse` (generated from units.py, open recursion) = `Infer.traverse` (hand model)

    `traverse_tie` at the end; one lemma `tie_<constructor>` per kind of node. The model side is entered only through
    the recursion equations `Infer.traverse_<constructor>` of Expr/InferLemmas.lean (the ones Props/C04.lean uses),
    `Infer.trav` / `Infer.finish` for sums, and `checkUnit_tie` / `isDimensionless_tie` for the two helpers. -/

namespace Cellml.Tie.PInfer
open Units Cellml.Gen

/-- the recursive call `self.traverse(x)` answered by the hand model -/
def modelRec (reg : Registry) (Γ : VarEnv) : Obj → Except PyErr Q
  | .ex e => liftE (_root_.Infer.traverse reg Γ e)
  | .tup _ => .error ⟨"AttributeError"⟩

/-- the quantities of a list of operands, left to right, first exception wins -/
def collectM (rec : Obj → Except PyErr Q) : List Obj → Except PyErr (List Q)
  | [] => .ok []
  | a :: l =>
    match rec a with
    | .error e => .error e
    | .ok q =>
      match collectM rec l with
      | .error e => .error e
      | .ok qs => .ok (q :: qs)

theorem loop_eq (rec : Obj → Except PyErr Q) (l : List Obj) (init : List Q) :
    (forIn l init (fun arg s => do
        let x ← rec arg
        pure (ForInStep.yield (s ++ [x])))) =
      match collectM rec l with
      | .error e => .error e
      | .ok qs => .ok (init ++ qs) := by
  induction l generalizing init with
  | nil => simp [collectM, pure, Except.pure]
  | cons a l ih =>
    simp only [List.forIn_cons, collectM, bind, Except.bind, pure, Except.pure]
    cases rec a with
    | error e => rfl
    | ok q =>
      simp only []
      have := ih (init ++ [q])
      simp only [bind, Except.bind, pure, Except.pure] at this
      rw [this]
      cases collectM rec l <;> simp

section
variable (reg : Registry) (Γ : VarEnv)

abbrev gen (o : Obj) := Gen.Infer.traverse (TravView.mk reg Γ) (modelRec reg Γ) o
abbrev mdl (e : E) : Except PyErr Q := liftE (_root_.Infer.traverse reg Γ e)

macro "flags" : tactic => `(tactic|
  simp [Gen.Infer.traverse, Sym.isMatrix, Sym.isPiecewise, Sym.isDerivative, Sym.isSymbol, Sym.isQuantity,
    Sym.isVariable, Sym.isNumber, Sym.isInteger, Sym.isRational, Sym.isMul, Sym.isPow, Sym.isAdd, Sym.isRelational,
    Sym.isBoolean, Sym.isFunction, Sym.args, Sym.func, bind, Except.bind, pure, Except.pure, throw, throwThe,
    MonadExceptOf.throw, liftE, errClass, errName, UnitErr.name, Py.toInt, Py.toFloat, Py.ToFloat.toFloat,
    Py.dimensionless, HMul.hMul, Py.mkQuantity, Py.ToMag.toMag, Sym.units, Sym.initialValue, modelRec,
    Py.getItem, Py.absQ, Py.oneTimes, _root_.Infer.dimless1])

theorem tie_int (n : Int) : gen reg Γ (.ex (.int n)) = mdl reg Γ (.int n) := by
  rw [mdl, Infer.traverse_int]; flags
theorem tie_rat (q : Rat) : gen reg Γ (.ex (.rat q)) = mdl reg Γ (.rat q) := by
  rw [mdl, Infer.traverse_rat]; flags
theorem tie_flt (q : Rat) : gen reg Γ (.ex (.flt q)) = mdl reg Γ (.flt q) := by
  rw [mdl, Infer.traverse_flt]; flags
theorem tie_qty (v : Rat) (u : Container) : gen reg Γ (.ex (.qty v u)) = mdl reg Γ (.qty v u) := by
  rw [mdl, Infer.traverse_qty]; flags
theorem tie_cf (s : Scale) (u : Container) : gen reg Γ (.ex (.cf s u)) = mdl reg Γ (.cf s u) := by
  rw [mdl, Infer.traverse_cf]; flags
theorem tie_pi : gen reg Γ (.ex .pi) = mdl reg Γ .pi := by
  rw [mdl, Infer.traverse_pi]; flags
theorem tie_e : gen reg Γ (.ex .e) = mdl reg Γ .e := by
  rw [mdl, Infer.traverse_e]; flags
theorem tie_tt : gen reg Γ (.ex .tt) = mdl reg Γ .tt := by
  rw [mdl, Infer.traverse_tt]; flags
theorem tie_ff : gen reg Γ (.ex .ff) = mdl reg Γ .ff := by
  rw [mdl, Infer.traverse_ff]; flags
theorem tie_other (n : String) : gen reg Γ (.ex (.other n)) = mdl reg Γ (.other n) := by
  rw [mdl, Infer.traverse_other]; flags

theorem tie_var (i : Nat) (h : Γ[i]?.isSome) : gen reg Γ (.ex (.var i)) = mdl reg Γ (.var i) := by
  rw [mdl, Infer.traverse_var]
  obtain ⟨vi, hvi⟩ := Option.isSome_iff_exists.mp h
  flags
  simp [_root_.Infer.varQ, hvi, Py.truthy]
  cases hi : vi.init with
  | none => simp
  | some q => by_cases hq : q = 0 <;> simp [hq]

theorem tie_abs (a : E) : gen reg Γ (.ex (.abs a)) = mdl reg Γ (.abs a) := by
  rw [mdl, Infer.traverse_abs]
  flags
  cases _root_.Infer.traverse reg Γ a <;> simp


theorem tie_floor (a : E) : gen reg Γ (.ex (.floor a)) = mdl reg Γ (.floor a) := by
  rw [mdl, Infer.traverse_floor]
  flags
  cases _root_.Infer.traverse reg Γ a with
  | error err => simp
  | ok q =>
    obtain ⟨m, u⟩ := q
    cases m <;> simp [Py.isExprMag, Py.mathFloor, _root_.Infer.floorM, liftE, errClass, errName]

theorem tie_ceil (a : E) : gen reg Γ (.ex (.ceil a)) = mdl reg Γ (.ceil a) := by
  rw [mdl, Infer.traverse_ceil]
  flags
  cases _root_.Infer.traverse reg Γ a with
  | error err => simp
  | ok q =>
    obtain ⟨m, u⟩ := q
    cases m <;> simp [Py.isExprMag, Py.mathCeil, _root_.Infer.floorM, liftE, errClass, errName]

theorem tie_not (a : E) : gen reg Γ (.ex (.not a)) = mdl reg Γ (.not a) := by
  rw [mdl, Infer.traverse_not]
  flags
  cases _root_.Infer.traverse reg Γ a <;> simp

theorem tie_rel (r : Rel) (a b : E) : gen reg Γ (.ex (.rel r a b)) = mdl reg Γ (.rel r a b) := by
  rw [mdl, Infer.traverse_rel]
  flags
  cases _root_.Infer.traverse reg Γ a <;> simp
  cases _root_.Infer.traverse reg Γ b <;> simp [checkUnit_tie]


/-- two-operand `And` (the view shows the flat operand list `Sym.andArgs`; more operands: Tie/InferNary.lean) -/
theorem tie_and (a b : E) (hna : ∀ x y, a ≠ .and x y) : gen reg Γ (.ex (.and a b)) = mdl reg Γ (.and a b) := by
  rw [mdl, Infer.traverse_and]
  have ha : Sym.andArgs a = [a] := by
    cases a <;> simp [Sym.andArgs]
    exact absurd rfl (hna _ _)
  have hargs : Sym.args (.ex (.and a b)) = [.ex a, .ex b] := by simp [Sym.args, Sym.andArgs, ha]
  simp only [Gen.Infer.traverse, hargs]
  flags
  cases _root_.Infer.traverse reg Γ a <;> simp
  cases _root_.Infer.traverse reg Γ b <;> simp

theorem tie_or (a b : E) (hna : ∀ x y, a ≠ .or x y) : gen reg Γ (.ex (.or a b)) = mdl reg Γ (.or a b) := by
  rw [mdl, Infer.traverse_or]
  have ha : Sym.orArgs a = [a] := by
    cases a <;> simp [Sym.orArgs]
    exact absurd rfl (hna _ _)
  have hargs : Sym.args (.ex (.or a b)) = [.ex a, .ex b] := by simp [Sym.args, Sym.orArgs, ha]
  simp only [Gen.Infer.traverse, hargs]
  flags
  cases _root_.Infer.traverse reg Γ a <;> simp
  cases _root_.Infer.traverse reg Γ b <;> simp

theorem tie_deriv (v t : Nat) : gen reg Γ (.ex (.deriv v t)) = mdl reg Γ (.deriv v t) := by
  rw [mdl, Infer.traverse_deriv]
  flags
  simp [Sym.item, Sym.derivCount, modelRec, Infer.traverse_var, liftE, errClass]
  cases _root_.Infer.varQ Γ v <;> simp
  cases _root_.Infer.varQ Γ t <;> simp
  simp [Py.divQ, liftE, errClass, bind, Except.bind]
  rename_i qv qt
  cases _root_.Infer.divM qv.1 qt.1 <;> simp [pure, Except.pure]
  rename_i er; cases er <;> rfl

theorem tie_pow (b x : E) : gen reg Γ (.ex (.pow b x)) = mdl reg Γ (.pow b x) := by
  rw [mdl, Infer.traverse_pow]
  flags
  cases _root_.Infer.traverse reg Γ b <;> simp
  cases _root_.Infer.traverse reg Γ x <;> simp
  rename_i qb qx
  obtain ⟨mb, ub⟩ := qb
  obtain ⟨mx, ux⟩ := qx
  simp [Infer.powStep, Py.isNumberMag, Py.Pow.pow, liftE, errClass, bind, Except.bind]
  by_cases h1 : ux = [] <;> simp [h1]
  by_cases h2 : mx.isNumber = true <;> simp [h2]
  cases hp : _root_.Infer.powM mb mx <;> simp [pure, Except.pure]
  · rename_i er; cases er <;> rfl
  · by_cases h3 : ub = []
    · simp [h3]
    · simp [h3]
      cases mx <;> simp [throw, throwThe, MonadExceptOf.throw, errName, UnitErr.name]


theorem tie_fn1 (f : String) (a : E) (h1 : f ≠ "Abs") (h2 : f ≠ "floor") (h3 : f ≠ "ceiling") :
    gen reg Γ (.ex (.fn1 f a)) = mdl reg Γ (.fn1 f a) := by
  rw [mdl, Infer.traverse_fn1]
  flags
  cases _root_.Infer.traverse reg Γ a with
  | error err => simp
  | ok q =>
    obtain ⟨m, u⟩ := q
    simp [h1, h2, h3, isDimensionless_tie, Infer.fn1Step, Py.isIn]
    by_cases d : _root_.Infer.isDimless reg u = true <;> by_cases c1 : f = "log" <;>
      by_cases c1' : f = "factorial" <;> by_cases c2 : f = "exp" <;> by_cases c3 : f ∈ trigFunctions <;>
      simp [d, c1, c1', c2, c3, _root_.Infer.dimless1]
    all_goals
      rcases m with ⟨v, _ | _⟩ | _ | _ | _ <;> simp [Py.isFloatMag, Py.mathExp]
      by_cases hv : (709 : Rat) < v <;> simp [hv]


/-! ### n-ary nodes: the operand list of the flat SymPy node is the left spine of the model's nested node -/

theorem collectM_snoc (rec : Obj → Except PyErr Q) (l : List Obj) (x : Obj) :
    collectM rec (l ++ [x]) =
      match collectM rec l with
      | .error e => .error e
      | .ok qs => match rec x with
        | .error e => .error e
        | .ok q => .ok (qs ++ [q]) := by
  induction l with
  | nil => simp only [List.nil_append, collectM]
  | cons a l ih =>
    simp only [List.cons_append, collectM, ih]
    cases rec a with
    | error e => simp
    | ok q =>
      simp only []
      cases collectM rec l with
      | error e => simp
      | ok qs => simp only []; cases rec x <;> simp

theorem collectM_length (rec : Obj → Except PyErr Q) (l : List Obj) (qs : List Q)
    (h : collectM rec l = .ok qs) : qs.length = l.length := by
  induction l generalizing qs with
  | nil => simp [collectM] at h; subst h; rfl
  | cons a l ih =>
    simp only [collectM] at h
    cases hr : rec a with
    | error e => rw [hr] at h; cases h
    | ok q =>
      rw [hr] at h
      simp only [] at h
      cases hc : collectM rec l with
      | error e => rw [hc] at h; cases h
      | ok qs' =>
        rw [hc] at h
        simp only [Except.ok.injEq] at h
        subst h
        simp [ih qs' hc]

theorem collectM_single (e : E) :
    collectM (modelRec reg Γ) [.ex e] =
      match mdl reg Γ e with
      | .error er => .error er
      | .ok q => .ok [q] := by
  simp only [collectM, modelRec]

/-- what `reduce(mul, …)` makes of the operands of the flat product is the model's nested product -/
theorem mul_spine (e : E) :
    (match collectM (modelRec reg Γ) ((Sym.mulArgs e).map .ex) with
      | .error er => .error er
      | .ok qs => Py.reduce Py.mulQ qs) = mdl reg Γ e := by
  induction e with
  | mul a b iha _ =>
    simp only [Sym.mulArgs, List.map_append, List.map_cons, List.map_nil, collectM_snoc]
    rw [mdl, Infer.traverse_mul]
    cases hc : collectM (modelRec reg Γ) ((Sym.mulArgs a).map .ex) with
    | error er =>
      rw [hc] at iha
      simp only [mdl, liftE, errClass] at iha
      cases ha : _root_.Infer.traverse reg Γ a with
      | ok qa => rw [ha] at iha; cases iha
      | error ea => rw [ha] at iha; simp [bind, Except.bind, liftE, errClass]; simpa using iha
    | ok qs =>
      rw [hc] at iha
      simp only [mdl, liftE, errClass] at iha
      cases qs with
      | nil =>
        cases ha : _root_.Infer.traverse reg Γ a with
        | ok qa => rw [ha] at iha; simp [Py.reduce] at iha
        | error ea =>
          -- impossible: `mulArgs a` is never empty, so neither is the list of its quantities
          exfalso
          have hl := collectM_length _ _ _ hc
          have : ∀ x : E, Sym.mulArgs x ≠ [] := by
            intro x; cases x <;> simp [Sym.mulArgs]
          cases hm : Sym.mulArgs a with
          | nil => exact this a hm
          | cons y ys => rw [hm] at hl; simp at hl
      | cons q0 qs' =>
        cases ha : _root_.Infer.traverse reg Γ a with
        | error ea => rw [ha] at iha; simp [Py.reduce] at iha
        | ok qa =>
          rw [ha] at iha
          simp only [Py.reduce, Except.ok.injEq] at iha
          simp only [modelRec, liftE, errClass, bind, Except.bind]
          cases _root_.Infer.traverse reg Γ b with
          | error eb => simp
          | ok qb => simp [Py.reduce, List.foldl_append, iha, Py.mulQ, pure, Except.pure]
  | _ =>
    simp only [Sym.mulArgs, List.map_cons, List.map_nil, collectM_single]
    split <;> rename_i h <;> split at h
    all_goals first
      | (cases h; done)
      | (cases h; simp_all [Py.reduce]; done)
      | (simp_all [Py.reduce]; done)

theorem tie_mul (a b : E) : gen reg Γ (.ex (.mul a b)) = mdl reg Γ (.mul a b) := by
  rw [← mul_spine]
  simp only [Gen.Infer.traverse, Sym.isMatrix, Sym.isPiecewise, Sym.isDerivative, Sym.args, loop_eq]
  cases collectM (modelRec reg Γ) ((Sym.mulArgs (.mul a b)).map .ex) <;>
  simp [Sym.isMatrix, Sym.isPiecewise, Sym.isDerivative, Sym.isSymbol, Sym.isQuantity,
    Sym.isVariable, Sym.isNumber, Sym.isInteger, Sym.isRational, Sym.isMul, bind, Except.bind, pure, Except.pure, throw,
    throwThe, MonadExceptOf.throw]


theorem trav_of_not_add (e : E) (hns : ∀ a b, e ≠ .add a b) :
    (liftE (_root_.Infer.trav reg Γ e) : Except PyErr (List Q)) =
      match mdl reg Γ e with
      | .error er => .error er
      | .ok q => .ok [q] := by
  cases h : _root_.Infer.trav reg Γ e with
  | error er => simp [mdl, Infer.trav_error_traverse reg Γ e er h, liftE, errClass]
  | ok l =>
    obtain ⟨q, rfl⟩ := Infer.trav_singleton reg Γ e hns l h
    simp [mdl, (Infer.traverse_iff_of_not_add reg Γ e hns q).mpr h, liftE, errClass]

/-- the quantities collected for the operands of the flat sum are the model's operand list `trav` -/
theorem add_spine (e : E) :
    collectM (modelRec reg Γ) ((Sym.addArgs e).map .ex) = liftE (_root_.Infer.trav reg Γ e) := by
  induction e with
  | add a b iha _ =>
    simp only [Sym.addArgs, List.map_append, List.map_cons, List.map_nil, collectM_snoc, iha]
    simp only [_root_.Infer.trav, modelRec, _root_.Infer.traverse, liftE, errClass, bind, Except.bind]
    cases _root_.Infer.trav reg Γ a with
    | error er => simp
    | ok qa =>
      simp only []
      cases _root_.Infer.trav reg Γ b with
      | error er => simp
      | ok lb => simp only []; cases _root_.Infer.finish reg lb <;> simp [pure, Except.pure]
  | _ =>
    simp only [Sym.addArgs, List.map_cons, List.map_nil, collectM_single]
    rw [trav_of_not_add reg Γ]
    intro a b h; cases h

theorem tie_add (a b : E) : gen reg Γ (.ex (.add a b)) = mdl reg Γ (.add a b) := by
  simp only [Gen.Infer.traverse, Sym.isMatrix, Sym.isPiecewise, Sym.isDerivative, Sym.args, loop_eq, add_spine]
  rw [mdl, Infer.traverse_def]
  cases h : _root_.Infer.trav reg Γ (.add a b) with
  | error er =>
    simp [Sym.isMatrix, Sym.isPiecewise, Sym.isDerivative, bind, Except.bind, pure, Except.pure, throw,
      throwThe, MonadExceptOf.throw, liftE, errClass]
  | ok l =>
    cases l with
    | nil => exact absurd rfl (Infer.trav_ne_nil reg Γ _ _ h)
    | cons q rest =>
      simp [Sym.isMatrix, Sym.isPiecewise, Sym.isDerivative, Sym.isSymbol, Sym.isQuantity,
        Sym.isVariable, Sym.isNumber, Sym.isInteger, Sym.isRational, Sym.isMul, Sym.isPow, Sym.isAdd, bind,
        Except.bind, pure, Except.pure, throw, throwThe, MonadExceptOf.throw, liftE, errClass, checkUnit_tie,
        finish_eq_check, Py.getItem]
      by_cases hc : checkModel reg (q :: rest) = true <;> simp [hc, errName, UnitErr.name]


/-! ### Piecewise: the pieces of the flat SymPy node are the `then` parts along the model's `ite` chain -/

def chainExprs : E → List E
  | .ite _ t el => t :: chainExprs el
  | _ => []

theorem loop_pieces (rec : Obj → Except PyErr Q) (ch : E) (init : List Q) :
    (forIn (Sym.pieces ch) init (fun arg s => do
        let o ← Sym.item arg 0
        let x ← rec o
        pure (ForInStep.yield (s ++ [x])))) =
      match collectM rec ((chainExprs ch).map .ex) with
      | .error e => .error e
      | .ok qs => .ok (init ++ qs) := by
  induction ch generalizing init with
  | ite c t el _ _ ih =>
    have hi : Sym.item (.tup [t, c]) 0 = .ok (.ex t) := rfl
    simp only [Sym.pieces, chainExprs, List.forIn_cons, List.map_cons, collectM, bind, Except.bind, hi]
    cases rec (.ex t) with
    | error e => rfl
    | ok q =>
      simp only [pure, Except.pure]
      have := ih (init ++ [q])
      simp only [bind, Except.bind, pure, Except.pure] at this
      rw [this]
      cases collectM rec ((chainExprs el).map .ex) <;> simp
  | _ => simp [Sym.pieces, chainExprs, collectM, pure, Except.pure]

theorem sameUnits_congr (a b c : Container) (h : _root_.Infer.sameUnits reg a b = true) :
    _root_.Infer.sameUnits reg a c = _root_.Infer.sameUnits reg b c := by
  simp only [_root_.Infer.sameUnits, isEquivalent, PMap.beq, Bool.and_eq_true, decide_eq_true_eq] at h ⊢
  rw [h.1, h.2]

/-- the model's nested comparison along the chain is the flat check of all pieces against the first -/
theorem ite_spine (ch : E) (hc : Sym.isChain ch = true) (hu : ch ≠ .undef) :
    mdl reg Γ ch =
      match collectM (modelRec reg Γ) ((chainExprs ch).map .ex) with
      | .error er => .error er
      | .ok qs => if checkModel reg qs then Py.getItem qs 0 else .error ⟨"InputArgumentsInvalidUnitsError"⟩ := by
  induction ch with
  | ite c t el _ _ ih =>
    rw [mdl, Infer.traverse_ite]
    simp only [chainExprs, List.map_cons, collectM, modelRec]
    cases ht : _root_.Infer.traverse reg Γ t with
    | error er => simp [liftE, errClass, bind, Except.bind]
    | ok qt =>
      by_cases hel : el = .undef
      · subst hel
        simp [liftE, errClass, bind, Except.bind, chainExprs, collectM, checkModel, Py.getItem, pure, Except.pure]
      · have ih' := ih (by simpa [Sym.isChain] using hc) hel
        simp only [mdl, liftE, errClass] at ih'
        simp only [liftE, errClass, bind, Except.bind, hel, if_false]
        cases hcm : collectM (modelRec reg Γ) ((chainExprs el).map .ex) with
        | error er =>
          rw [hcm] at ih'
          cases hte : _root_.Infer.traverse reg Γ el with
          | ok qe => rw [hte] at ih'; cases ih'
          | error ee => rw [hte] at ih'; simpa using ih'
        | ok qs =>
          rw [hcm] at ih'
          cases qs with
          | nil =>
            exfalso
            have hl := collectM_length _ _ _ hcm
            cases el <;> simp_all [chainExprs, Sym.isChain]
          | cons q2 rest =>
            simp only [checkModel, Py.getItem, List.getElem?_cons_zero] at ih' ⊢
            by_cases h12 : _root_.Infer.sameUnits reg qt.2 q2.2 = true
            · have hall : (rest.all fun r => _root_.Infer.sameUnits reg qt.2 r.2) =
                  (rest.all fun r => _root_.Infer.sameUnits reg q2.2 r.2) := by
                congr 1; funext r; exact sameUnits_congr reg _ _ _ h12
              cases hte : _root_.Infer.traverse reg Γ el with
              | error ee =>
                rw [hte] at ih'
                by_cases hr : (rest.all fun r => _root_.Infer.sameUnits reg q2.2 r.2) = true
                · simp [hr] at ih'
                · simp [hr] at ih'
                  simp [List.all_cons, h12, hall, hr, ih']
              | ok qe =>
                rw [hte] at ih'
                by_cases hr : (rest.all fun r => _root_.Infer.sameUnits reg q2.2 r.2) = true
                · simp [hr] at ih'
                  subst ih'
                  simp [List.all_cons, h12, hall, hr, pure, Except.pure]
                · simp [hr] at ih'
            · cases hte : _root_.Infer.traverse reg Γ el with
              | error ee =>
                rw [hte] at ih'
                by_cases hr : (rest.all fun r => _root_.Infer.sameUnits reg q2.2 r.2) = true
                · simp [hr] at ih'
                · simp [hr] at ih'
                  simp [List.all_cons, h12, ih']
              | ok qe =>
                rw [hte] at ih'
                by_cases hr : (rest.all fun r => _root_.Infer.sameUnits reg q2.2 r.2) = true
                · simp [hr] at ih'
                  subst ih'
                  simp [List.all_cons, h12, errName, UnitErr.name]
                · simp [hr] at ih'
  | _ => simp_all [Sym.isChain]

theorem tie_ite (c t el : E) (hc : Sym.isChain el = true) :
    gen reg Γ (.ex (.ite c t el)) = mdl reg Γ (.ite c t el) := by
  rw [ite_spine reg Γ (.ite c t el) (by simpa [Sym.isChain] using hc) (by intro h; cases h)]
  simp only [Gen.Infer.traverse, Sym.isMatrix, Sym.isPiecewise, Sym.args, loop_pieces]
  cases collectM (modelRec reg Γ) ((chainExprs (.ite c t el)).map .ex) with
  | error er =>
    simp [Sym.isMatrix, Sym.isPiecewise, bind, Except.bind, pure, Except.pure, throw, throwThe, MonadExceptOf.throw]
  | ok qs =>
    simp [Sym.isMatrix, Sym.isPiecewise, Sym.isDerivative, Sym.isSymbol, Sym.isQuantity,
      Sym.isVariable, Sym.isNumber, Sym.isInteger, Sym.isRational, Sym.isMul, Sym.isPow, Sym.isAdd, bind,
      Except.bind, pure, Except.pure, throw, throwThe, MonadExceptOf.throw, checkUnit_tie]

end

/-- The nodes on which the tie is stated. Outside (see notes/reports/TIE_Infer.md for each):
    `oo`, `nan` (the model abstains: `unsupported`), a bare `undef` and an `ite` chain that does not end in `undef`
    (no SymPy object), an undeclared variable index (no python object), `fn1` under the name of a function the wire
    format spells `abs` / `floor` / `ceil`, n-ary `And` / `Or` beyond two operands (model and code differ there), and
    the functions of two and more arguments `fnN` (not finished in the time box; model and code differ on one
    nesting). -/
def inDomain (Γ : VarEnv) : E → Bool
  | .oo | .nan | .undef => false
  | .var i => Γ[i]?.isSome
  | .fn1 f _ => f != "Abs" && f != "floor" && f != "ceiling"
  | .fnN _ _ _ => false
  | .ite _ _ el => Sym.isChain el
  | .and (.and _ _) _ => false
  | .or (.or _ _) _ => false
  | _ => true

/-- **Tie of `UnitCalculator.traverse`.** For every registry, variable environment and expression node in the domain:
    the body of `traverse` generated from units.py, run on the node with its recursive calls `self.traverse(arg)`
    answered by the hand model, returns what the hand model `Infer.traverse` returns on the node - the same quantity,
    or an exception of the same class. So `Infer.traverse` is a fixpoint of the functional the python source defines
    (and python's `traverse`, which terminates on finite trees, is the only one). -/
theorem traverse_tie (reg : Registry) (Γ : VarEnv) (e : E) (h : inDomain Γ e = true) :
    Gen.Infer.traverse (TravView.mk reg Γ) (modelRec reg Γ) (.ex e) = liftE (_root_.Infer.traverse reg Γ e) := by
  cases e with
  | qty v u => exact tie_qty reg Γ v u
  | cf s u => exact tie_cf reg Γ s u
  | var i => exact tie_var reg Γ i (by simpa [inDomain] using h)
  | int n => exact tie_int reg Γ n
  | rat q => exact tie_rat reg Γ q
  | flt q => exact tie_flt reg Γ q
  | pi => exact tie_pi reg Γ
  | e => exact tie_e reg Γ
  | oo => simp [inDomain] at h
  | nan => simp [inDomain] at h
  | add a b => exact tie_add reg Γ a b
  | mul a b => exact tie_mul reg Γ a b
  | pow b x => exact tie_pow reg Γ b x
  | abs a => exact tie_abs reg Γ a
  | floor a => exact tie_floor reg Γ a
  | ceil a => exact tie_ceil reg Γ a
  | fn1 f a =>
    simp [inDomain] at h
    exact tie_fn1 reg Γ f a h.1.1 h.1.2 h.2
  | fnN f a b => simp [inDomain] at h
  | ite c t el => exact tie_ite reg Γ c t el (by simpa [inDomain] using h)
  | undef => simp [inDomain] at h
  | deriv v t => exact tie_deriv reg Γ v t
  | rel r a b => exact tie_rel reg Γ r a b
  | and a b => exact tie_and reg Γ a b (by intro x y hxy; subst hxy; simp [inDomain] at h)
  | or a b => exact tie_or reg Γ a b (by intro x y hxy; subst hxy; simp [inDomain] at h)
  | not a => exact tie_not reg Γ a
  | tt => exact tie_tt reg Γ
  | ff => exact tie_ff reg Γ
  | other n => exact tie_other reg Γ n

end Cellml.Tie.PInfer
