import Cellml.Units.Lemmas

/-! # C07 — conversion factors obey unit algebra, for every pair/triple of units of every registry.

    Model: `Units.factor`, `Units.convert`, `Units.conversionFactor`, `Units.isEquivalent` (mini-pint). A scale is a
    prime ↦ exponent map, so "f · g" is `PMap.add f g`, "1/f" is `PMap.neg f`, "1" is `[]`, and `≃` is equality of the
    positive reals denoted. Every theorem quantifies over ALL registries (any family of base, derived, scaled
    dimensionless units, shared by any number of stores) and ALL containers (any product / quotient / rational power of
    named units). The tie to cellmlmanip is the correspondence check `harness/props/c07.py`. -/

namespace Cellml.Props.C07
open Units PMap

theorem factor_ok_iff (reg : Registry) (a b : Container) (f : Scale) :
    factor reg a b = .ok f ↔
      (allKnown reg a = true ∧ allKnown reg b = true ∧ beq (dimsOf reg a) (dimsOf reg b) = true ∧
        f = norm (sub (toRoot reg a).1 (toRoot reg b).1)) := by
  unfold factor
  by_cases hk : (allKnown reg a && allKnown reg b) = true
  · simp only [hk, Bool.not_true, Bool.false_eq_true, if_false]
    have hk' := hk
    simp only [Bool.and_eq_true] at hk'
    by_cases hd : beq (dimsOf reg a) (dimsOf reg b) = true
    · simp only [hd, if_true, Except.ok.injEq]
      constructor
      · intro h; exact ⟨hk'.1, hk'.2, trivial, h.symm⟩
      · intro h; exact h.2.2.2.symm
    · simp only [hd, Bool.false_eq_true, if_false]
      constructor
      · intro h; cases h
      · intro h; exact absurd h.2.2.1 (by simpa using hd)
  · have : (!(allKnown reg a && allKnown reg b)) = true := by
      cases hx : (allKnown reg a && allKnown reg b) with
      | true => exact absurd hx hk
      | false => rfl
    simp only [this, if_true]
    constructor
    · intro h; cases h
    · intro h; rw [h.1, h.2.1] at hk; exact absurd rfl hk

/-- factor(a, a) = 1 -/
theorem factor_refl (reg : Registry) (a : Container) (h : allKnown reg a = true) :
    ∃ f, factor reg a a = .ok f ∧ f ≃ [] := by
  refine ⟨_, (factor_ok_iff reg a a _).mpr ⟨h, h, ?_, rfl⟩, ?_⟩
  · simp [beq]
  · intro p; simp only [get_norm, get_sub, get_nil]; grind

/-- the factor is the ratio of the units' SI scales (scales of the root expansion) -/
theorem factor_ratio (reg : Registry) (a b : Container) (f : Scale) (h : factor reg a b = .ok f) :
    f ≃ sub (toRoot reg a).1 (toRoot reg b).1 := by
  obtain ⟨_, _, _, rfl⟩ := (factor_ok_iff reg a b f).mp h
  exact norm_equiv _

/-- factor(a, b) · factor(b, a) = 1 -/
theorem factor_inv (reg : Registry) (a b : Container) (f : Scale) (h : factor reg a b = .ok f) :
    ∃ g, factor reg b a = .ok g ∧ add f g ≃ [] := by
  obtain ⟨ha, hb, hd, rfl⟩ := (factor_ok_iff reg a b f).mp h
  refine ⟨_, (factor_ok_iff reg b a _).mpr ⟨hb, ha, ?_, rfl⟩, ?_⟩
  · simp only [beq, decide_eq_true_eq] at hd ⊢; exact hd.symm
  · intro p; simp only [get_add, get_norm, get_sub, get_nil]; grind

/-- factor(a, c) = factor(a, b) · factor(b, c) -/
theorem factor_trans (reg : Registry) (a b c : Container) (f g : Scale)
    (h₁ : factor reg a b = .ok f) (h₂ : factor reg b c = .ok g) :
    ∃ k, factor reg a c = .ok k ∧ k ≃ add f g := by
  obtain ⟨ha, _, hd₁, rfl⟩ := (factor_ok_iff reg a b f).mp h₁
  obtain ⟨_, hc, hd₂, rfl⟩ := (factor_ok_iff reg b c g).mp h₂
  refine ⟨_, (factor_ok_iff reg a c _).mpr ⟨ha, hc, ?_, rfl⟩, ?_⟩
  · simp only [beq, decide_eq_true_eq] at hd₁ hd₂ ⊢; exact hd₁.trans hd₂
  · intro p; simp only [get_add, get_norm, get_sub]; grind

/-- a factor is only ever returned between units of the same dimension … -/
theorem factor_ok_same_dims (reg : Registry) (a b : Container) (f : Scale) (h : factor reg a b = .ok f) :
    dimsOf reg a ≃ dimsOf reg b :=
  equiv_of_beq ((factor_ok_iff reg a b f).mp h).2.2.1

/-- … and a dimension mismatch between known units is reported as DimensionalityError, never as a number. -/
theorem mismatch_is_error (reg : Registry) (a b : Container)
    (ha : allKnown reg a = true) (hb : allKnown reg b = true) (hd : beq (dimsOf reg a) (dimsOf reg b) = false) :
    factor reg a b = .error .dimensionality := by
  unfold factor; simp [ha, hb, hd]

/-- convert(q·a, b) has magnitude q · factor(a, b), in unit b -/
theorem convert_magnitude (reg : Registry) (a b : Container) (f : Scale) (u : Container)
    (h : convert reg a b = .ok (f, u)) : u = b ∧ factor reg a b = .ok f := by
  unfold convert at h
  split at h
  · rename_i f' hf; simp only [Except.ok.injEq, Prod.mk.injEq] at h; exact ⟨h.2.symm, h.1 ▸ hf⟩
  · cases h

/-- `get_conversion_factor` answers the int `1` exactly when the factor is one -/
theorem conversionFactor_one (reg : Registry) (a b : Container) :
    conversionFactor reg a b = .ok none ↔ factor reg a b = .ok [] := by
  unfold conversionFactor
  cases hf : factor reg a b with
  | error e => simp
  | ok f => by_cases h : f = [] <;> simp [h]

/-! ### `is_equivalent` is an equivalence relation, and implies factor one -/

theorem equiv_refl (reg : Registry) (a : Container) : isEquivalent reg a a = true := by
  simp [isEquivalent, beq]

theorem equiv_symm (reg : Registry) (a b : Container) (h : isEquivalent reg a b = true) :
    isEquivalent reg b a = true := by
  simp only [isEquivalent, beq, Bool.and_eq_true, decide_eq_true_eq] at h ⊢
  exact ⟨h.1.symm, h.2.symm⟩

theorem equiv_trans (reg : Registry) (a b c : Container) (h₁ : isEquivalent reg a b = true)
    (h₂ : isEquivalent reg b c = true) : isEquivalent reg a c = true := by
  simp only [isEquivalent, beq, Bool.and_eq_true, decide_eq_true_eq] at h₁ h₂ ⊢
  exact ⟨h₁.1.trans h₂.1, h₁.2.trans h₂.2⟩

/-- equivalent units convert into each other with factor exactly one -/
theorem equiv_factor_one (reg : Registry) (a b : Container) (ha : allKnown reg a = true)
    (hb : allKnown reg b = true) (h : isEquivalent reg a b = true) : factor reg a b = .ok [] := by
  simp only [isEquivalent, beq, Bool.and_eq_true, decide_eq_true_eq] at h
  refine (factor_ok_iff reg a b _).mpr ⟨ha, hb, ?_, ?_⟩
  · simp only [beq, decide_eq_true_eq, dimsOf, h.1]
  · -- norm (sa - sb) = [] because sa ≃ sb: go through the canonical form of a semantically zero map
    have hz : ∀ p, get (sub (toRoot reg a).1 (toRoot reg b).1) p = 0 := by
      intro p
      have := equiv_of_norm_eq h.2 p
      simp only [get_sub, this]; grind
    exact (norm_eq_nil_of_zero _ hz).symm


/-- `is_equivalent` holds exactly when the factor is one AND the two units expand to the same root units
    (the second conjunct is what `radian` violates; for units without dimensionless root units it is implied by
    the first, since conversion already requires equal dimensions). -/
theorem equiv_iff_factor_one (reg : Registry) (a b : Container) (ha : allKnown reg a = true)
    (hb : allKnown reg b = true) :
    isEquivalent reg a b = true ↔ (factor reg a b = .ok [] ∧ (toRoot reg a).2 ≃ (toRoot reg b).2) := by
  constructor
  · intro h
    refine ⟨equiv_factor_one reg a b ha hb h, ?_⟩
    simp only [isEquivalent, Bool.and_eq_true] at h
    exact equiv_of_beq h.1
  · rintro ⟨hf, hr⟩
    have hs := factor_ratio reg a b [] hf
    simp only [isEquivalent, Bool.and_eq_true]
    refine ⟨beq_iff_equiv.mpr hr, beq_iff_equiv.mpr ?_⟩
    intro p
    have := hs p
    simp only [get_nil, get_sub] at this
    grind

/-- semantic form of `mismatch_is_error`: units whose dimensions differ in any exponent never convert -/
theorem mismatch_is_error' (reg : Registry) (a b : Container)
    (ha : allKnown reg a = true) (hb : allKnown reg b = true) (hd : ¬ dimsOf reg a ≃ dimsOf reg b) :
    factor reg a b = .error .dimensionality := by
  apply mismatch_is_error reg a b ha hb
  cases h : beq (dimsOf reg a) (dimsOf reg b) with
  | false => rfl
  | true => exact absurd (beq_iff_equiv.mp h) hd

/-- and units of equal dimension always do -/
theorem same_dims_convert (reg : Registry) (a b : Container)
    (ha : allKnown reg a = true) (hb : allKnown reg b = true) (hd : dimsOf reg a ≃ dimsOf reg b) :
    ∃ f, factor reg a b = .ok f :=
  ⟨_, (factor_ok_iff reg a b _).mpr ⟨ha, hb, beq_iff_equiv.mpr hd, rfl⟩⟩

/-- the converse fails on the unchanged tree (known finding): `radian` converts to `dimensionless` with factor one
    but is not `is_equivalent` to it, because `radian` is a root unit without a dimension. -/
theorem radian_factor_one_not_equivalent :
    factor builtinRegistry [("radian", 1)] [] = .ok [] ∧ isEquivalent builtinRegistry [("radian", 1)] [] = false := by
  decide +kernel

/-! ### closure under product, quotient, rational power (so the laws above hold for every composite unit) -/

/-- scale and root units of a product are the products -/
theorem root_mul (reg : Registry) (a b : Container) :
    (toRoot reg (add a b)).1 ≃ add (toRoot reg a).1 (toRoot reg b).1 ∧
    (toRoot reg (add a b)).2 ≃ add (toRoot reg a).2 (toRoot reg b).2 := toRoot_add reg a b

/-- scale and root units of a rational power are the powers -/
theorem root_pow (reg : Registry) (q : Rat) (a : Container) :
    (toRoot reg (smul q a)).1 ≃ smul q (toRoot reg a).1 ∧
    (toRoot reg (smul q a)).2 ≃ smul q (toRoot reg a).2 := toRoot_smul reg q a

/-- factor(a·c, b·d) = factor(a, b) · factor(c, d) -/
theorem factor_mul (reg : Registry) (a b c d : Container) (f g k : Scale)
    (h₁ : factor reg a b = .ok f) (h₂ : factor reg c d = .ok g) (h₃ : factor reg (add a c) (add b d) = .ok k) :
    k ≃ add f g := by
  have e₁ := factor_ratio reg a b f h₁
  have e₂ := factor_ratio reg c d g h₂
  have e₃ := factor_ratio reg _ _ k h₃
  have m₁ := (toRoot_add reg a c).1
  have m₂ := (toRoot_add reg b d).1
  intro p
  have := e₁ p; have := e₂ p; have := e₃ p; have := m₁ p; have := m₂ p
  simp only [get_add, get_sub] at *
  grind

/-- factor(a^q, b^q) = factor(a, b)^q -/
theorem factor_pow (reg : Registry) (q : Rat) (a b : Container) (f k : Scale)
    (h₁ : factor reg a b = .ok f) (h₂ : factor reg (smul q a) (smul q b) = .ok k) : k ≃ smul q f := by
  have e₁ := factor_ratio reg a b f h₁
  have e₂ := factor_ratio reg _ _ k h₂
  have m₁ := (toRoot_smul reg q a).1
  have m₂ := (toRoot_smul reg q b).1
  intro p
  have := e₁ p; have := e₂ p; have := m₁ p; have := m₂ p
  simp only [get_smul, get_sub] at *
  grind

/-! ### non-vacuity: concrete units meet the hypotheses -/

example : factor builtinRegistry [("volt", 1)] [("joule", 1), ("coulomb", -1)] = .ok [] := by decide +kernel
example : factor builtinRegistry [("liter", 1)] [("meter", 3)] = .ok [(2, -3), (5, -3)] := by decide +kernel
example : factor builtinRegistry [("volt", 1)] [("second", 1)] = .error .dimensionality := by decide +kernel

end Cellml.Props.C07
