#!/bin/bash
# tools/try_seed.sh <patch.diff> <Cxx> [more Cxx…]   (env: VERIF_SEED, TIER=quick|thorough)
# Runs checks against a MUTATED copy of /repo without touching /repo or this /verif:
# a scratch worktree of /repo gets the patch, a scratch copy of /verif (with its Lean build output) runs the checks with
# CELLML_REPO / PYTHONPATH pointing at the mutated tree. Everything is removed afterwards.
set -u
patch=$(readlink -f "$1"); shift
id=$$
wt=/tmp/try-$id-repo; vt=/tmp/try-$id-verif
trap 'git -C /repo worktree remove --force $wt >/dev/null 2>&1; rm -rf $vt $wt' EXIT
git -C /repo worktree add -q --detach $wt HEAD || exit 2
git -C $wt apply "$patch" || { echo "PATCH DOES NOT APPLY"; exit 2; }
rsync -a --exclude .git --exclude replays --exclude seeded ${VERIF_SRC:-/verif}/ $vt/
cd $vt
rc=0
for p in "$@"; do
  echo "=== $p against $(basename $patch)"
  CELLML_REPO=$wt PYTHONPATH=$wt ./check $p --tier ${TIER:-quick} 2>&1 | grep -v '^KNOWN-FINDING' | tail -${TAIL:-4}
  r=${PIPESTATUS[0]}; echo "exit=$r"; [ $r -ne 0 ] && rc=$r
  if [ -d replays ]; then for f in replays/$p-*.json; do [ -f "$f" ] && { echo "--- $f"; head -c ${REPLAY_BYTES:-1500} "$f"; echo; }; done; rm -rf replays; fi
done
exit $rc
