/-! # C12 — the fix range around a singular point (core Lean only, generic in the number type).

    For an exponent argument `U = k·V + c` (`k ≠ 0`) `_get_singularity` solves `U = 0` (the singular point `sp`),
    `U − δ = 0` (`Vmin`) and `U + δ = 0` (`Vmax`) with `δ = U_offset`. Despite their names `Vmin`/`Vmax` are not
    ordered (`Vmax < Vmin` whenever `k > 0`); `_generate_piecewise` swaps them when needed. Everything here is written
    with the bare operations only, so the same definitions run on `Rat` in the driver and are reasoned about over an
    arbitrary ordered field in `Cellml/Props/C12.lean`. -/

namespace C12

/-- a fix range as `_get_singularity` returns it: `(Vmin, Vmax, sp)`, bounds not necessarily ordered -/
structure Win (K : Type) where
  vmin : K
  vmax : K
  sp : K
deriving Repr, Inhabited, DecidableEq

section
variable {K : Type} [Add K] [Sub K] [Mul K] [Div K] [Neg K] [LT K] [DecidableLT K]

/-- the value of `V` with `k·V + c = 0` -/
def spOf (k c : K) : K := -c / k
/-- the value of `V` with `k·V + c − δ = 0` -/
def vminOf (k c δ : K) : K := (δ - c) / k
/-- the value of `V` with `k·V + c + δ = 0` -/
def vmaxOf (k c δ : K) : K := (-δ - c) / k

def window (k c δ : K) : Win K := ⟨vminOf k c δ, vmaxOf k c δ, spOf k c⟩

/-- `_generate_piecewise`: `if float(Vmax) < float(Vmin): Vmin, Vmax = Vmax, Vmin` — the lower bound … -/
def lo (vmin vmax : K) : K := if vmax < vmin then vmax else vmin
/-- … and the upper bound after the swap -/
def hi (vmin vmax : K) : K := if vmax < vmin then vmin else vmax

def Win.lo (w : Win K) : K := C12.lo w.vmin w.vmax
def Win.hi (w : Win K) : K := C12.hi w.vmin w.vmax

/-- Python's `min(a, b)` / `max(a, b)` on numbers -/
def min2 (a b : K) : K := if b < a then b else a
def max2 (a b : K) : K := if a < b then b else a

/-- `_get_singularity`, lines 240-241, for a singularity found before with the same `sp`:
    `sing[0] = min(sing[0], sing[1], Vmin, Vmax); sing[1] = max(sing[0], sing[1], Vmin, Vmax)` — two assignments in
    sequence: the second one reads the NEW `sing[0]`. -/
def mergeSeq (s : Win K) (vmin vmax : K) : Win K :=
  let s0 := min2 (min2 (min2 s.vmin s.vmax) vmin) vmax
  let s1 := max2 (max2 (max2 s0 s.vmax) vmin) vmax
  ⟨s0, s1, s.sp⟩

/-- the widest range of two ranges: what the comment above those lines intends, and what `_fix_expr_parts` does for
    the terms of a sum (`min(range)`, `max(range)` over all bounds) -/
def mergeWide (s t : Win K) : Win K :=
  ⟨min2 (min2 (min2 s.vmin s.vmax) t.vmin) t.vmax, max2 (max2 (max2 s.vmin s.vmax) t.vmin) t.vmax, s.sp⟩

/-- `min(range)` / `max(range)` over the bounds of all the terms of a sum (first term given separately) -/
def mergeAll (s : Win K) : List (Win K) → Win K
  | [] => ⟨min2 s.vmin s.vmax, max2 s.vmin s.vmax, s.sp⟩
  | t :: ts => mergeAll (mergeWide s t) ts

end
end C12
