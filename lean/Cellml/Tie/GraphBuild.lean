import Cellml.Generated.Code.GraphBuild
import Cellml.C09.Build
import Mathlib.Tactic.SplitIfs

/-! # Tie: the `Model.graph` property (generated from cellmlmanip/model.py) = `C09.buildGraph` (hand model) -/

namespace Cellml.Tie.PGraph
open C09 Cellml.Gen

/-! ## generic loops -/

/-- a `for` loop whose body neither raises nor breaks is a fold -/
theorem forIn_pure {α σ} (f : α → σ → Except PyErr (ForInStep σ)) (step : σ → α → σ)
    (hf : ∀ x s, f x s = .ok (.yield (step s x))) : ∀ (l : List α) (s : σ), forIn l s f = .ok (l.foldl step s)
  | [], s => by simp [pure, Except.pure]
  | x :: xs, s => by
    rw [List.forIn_cons, hf]
    simp only [bind, Except.bind, List.foldl_cons]
    exact forIn_pure f step hf xs _

theorem foldl_congr_mem {α σ} (f g : σ → α → σ) : ∀ (l : List α) (s : σ), (∀ s, ∀ x ∈ l, f s x = g s x) →
    l.foldl f s = l.foldl g s
  | [], _, _ => rfl
  | x :: xs, s, h => by
    simp only [List.foldl_cons]
    rw [h s x (by simp)]
    exact foldl_congr_mem f g xs _ (fun s y hy => h s y (List.mem_cons_of_mem _ hy))

/-! ## dict insertion and the two sanity asserts -/

theorem addNew_eq_addNode (ns : List Node) (v : Node) : Py.addNew ns v = addNode ns v := rfl

theorem foldl_addNew_len {α} [DecidableEq α] : ∀ (l acc : List α),
    (l.foldl Py.addNew acc).length ≤ acc.length + l.length ∧
    ((l.Nodup ∧ ∀ x ∈ l, x ∉ acc) → l.foldl Py.addNew acc = acc ++ l) ∧
    (¬ (l.Nodup ∧ ∀ x ∈ l, x ∉ acc) → (l.foldl Py.addNew acc).length < acc.length + l.length)
  | [], acc => by simp
  | x :: xs, acc => by
    simp only [List.foldl_cons, List.length_cons, List.nodup_cons, List.mem_cons, forall_eq_or_imp]
    by_cases hx : x ∈ acc
    · have ih := foldl_addNew_len xs acc
      have e1 : Py.addNew acc x = acc := by simp [Py.addNew, hx]
      rw [e1]
      refine ⟨by omega, fun h => absurd hx h.2.1, fun _ => by omega⟩
    · have ih := foldl_addNew_len xs (acc ++ [x])
      have e1 : Py.addNew acc x = acc ++ [x] := by simp [Py.addNew, hx]
      rw [e1]
      simp only [List.length_append, List.length_cons, List.length_nil] at ih
      have key : (xs.Nodup ∧ ∀ y ∈ xs, y ∉ acc ++ [x]) ↔ ((x ∉ xs ∧ xs.Nodup) ∧ x ∉ acc ∧ ∀ y ∈ xs, y ∉ acc) := by
        simp only [List.mem_append, List.mem_cons, List.not_mem_nil, or_false, not_or]
        constructor
        · rintro ⟨h1, h2⟩
          exact ⟨⟨fun hxx => (h2 x hxx).2 rfl, h1⟩, hx, fun y hy => (h2 y hy).1⟩
        · rintro ⟨⟨h1, h2⟩, _, h4⟩
          exact ⟨h2, fun y hy => ⟨h4 y hy, fun hyx => h1 (hyx ▸ hy)⟩⟩
      refine ⟨by omega, fun h => ?_, fun h => ?_⟩
      · rw [ih.2.1 (key.mpr h)]; simp
      · have := ih.2.2 (fun h' => h (key.mp h')); omega

theorem foldl_addNew_nodup {α} [DecidableEq α] (l : List α) (h : l.Nodup) : l.foldl Py.addNew [] = l := by
  have := (foldl_addNew_len l []).2.1 ⟨h, by simp⟩
  simpa using this

theorem foldl_addNew_len_eq {α} [DecidableEq α] (l : List α) :
    ((l.foldl Py.addNew []).length == l.length) = decide l.Nodup := by
  by_cases h : l.Nodup
  · simp [foldl_addNew_nodup l h, h]
  · have := (foldl_addNew_len l []).2.2 (fun h' => h h'.1)
    simp only [List.length_nil, Nat.zero_add] at this
    simp only [h, decide_false, beq_eq_false_iff_ne, ne_eq]
    omega

/-! ## the type map -/

theorem tyGet_set (ty : TyMap) (w v : Node) (t : Option VT) :
    tyGet (tySet ty w t) v = if v = w then t else tyGet ty v := by
  unfold tyGet tySet
  by_cases h : v = w
  · subst h; simp [List.lookup]
  · have : (v == w) = false := by simpa using h
    simp [List.lookup, this, h]

/-- `t in [VariableType.STATE, VariableType.FREE]` -/
def isSF (t : Option VT) : Bool := Py.isIn t [some VT.state, some VT.free]

theorem reset_none (v : Node) : ∀ (l : List Node) (s : TyMap), (v ∈ l ∨ tyGet s v = none) →
    tyGet (l.foldl (fun s w => tySet s w none) s) v = none
  | [], s, h => by simpa using h
  | w :: ws, s, h => by
    simp only [List.foldl_cons]
    apply reset_none v ws
    by_cases hvw : v = w
    · right; rw [tyGet_set]; simp [hvw]
    · rcases h with h | h
      · left; simpa [hvw] using h
      · right; rw [tyGet_set]; simp [hvw, h]

/-- the first type-writing loop, one equation, read off the equation itself: the left-hand side of an ordinary
    equation is PARAMETER or COMPUTED, an ODE writes nothing -/
def twL (rq : Eqn → Bool) (ty : TyMap) (e : Eqn) : TyMap :=
  match e.ode with
  | some _ => ty
  | none => if rq e then tySet ty e.lhs (some VT.parameter) else tySet ty e.lhs (some VT.computed)

/-- the two loops after it, one equation: the variable `k (state, free)` of an ODE gets the role `t` -/
def twK (k : Node × Node → Node) (t : VT) (ty : TyMap) (e : Eqn) : TyMap :=
  match e.ode with
  | some p => tySet ty (k p) (some t)
  | none => ty

/-- `v` is the variable `k (state, free)` of the ODE `e` -/
def isK (k : Node × Node → Node) (v : Node) (e : Eqn) : Bool :=
  match e.ode with
  | some p => v == k p
  | none => false

/-- the three type-writing loops: all left-hand sides, then all states, then all free variables -/
def tw (rq : Eqn → Bool) (ty : TyMap) (es : List Eqn) : TyMap :=
  es.foldl (twK Prod.snd VT.free) (es.foldl (twK Prod.fst VT.state) (es.foldl (twL rq) ty))

theorem twL_notSF (rq : Eqn → Bool) (v : Node) : ∀ (es : List Eqn) (ty : TyMap),
    isSF (tyGet ty v) = false → isSF (tyGet (es.foldl (twL rq) ty) v) = false
  | [], _, h => h
  | e :: es, ty, h => by
    simp only [List.foldl_cons]
    apply twL_notSF rq v es
    unfold twL
    cases e.ode with
    | some p => exact h
    | none =>
      simp only []
      split_ifs <;> (rw [tyGet_set]; split_ifs <;> first | exact h | simp [isSF, Py.isIn])

theorem twK_isSF (k : Node × Node → Node) (t : VT) (ht : isSF (some t) = true) (v : Node) :
    ∀ (es : List Eqn) (ty : TyMap),
      isSF (tyGet (es.foldl (twK k t) ty) v) = (es.any (isK k v) || isSF (tyGet ty v))
  | [], ty => by simp
  | e :: es, ty => by
    simp only [List.foldl_cons, List.any_cons]
    rw [twK_isSF k t ht v es]
    unfold twK isK
    cases e.ode with
    | none => simp
    | some p =>
      simp only [tyGet_set]
      by_cases h : v = k p
      · simp [h, ht]
      · have : (v == k p) = false := by simpa using h
        simp [h, this]

theorem sf_split (v : Node) : ∀ (es : List Eqn),
    isStateOrFree es v = (es.any (isK Prod.snd v) || es.any (isK Prod.fst v))
  | [] => by simp [isStateOrFree]
  | e :: es => by
    have ih := sf_split v es
    simp only [isStateOrFree, List.any_cons] at ih ⊢
    rw [ih]
    unfold isK
    cases e.ode with
    | none => simp
    | some p =>
      obtain ⟨s, f⟩ := p
      simp only []
      ac_rfl

/-- after the three loops a variable is typed STATE or FREE iff it is the state or the free variable of some ODE —
    whether or not it is a left-hand side, too, and wherever the ODE stands -/
theorem tw_isSF (rq : Eqn → Bool) (v : Node) (es : List Eqn) (ty : TyMap) (h0 : isSF (tyGet ty v) = false) :
    isSF (tyGet (tw rq ty es) v) = isStateOrFree es v := by
  unfold tw
  rw [twK_isSF _ _ (by decide) v, twK_isSF _ _ (by decide) v, twL_notSF rq v es ty h0, sf_split]
  simp

theorem twL_isSome (rq : Eqn → Bool) (v : Node) : ∀ (es : List Eqn) (ty : TyMap),
    ((∃ e ∈ es, e.ode = none ∧ e.lhs = v) ∨ (tyGet ty v).isSome = true) →
    (tyGet (es.foldl (twL rq) ty) v).isSome = true
  | [], ty, h => by simpa using h
  | e :: es, ty, h => by
    simp only [List.foldl_cons]
    apply twL_isSome rq v es
    simp only [List.mem_cons, exists_eq_or_imp] at h
    rcases h with (⟨ho, hl⟩ | h) | h
    · right; simp only [twL, ho]; split_ifs <;> simp [tyGet_set, hl]
    · exact Or.inl h
    · right
      unfold twL
      cases e.ode with
      | some p => exact h
      | none => simp only []; split_ifs <;> (rw [tyGet_set]; split_ifs <;> simp [h])

theorem twK_isSome (k : Node × Node → Node) (t : VT) (v : Node) : ∀ (es : List Eqn) (ty : TyMap),
    (es.any (isK k v) = true ∨ (tyGet ty v).isSome = true) → (tyGet (es.foldl (twK k t) ty) v).isSome = true
  | [], ty, h => by simpa using h
  | e :: es, ty, h => by
    simp only [List.foldl_cons]
    apply twK_isSome k t v es
    simp only [List.any_cons, Bool.or_eq_true] at h
    rcases h with (h | h) | h
    · right
      unfold isK at h
      unfold twK
      cases ho : e.ode with
      | none => rw [ho] at h; cases h
      | some p =>
        rw [ho] at h
        simp only [beq_iff_eq] at h
        simp [tyGet_set, h]
    · exact Or.inl h
    · right
      unfold twK
      cases e.ode with
      | none => exact h
      | some p => simp only []; rw [tyGet_set]; split_ifs <;> simp [h]

theorem tw_isSome (rq : Eqn → Bool) (v : Node) (es : List Eqn) (ty : TyMap)
    (h : (∃ e ∈ es, e.ode = none ∧ e.lhs = v) ∨ isStateOrFree es v = true ∨ (tyGet ty v).isSome = true) :
    (tyGet (tw rq ty es) v).isSome = true := by
  unfold tw
  rcases h with h | h | h
  · exact twK_isSome _ _ v es _ (.inr (twK_isSome _ _ v es _ (.inr (twL_isSome rq v es ty (.inl h)))))
  · rw [sf_split, Bool.or_eq_true] at h
    rcases h with h | h
    · exact twK_isSome _ _ v es _ (.inl h)
    · exact twK_isSome _ _ v es _ (.inr (twK_isSome _ _ v es _ (.inl h)))
  · exact twK_isSome _ _ v es _ (.inr (twK_isSome _ _ v es _ (.inr (twL_isSome rq v es ty (.inr h)))))

/-! ## the second loop -/

/-- `for rhs in <list>` (the list being `sorted(find_variables_and_derivatives([equation.rhs]), key=str)`) =
    `C09.addRefs` -/
theorem refsLoop (sf : Node → Bool) (T : TyMap) (lhs : Node) (f : Node → Graph → Except PyErr (ForInStep Graph))
    (hf : ∀ r G, f r G =
      if r ∈ G.nodes then .ok (.yield (nxAddEdge G r lhs))
      else if isSF (tyGet T r) then .ok (.yield (nxAddEdge (nxAddNode G r) r lhs))
      else .error ⟨"AssertionError"⟩) :
    ∀ (rs : List Node) (G : Graph), (∀ r ∈ rs, r ∉ G.nodes → isSF (tyGet T r) = sf r) →
      forIn rs G f = errClass (errName true) (addRefs sf lhs rs G)
  | [], G, _ => by simp [pure, Except.pure, addRefs, errClass]
  | r :: rs, G, h => by
    rw [List.forIn_cons, hf]
    simp only [addRefs]
    by_cases hr : r ∈ G.nodes
    · simp only [hr, if_true, bind, Except.bind]
      exact refsLoop sf T lhs f hf rs _ (fun r' hr' => h r' (List.mem_cons_of_mem _ hr'))
    · rw [h r (by simp) hr]
      simp only [hr, if_false]
      by_cases hs : sf r = true
      · simp only [hs, if_true, bind, Except.bind]
        have : nxAddEdge (nxAddNode G r) r lhs = ⟨G.nodes ++ [r], G.edges ++ [(r, lhs)]⟩ := by
          simp [nxAddEdge, nxAddNode, Py.addNew, hr]
        rw [this]
        apply refsLoop sf T lhs f hf rs
        intro r' hr' hn
        exact h r' (List.mem_cons_of_mem _ hr') (fun hh => hn (List.mem_append_left _ hh))
      · simp [hs, bind, Except.bind, errClass, errName]

/-- `for equation in self.equations` (second loop) = `C09.addEqs` -/
theorem eqsLoop (key : Node → String) (sf : Node → Bool) (base : List Node) (all : List Eqn)
    (f : Eqn → Graph → Except PyErr (ForInStep Graph))
    (hf : ∀ e G, e ∈ all → (∀ x ∈ base, x ∈ G.nodes) → f e G =
      match errClass (errName true) (addRefs sf e.lhs (sortStr key e.refs) G) with
      | .error x => .error x
      | .ok v => .ok (.yield (addOde e.ode v))) :
    ∀ (es : List Eqn) (G : Graph), (∀ e ∈ es, e ∈ all) → (∀ x ∈ base, x ∈ G.nodes) →
      forIn es G f = errClass (errName true) (addEqs key sf es G)
  | [], G, _, _ => by simp [pure, Except.pure, addEqs, errClass]
  | e :: es, G, hall, hb => by
    rw [List.forIn_cons, hf e G (hall e (by simp)) hb]
    simp only [addEqs]
    cases h1 : addRefs sf e.lhs (sortStr key e.refs) G with
    | error x => simp [errClass, bind, Except.bind]
    | ok g1 =>
      simp only [errClass, bind, Except.bind]
      apply eqsLoop key sf base all f hf es _ (fun e' he' => hall e' (List.mem_cons_of_mem _ he'))
      intro x hx
      exact mem_addOde_nodes.mpr (Or.inl (((addRefs_spec sf e.lhs (sortStr key e.refs) G g1 h1).nodes x).mpr
        (Or.inl (hb x hx))))

/-- the last loop raises nothing when every non-derivative node has a type -/
theorem typeLoop (isDer : Node → Bool) (T : TyMap) (f : Node → PUnit → Except PyErr (ForInStep PUnit))
    (hf : ∀ v s, f v s = if (!isDer v) = true then
        (if (!(tyGet T v).isSome) = true then .error ⟨"AssertionError"⟩ else .ok (.yield PUnit.unit))
      else .ok (.yield PUnit.unit)) :
    ∀ (ns : List Node), (∀ v ∈ ns, isDer v = true ∨ (tyGet T v).isSome = true) → forIn ns PUnit.unit f = .ok PUnit.unit
  | [], _ => by simp [pure, Except.pure]
  | v :: vs, h => by
    rw [List.forIn_cons, hf]
    have := h v (by simp)
    have ih := typeLoop isDer T f hf vs (fun w hw => h w (List.mem_cons_of_mem _ hw))
    rcases this with h1 | h1 <;> simp [h1, bind, Except.bind, ih]

/-! ## assembling -/

theorem reset_eqs (atoms : Eqn → List Node) (v : Node) : ∀ (es : List Eqn) (s : TyMap),
    ((∃ e ∈ es, v ∈ atoms e) ∨ tyGet s v = none) →
    tyGet (es.foldl (fun s e => (atoms e).foldl (fun s w => tySet s w none) s) s) v = none
  | [], s, h => by simpa using h
  | e :: es, s, h => by
    simp only [List.foldl_cons]
    apply reset_eqs atoms v es
    simp only [List.mem_cons, exists_eq_or_imp] at h
    rcases h with (h | h) | h
    · exact Or.inr (reset_none v _ _ (Or.inl h))
    · exact Or.inl h
    · exact Or.inr (reset_none v _ _ (Or.inr h))

/-- the first type-writing loop, one equation, as the generated code does it (through the view) -/
def twLV (V : BuildView) (ty : TyMap) (e : Eqn) : TyMap :=
  if V.isDerivative e.lhs = true then ty
  else if V.rhsIsQuantity e = true then tySet ty e.lhs (some VT.parameter)
  else tySet ty e.lhs (some VT.computed)

/-- the second: STATE -/
def twSV (V : BuildView) (ty : TyMap) (e : Eqn) : TyMap :=
  if V.isDerivative e.lhs = true then tySet ty (V.stateOf e.lhs) (some VT.state) else ty

/-- the third: FREE -/
def twFV (V : BuildView) (ty : TyMap) (e : Eqn) : TyMap :=
  if V.isDerivative e.lhs = true then tySet ty (V.freeOf e.lhs) (some VT.free) else ty

theorem fold1 (f : TyMap → Eqn → TyMap) : ∀ (es : List Eqn) (t : TyMap) (g : Graph) (n : Nat),
    es.foldl (fun (s : TyMap × Graph × Nat) e => (f s.1 e, nxAddNode s.2.1 e.lhs, s.2.2 + 1)) (t, g, n)
      = (es.foldl f t, ⟨(es.map (·.lhs)).foldl Py.addNew g.nodes, g.edges⟩, n + es.length)
  | [], t, g, n => by simp
  | e :: es, t, g, n => by
    simp only [List.foldl_cons, List.map_cons, List.length_cons]
    rw [fold1 f es]
    simp only [nxAddNode]
    congr 2
    omega

theorem odeOfNode_of_mem {eqs : List Eqn} (hnd : (eqs.map (·.lhs)).Nodup) {e : Eqn} (he : e ∈ eqs) :
    odeOfNode eqs e.lhs = e.ode := by
  simp [odeOfNode, eqnOf_of_mem hnd he]

theorem twLV_eq (key : Node → String) (eqs : List Eqn) (vars : List Node) (rq : Eqn → Bool)
    (hnd : (eqs.map (·.lhs)).Nodup) (ty : TyMap) (e : Eqn) (he : e ∈ eqs) :
    twLV (buildView key eqs vars rq) ty e = twL rq ty e := by
  simp only [twLV, twL, buildView, odeOfNode_of_mem hnd he]
  cases ho : e.ode with
  | none => by_cases h : rq e = true <;> simp [h]
  | some p => simp

theorem twSV_eq (key : Node → String) (eqs : List Eqn) (vars : List Node) (rq : Eqn → Bool)
    (hnd : (eqs.map (·.lhs)).Nodup) (ty : TyMap) (e : Eqn) (he : e ∈ eqs) :
    twSV (buildView key eqs vars rq) ty e = twK Prod.fst VT.state ty e := by
  simp only [twSV, twK, buildView, odeOfNode_of_mem hnd he]
  cases ho : e.ode with
  | none => simp
  | some p => simp

theorem twFV_eq (key : Node → String) (eqs : List Eqn) (vars : List Node) (rq : Eqn → Bool)
    (hnd : (eqs.map (·.lhs)).Nodup) (ty : TyMap) (e : Eqn) (he : e ∈ eqs) :
    twFV (buildView key eqs vars rq) ty e = twK Prod.snd VT.free ty e := by
  simp only [twFV, twK, buildView, odeOfNode_of_mem hnd he]
  cases ho : e.ode with
  | none => simp
  | some p => simp

/-- `Variable.type` of every variable after the two reset loops at the head of `Model.graph` -/
def resetTy (V : BuildView) (ty0 : TyMap) : TyMap :=
  V.equations.foldl (fun s e => (V.atoms e).foldl (fun s v => tySet s v none) s)
    (V.variables.foldl (fun s v => tySet s v none) ty0)

/-- **Tie of the `Model.graph` property** (no cached graph), graph AND roles. For every equation system, every list
    of model variables, every assignment of `isinstance(rhs, Quantity)` and EVERY initial state `ty0` of the
    `Variable.type` attributes (whatever an earlier build left behind), the definition generated from model.py returns
    the graph `C09.buildGraph` returns and caches it, and leaves the `Variable.type` attributes that the three
    type-writing loops `tw` give (left-hand sides, then STATE, then FREE) — or raises `AssertionError` where the model
    reports `assertion` / `badRef`. -/
theorem graph_tie_types (key : Node → String) (eqs : List Eqn) (vars : List Node) (rq : Eqn → Bool) (ty0 : TyMap) :
    GraphBuild.graph (buildView key eqs vars rq) none ty0
      = errClass (errName true) ((buildGraph key eqs).map
          (fun g => (g, some g, tw rq (resetTy (buildView key eqs vars rq) ty0) eqs))) := by
  unfold resetTy
  unfold GraphBuild.graph
  simp only [bind, Except.bind, pure, Except.pure, Py.truthy_bool, throw, throwThe, MonadExceptOf.throw]
  generalize hV : buildView key eqs vars rq = V
  have hVeq : V.equations = eqs := by rw [← hV]; rfl
  have hVkey : V.key = key := by rw [← hV]; rfl
  have hVrefs : V.refsOf = fun e => e.refs := by rw [← hV]; rfl
  rw [forIn_pure _ (fun s v => tySet s v none) (fun _ _ => by rfl)]
  simp only []
  rw [forIn_pure _ (fun s e => (V.atoms e).foldl (fun s v => tySet s v none) s) (fun e s => by
    rw [forIn_pure _ (fun s v => tySet s v none) (fun _ _ => by rfl)])]
  simp only []
  rw [forIn_pure _ (fun (s : TyMap × Graph × Nat) e => (twLV V s.1 e, nxAddNode s.2.1 e.lhs, s.2.2 + 1))
    (fun e s => by simp only [twLV]; split_ifs <;> rfl)]
  simp only [hVeq, fold1]
  rw [forIn_pure _ (twSV V) (fun e s => by simp only [twSV]; split_ifs <;> rfl)]
  simp only []
  rw [forIn_pure _ (twFV V) (fun e s => by simp only [twFV]; split_ifs <;> rfl)]
  simp only []
  generalize hty1 : List.foldl (fun s e => List.foldl (fun s v => tySet s v none) s (V.atoms e)) _ eqs = ty1
  simp only [Option.isSome_none, Bool.false_eq_true, if_false, Nat.zero_add, hVkey, hVrefs]
  have hlen : eqs.length = (eqs.map (·.lhs)).length := by simp
  have hlen2 : eqs.length = ((eqs.map (·.lhs)).map key).length := by simp
  by_cases hnd : (eqs.map (·.lhs)).Nodup
  · have e1 : ((List.foldl Py.addNew [] (List.map (fun x => x.lhs) eqs)).length == eqs.length) = true := by
      rw [hlen, foldl_addNew_len_eq]; simpa using hnd
    have e1' : ((List.map (fun x => x.lhs) eqs).length == eqs.length) = true := by simp
    simp only [e1', Bool.not_true, Bool.false_eq_true, if_false, foldl_addNew_nodup _ hnd, Py.distinctCount]
    by_cases hkn : ((eqs.map (·.lhs)).map key).Nodup
    · have e2 : ((List.foldl Py.addNew [] (List.map (fun x => key x) (List.map (fun x => x.lhs) eqs))).length
          == eqs.length) = true := by
        rw [hlen2, foldl_addNew_len_eq]; simpa using hkn
      simp only [e2, Bool.not_true, Bool.false_eq_true, if_false]
      have hT : List.foldl (twFV V) (List.foldl (twSV V) (List.foldl (twLV V) ty1 eqs) eqs) eqs = tw rq ty1 eqs := by
        unfold tw
        rw [foldl_congr_mem (twLV V) (twL rq) eqs ty1 (fun s e he => by rw [← hV]; exact twLV_eq key eqs vars rq hnd s e he),
          foldl_congr_mem (twSV V) (twK Prod.fst VT.state) eqs _ (fun s e he => by rw [← hV]; exact twSV_eq key eqs vars rq hnd s e he),
          foldl_congr_mem (twFV V) (twK Prod.snd VT.free) eqs _ (fun s e he => by rw [← hV]; exact twFV_eq key eqs vars rq hnd s e he)]
      rw [hT]
      generalize hTT : tw rq ty1 eqs = T
      have hreset : ∀ e ∈ eqs, ∀ r ∈ e.refs, tyGet ty1 r = none := by
        intro e he r hr
        rw [← hty1]
        apply reset_eqs
        left
        refine ⟨e, he, ?_⟩
        rw [← hV]
        simp [buildView, hr]
      rw [eqsLoop key (isStateOrFree eqs) (eqs.map (·.lhs)) eqs _ (fun e G he hb => by
        rw [Py.sortedByStr_eq, refsLoop (isStateOrFree eqs) T e.lhs _ (fun r G' => by
          simp only [isSF, Py.isIn, List.contains_eq_mem]
          by_cases h1 : r ∈ G'.nodes <;> simp [h1]) (sortStr key e.refs) G (fun r hr hn => by
            rw [← hTT, tw_isSF rq r eqs ty1 (by simp [hreset e he r (mem_sortStr.mp hr), isSF, Py.isIn])])]
        cases addRefs (isStateOrFree eqs) e.lhs (sortStr key e.refs) G with
        | error x => rfl
        | ok v =>
          simp only [errClass]
          rw [← hV]
          simp only [buildView, odeOfNode_of_mem hnd he, Py.isIn]
          cases ho : e.ode with
          | none => simp [addOde]
          | some p =>
            obtain ⟨s, f⟩ := p
            simp only [addOde, addNode, nxAddNode, Py.addNew, Option.isSome_some, if_true, Option.getD_some,
              List.contains_eq_mem]
            by_cases h1 : f ∈ v.nodes <;> by_cases h2 : s ∈ v.nodes <;> simp [h1, h2]
            ) eqs _ (fun _ h => h) (fun _ h => h)]
      have hbg : buildGraph key eqs
          = addEqs key (isStateOrFree eqs) eqs { nodes := List.map (fun x => x.lhs) eqs, edges := [] } := by
        simp only [buildGraph, hnd, hkn, not_true_eq_false, if_false]
      rw [hbg]
      cases hg : addEqs key (isStateOrFree eqs) eqs { nodes := List.map (fun x => x.lhs) eqs, edges := [] } with
      | error x => rfl
      | ok g =>
        simp only [errClass]
        obtain ⟨_, hs⟩ := buildGraph_valid (hbg.trans hg)
        rw [typeLoop V.isDerivative T _ (fun v s => by rfl) g.nodes (fun v hv => by
          rcases (hs.nodes v).mp hv with h | h
          · obtain ⟨e, he, hl⟩ := List.mem_map.mp (hasEq_iff.mp h)
            cases ho : e.ode with
            | none =>
              right; rw [← hTT]
              exact tw_isSome rq v eqs ty1 (Or.inl ⟨e, he, ho, hl⟩)
            | some p =>
              left; rw [← hV, ← hl]
              simp [buildView, odeOfNode_of_mem hnd he, ho]
          · right; rw [← hTT]
            exact tw_isSome rq v eqs ty1 (Or.inr (Or.inl h)))]
        rfl
    · have e2 : ((List.foldl Py.addNew [] (List.map (fun x => key x) (List.map (fun x => x.lhs) eqs))).length
          == eqs.length) = false := by
        rw [hlen2, foldl_addNew_len_eq]; simpa using hkn
      simp only [e2, Bool.not_false, if_true, buildGraph, hnd, hkn, not_true_eq_false, not_false_eq_true, if_false]
      rfl
  · have e1 : ((List.foldl Py.addNew [] (List.map (fun x => x.lhs) eqs)).length == eqs.length) = false := by
      rw [hlen, foldl_addNew_len_eq]; simpa using hnd
    simp only [e1, Bool.not_false, if_true, buildGraph, hnd, not_false_eq_true]
    rfl

/-- **Tie of the `Model.graph` property** (no cached graph): the graph and the cache. -/
theorem graph_tie (key : Node → String) (eqs : List Eqn) (vars : List Node) (rq : Eqn → Bool) (ty0 : TyMap) :
    (GraphBuild.graph (buildView key eqs vars rq) none ty0).map (fun r => (r.1, r.2.1))
      = errClass (errName true) ((buildGraph key eqs).map (fun g => (g, some g))) := by
  rw [graph_tie_types]
  cases buildGraph key eqs <;> rfl

/-! ## the roles left behind are a function of the SET of equations (on the generated code) -/

theorem twK_get (k : Node × Node → Node) (t : VT) (v : Node) : ∀ (es : List Eqn) (ty : TyMap),
    tyGet (es.foldl (twK k t) ty) v = if es.any (isK k v) = true then some t else tyGet ty v
  | [], ty => by simp
  | e :: es, ty => by
    simp only [List.foldl_cons, List.any_cons]
    rw [twK_get k t v es]
    cases ho : e.ode with
    | none => simp [twK, isK, ho]
    | some p =>
      by_cases h : v = k p
      · simp [twK, isK, ho, h, tyGet_set]
      · have : (v == k p) = false := by simpa using h
        simp [twK, isK, ho, h, this, tyGet_set]

theorem twL_miss (rq : Eqn → Bool) (v : Node) : ∀ (es : List Eqn) (ty : TyMap),
    (∀ e ∈ es, e.ode = none → e.lhs ≠ v) → tyGet (es.foldl (twL rq) ty) v = tyGet ty v
  | [], _, _ => rfl
  | e :: es, ty, h => by
    simp only [List.foldl_cons]
    rw [twL_miss rq v es _ (fun e' he' => h e' (List.mem_cons_of_mem _ he'))]
    unfold twL
    cases ho : e.ode with
    | some p => rfl
    | none =>
      have hne : ¬ v = e.lhs := fun hh => h e List.mem_cons_self ho hh.symm
      simp only []
      split_ifs <;> simp [tyGet_set, hne]

theorem twL_hit (rq : Eqn → Bool) (v : Node) : ∀ (es : List Eqn) (ty : TyMap), (es.map (·.lhs)).Nodup →
    ∀ e ∈ es, e.ode = none → e.lhs = v →
      tyGet (es.foldl (twL rq) ty) v = some (if rq e then VT.parameter else VT.computed)
  | [], _, _, _, he, _, _ => by cases he
  | e :: es, ty, hnd, e', he', ho, hl => by
    simp only [List.foldl_cons]
    rw [List.map_cons, List.nodup_cons] at hnd
    rcases List.mem_cons.mp he' with rfl | he'
    · rw [twL_miss rq v es _ (fun e'' he'' _ hl'' => hnd.1 (List.mem_map.mpr ⟨e'', he'', hl''.trans hl.symm⟩))]
      simp only [twL, ho]
      split_ifs <;> simp [tyGet_set, hl]
    · exact twL_hit rq v es _ hnd.2 e' he' ho hl

/-- the three type-writing loops give every variable the same role for every order of the equations -/
theorem tw_perm (rq : Eqn → Bool) {es es' : List Eqn} (hp : es'.Perm es) (hnd : (es.map (·.lhs)).Nodup)
    (ty ty' : TyMap) (v : Node) (hty : tyGet ty' v = tyGet ty v) :
    tyGet (tw rq ty' es') v = tyGet (tw rq ty es) v := by
  unfold tw
  rw [twK_get, twK_get, twK_get, twK_get, hp.any_eq, hp.any_eq]
  have hnd' : (es'.map (·.lhs)).Nodup := (hp.map _).nodup_iff.mpr hnd
  have : tyGet (es'.foldl (twL rq) ty') v = tyGet (es.foldl (twL rq) ty) v := by
    by_cases h : ∃ e ∈ es, e.ode = none ∧ e.lhs = v
    · obtain ⟨e, he, ho, hl⟩ := h
      rw [twL_hit rq v es ty hnd e he ho hl, twL_hit rq v es' ty' hnd' e (hp.mem_iff.mpr he) ho hl]
    · rw [twL_miss rq v es ty (fun e he ho hl => h ⟨e, he, ho, hl⟩),
        twL_miss rq v es' ty' (fun e he ho hl => h ⟨e, hp.mem_iff.mp he, ho, hl⟩), hty]
  rw [this]

theorem reset_keep (v : Node) : ∀ (l : List Node) (s : TyMap), v ∉ l →
    tyGet (l.foldl (fun s w => tySet s w none) s) v = tyGet s v
  | [], _, _ => rfl
  | w :: ws, s, h => by
    simp only [List.foldl_cons]
    have hne : ¬ v = w := fun hh => h (hh ▸ List.mem_cons_self)
    rw [reset_keep v ws _ (fun hh => h (List.mem_cons_of_mem _ hh)), tyGet_set]
    simp [hne]

theorem reset_eqs_keep (atoms : Eqn → List Node) (v : Node) : ∀ (es : List Eqn) (s : TyMap),
    (∀ e ∈ es, v ∉ atoms e) →
    tyGet (es.foldl (fun s e => (atoms e).foldl (fun s w => tySet s w none) s) s) v = tyGet s v
  | [], _, _ => rfl
  | e :: es, s, h => by
    simp only [List.foldl_cons]
    rw [reset_eqs_keep atoms v es _ (fun e' he' => h e' (List.mem_cons_of_mem _ he')),
      reset_keep v _ _ (h e List.mem_cons_self)]

/-- the reset loops do not look at the order of the equations either -/
theorem resetTy_perm (key : Node → String) {eqs eqs' : List Eqn} (hp : eqs'.Perm eqs) (vars : List Node)
    (rq : Eqn → Bool) (ty0 : TyMap) (v : Node) :
    tyGet (resetTy (buildView key eqs' vars rq) ty0) v = tyGet (resetTy (buildView key eqs vars rq) ty0) v := by
  show tyGet (eqs'.foldl (fun s e => ((buildView key eqs vars rq).atoms e).foldl (fun s v => tySet s v none) s)
      (vars.foldl (fun s v => tySet s v none) ty0)) v
    = tyGet (eqs.foldl (fun s e => ((buildView key eqs vars rq).atoms e).foldl (fun s v => tySet s v none) s)
      (vars.foldl (fun s v => tySet s v none) ty0)) v
  generalize (buildView key eqs vars rq).atoms = atoms
  by_cases h : ∃ e ∈ eqs, v ∈ atoms e
  · obtain ⟨e, he, hv⟩ := h
    rw [reset_eqs atoms v eqs _ (.inl ⟨e, he, hv⟩), reset_eqs atoms v eqs' _ (.inl ⟨e, hp.mem_iff.mpr he, hv⟩)]
  · rw [reset_eqs_keep atoms v eqs _ (fun e he hv => h ⟨e, he, hv⟩),
      reset_eqs_keep atoms v eqs' _ (fun e he hv => h ⟨e, hp.mem_iff.mp he, hv⟩)]

/-- Corollary (the `fix:` "the roles that come from the ODEs win", on the GENERATED code): two runs of the property
    on the same equations in two orders that both build the graph leave every variable with the same
    `Variable.type` — whatever an earlier build had left. -/
theorem graph_types_equation_order (key : Node → String) {eqs eqs' : List Eqn} (hp : eqs'.Perm eqs)
    (vars : List Node) (rq : Eqn → Bool) (ty0 : TyMap) {r r' : Graph × Option Graph × TyMap}
    (h : GraphBuild.graph (buildView key eqs vars rq) none ty0 = .ok r)
    (h' : GraphBuild.graph (buildView key eqs' vars rq) none ty0 = .ok r') (v : Node) :
    tyGet r'.2.2 v = tyGet r.2.2 v := by
  rw [graph_tie_types] at h h'
  cases hg : buildGraph key eqs with
  | error x => rw [hg] at h; cases h
  | ok g =>
    cases hg' : buildGraph key eqs' with
    | error x => rw [hg'] at h'; cases h'
    | ok g' =>
      rw [hg] at h; rw [hg'] at h'
      simp only [Except.map, errClass, Except.ok.injEq] at h h'
      rw [← h, ← h']
      exact tw_perm rq hp (buildGraph_valid hg).1.lhsNodup _ _ v (resetTy_perm key hp vars rq ty0 v)

/-- a cached graph is returned as it is; cache and types stay -/
theorem graph_cached (V : BuildView) (c : Graph) (ty : TyMap) :
    GraphBuild.graph V (some c) ty = .ok (c, some c, ty) := by
  unfold GraphBuild.graph
  simp [pure, Except.pure]

/-- Corollary: what the property returns does not depend on `Variable.type` values left by earlier builds, nor on the
    model's variable list, nor on which right-hand sides are bare quantities. -/
theorem graph_independent (key : Node → String) (eqs : List Eqn) (vars vars' : List Node) (rq rq' : Eqn → Bool)
    (ty0 ty0' : TyMap) :
    (GraphBuild.graph (buildView key eqs vars rq) none ty0).map (fun r => (r.1, r.2.1))
      = (GraphBuild.graph (buildView key eqs vars' rq') none ty0').map (fun r => (r.1, r.2.1)) := by
  rw [graph_tie, graph_tie]

/-- Corollary (the `fix:` "graph nodes in a reproducible order", on the GENERATED code): two runs of the property that
    are handed the reference sets of the equations in different orders — same left-hand sides, same ODE pairs, the
    references sorting to the same list by `str`, which is what two iteration orders of one set with distinct `str`
    keys do (`C09.sortStr_eq_of_perm`) — return the same graph: node list in insertion order, edge list, cache; or
    raise the same class. -/
theorem graph_set_order_irrelevant (key : Node → String) {α : Type} (f f' : α → Eqn) (l : List α)
    (h : ∀ a ∈ l, SameSorted key (f a) (f' a)) (vars vars' : List Node) (rq rq' : Eqn → Bool) (ty0 ty0' : TyMap) :
    (GraphBuild.graph (buildView key (l.map f') vars' rq') none ty0').map (fun r => (r.1, r.2.1))
      = (GraphBuild.graph (buildView key (l.map f) vars rq) none ty0).map (fun r => (r.1, r.2.1)) := by
  rw [graph_tie, graph_tie, buildGraph_congr key f f' l h]

end Cellml.Tie.PGraph
