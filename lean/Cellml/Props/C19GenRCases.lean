import Cellml.Props.C19GenRIdem

/-! # C19, generated `add_conversion_rule` followed by the generated `convert` / `get_conversion_factor` on the concrete
    inputs of `notes/tie5_convrule_probe.py` (the outcomes are the ones cellmlmanip + pint 0.18 print there; a scale is
    a prime-exponent map: `[(2, -15), (5, -14)]` is 5e-15). Checked by the kernel (`decide +kernel`). -/

namespace Cellml.Props.C19GenR.Cases
open Units PMap Cellml.Tie Cellml.Tie.PUnits Cellml.Tie.PConvRule

/-- the units the probe adds: A, uA, pA, V, mV, kV, S, ms -/
def probeReg : Registry :=
  [("ms", .derived (pow10 (-3)) [("second", 1)]), ("S", .derived [] [("second", 1)]),
   ("kV", .derived (pow10 3) [("volt", 1)]), ("mV", .derived (pow10 (-3)) [("volt", 1)]),
   ("V", .derived [] [("volt", 1)]), ("pA", .derived (pow10 (-12)) [("ampere", 1)]),
   ("uA", .derived (pow10 (-6)) [("ampere", 1)]), ("A", .derived [] [("ampere", 1)])] ++ builtinRegistry
def obj0 : StoreObj := storeObj ⟨0, []⟩ probeReg []
def u (n : String) : Container := [(n, 1)]
/-- `lambda ureg, rhs: rhs * Quantity(k, c)` -/
def mulBy (k : Scale) (c : Container) : List RFactor := [⟨false, .num k, c⟩]
def addTo (s : Except PyErr StoreObj) (f t : Container) (b : List RFactor) : Except PyErr StoreObj :=
  s >>= fun s => Cellml.Gen.ConvRule.addConversionRule s ⟨f⟩ ⟨t⟩ b
def conv (s : Except PyErr StoreObj) (a b : Container) : Except PyErr MagObj :=
  s >>= fun s => (Cellml.Gen.Units.convert s (unitQuantity ⟨a⟩) ⟨b⟩).map (·.magnitude)
def cf (s : Except PyErr StoreObj) (a b : Container) : Except PyErr CFObj :=
  s >>= fun s => Cellml.Gen.Units.getConversionFactor s ⟨a⟩ ⟨b⟩
def num (k : Scale) : Except PyErr MagObj := .ok ⟨k, []⟩
def VperA : Container := [("V", 1), ("A", -1)]

/-- 1. rule registered with (uA, mV): serves A → V, pA → kV, uA → mV (5, 5e-15, 5e-3) -/
def s1 := addTo (.ok obj0) (u "uA") (u "mV") (mulBy [(5, 1)] VperA)
example : conv s1 (u "A") (u "V") = num [(5, 1)] := by decide +kernel
example : conv s1 (u "pA") (u "kV") = num [(2, -15), (5, -14)] := by decide +kernel
example : cf s1 (u "uA") (u "mV") = .ok (.mag ⟨[(2, -3), (5, -2)], []⟩) := by decide +kernel
/-- 2. the reverse direction finds nothing -/
example : conv s1 (u "V") (u "A") = .error ⟨"DimensionalityError"⟩ := by decide +kernel
/-- 3. equal dimensionality: the ordinary factors 1e6, 1e-6 -/
example : cf s1 (u "uA") (u "pA") = .ok (.mag ⟨[(2, 6), (5, 6)], []⟩) := by decide +kernel
example : cf s1 (u "mV") (u "kV") = .ok (.mag ⟨[(2, -6), (5, -6)], []⟩) := by decide +kernel
/-- 4. a rule keyed (current, current) is registered and never used -/
def s4 := addTo s1 (u "A") (u "pA") (mulBy [(7, 1)] [])
example : cf s4 (u "uA") (u "pA") = .ok (.mag ⟨[(2, 6), (5, 6)], []⟩) := by decide +kernel
/-- 5. the same rule twice -/
def s5 := addTo s1 (u "uA") (u "mV") (mulBy [(5, 1)] VperA)
example : conv s5 (u "A") (u "V") = num [(5, 1)] := by decide +kernel
/-- 6. a later rule for the same key, given by (pA, kV), shadows: 11 -/
def s6 := addTo s5 (u "pA") (u "kV") (mulBy [(11, 1)] VperA)
example : conv s6 (u "A") (u "V") = num [(11, 1)] := by decide +kernel
/-- 7. re-adding the old rule makes it the newest again: 5 -/
def s7 := addTo s6 (u "uA") (u "mV") (mulBy [(5, 1)] VperA)
example : conv s7 (u "A") (u "V") = num [(5, 1)] := by decide +kernel
/-- 8. a rule for another key does not shadow: 5; ms → V through it: 3e-3 -/
def s8 := addTo s7 (u "S") (u "V") (mulBy [(3, 1)] [("V", 1), ("S", -1)])
example : conv s8 (u "A") (u "V") = num [(5, 1)] := by decide +kernel
example : conv s8 (u "ms") (u "V") = num [(2, -3), (3, 1), (5, -3)] := by decide +kernel
/-- 9. registered with (pA, kV): not rescaled to those units, A → V is still 5 -/
def s9 := addTo (.ok obj0) (u "pA") (u "kV") (mulBy [(5, 1)] VperA)
example : conv s9 (u "A") (u "V") = num [(5, 1)] := by decide +kernel
/-- 10. a rule of the wrong dimension is accepted at registration and refused at conversion -/
def s10 := addTo (.ok obj0) (u "A") (u "V") (mulBy [(5, 1)] (u "S"))
example : (s10.map fun s => s._registry.rules.length) = .ok 1 := by decide +kernel
example : conv s10 (u "A") (u "V") = .error ⟨"DimensionalityError"⟩ := by decide +kernel
/-- 11. a unit of another registry -/
example : (addTo (.ok obj0) (u "store1_x") (u "V") []).map (fun s => s._registry.rules.length) =
    .error ⟨"UndefinedUnitError"⟩ := by decide +kernel
/-- 13. a rule from the empty dimension: dimensionless → mV is 5000 -/
def s13 := addTo (.ok obj0) [] (u "V") (mulBy [(5, 1)] (u "V"))
example : conv s13 [] (u "mV") = num [(2, 3), (5, 4)] := by decide +kernel
/-- 14. a chain whose second rule is registered through (kV, ms): A → S is 10 -/
def s14 := addTo s1 (u "kV") (u "ms") (mulBy [(2, 1)] [("S", 1), ("V", -1)])
example : conv s14 (u "A") (u "S") = num [(2, 1), (5, 1)] := by decide +kernel

end Cellml.Props.C19GenR.Cases
