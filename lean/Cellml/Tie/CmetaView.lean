import Cellml.Tie.PyM
import Cellml.Model.Cmeta

/-! # What the translated cmeta / RDF functions of model.py see of a `Model` object

    The generated code (`Cellml/Generated/Code/CmetaQ.lean`: the functions that only read; `…/Cmeta.lean`: the ones that
    mutate) refers to python attribute paths (`self._cmeta_id_to_variable[k]`, `variable._cmeta_id`, `self.rdf.triples(…)`
    …). The pattern tables of `harness/code_specs/cmetaq.py` / `cmeta.py` bind each of them to one accessor below, which
    reads or writes ONE field of the hand-written state (`Model.AState` = C08's `MState` + the triples). No accessor
    contains a decision of a translated function. Core Lean only.

    A `Variable` object is its identity number (position on `heap`), as in the hand model. -/

namespace Cellml.Tie.PCmeta
open Model

-- ------------------------------------------------------------------------------------------------ outcomes
/-- exception class of a model-side error. `notInModel` and `cmetaFuel` are conventions of the hand model
    (State.lean: a foreign variable is refused without a python counterpart; the id loop on fuel) -/
def mErrCls : Model.Err → String
  | .valueError => "ValueError"
  | .keyError => "KeyError"
  | .graphError _ => "GraphError"
  | .notInModel => "NotInModel"
  | .cmetaFuel => "FuelExhausted"

def lErrCls : LErr → String
  | .keyError => "KeyError"
  | .valueError => "ValueError"

/-- `returned` / `raised e` of the hand model as a python result without value -/
def ofOutcome : Outcome → Except PyErr Unit
  | .ok => .ok ()
  | .raised e => .error ⟨mErrCls e⟩

/-- the result of a model operation on the `MState` part, as a `PyM` result on the annotated state -/
def liftM (a : AState) (r : MState × Outcome) : Except PyErr Unit × AState := (ofOutcome r.2, { a with m := r.1 })

-- ------------------------------------------------------------------------------------------------ python values
/-- what callers pass as `cmeta_id` to `get_variable_by_cmeta_id`: a `str`, an `rdflib.URIRef`, or another
    `rdflib.term.Node` (a Literal or BNode); the payload is `str(x)` -/
inductive IdArg
  | str (s : String)
  | uriRef (s : String)
  | otherNode (s : String)
deriving DecidableEq, Repr

namespace IdArg
def text : IdArg → String
  | .str s => s
  | .uriRef s => s
  | .otherNode s => s

/-- `isinstance(x, rdflib.term.Node)` -/
def isNode : IdArg → Bool
  | .str _ => false
  | _ => true

/-- `isinstance(x, rdflib.URIRef)` -/
def isURIRef : IdArg → Bool
  | .uriRef _ => true
  | _ => false

/-- `str(x)`: a plain `str` -/
def toStr (x : IdArg) : IdArg := .str x.text

/-- `x[i]` on a python string (`URIRef` is a `str`): the one-character string; IndexError outside -/
def charAt (x : IdArg) (i : Nat) : Except PyErr String :=
  match x.text.toList[i]? with
  | some c => .ok (String.singleton c)
  | none => .error ⟨"IndexError"⟩

/-- `x[i:]`: a plain `str` -/
def dropFront (x : IdArg) (i : Nat) : IdArg := .str (String.ofList (x.text.toList.drop i))
end IdArg

/-- an argument of the RDF queries, before / after `create_rdf_node`: `None` (the wildcard), an `rdflib` node, a
    `(namespace_uri, local_name)` pair, a plain string -/
inductive RdfArg
  | none
  | node (n : RNode)
  | pair (ns loc : String)
  | str (s : String)
deriving DecidableEq, Repr

instance : Coe (String × String) RdfArg := ⟨fun p => .pair p.1 p.2⟩

/-- the last character of a string is `c` (`s.endswith(c)`) -/
def endsWithChar (s : String) (c : Char) : Bool := s.toList.getLast? == some c

/-- `cellmlmanip.rdf.create_rdf_node` (rdf.py; not one of the translated functions: a callee, bound as a leaf):
    `None` and nodes are returned as they are, a pair becomes the URI `ns[#]local`, a string a local URI if it starts
    with `#` and a literal otherwise -/
def createRdfNode : RdfArg → RdfArg
  | .none => .none
  | .node n => .node n
  | .pair ns loc =>
    if !(endsWithChar ns '#') && !(endsWithChar ns '/') then .node (.uri (ns ++ "#" ++ loc)) else .node (.uri (ns ++ loc))
  | .str s => if s.toList.head? == some '#' then .node (.uri s) else .node (.lit s)

/-- an rdflib pattern position: `None` matches everything, a node matches itself; anything else is not a node and
    matches nothing -/
def nodeMatches (pat : RdfArg) (n : RNode) : Bool :=
  match pat with
  | .none => true
  | .node x => n == x
  | _ => false

-- ------------------------------------------------------------------------------------------------ reading (self : AState)
/-- `self._cmeta_id_to_variable` where python asks `k in d`: the keys (`None` is never one) -/
def cmetaKeys (self : AState) : List (Option String) := self.m.cmetaMap.map (fun p => some p.1)

/-- `self._cmeta_id_to_variable[k]`; KeyError when absent (only a `str` is ever a key) -/
def cmetaMapGet (self : AState) (k : IdArg) : Except PyErr Nat :=
  match k with
  | .str c => (match self.m.cmetaMap.lookup c with
    | some v => .ok v
    | none => .error ⟨"KeyError"⟩)
  | _ => .error ⟨"KeyError"⟩

/-- `self.rdf.subjects(p, o)`: the subject `URIRef('#id')` of every matching triple, one per triple -/
def rdfSubjects (self : AState) (p o : RdfArg) : List IdArg :=
  (self.rdf.filter (fun t => nodeMatches p (.uri t.pred) && nodeMatches o t.obj)).map (fun t => .uriRef ("#" ++ t.subj))

/-- `l[i]` on a python list; IndexError outside -/
def listGet {α} (l : List α) (i : Nat) : Except PyErr α :=
  match l[i]? with
  | some x => .ok x
  | none => .error ⟨"IndexError"⟩

-- ------------------------------------------------------------------------------------------------ mutating (PyM AState)
abbrev M := PyM AState

/-- a call of a translated function that only reads -/
def callQ {α} (f : AState → Except PyErr α) : M α := PyM.rdE f

/-- `v._cmeta_id` -/
def varCmeta (v : Nat) : M (Option String) := PyM.rd (fun a => cmetaOf a.m v)

/-- `v.rdf_identity`: `URIRef('#' + id)` or `None` (`Variable._set_cmeta_id` keeps it in step with `_cmeta_id`);
    named by the id, as `Triple.subj` is -/
def varRdfIdentity (v : Nat) : M (Option String) := PyM.rd (fun a => cmetaOf a.m v)

/-- `v.name` -/
def varName (v : Nat) : M String := PyM.rd (fun a => nameOfVar a.m v)

/-- `v._set_cmeta_id(c)` -/
def setCmeta (v : Nat) (c : Option String) : M Unit :=
  PyM.upd (fun a => { a with m := { a.m with heap := setVar a.m.heap v (fun x => { x with cmeta := c }) } })

/-- `self._cmeta_id_to_variable[k] = v`. The registry of the hand model has string keys; a `None` key (python would
    store it) is answered `NoneKey`: the tie theorems show it is never reached. -/
def cmetaMapSet (k : Option String) (v : Nat) : M Unit := PyM.updE fun a =>
  match k with
  | some c => (.ok (), { a with m := { a.m with cmetaMap := insertKey c v a.m.cmetaMap } })
  | none => (.error ⟨"NoneKey"⟩, a)

/-- `del self._cmeta_id_to_variable[k]` -/
def cmetaMapDel (k : Option String) : M Unit := PyM.updE fun a =>
  match k with
  | some c =>
    if hasKey c a.m.cmetaMap then (.ok (), { a with m := { a.m with cmetaMap := eraseKey c a.m.cmetaMap } })
    else (.error ⟨"KeyError"⟩, a)
  | none => (.error ⟨"KeyError"⟩, a)

/-- `self._name_to_variable` where python asks `k in d`: the keys -/
def nameKeys : M (List String) := PyM.rd (fun a => a.m.live.map (nameOfVar a.m))

/-- `self._name_to_variable[k] = v`: in place when the key exists, at the end otherwise -/
def nameDictSet (k : String) (v : Nat) : M Unit := PyM.upd fun a =>
  let live' : List Nat :=
    if (a.m.live.any (fun i => nameOfVar a.m i == k)) then
      a.m.live.map (fun i => if nameOfVar a.m i == k then v else i)
    else a.m.live ++ [v]
  { a with m := { a.m with live := live' } }

/-- `del self._name_to_variable[k]` -/
def nameDictDel (k : String) : M Unit := PyM.updE fun a =>
  if (a.m.live.any (fun i => nameOfVar a.m i == k))
  then (.ok (), { a with m := { a.m with live := a.m.live.filter (fun i => !(nameOfVar a.m i == k)) } })
  else (.error ⟨"KeyError"⟩, a)

/-- `self._variables_added` -/
def variablesAdded : M Nat := PyM.rd (fun a => a.m.nextOrder)

/-- `self._variables_added += k` -/
def variablesAddedIncr (k : Nat) : M Unit := PyM.upd (fun a => { a with m := { a.m with nextOrder := a.m.nextOrder + k } })

/-- `Variable(name=…, order_added=…, cmeta_id=…, initial_value=…)`: a new object (units, interfaces, `model` are not
    part of the hand model's state) -/
def newVariable (name : String) (order : Nat) (cmeta : Option String) (init : Option Rat) : M Nat := fun a =>
  (.ok a.m.heap.length, { a with m := { a.m with heap := a.m.heap ++ [⟨name, order, cmeta, init, none⟩] } })

/-- `self._invalidate_cache()` -/
def invalidateCache : M Unit := PyM.upd (fun a => { a with m := invalidate a.m })

/-- the `units` argument of `add_variable`: a unit object or a name (units are not modelled in this state) -/
inductive UnitArg
  | obj
  | name (n : String)
deriving DecidableEq, Repr

/-- `isinstance(units, self.units.Unit)` -/
def UnitArg.isUnit : UnitArg → Bool
  | .obj => true
  | .name _ => false

/-- `self.units.get_unit(name)`: the hand model has no unit store; the lookup is taken to succeed (a KeyError for an
    unknown unit name is outside the tie) -/
def getUnit (_u : UnitArg) : M UnitArg := pure .obj

/-- `self.get_definition(v)` (C08's `getDefinition`) -/
def getDefinitionM (v : Nat) : M (Option Eqn) := PyM.rd (fun a => getDefinition a.m v)

/-- `self.remove_equation(e)` (C08's `removeEquation`: state and outcome); `None` is never passed (`NoneArg`) -/
def removeEquationM (e : Option Eqn) : M Unit := PyM.updE fun a =>
  match e with
  | some e => liftM a (removeEquation a.m e)
  | none => (.error ⟨"NoneArg"⟩, a)

/-- `self.rdf.triples((s, None, None))`, as a list taken before the loop body runs; `None` is rdflib's wildcard -/
def rdfTriplesOf (s : Option String) : M (List Triple) := PyM.rd fun a =>
  match s with
  | some c => a.rdf.filter (fun t => t.subj == c)
  | none => a.rdf

/-- `self.rdf.remove(t)` -/
def rdfRemove (t : Triple) : M Unit := PyM.upd (fun a => { a with rdf := a.rdf.filter (fun x => x != t) })

/-- `self.get_display_name(v)` with the default arguments (`get_display_name` is not one of the translated functions: a
    callee, bound as a leaf to the hand model's `displayNames`, the admissible answers; the last one stands for
    "whatever rdflib yields last"). For a variable without cmeta id there is exactly one admissible answer. -/
def displayName (v : Nat) : M String := PyM.rd (fun a => (displayNames a v none).getLastD "")

end Cellml.Tie.PCmeta
