import Cellml.Props.C01
import Cellml.Props.C17
import Cellml.Tie.ConnDir
import Cellml.Tie.ConnLoopClosed
import Cellml.Tie.LoaderGen
import Cellml.Tie.LoaderUnitsOrder

/-! # C01 — the headline theorems of `Props/C01.lean`, stated about the code GENERATED from parser.py

    Subjects (all written by `harness/translate_code.py` from the source text of /repo on every run):
    * `Gen.ConnDir.determineConnectionDirection`  — `Parser._determine_connection_direction`;
    * `Gen.ConnLoop.addConnectionsBody(_test)`    — body and test of `while connections_to_process:` in
      `Parser._add_connections`, closed to the loop `Tie.GenA.genConnectLoop` / `genConnect` (well-founded recursion on
      the measure of the hand model; `Tie/ConnLoopClosed.lean`);
    * `Gen.LoaderSym.symbolGenerator`             — the closure `symbol_generator` of `Parser._add_maths`;
    * `Gen.LoaderParse.parse`                     — `Parser.parse`, as `Tie.GenA.genParse fd us`: run over the stages
      `genStages fd`, which are GENERATED code down to the leaves — `_add_units` (closed loop `genAddUnits`),
      `_add_components`, `_add_relationships` / `_handle_component_ref` (recursion closed), `_add_connections` (generated
      set-up part handing its start values to the closed loop), the symbol resolution of `_add_maths`,
      `transform_constants` (`Tie/LoaderStagesA…D.lean`, `Tie/LoaderGen.lean`).
    Every theorem is a corollary of the theorem of the same name in `Props/C01.lean` through the ties
    (`connDir_tie`, `genConnect_eq` ⇐ `connLoop_body_tie` / `connectLoop_cons`, `symbolGenerator_fuel` ⇐
    `whileUpTo_resolve`, `genParse_tie`, and — for the units — `LoaderClose.addUnits_buildUnits`). -/

namespace Cellml.Props.C01Gen
open Load PMap Cellml.Tie Cellml.Tie.GenA Cellml.Gen
open Cellml.Props.C01
open Cellml.Tie.PMathsWalk (BadWF)

/-! ## 1. The work list terminates and builds a forest -/

/-- `connect_terminates` for the generated loop: `genConnect` is a total function — Lean accepted the recursion
    `while <generated test>: <generated body>` on the measure `(|deque|, |deque| + 1 − unchanged_loop_count)`, the decrease
    being PROVED of the generated body (`Tie.GenA.body_decreases`) — so it returns a state or an exception. -/
theorem connect_terminates_gen (reg : Registry) (vt : VarTable) (l : List (VRef × VRef)) :
    (∃ st, genConnect reg vt l = .ok st) ∨ (∃ e, genConnect reg vt l = .error e) := by
  rw [genConnect_eq]
  rcases connect_terminates reg vt l with ⟨st, h⟩ | ⟨e, h⟩
  · exact Or.inl ⟨st, by rw [h]; rfl⟩
  · exact Or.inr ⟨⟨e.className⟩, by rw [h]; rfl⟩

/-- … and as a python `while` with an iteration budget: after at most `stepBound n 0 = n(n+1)/2 + n + 2` runs of the
    generated body (`n` = number of connections) the generated test is false — the loop has stopped — and the state
    is the one `genConnect` returns (or the body has raised). -/
theorem connect_terminates_gen_while (reg : Registry) (vt : VarTable) (l : List (VRef × VRef)) :
    ∃ u, genConnectWhile reg vt (C17.stepBound l.length 0) (l, 0, initState vt) =
      (genConnect reg vt l).map (fun st => (([] : List (VRef × VRef)), u, st)) :=
  whileUpTo_genConnectLoop reg vt _ l 0 (initState vt) (Nat.zero_le _) (Nat.le_refl _)

/-- unfolding equations of the generated loop: it is the `while` of the source -/
theorem genConnectLoop_nil (reg : Registry) (vt : VarTable) (unch : Nat) (st : CState) :
    genConnectLoop reg vt [] unch st = .ok st := by
  rw [genConnectLoop, if_neg (by simp [test_nil])]

theorem genConnectLoop_cons (reg : Registry) (vt : VarTable) (c : VRef × VRef) (rest : List (VRef × VRef)) (unch : Nat)
    (st : CState) :
    genConnectLoop reg vt (c :: rest) unch st =
      match ConnLoop.addConnectionsBody (connLoopView reg vt) (c :: rest) unch st with
      | .error e => .error e
      | .ok (dq', unch', st') => genConnectLoop reg vt dq' unch' st' := by
  rw [genConnectLoop, if_pos (test_cons c rest)]
  split <;> rename_i heq <;> simp only [heq]

/-- `connect_forest` for the generated code. Hypothesis: the closed generated loop succeeds with state `st`.
    Conclusion: the ten facts of `Props.C01.connect_forest` about `st.mapping` (`connected_variable_mapping`) and
    `st.asg` (`assigned_to`), where `rootOf st` is now the function the GENERATED `symbol_generator` computes:
    (G1) on a declared identifier the generated closure, its loop bounded by `|mapping|`, returns `rootOf st`;
    (G2) with any larger bound it returns the same — the python `while` has terminated;
    (G3) on an undeclared identifier it raises AssertionError. -/
theorem connect_forest_gen {reg : Registry} {vt : VarTable} {l : List (VRef × VRef)} {st : CState}
    (h : genConnect reg vt l = .ok st) :
    ((∀ c x, (vt.lookup (c, x)).isSome → ∀ k,
        LoaderSym.symbolGenerator ⟨c⟩ (varToSymbol vt) ⟨st.mapping⟩ (st.mapping.length + k) x
          = .ok (some (rootOf st (c, x)))) ∧
     (∀ c x, vt.lookup (c, x) = none → ∀ n,
        LoaderSym.symbolGenerator ⟨c⟩ (varToSymbol vt) ⟨st.mapping⟩ n x = .error ⟨"AssertionError"⟩)) ∧
    (keys st.mapping).Nodup ∧
    (∀ t s, st.mapping.lookup t = some s ↔ (s, t) ∈ l) ∧
    (∀ t s, (s, t) ∈ l → rank st.mapping s < rank st.mapping t) ∧
    (∀ v, rootOf st v = root st.mapping v) ∧
    (∀ v, v ∈ keys st.mapping → Src vt (rootOf st v)) ∧
    (∀ v, rootOf st v = v ↔ v ∉ keys st.mapping) ∧
    (∀ v, Src vt v → rootOf st v = v) ∧
    (∀ v, rootOf st (rootOf st v) = rootOf st v) ∧
    (∀ v, (st.asg v).isSome ↔ (Src vt v ∨ v ∈ keys st.mapping)) ∧
    (∀ v a, st.asg v = some a → rootOf st a = rootOf st v ∧ st.asg a = some a) := by
  have hm := (genConnect_ok_iff reg vt l st).mp h
  have hf := connect_forest hm
  refine ⟨⟨?_, ?_⟩, hf⟩
  · intro c x hx k
    rw [symbolGenerator_fuel]
    have hc : checkIdent vt c x = .ok () := by unfold checkIdent; rw [if_pos hx]
    rw [hc]
    simp only
    obtain ⟨_, _, _, _, _, hfix, _, hidem, _⟩ := hf
    have hnk : rootOf st (c, x) ∉ keys st.mapping := (hfix _).mp (hidem (c, x))
    have hnone : (st.mapping.lookup (resolve st.mapping st.mapping.length (c, x))).isNone := by
      have := lookup_none_of_not_mem_keys hnk
      unfold rootOf at this
      rw [this]; rfl
    rw [resolve_stable st.mapping st.mapping.length (c, x) hnone k]
    rfl
  · intro c x hx n
    rw [symbolGenerator_fuel]
    have hc : checkIdent vt c x = .error (.assertion (c ++ "$" ++ x ++ " not found in symbol dict")) := by
      unfold checkIdent; rw [hx]; rfl
    rw [hc]
    rfl

/-! ## 2. Order independence -/

/-- `direction_swap` for the generated `_determine_connection_direction`: called with (component_1, variable_1) and
    (component_2, variable_2) exchanged it returns the same (source, target) — the same Variable identities — or raises
    an exception of the same class. Same hypotheses as the original, read on the generated function's view: both
    variables exist (`getVar` succeeds), the two components are not each other's `parent`. -/
theorem direction_swap_gen (par : ParentMap) (vt : VarTable) (c : Conn) (i1 i2 : VarInfo)
    (h1 : (loaderView par vt).getVar c.c1 c.v1 = .ok (c.end1, i1))
    (h2 : (loaderView par vt).getVar c.c2 c.v2 = .ok (c.end2, i2))
    (hmut : ¬ ((loaderView par vt).parent c.c2 = some c.c1 ∧ (loaderView par vt).parent c.c1 = some c.c2)) :
    (ConnDir.determineConnectionDirection (loaderView par vt) c.c2 c.v2 c.c1 c.v1).map (fun p => (p.1.1, p.2.1)) =
    (ConnDir.determineConnectionDirection (loaderView par vt) c.c1 c.v1 c.c2 c.v2).map (fun p => (p.1.1, p.2.1)) := by
  have l1 : vt.lookup c.end1 = some i1 := by
    simp only [loaderView, Conn.end1] at h1 ⊢
    cases hl : List.lookup (c.c1, c.v1) vt with
    | none => rw [hl] at h1; cases h1
    | some i => rw [hl] at h1; simp only [Except.ok.injEq, Prod.mk.injEq, true_and] at h1; rw [h1]
  have l2 : vt.lookup c.end2 = some i2 := by
    simp only [loaderView, Conn.end2] at h2 ⊢
    cases hl : List.lookup (c.c2, c.v2) vt with
    | none => rw [hl] at h2; cases h2
    | some i => rw [hl] at h2; simp only [Except.ok.injEq, Prod.mk.injEq, true_and] at h2; rw [h2]
  have := connDir_tie par vt c.swap
  have e : (ConnDir.determineConnectionDirection (loaderView par vt) c.c2 c.v2 c.c1 c.v1) =
      (ConnDir.determineConnectionDirection (loaderView par vt) c.swap.c1 c.swap.v1 c.swap.c2 c.swap.v2) := rfl
  rw [e, this, connDir_tie par vt c, direction_swap par vt c i1 i2 l1 l2 hmut]

/-- `connect_ok_iff_resolvable` for the generated loop -/
theorem connect_ok_iff_resolvable_gen (reg : Registry) (vt : VarTable) (cs : List (VRef × VRef)) :
    (∃ st, genConnect reg vt cs = .ok st) ↔ Resolvable reg vt cs := by
  rw [genConnect_eq, errClass_isOk_iff]
  exact connect_ok_iff_resolvable reg vt cs

/-- `connect_perm_outcome` for the generated loop: whether the closed generated `while` succeeds does not depend on
    the order of the connections in the deque. -/
theorem connect_perm_outcome_gen {reg : Registry} {vt : VarTable} {cs₁ cs₂ : List (VRef × VRef)} (hp : cs₁.Perm cs₂) :
    (∃ st, genConnect reg vt cs₁ = .ok st) ↔ (∃ st, genConnect reg vt cs₂ = .ok st) := by
  rw [genConnect_eq, genConnect_eq, errClass_isOk_iff, errClass_isOk_iff]
  exact connect_perm_outcome hp

/-- `connect_perm_total` for the generated loop (outcome and roots together) -/
theorem connect_perm_total_gen {reg : Registry} {vt : VarTable} {cs₁ cs₂ : List (VRef × VRef)} {st₁ : CState}
    (hp : cs₁.Perm cs₂) (h : genConnect reg vt cs₁ = .ok st₁) :
    ∃ st₂, genConnect reg vt cs₂ = .ok st₂ ∧ ∀ v, rootOf st₁ v = rootOf st₂ v := by
  obtain ⟨st₂, h₂, hr⟩ := connect_perm_total hp ((genConnect_ok_iff _ _ _ _).mp h)
  exact ⟨st₂, (genConnect_ok_iff _ _ _ _).mpr h₂, hr⟩

/-- the exception CLASS of a failure may differ between two orders — also for the generated loop (the witness of
    `Props/C01.lean`, read through `genConnect_eq`): ValueError in both orders here, AssertionError for an unfed relay -/
example : genConnect relayUnits.1 relayVt twoSources = .error ⟨"ValueError"⟩ ∧
    genConnect relayUnits.1 relayVt [(("channel", "V"), ("gate", "v"))] = .error ⟨"AssertionError"⟩ := by
  have h1 : connect relayUnits.1 relayVt twoSources = .error (.valueError "Target already assigned") :=
    connect_of_fuel 10 (by decide +kernel)
  have h2 : connect relayUnits.1 relayVt [(("channel", "V"), ("gate", "v"))] =
      .error (.assertion "Unable to add connections to the model") := connect_of_fuel 10 (by decide +kernel)
  rw [genConnect_eq, genConnect_eq, h1, h2]
  exact ⟨rfl, rfl⟩

/-! ## 3. Soundness of loading, about the generated `Parser.parse`

    `genParse_tie` ties the generated `parse` to `C17.loadFull` (the document as written: unit definitions `fd.udefs` in
    file order through the work list of `_add_units`), while `load_sound` / `load_complete` speak about `Load.load`
    (unit definitions `doc.units` already sorted). The two are now RELATED BY THEOREM
    (`Tie/LoaderUnitsOrder.lean`, `addUnits_buildUnits`): when the work list succeeds, `Load.load` on the same
    `<units>` elements in the order the work list added them (a permutation of `fd.udefs`, base units first) returns
    the same registry and unit store, hence IS the loader `loadFull` runs. The former hypothesis `UnitsAgree fd` — that
    the independent field `fd.doc.units` happens to agree with `fd.udefs` — is gone: the theorems below do not look at
    `fd.doc.units` at all; the `Loaded` they speak about is the one built on the units of the work list
    (`C17.prepareFrom reg ust`, the function `Load.prepare` is after its unit stage: `C17.prepare_eq`). -/

open Cellml.Tie.LoaderClose (SortedFrom withUnits load_agrees)

/-- the hypothesis `InitOnSources` of `load_sound` / `load_complete` is IMPLIED by the generated `parse` succeeding
    (`self._validate`, bound to `C17.schemaVars`): it is not carried by the `…_gen` theorems -/
theorem initOnSources_of_schemaVars {doc : Doc} (h : C17.schemaVars doc = true) : InitOnSources doc := by
  intro c hc d hd hi
  unfold C17.schemaVars at h
  have h1 := List.all_eq_true.mp h c hc
  have h2 := List.all_eq_true.mp h1 d hd
  unfold C17.schemaVar at h2
  cases hp : d.pub <;> cases hq : d.priv <;> simp_all

/-- the document semantics does not mention the unit declarations of the `Doc` (only the registry / store in `L`) -/
theorem docSat_withUnits {doc : Doc} {us : List UnitDecl} {L : Loaded} {den : Scale → Rat} {σ : VRef → Rat}
    {δ : VRef → VRef → Rat} : DocSat (withUnits doc us) L den σ δ ↔ DocSat doc L den σ δ :=
  ⟨fun h => ⟨h.eqs, h.conns, h.dconn₁, h.dconn₂, h.inits⟩, fun h => ⟨h.eqs, h.conns, h.dconn₁, h.dconn₂, h.inits⟩⟩

/-- a successful run of the generated `parse` is a successful `Load.load` of the same document, its `<units>`
    elements taken in the order the work list added them — no hypothesis relating `fd.udefs` and `fd.doc.units` -/
theorem load_of_parse_gen {fd : C17.FaultDoc} (hb : BadWF fd = true) {us : Option Unit} {F : Flat}
    (hgen : (genParse fd us).map (·.flat) = .ok (some F)) :
    ∃ reg ust srt, Units.addUnits 0 fd.udefs = .ok (reg, ust) ∧ SortedFrom fd.udefs srt ∧
      load (withUnits fd.doc srt) = .ok F ∧
      prepare (withUnits fd.doc srt) = C17.prepareFrom reg ust fd.doc ∧ InitOnSources fd.doc := by
  have hfull := (parse_ok_iff fd hb us F).mp hgen
  obtain ⟨hs, _, _, _⟩ := loadFull_ok_parts hfull
  obtain ⟨reg, ust, hu, hF⟩ := loadFull_ok_loadFrom hfull
  obtain ⟨srt, hsrt, hl, hp⟩ := load_agrees fd.doc hu
  exact ⟨reg, ust, srt, hu, hsrt, hl.trans hF, hp, initOnSources_of_schemaVars hs⟩

/-- `load_sound` for the generated `parse`: if it returns the flat model `F`, every physical solution of `F`, read
    through `rootOf`, is a physical solution of the document. (`L` is what the loader computed on the units of the
    work list; the statement is `load_sound`'s, with `Load.prepare` replaced by the same function after its unit
    stage.) -/
theorem load_sound_gen {fd : C17.FaultDoc} (hb : BadWF fd = true) {us : Option Unit} {F : Flat} {den : Scale → Rat}
    (hgen : (genParse fd us).map (·.flat) = .ok (some F))
    (τ : VRef → Rat) (δ : VRef → VRef → Rat) (hsat : FlatSat den F τ δ) :
    ∃ reg ust L, Units.addUnits 0 fd.udefs = .ok (reg, ust) ∧ C17.prepareFrom reg ust fd.doc = .ok L ∧
      DocSat fd.doc L den (fun v => τ (rootOf L.st v)) (fun x t => δ (rootOf L.st x) (rootOf L.st t)) := by
  obtain ⟨reg, ust, srt, hu, _, hload, hprep, hvalid⟩ := load_of_parse_gen hb hgen
  obtain ⟨L, hL, hsatD⟩ := load_sound (doc := withUnits fd.doc srt) hload hvalid τ δ hsat
  exact ⟨reg, ust, L, hu, hprep ▸ hL, docSat_withUnits.mp hsatD⟩

/-- … and in the words of `Load.load` itself: the same conclusion for `Load.prepare` on the document whose units are
    in the work list's order -/
theorem load_sound_gen_sorted {fd : C17.FaultDoc} (hb : BadWF fd = true) {us : Option Unit} {F : Flat} {den : Scale → Rat}
    (hgen : (genParse fd us).map (·.flat) = .ok (some F))
    (τ : VRef → Rat) (δ : VRef → VRef → Rat) (hsat : FlatSat den F τ δ) :
    ∃ srt L, SortedFrom fd.udefs srt ∧ load (withUnits fd.doc srt) = .ok F ∧ prepare (withUnits fd.doc srt) = .ok L ∧
      DocSat fd.doc L den (fun v => τ (rootOf L.st v)) (fun x t => δ (rootOf L.st x) (rootOf L.st t)) := by
  obtain ⟨reg, ust, srt, hu, hsrt, hload, hprep, hvalid⟩ := load_of_parse_gen hb hgen
  obtain ⟨L, hL, hsatD⟩ := load_sound (doc := withUnits fd.doc srt) hload hvalid τ δ hsat
  exact ⟨srt, L, hsrt, hload, hL, docSat_withUnits.mp hsatD⟩

/-- `load_complete` for the generated `parse`: every physical solution of the document solves the flat model it
    returns. -/
theorem load_complete_gen {fd : C17.FaultDoc} (hb : BadWF fd = true) {us : Option Unit} {F : Flat} {den : Scale → Rat}
    (hden : DenOK den)
    (hgen : (genParse fd us).map (·.flat) = .ok (some F))
    (σ : VRef → Rat) (δ : VRef → VRef → Rat) (reg : Registry) (ust : Units.Store) (L : Loaded)
    (hu : Units.addUnits 0 fd.udefs = .ok (reg, ust)) (hprep : C17.prepareFrom reg ust fd.doc = .ok L)
    (hsat : DocSat fd.doc L den σ δ) : FlatSat den F σ δ := by
  obtain ⟨reg', ust', srt, hu', _, hload, hprep', hvalid⟩ := load_of_parse_gen hb hgen
  rw [hu] at hu'
  simp only [Except.ok.injEq, Prod.mk.injEq] at hu'
  obtain ⟨rfl, rfl⟩ := hu'
  exact load_complete hden hload hvalid σ δ L (hprep'.trans hprep) (docSat_withUnits.mpr hsat)

/-! ## 4. Non-vacuity: the relay document of `Props/C01.lean` goes through the generated code -/

open Cellml.Props.C17 (relayFd relay_loadFull relay_addUnits relay_buildUnits mVdef)

/-- the generated `parse` returns the flat model of the relay document -/
theorem relay_parse_gen (us : Option Unit) :
    (genParse relayFd us).map (·.flat) = .ok (some (relayL.flat relayDoc)) :=
  parse_ok_of_loadFull us relay_loadFull

/-- the closed generated loop resolves its two connections (with one rotation of the deque) -/
example : genConnect relayUnits.1 relayVt relayDl = .ok relaySt :=
  (genConnect_ok_iff _ _ _ _).mpr relay_connect

/-- `load_sound_gen` applied (no side condition on the units any more) -/
example : ∃ reg ust L, Units.addUnits 0 relayFd.udefs = .ok (reg, ust) ∧ C17.prepareFrom reg ust relayDoc = .ok L ∧
    DocSat relayDoc L denInt (fun v => relayτ (rootOf L.st v)) (fun _ _ => 0) :=
  load_sound_gen (fd := relayFd) rfl (relay_parse_gen none) relayτ (fun _ _ => 0) relay_flatSat

/-- `direction_swap_gen` is not vacuous -/
example : (ConnDir.determineConnectionDirection (loaderView relayPar relayVt) "channel" "V" "gate" "v").map
      (fun p => (p.1.1, p.2.1)) =
    (ConnDir.determineConnectionDirection (loaderView relayPar relayVt) "gate" "v" "channel" "V").map
      (fun p => (p.1.1, p.2.1)) :=
  direction_swap_gen relayPar relayVt ⟨"gate", "v", "channel", "V"⟩
    ⟨[("store0_mV", 1)], .inn, .none, none, none, "mV"⟩ ⟨[("volt", 1)], .inn, .out, none, none, "volt"⟩
    (by decide +kernel) (by decide +kernel) (by decide +kernel)

end Cellml.Props.C01Gen
