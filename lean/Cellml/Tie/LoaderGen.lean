import Cellml.Tie.Loader
import Cellml.Tie.ConnLoopClosed
import Cellml.C17.Lift
import Cellml.Tie.LoaderStagesA
import Cellml.Tie.LoaderStagesC
import Cellml.Tie.LoaderStagesD
import Cellml.Tie.MathsWalk

/-! # Transfer lemmas: from the loader ties to statements whose subject is the GENERATED code

    * `symbolGenerator_fuel`  — the generated closure `symbol_generator` for EVERY loop bound (the tie
      `symbolGenerator_tie` is the instance `fuel = |mapping|`);
    * `genAddConnections`, `genAddConnections_eq` — `_add_connections` as a whole: the GENERATED set-up part
      (`Gen.ConnSetup.addConnectionsSetup`, spec key `before_while`) hands deque, `unchanged_loop_count = 0` and the state
      to the closed generated loop `genConnectLoop`; `connect_err_class`: the classes the work list raises;
    * `genStages`, `genParse`, `genParse_tie` — the generated `Parser.parse` run over stages that are GENERATED CODE down
      to the leaves: `_add_units`, `_add_components`, `_add_relationships` (+ `_handle_component_ref`),
      `_add_connections` (+ `_determine_connection_direction`), ALL of `_add_maths` (`Tie/MathsWalk.lean`: the loops,
      the transpiler construction with the generated closure and the translated lambda, the GENERATED `add_equation`
      for every equation — no `C17.badEqErr` any more), `transform_constants` (`Tie/LoaderStagesA…D.lean`: each stage
      proved equal to the stage of the hand model it replaces; `genStages_mid`); `genParse_tie`: it IS `C17.loadFull`
      on documents whose first bad equation is what `C17.BadLhs` documents (`PMathsWalk.BadWF`);
    * `parse_ok_iff`, `parse_error_of_loadFull`, `parse_isErr_iff`, `parse_ok_flat` — `genParse` succeeds / raises
      exactly when `C17.loadFull` does (corollaries of `genParse_tie`);
    * `loadFull_ok_parts` — what a successful `loadFull` went through. -/

namespace Cellml.Tie.GenA
open Load Cellml.Gen Cellml.Tie Cellml.Tie.LoaderClose Cellml.Tie.PMathsWalk

/-- the generated `symbol_generator` with its `while` cut off after `n` iterations, for every `n` -/
theorem symbolGenerator_fuel (vt : VarTable) (m : List (VRef × VRef)) (n : Nat) (cname x : String) :
    LoaderSym.symbolGenerator ⟨cname⟩ (varToSymbol vt) ⟨m⟩ n x =
      match checkIdent vt cname x with
      | .error e => .error ⟨e.className⟩
      | .ok () => .ok (some (resolve m n (cname, x))) := by
  unfold LoaderSym.symbolGenerator checkIdent varToSymbol
  show (do
    let out ← Py.whileUpTo n _ _ ((vt.lookup (cname, x)).map (fun _ => (cname, x)))
    _) = _
  cases h : vt.lookup (cname, x) with
  | none =>
    simp only [Option.map_none, whileUpTo_none]
    simp [bind, Except.bind, throw, throwThe, MonadExceptOf.throw, Err.className]
  | some i =>
    simp only [Option.map_some, whileUpTo_resolve]
    simp [bind, Except.bind, pure, Except.pure]

/-! ## the exception classes of the connection work list (needed to put the closed generated loop into `parse`) -/

theorem stepConn_err_class {reg : Registry} {vt : VarTable} {st : CState} {c : VRef × VRef} {e : Err}
    (h : stepConn reg vt st c = .error e) : C17.className e = e.className := by
  obtain ⟨s, t⟩ := c
  simp only [stepConn] at h
  split at h
  · cases h; rfl
  · split at h
    · cases h
    · split at h
      · cases h; rfl
      · cases h; rfl
      · split at h
        · split at h
          · cases h
          · split at h
            · cases h; rfl
            · cases h
        · cases h

theorem connectLoopF_err_class (reg : Registry) (vt : VarTable) : ∀ (n : Nat) (dq : List (VRef × VRef)) (unch : Nat)
    (st : CState) (e : Err), connectLoopF reg vt n dq unch st = some (.error e) → C17.className e = e.className
  | 0, _, _, _, _, h => by simp [connectLoopF] at h
  | n + 1, [], _, _, _, h => by simp [connectLoopF] at h
  | n + 1, c :: rest, unch, st, e, h => by
    simp only [connectLoopF] at h
    cases hs : stepConn reg vt st c with
    | error e' =>
      rw [hs] at h
      simp only [Option.some.injEq, Except.error.injEq] at h
      subst h
      exact stepConn_err_class hs
    | ok o =>
      rw [hs] at h
      cases o with
      | none =>
        simp only at h
        split at h
        · exact connectLoopF_err_class reg vt n _ _ _ _ h
        · simp only [Option.some.injEq, Except.error.injEq] at h; subst h; rfl
      | some st' => exact connectLoopF_err_class reg vt n _ _ _ _ h

theorem connect_err_class {reg : Registry} {vt : VarTable} {l : List (VRef × VRef)} {e : Err}
    (h : connect reg vt l = .error e) : C17.className e = e.className := by
  have := C17.connectLoopF_eq (C17.stepBound l.length 0) reg vt l 0 (Nat.zero_le _) (initState vt) (Nat.le_refl _)
  unfold connect at h
  rw [h] at this
  exact connectLoopF_err_class reg vt _ _ _ _ _ this

/-! ## `_add_connections` as a whole: generated set-up, then the closed generated loop -/

/-- `Parser._add_connections`: the GENERATED set-up part (`connected_variable_mapping = {}`, the loops over
    `<connection>` / `<map_variables>` with the generated `_determine_connection_direction`, `unchanged_loop_count = 0`)
    hands its results — deque, counter, state — to the closed loop over the GENERATED test and body. The state it
    starts from is the one `Model.add_variable` leaves (`Load.initState`: a variable without an `in` interface is its
    own `assigned_to`). Returns the deque (as `Load.Loaded` keeps it) and the final work-list state. -/
def genAddConnections (comps : List String) (par : ParentMap) (reg : Registry) (vt : VarTable) (conns : List Conn) :
    Except PyErr (List (VRef × VRef) × CState) :=
  match ConnSetup.addConnectionsSetup ⟨comps, loaderView par vt⟩ ⟨connElems conns⟩ (initState vt) with
  | .error e => .error e
  | .ok (dq, unch, st0) => (genConnectLoop reg vt dq unch st0).map (fun st => (dq, st))

/-- the start values of `genConnect` (counter `0`, the state `initState vt`) ARE what the generated set-up returns -/
theorem genAddConnections_eq (comps : List String) (par : ParentMap) (reg : Registry) (vt : VarTable)
    (conns : List Conn) :
    genAddConnections comps par reg vt conns =
      match directAll comps par vt conns with
      | .error e => .error ⟨e.className⟩
      | .ok dl => (genConnect reg vt dl).map (fun st => (dl, st)) := by
  unfold genAddConnections
  rw [connSetup_tie]
  cases directAll comps par vt conns <;> rfl

/-- the stage `connected_variable_mapping = self._add_connections(model_xml)` -/
def genConnStage (d : C17.FaultDoc) (st : ParseState) : Except PyErr ParseState :=
  match st.units, st.par with
  | some (reg, ust), some par =>
    let vt := varTable ust d.doc.comps
    match genAddConnections (d.doc.comps.map (·.name)) par reg vt d.doc.conns with
    | .error e => .error e
    | .ok (dl, cst) => .ok { st with loaded := some ⟨reg, ust, vt, par, dl, cst⟩ }
  | _, _ => notReady

theorem genConnStage_eq (fd : C17.FaultDoc) : genConnStage = (parseView fd).addConnections := by
  funext d st
  simp only [genConnStage, parseView]
  cases st.units with
  | none => rfl
  | some u =>
    obtain ⟨reg, ust⟩ := u
    cases st.par with
    | none => rfl
    | some par =>
      simp only
      rw [genAddConnections_eq]
      cases hd : directAll (d.doc.comps.map (·.name)) par (varTable ust d.doc.comps) d.doc.conns with
      | error e => simp [stageErr, directAll_err_class _ _ _ _ _ hd]
      | ok dl =>
        simp only
        rw [genConnect_eq]
        cases hc : connect reg (varTable ust d.doc.comps) dl with
        | error e => simp [errClass, Except.map, stageErr, connect_err_class hc]
        | ok cst => rfl

/-! ## the stages of `Parser.parse`, generated down to the leaves -/

/-- the stages the generated `parse` is run over. GENERATED (each proved equal to the stage of the hand model it
    replaces): `_add_units` (`genUnitsStage`: set-up pass + closed `while`), `_add_components` (`genCompsStage`),
    `_add_relationships` with `_handle_component_ref` (`genRelStage`, recursion closed), `_add_connections`
    (`genConnStage`: set-up part with `_determine_connection_direction`, closed `while`), `_add_maths`
    (`genMathsWalkStage`: the GENERATED function on the `<component>` elements of the document — every identifier through
    the GENERATED closure `symbol_generator`, every number through the translated lambda `number_generator`, every
    equation through the GENERATED `Model.add_equation`, which refuses a bad left-hand side and a second definition; the
    walk of the MathML transpiler between them, `PMathsWalk.walkExpr`, is written by hand: the Transpiler's source is tied
    for C02), `transform_constants` (`genConstsStage'`, on the equations `_add_maths` added). Still the hand model's: the
    XML leaves `etree.parse`, `_validate` (RELAX NG), the `findall` of `component/units`, `Model(...)`, `_add_rdf`. -/
def genStages (fd : C17.FaultDoc) : ParseView :=
  { parseView fd with
    addUnits := genUnitsStage
    addComponents := genCompsStage
    addRelationships := genRelStage
    addConnections := genConnStage
    addMaths := genMathsWalkStage fd
    transformConstants := genConstsStage' }

/-- the stages that are pointwise those of the hand model put back: what is left differs from `parseView fd` in the
    class of a unit error (as raised), in the equations `_add_maths` records, and in `transform_constants` (equal on
    tables with distinct identities) -/
def midStages (fd : C17.FaultDoc) : ParseView :=
  { parseView fd with
    addUnits := genUnitsStage
    addMaths := genMathsWalkStage fd
    transformConstants := genConstsStage' }

theorem genStages_mid (fd : C17.FaultDoc) : genStages fd = midStages fd := by
  unfold genStages midStages
  rw [genCompsStage_eq fd, genRelStage_eq fd, genConnStage_eq fd]

/-- **the subject of the `…_gen` theorems about loading**: the generated `Parser.parse` on a fresh parser state -/
def genParse (fd : C17.FaultDoc) (us : Option Unit) : Except PyErr ParseState :=
  LoaderParse.parse (genStages fd) us {}

/-- the exception class `genParse` raises when `C17.loadFull` refuses with `e`: the class `load_model` shows
    (`C17.className`), except that an error of the unit work list is passed on AS RAISED by the generated
    `_add_units` — `UndefinedUnitError` / `BadDefinition` where `loadFull` says `Unsupported` -/
def genClass (fd : C17.FaultDoc) (e : Err) : String :=
  if C17.schemaVars fd.doc && fd.compUnits.isEmpty then
    match Units.addUnits 0 fd.udefs with
    | .error ue => unitsClass ue
    | .ok _ => C17.className e
  else C17.className e

theorem genClass_of_units_ok {fd : C17.FaultDoc} {r : Registry × Units.Store} (h : Units.addUnits 0 fd.udefs = .ok r)
    (e : Err) : genClass fd e = C17.className e := by
  unfold genClass; rw [h]; simp

/-- **`Parser.parse`, generated down to the leaves, IS `C17.loadFull`**: the same finished flat model, or an
    exception exactly when `loadFull` refuses (class `genClass`) -/
theorem genParse_tie (fd : C17.FaultDoc) (hb : BadWF fd = true) (us : Option Unit) :
    (genParse fd us).map (·.flat) =
      match C17.loadFull fd with
      | .error e => .error ⟨genClass fd e⟩
      | .ok F => .ok (some F) := by
  unfold genParse
  rw [genStages_mid]
  unfold LoaderParse.parse C17.loadFull genClass
  simp only [midStages, genMathsWalkStage_eq fd hb, parseView, bind, Except.bind, throw, throwThe, MonadExceptOf.throw, stageErr,
    genUnitsStage_eq]
  by_cases hs : C17.schemaVars fd.doc = true
  · simp only [hs, Bool.not_true, Bool.false_eq_true, if_false, Bool.true_and]
    by_cases hu : fd.compUnits = []
    case neg =>
      have h1 : (fd.compUnits.length != 0) = true := by
        cases h : fd.compUnits with
        | nil => exact absurd h hu
        | cons a l => rfl
      have h2 : fd.compUnits.isEmpty = false := by
        cases h : fd.compUnits with
        | nil => exact absurd h hu
        | cons a l => rfl
      simp [h1, h2, Except.map, C17.className, Err.className]
    case pos =>
      simp only [hu, List.length_nil, bne_self_eq_false, Bool.false_eq_true, if_false, List.isEmpty_nil, Bool.not_true,
        if_true]
      cases hadd : Units.addUnits 0 fd.udefs with
      | error e => simp [Except.map]
      | ok u =>
        obtain ⟨reg, ust⟩ := u
        simp only []
        cases hr : C17.reactionErr ust fd with
        | some e => simp [Except.map]
        | none =>
          simp only [C17.prepareFrom]
          cases hc : checkComps ust fd.doc.comps [] ([], fd.doc.cmeta.toList) with
          | error e => simp [Except.map]
          | ok acc =>
            simp only []
            cases hb : buildParents (fd.doc.comps.map (·.name)) fd.doc.encaps [] [] with
            | error e => simp [Except.map]
            | ok par =>
              simp only []
              cases hd : directAll (fd.doc.comps.map (·.name)) par (varTable ust fd.doc.comps) fd.doc.conns with
              | error e => simp [Except.map]
              | ok dl =>
                simp only []
                cases hcn : connect reg (varTable ust fd.doc.comps) dl with
                | error e => simp [Except.map]
                | ok cst =>
                  simp only []
                  cases hbe : fd.badEqs.head? with
                  | some b => simp [Except.map]
                  | none =>
                    simp only [C17.finishFrom]
                    cases hm : checkMaths ust (varTable ust fd.doc.comps) cst fd.doc.comps
                        (cst.convs.map (·.target)) with
                    | error e => simp [Except.map]
                    | ok defined =>
                      simp only []
                      rw [genConstsStage'_eq fd _ ⟨reg, ust, varTable ust fd.doc.comps, par, dl, cst⟩ defined rfl rfl rfl,
                        genConstsStage_eq fd _ ⟨reg, ust, varTable ust fd.doc.comps, par, dl, cst⟩ defined rfl rfl
                        (checkComps_nodup hc)]
                      simp only [parseView, stageErr]
                      cases hk : checkConstants
                          (Loaded.states ⟨reg, ust, varTable ust fd.doc.comps, par, dl, cst⟩ fd.doc) defined
                          (varTable ust fd.doc.comps) with
                      | error e => simp [Except.map]
                      | ok u => simp [Except.map]
  · simp [hs, Except.map, C17.className, Err.className]

/-- the stages a successful `loadFull` went through -/
theorem loadFull_ok_parts {fd : C17.FaultDoc} {F : Flat} (h : C17.loadFull fd = .ok F) :
    C17.schemaVars fd.doc = true ∧ fd.compUnits = [] ∧ fd.badEqs = [] ∧
    ∃ reg ust L, Units.addUnits 0 fd.udefs = .ok (reg, ust) ∧ C17.reactionErr ust fd = none ∧
      C17.prepareFrom reg ust fd.doc = .ok L ∧ C17.finishFrom L fd.doc = .ok F := by
  unfold C17.loadFull at h
  split at h
  · cases h
  · rename_i hs
    split at h
    · cases h
    · rename_i hc
      split at h
      · cases h
      · rename_i reg ust hu
        split at h
        · cases h
        · rename_i hr
          split at h
          · cases h
          · rename_i L hL
            split at h
            · cases h
            · rename_i hb
              refine ⟨by simpa using hs, by simpa using hc, ?_, reg, ust, L, hu, hr, hL, h⟩
              cases hbe : fd.badEqs with
              | nil => rfl
              | cons b r => rw [hbe] at hb; simp at hb

/-- the generated `parse` returns a finished model exactly when `loadFull` does, and it is the same model -/
theorem parse_ok_iff (fd : C17.FaultDoc) (hb : BadWF fd = true) (us : Option Unit) (F : Flat) :
    (genParse fd us).map (·.flat) = .ok (some F) ↔ C17.loadFull fd = .ok F := by
  rw [genParse_tie fd hb]
  cases C17.loadFull fd with
  | error e => simp
  | ok F' => simp

/-- a document `loadFull` accepts has no bad equation, so it needs no hypothesis: the generated `parse` returns the
    same model -/
theorem parse_ok_of_loadFull {fd : C17.FaultDoc} (us : Option Unit) {F : Flat} (h : C17.loadFull fd = .ok F) :
    (genParse fd us).map (·.flat) = .ok (some F) :=
  (parse_ok_iff fd (BadWF_of_nil (loadFull_ok_parts h).2.2.1) us F).mpr h

/-- the generated `parse` raises whenever `loadFull` does, with the class `genClass` -/
theorem parse_error_of_loadFull {fd : C17.FaultDoc} (hb : BadWF fd = true) (us : Option Unit) {e : Err}
    (h : C17.loadFull fd = .error e) : genParse fd us = .error ⟨genClass fd e⟩ := by
  have := genParse_tie fd hb us
  rw [h] at this
  cases hp : genParse fd us with
  | error e' => rw [hp] at this; simpa [Except.map] using this
  | ok s => rw [hp] at this; simp [Except.map] at this

theorem parse_isErr_iff (fd : C17.FaultDoc) (hb : BadWF fd = true) (us : Option Unit) :
    (∃ e, genParse fd us = .error e) ↔ ∃ e, C17.loadFull fd = .error e := by
  constructor
  · rintro ⟨e, he⟩
    have := genParse_tie fd hb us
    rw [he] at this
    cases hl : C17.loadFull fd with
    | error e' => exact ⟨e', rfl⟩
    | ok F => rw [hl] at this; simp [Except.map] at this
  · rintro ⟨e, he⟩
    exact ⟨_, parse_error_of_loadFull hb us he⟩

/-- the generated `parse` never returns a state without a finished model -/
theorem parse_ok_flat {fd : C17.FaultDoc} (hb : BadWF fd = true) {us : Option Unit} {ps : ParseState}
    (h : genParse fd us = .ok ps) : ∃ F, ps.flat = some F ∧ C17.loadFull fd = .ok F := by
  have := genParse_tie fd hb us
  rw [h] at this
  cases hl : C17.loadFull fd with
  | error e => rw [hl] at this; simp [Except.map] at this
  | ok F =>
    rw [hl] at this
    simp only [Except.map, Except.ok.injEq] at this
    exact ⟨F, this, rfl⟩

/-- … so it is `Load.loadFrom` on the units of the work list -/
theorem loadFull_ok_loadFrom {fd : C17.FaultDoc} {F : Flat} (h : C17.loadFull fd = .ok F) :
    ∃ reg ust, Units.addUnits 0 fd.udefs = .ok (reg, ust) ∧ C17.loadFrom reg ust fd.doc = .ok F := by
  obtain ⟨_, _, _, reg, ust, L, hu, _, hL, hF⟩ := loadFull_ok_parts h
  refine ⟨reg, ust, hu, ?_⟩
  unfold C17.loadFrom
  rw [hL]; exact hF

end Cellml.Tie.GenA
