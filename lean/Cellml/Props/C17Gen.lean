import Cellml.Props.C17
import Cellml.Tie.ConnLoopClosed
import Cellml.Tie.LoaderGen

/-! # C17 — the headline theorems of `Props/C17.lean`, stated about the code GENERATED from parser.py

    Subject: `Tie.GenA.genParse fd us` = the generated `Parser.parse` (`Gen.LoaderParse.parse`, stage order and the
    component-units refusal from the source text) run on a fresh parser state over the stages `Tie.GenA.genStages fd`,
    which are themselves generated code (`_add_units`, `_add_components`, `_add_relationships`, `_add_connections`, ALL
    of `_add_maths` — its loops, the transpiler it constructs, the GENERATED `Model.add_equation` for every equation:
    `Tie/MathsWalk.lean` —, `transform_constants`: `Tie/LoaderStagesA…D.lean`, `genParse_tie`);
    hypothesis `BadWF fd`: the first bad equation of `fd.badEqs` (if any) sits in a component of the document and a
    `nonvar` left-hand side is not a variable / derivative (python accepts those; `C17.badEqErr` refuses them) — it holds
    by `rfl` for a concrete document and by `BadWF_of_nil` for one without bad equations;
    for the two work lists also the closed loops over the generated loop bodies (`Tie.GenA.genConnect`,
    `genConnectWhile`). Every `fault_rejected_*_gen` is the corollary of `Props.C17.fault_rejected_*` (the `_full`
    variant, about `C17.loadFull`) through `parse_tie`; the variants of `Props/C17.lean` about `Load.load` (sorted unit
    definitions) have no generated counterpart of their own — `Parser.parse` is the `_full` loader. -/

open Load C17
namespace Cellml.Props.C17Gen
open Cellml.Tie Cellml.Tie.GenA Cellml.Gen
open Cellml.Tie.PMathsWalk (BadWF BadWF_of_nil)

/-- whatever `loadFull` refuses the generated `parse` refuses (with the class of `loadFull`'s error) -/
theorem rejected_gen {fd : FaultDoc} (hw : BadWF fd = true) (us : Option Unit) (h : ∃ e, loadFull fd = .error e) :
    ∃ e, genParse fd us = .error e := (parse_isErr_iff fd hw us).mpr h

/-! ## 1. Both work lists terminate; loading is a total function -/

/-- `load_total` for the generated `parse`: it returns a parser state holding the finished model — the one
    `loadFull` returns — or raises; there is no third outcome (in particular no state without a model). The class
    raised is `genClass fd e'`: the class `load_model` shows for `loadFull`'s error (`C17.className e'`), except that an
    error of the unit work list keeps the class the generated `_add_units` raises (`genClass_of_units_ok`). -/
theorem load_total_gen (fd : FaultDoc) (hw : BadWF fd = true) (us : Option Unit) :
    (∃ ps F, genParse fd us = .ok ps ∧ ps.flat = some F ∧ loadFull fd = .ok F) ∨
    (∃ e, genParse fd us = .error e ∧ ∃ e', loadFull fd = .error e' ∧ e = ⟨genClass fd e'⟩) := by
  rcases Cellml.Props.C17.load_total fd with ⟨F, hF⟩ | ⟨e, he⟩
  · left
    have hp := (parse_ok_iff fd hw us F).mpr hF
    cases hg : genParse fd us with
    | error e => rw [hg] at hp; simp [Except.map] at hp
    | ok ps =>
      obtain ⟨F', h1, h2⟩ := parse_ok_flat hw hg
      rw [hF] at h2; cases h2
      exact ⟨ps, F, rfl, h1, hF⟩
  · right
    exact ⟨_, parse_error_of_loadFull hw us he, e, he, rfl⟩

/-- the connection work list, closed over the generated body (restated from `Props/C01Gen.lean`) -/
theorem connect_terminates_gen (reg : Registry) (vt : VarTable) (l : List (VRef × VRef)) :
    (∃ st, genConnect reg vt l = .ok st) ∨ (∃ e, genConnect reg vt l = .error e) := by
  cases h : genConnect reg vt l with
  | ok st => exact Or.inl ⟨st, rfl⟩
  | error e => exact Or.inr ⟨e, rfl⟩

/-- `connect_within_budget` for the generated code: the python `while` over the generated test and body, given
    `stepBound n 0` iterations (`n` the number of `<map_variables>`), has finished within the budget — the deque it
    returns is empty — with the state the closed loop returns, which is `connect`'s (`genConnect_eq`). -/
theorem connect_within_budget_gen (reg : Registry) (vt : VarTable) (l : List (VRef × VRef)) :
    ∃ u, genConnectWhile reg vt (stepBound l.length 0) (l, 0, initState vt) =
      (errClass Err.className (connect reg vt l)).map (fun st => (([] : List (VRef × VRef)), u, st)) := by
  rw [← genConnect_eq]
  exact whileUpTo_genConnectLoop reg vt _ l 0 (initState vt) (Nat.zero_le _) (Nat.le_refl _)

/-- `connect_budget`: that budget is `n(n+1)/2 + n + 2` (arithmetic, no model function in it; restated so that the
    budget of `connect_within_budget_gen` is explicit) -/
theorem connect_budget_gen (n : Nat) : 2 * stepBound n 0 = n * (n + 1) + 2 * n + 4 :=
  Cellml.Props.C17.connect_budget n

/-! ## 2. One theorem per fault class: the class anywhere in the document ⇒ the generated `parse` raises -/

theorem fault_rejected_missing_component_gen (fd : FaultDoc) (hw : BadWF fd = true) (us : Option Unit) (h : MissingComponent fd.doc) :
    ∃ e, genParse fd us = .error e :=
  rejected_gen hw us (Cellml.Props.C17.fault_rejected_missing_component_full fd h)

theorem fault_rejected_missing_variable_gen (fd : FaultDoc) (hw : BadWF fd = true) (us : Option Unit) (h : MissingVariable fd.doc) :
    ∃ e, genParse fd us = .error e :=
  rejected_gen hw us (Cellml.Props.C17.fault_rejected_missing_variable_full fd h)

theorem fault_rejected_both_sources_gen (fd : FaultDoc) (hw : BadWF fd = true) (us : Option Unit) (h : BothSources fd.doc) :
    ∃ e, genParse fd us = .error e :=
  rejected_gen hw us (Cellml.Props.C17.fault_rejected_both_sources_full fd h)

theorem fault_rejected_both_receivers_gen (fd : FaultDoc) (hw : BadWF fd = true) (us : Option Unit) (h : BothReceivers fd.doc) :
    ∃ e, genParse fd us = .error e :=
  rejected_gen hw us (Cellml.Props.C17.fault_rejected_both_receivers_full fd h)

theorem fault_rejected_no_direction_gen (fd : FaultDoc) (hw : BadWF fd = true) (us : Option Unit) (h : NoDirection fd.doc) :
    ∃ e, genParse fd us = .error e :=
  rejected_gen hw us (Cellml.Props.C17.fault_rejected_no_direction_full fd h)

theorem fault_rejected_non_adjacent_gen (fd : FaultDoc) (hw : BadWF fd = true) (us : Option Unit) (h : NonAdjacent fd.doc) :
    ∃ e, genParse fd us = .error e :=
  rejected_gen hw us (Cellml.Props.C17.fault_rejected_non_adjacent_full fd h)

theorem fault_rejected_incompatible_units_gen (fd : FaultDoc) (hw : BadWF fd = true) (us : Option Unit)
    (h : ∀ reg ust, Units.addUnits 0 fd.udefs = .ok (reg, ust) → IncompatibleUnits reg ust fd.doc) :
    ∃ e, genParse fd us = .error e :=
  rejected_gen hw us (Cellml.Props.C17.fault_rejected_incompatible_units_full fd h)

theorem fault_rejected_two_sources_gen (fd : FaultDoc) (hw : BadWF fd = true) (us : Option Unit)
    (h : ∀ reg ust, Units.addUnits 0 fd.udefs = .ok (reg, ust) → TwoSources ust fd.doc) :
    ∃ e, genParse fd us = .error e :=
  rejected_gen hw us (Cellml.Props.C17.fault_rejected_two_sources_full fd h)

theorem fault_rejected_defined_twice_direct_gen (fd : FaultDoc) (hw : BadWF fd = true) (us : Option Unit) (h : DefinedTwiceDirect fd.doc) :
    ∃ e, genParse fd us = .error e :=
  rejected_gen hw us (Cellml.Props.C17.fault_rejected_defined_twice_direct_full fd h)

theorem fault_rejected_defined_twice_connected_gen (fd : FaultDoc) (hw : BadWF fd = true) (us : Option Unit) (h : DefinedTwiceConnected fd.doc) :
    ∃ e, genParse fd us = .error e :=
  rejected_gen hw us (Cellml.Props.C17.fault_rejected_defined_twice_connected_full fd h)

theorem fault_rejected_init_and_equation_gen_partial (fd : FaultDoc) (hw : BadWF fd = true) (us : Option Unit) (hno : NoOde fd.doc) (h : InitAndEquation fd.doc) :
    ∃ e, genParse fd us = .error e :=
  rejected_gen hw us (Cellml.Props.C17.fault_rejected_init_and_equation_full_partial fd hno h)

theorem fault_rejected_undefined_identifier_gen (fd : FaultDoc) (hw : BadWF fd = true) (us : Option Unit) (h : UndefinedIdentifier fd.doc) :
    ∃ e, genParse fd us = .error e :=
  rejected_gen hw us (Cellml.Props.C17.fault_rejected_undefined_identifier_full fd h)

theorem fault_rejected_undefined_unit_gen (fd : FaultDoc) (hw : BadWF fd = true) (us : Option Unit) (h : UndefinedUnitName (fd.udefs.map (·.name)) fd.doc) :
    ∃ e, genParse fd us = .error e :=
  rejected_gen hw us (Cellml.Props.C17.fault_rejected_undefined_unit_full fd h)

theorem fault_rejected_duplicate_component_gen (fd : FaultDoc) (hw : BadWF fd = true) (us : Option Unit) (h : DuplicateComponent fd.doc) :
    ∃ e, genParse fd us = .error e :=
  rejected_gen hw us (Cellml.Props.C17.fault_rejected_duplicate_component_full fd h)

/-- non-variable left-hand side (`x + 1 = …`, `3 = x`, `−x = …`) -/
theorem fault_rejected_nonvariable_lhs_gen (fd : FaultDoc) (hw : BadWF fd = true) (us : Option Unit) (h : NonVariableLhs fd) :
    ∃ e, genParse fd us = .error e :=
  rejected_gen hw us (Cellml.Props.C17.fault_rejected_nonvariable_lhs fd h)

/-- second or higher derivative on the left-hand side -/
theorem fault_rejected_higher_order_lhs_gen (fd : FaultDoc) (hw : BadWF fd = true) (us : Option Unit) (h : HigherOrderLhs fd) :
    ∃ e, genParse fd us = .error e :=
  rejected_gen hw us (Cellml.Props.C17.fault_rejected_higher_order_lhs fd h)

/-- units defined inside a component (unsupported feature) -/
theorem fault_rejected_component_units_gen (fd : FaultDoc) (hw : BadWF fd = true) (us : Option Unit) (h : HasComponentUnits fd) :
    ∃ e, genParse fd us = .error e :=
  rejected_gen hw us (Cellml.Props.C17.fault_rejected_component_units fd h)

/-- reactions (unsupported feature) -/
theorem fault_rejected_reaction_gen (fd : FaultDoc) (hw : BadWF fd = true) (us : Option Unit) (h : HasReaction fd) :
    ∃ e, genParse fd us = .error e :=
  rejected_gen hw us (Cellml.Props.C17.fault_rejected_reaction fd h)

/-- the two schema rules on variables that are modelled -/
theorem fault_rejected_schema_variable_gen (fd : FaultDoc) (hw : BadWF fd = true) (us : Option Unit) (h : SchemaViolation fd) :
    ∃ e, genParse fd us = .error e :=
  rejected_gen hw us (Cellml.Props.C17.fault_rejected_schema_variable fd h)

theorem fault_rejected_units_duplicate_gen (fd : FaultDoc) (hw : BadWF fd = true) (us : Option Unit) (h : ¬ (fd.udefs.map (·.name)).Nodup) :
    ∃ e, genParse fd us = .error e :=
  rejected_gen hw us (Cellml.Props.C17.fault_rejected_units_duplicate fd h)

theorem fault_rejected_units_builtin_override_gen (fd : FaultDoc) (hw : BadWF fd = true) (us : Option Unit) (d : Units.UDef) (hd : d ∈ fd.udefs)
    (h : Cellml.Gen.cellmlUnits.contains d.name = true) :
    ∃ e, genParse fd us = .error e :=
  rejected_gen hw us (Cellml.Props.C17.fault_rejected_units_builtin_override fd d hd h)

/-- non-zero offset (unsupported feature) -/
theorem fault_rejected_units_offset_gen (fd : FaultDoc) (hw : BadWF fd = true) (us : Option Unit) (d : Units.UDef) (hd : d ∈ fd.udefs) (hb : d.base = false)
    (e : Units.UnitElem) (he : e ∈ d.elems) (o : String) (ho : e.offset = some o) (q : Rat)
    (hq : Decimal.parse o = some q) (hne : q ≠ 0) (hden : q.den < 2 ^ 1075) :
    ∃ e, genParse fd us = .error e :=
  rejected_gen hw us (Cellml.Props.C17.fault_rejected_units_offset fd d hd hb e he o ho q hq hne hden)

/-- dangling reference: a `<unit>` refers to a name that is neither built in nor defined -/
theorem fault_rejected_units_dangling_gen (fd : FaultDoc) (hw : BadWF fd = true) (us : Option Unit) (d : Units.UDef) (hd : d ∈ fd.udefs) (hb : d.base = false)
    (e : Units.UnitElem) (he : e ∈ d.elems) (h1 : Cellml.Gen.cellmlUnits.contains e.units = false)
    (h2 : e.units ∉ fd.udefs.map (·.name)) :
    ∃ e, genParse fd us = .error e :=
  rejected_gen hw us (Cellml.Props.C17.fault_rejected_units_dangling fd d hd hb e he h1 h2)

/-- cyclic definitions: a non-empty group of definitions each referring to a member of the group -/
theorem fault_rejected_units_cycle_gen (fd : FaultDoc) (hw : BadWF fd = true) (us : Option Unit) (cyc : List Units.UDef) (hne : cyc ≠ [])
    (h : ∀ d ∈ cyc, d ∈ fd.udefs ∧ d.base = false ∧ ∃ e ∈ d.elems, ∃ d' ∈ cyc, e.units = d'.name) :
    ∃ e, genParse fd us = .error e :=
  rejected_gen hw us (Cellml.Props.C17.fault_rejected_units_cycle fd cyc hne h)

/-! ## 3. Non-vacuity -/

open Cellml.Props.C17 (relayFd relay_loadFull mVdef variant gateV yEq k1 k2)
open Cellml.Props.C01 (relayDoc relayL)

/-- the valid relay document goes through the generated `parse` -/
example (us : Option Unit) : ∃ ps, genParse relayFd us = .ok ps ∧ ps.flat = some (relayL.flat relayDoc) := by
  have hr : loadFull relayFd = .ok (relayL.flat relayDoc) := relay_loadFull
  rcases load_total_gen relayFd rfl us with ⟨ps, F, h1, h2, h3⟩ | ⟨e, _, e', h', _⟩
  · rw [hr] at h3; rw [← Except.ok.inj h3] at h2; exact ⟨ps, h1, h2⟩
  · rw [hr] at h'; exact nomatch h'

/-- a faulty one is refused by it -/
example (us : Option Unit) :
    ∃ e, genParse { doc := variant (gateV .out) .out [yEq] [] [k1, k2], udefs := [mVdef], reactions := [0] } us
      = .error e :=
  fault_rejected_both_sources_gen _ rfl us (connHas_of_b (fun f => f == some (.out, .out)) (fun f h => by simpa using h)
    (by decide +kernel))

/-! ## 4. Bad left-hand sides: refused by the GENERATED `Model.add_equation` inside the generated `_add_maths` -/

open Cellml.Tie.PMathsWalk (genMathsWalkStage)

/-- `y + 1 mV = 3 mV` after the first equation of `gate`: the generated walk transpiles it, the generated `add_equation`
    raises ValueError -/
example (us : Option Unit) :
    ∃ e, genParse { relayFd with badEqs := [⟨0, 1, .nonvar (.add (.var "y") (.num 1 "mV")), .num 3 "mV"⟩] } us = .error e :=
  fault_rejected_nonvariable_lhs_gen _ rfl us ⟨_, List.mem_cons_self, _, rfl⟩

/-- `d²y/dv² = 3 mV` -/
example (us : Option Unit) :
    ∃ e, genParse { relayFd with badEqs := [⟨0, 0, .higher "y" "v" 2, .num 3 "mV"⟩] } us = .error e :=
  fault_rejected_higher_order_lhs_gen _ rfl us ⟨_, List.mem_cons_self, _, _, _, rfl, by decide⟩

/-- the relay document without the equation of `gate`, and `y = 3 mV` listed as a BAD equation (`nonvar (.var "y")`) -/
def misfiledDoc : FaultDoc :=
  { doc := { relayDoc with comps := relayDoc.comps.map (fun c => if c.name == "gate" then { c with eqs := [] } else c) }
    udefs := relayFd.udefs
    badEqs := [⟨0, 0, .nonvar (.var "y"), .num 3 "mV"⟩] }

def isOk {ε α : Type} : Except ε α → Bool
  | .ok _ => true
  | .error _ => false

/-- **the hypothesis `BadWF` cannot be dropped**: a `nonvar` left-hand side that IS a variable is an ordinary equation for
    python (and for the generated `add_equation`: the stage succeeds), while the hand model's stage (`C17.badEqErr`)
    refuses it. `C17.BadLhs.nonvar` is documented as "neither a variable nor a derivative"; this document is outside. -/
theorem badWF_needed :
    BadWF misfiledDoc = false ∧ (∃ e, (parseView misfiledDoc).addMaths { loaded := some relayL } = .error e) ∧
    isOk (genMathsWalkStage misfiledDoc { loaded := some relayL }) = true := by
  refine ⟨rfl, ⟨_, rfl⟩, ?_⟩
  decide +kernel

end Cellml.Props.C17Gen
