import Cellml.Units.Wire
import Cellml.Units.Rules

/-! Channel C19:
    `(C19 (stores (0 new) (1 share 0) ...) (defs d...) (steps s...))` → `((defs r...) (steps r...))`.
    Steps run in order against one world (registries with their enabled rules, newest first):
      `(rule from to (mul|div (num "1.1")|(sym "Cm") unit) ...)`   `add_conversion_rule(from, to, lambda ureg, rhs: rhs * … / …)`
      `(factor a b)`                                               `get_conversion_factor`
      `(convert "q" a b)`                                          `convert(Quantity(q, a), b)` (multiplier of the magnitude)
      `(cv a b input|output plain|defined|state|free hasInit nOdes)` `Model.convert_variable`
    Unit expressions are those of `Units.Wire.unitExpr?`. -/
namespace C19
open Sexp Units Units.Wire

def uerr : UErr → Sexp
  | .dimensionality => .list [.atom "err", .atom "DimensionalityError"]
  | .undefinedUnit => .list [.atom "err", .atom "UndefinedUnitError"]
  | .valueError => .list [.atom "err", .atom "ValueError"]
  | .other w => .list [.atom "err", .atom "Other", .str w]

structure State where
  world : World
  rules : List (Nat × Rule) := []       -- (registry index, rule), newest first

def State.rulesOf (st : State) (ri : Nat) : List Rule :=
  (st.rules.filter (fun p => p.1 == ri)).map (·.2)

/-- several unit expressions that must live in one registry -/
def unitsIn (w : World) (es : List Sexp) : Except Sexp (Nat × Registry × List Container) := do
  let mut ri? : Option Nat := none
  let mut cs : List Container := []
  for e in es do
    match unitExpr? w e with
    | .ok (ri, c) =>
        -- the unit `dimensionless` (and every CellML built-in) exists in every registry: an empty expression or one
        -- made of built-ins of store 0 still names its store's registry, which is what `unitExpr?` reports
        match ri? with
        | some r => if r != ri then throw (.list [.atom "err", .atom "CrossRegistry"])
        | none => ri? := some ri
        cs := cs ++ [c]
    | .error "different-registries" => throw (.list [.atom "err", .atom "CrossRegistry"])
    | .error e => throw (.list [.atom "err", .atom e])
  let ri := ri?.getD 0
  match w.regs[ri]? with
  | some reg => pure (ri, reg, cs)
  | none => throw (.atom "bad-store")

/-- number of distinct shortest rule paths (reported so that the harness can recognise the one situation the model
    leaves open); with fewer than two rules there is at most one -/
def pathCount (reg : Registry) (rules : List Rule) (a b : Container) : Nat :=
  if rules.length < 2 then 1 else shortestCount rules (dimsOf reg a) (dimsOf reg b)

def mag? : Sexp → Option Mag
  | .list [.atom "num", t] => do
      let s ← atomOf? t
      let q ← Decimal.parse s
      let sc ← Factor.rat q
      some (.num sc)
  | .list [.atom "sym", t] => do
      let s ← atomOf? t
      some (.sym s)
  | _ => none

def ofSyms (y : Syms) : Sexp :=
  .list (.atom "syms" :: (PMap.norm y).map (fun (k, e) => .list [.str k, ofRat e]))

def ofResult (f : Scale) (y : Syms) (n : Nat) : Sexp :=
  .list [.atom "ok", ofScale f, ofSyms y, .list [.atom "paths", ofNat n]]

def formName : EqForm → String
  | .newFromOrig => "new-from-orig" | .newFromRhs => "new-from-rhs" | .origFromNew => "orig-from-new"
  | .odeOfNew => "ode-of-new" | .odeWrtNew => "ode-wrt-new"

def step (st : State) : Sexp → State × Sexp
  | .list (.atom "rule" :: fromU :: toU :: facs) =>
      let parsed : Option (List (Bool × Mag × Sexp)) := facs.mapM (fun f =>
        match f with
        | .list [.atom "mul", m, u] => (mag? m).map (fun m => (false, m, u))
        | .list [.atom "div", m, u] => (mag? m).map (fun m => (true, m, u))
        | _ => none)
      match parsed with
      | none => (st, .list [.atom "unsupported", .str "rule body"])
      | some ps =>
          match unitsIn st.world (fromU :: toU :: ps.map (·.2.2)) with
          | .error e => (st, e)
          | .ok (ri, reg, fc :: tc :: us) =>
              let fs : List RFactor := (ps.zip us).map (fun (p, u) => { inv := p.1, mag := p.2.1, unit := u })
              ({ st with rules := (ri, mkRule reg fc tc fs) :: st.rules }, .atom "ok")
          | .ok _ => (st, .atom "bad-step")
  | .list [.atom "factor", a, b] =>
      match unitsIn st.world [a, b] with
      | .error e => (st, e)
      | .ok (ri, reg, [ca, cb]) =>
          let rules := st.rulesOf ri
          let n := pathCount reg rules ca cb
          match conversionFactorR reg rules ca cb with
          | .ok none => (st, .list [.atom "ok", .atom "one", .list [.atom "paths", ofNat n]])
          | .ok (some (f, y)) => (st, ofResult f y n)
          | .error e => (st, uerr e)
      | .ok _ => (st, .atom "bad-step")
  | .list [.atom "convert", _, a, b] =>
      match unitsIn st.world [a, b] with
      | .error e => (st, e)
      | .ok (ri, reg, [ca, cb]) =>
          let rules := st.rulesOf ri
          let n := pathCount reg rules ca cb
          match convertQ reg rules ca cb with
          | .ok (f, y) => (st, ofResult f y n)
          | .error e => (st, uerr e)
      | .ok _ => (st, .atom "bad-step")
  | .list [.atom "cv", a, b, .atom dir, .atom kind, hasInit, nOdes] =>
      match unitsIn st.world [a, b] with
      | .error e => (st, e)
      | .ok (ri, reg, [ca, cb]) =>
          let rules := st.rulesOf ri
          let d : Dir := if dir == "input" then .input else .output
          let k : VarKind := if kind == "defined" then .defined else if kind == "state" then .state
                             else if kind == "free" then .free else .plain
          let n := pathCount reg rules ca cb
          match convertVariable reg rules ca cb d k (atomOf? hasInit == some "true") ((nat? nOdes).getD 0) with
          | .same => (st, .list [.atom "same"])
          | .converted (f, y) initScaled eqs =>
              (st, .list [.atom "converted", ofScale f, ofSyms y, ofBool initScaled,
                          .list (.atom "eqs" :: eqs.map (fun e => .list [.atom (formName e), ofInt e.exponent])),
                          .list [.atom "paths", ofNat n]])
          | .error (.units e) => (st, uerr e)
          | .error .typeError => (st, .list [.atom "err", .atom "TypeError"])
      | .ok _ => (st, .atom "bad-step")
  | _ => (st, .atom "bad-step")

def steps (st : State) : List Sexp → List Sexp
  | [] => []
  | s :: ss =>
      let (st', r) := step st s
      r :: steps st' ss

def handle (args : List Sexp) : Sexp :=
  match args with
  | [.list (.atom "stores" :: ss), .list (.atom "defs" :: ds), .list (.atom "steps" :: qs)] =>
      let w0 := mkWorld ss
      let (w, rs) := applyDefs w0 ds
      .list [.list (.atom "defs" :: rs), .list (.atom "steps" :: steps { world := w } qs)]
  | _ => .atom "bad-request"

end C19
