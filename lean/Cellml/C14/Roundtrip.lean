import Cellml.C14.Lemmas

/-! # C14: a double read back from its exact value is itself (`bits → exact value → bits` is the identity), and the
    consequences for the `sympy.Float` stage: widening to `p ≥ 53` bits and narrowing again changes nothing. -/

namespace C14

/-- the exact value of a finite pattern, as `(significand, exponent)` with `significand < 2^53` -/
theorem decodeScaled_spec (b : Nat) :
    (decodeScaled b).1 * 2 ^ (decodeScaled b).2 = scaledOfBits b ∧ (decodeScaled b).1 < 2 ^ 53 := by
  unfold decodeScaled scaledOfBits
  simp only
  have hf : b % 2 ^ 52 < 2 ^ 52 := Nat.mod_lt _ (two_pow_pos 52)
  split
  · simp only [Nat.pow_zero, Nat.mul_one, true_and]; omega
  · simp only [true_and]; omega

/-- `log2 ((2^52 + f) · 2^k) = 52 + k` for `f < 2^52` -/
theorem log2_normal (f k : Nat) (hf : f < 2 ^ 52) : Nat.log2 ((2 ^ 52 + f) * 2 ^ k) = 52 + k := by
  have hpos : 0 < 2 ^ k := two_pow_pos k
  have hne : (2 ^ 52 + f) * 2 ^ k ≠ 0 := by
    have : 0 < (2 ^ 52 + f) * 2 ^ k := Nat.mul_pos (by omega) hpos
    omega
  rw [Nat.log2_eq_iff hne]
  constructor
  · rw [Nat.pow_add]; exact Nat.mul_le_mul_right _ (by omega)
  · rw [show 52 + k + 1 = 53 + k by omega, Nat.pow_add]
    exact Nat.mul_lt_mul_of_pos_right (by omega) hpos

/-- **round trip**: the double nearest to the exact value of a finite double is that double -/
theorem ratToBits_scaledOfBits (b : Nat) (hb : b < infBits) :
    ratToBits (scaledOfBits b) (2 ^ 1074) = b := by
  rw [ratToBits_eq]
  generalize hW : (2 : Nat) ^ 1074 = W
  have hWpos : 0 < W := by rw [← hW]; exact two_pow_pos _
  have hq : scaledOfBits b * W / W = scaledOfBits b := Nat.mul_div_cancel _ hWpos
  have hbdecomp : b = (b / 2 ^ 52) * 2 ^ 52 + b % 2 ^ 52 := by omega
  have hf : b % 2 ^ 52 < 2 ^ 52 := Nat.mod_lt _ (two_pow_pos 52)
  unfold spacing
  rw [hq]
  unfold scaledOfBits
  simp only
  generalize b / 2 ^ 52 = e at *
  generalize b % 2 ^ 52 = f at *
  by_cases he : e = 0
  · subst he
    simp only [if_true]
    have hlog : Nat.log2 f - 52 = 0 := by
      by_cases hf0 : f = 0
      · subst hf0; decide
      · have : Nat.log2 f < 52 := (Nat.log2_lt hf0).mpr hf
        omega
    rw [hlog, Nat.pow_zero, Nat.mul_one, roundDivEven_exact f W hWpos]
    unfold assemble rawBits infBits
    rw [if_pos hf]
    have : ¬ (2047 * 2 ^ 52 ≤ f) := by omega
    rw [if_neg this]; omega
  · simp only [he, if_false]
    rw [log2_normal f (e - 1) hf]
    have hj : 52 + (e - 1) - 52 = e - 1 := by omega
    rw [hj]
    have hN : (2 ^ 52 + f) * 2 ^ (e - 1) * W = (2 ^ 52 + f) * (W * 2 ^ (e - 1)) := by
      rw [Nat.mul_assoc, Nat.mul_comm (2 ^ (e - 1)) W]
    rw [hN, roundDivEven_exact _ _ (Nat.mul_pos hWpos (two_pow_pos _))]
    unfold assemble rawBits
    have h1 : ¬ (2 ^ 52 + f < 2 ^ 52) := by omega
    rw [if_neg h1]
    have h2 : (e - 1 + 1) * 2 ^ 52 + (2 ^ 52 + f - 2 ^ 52) = b := by omega
    rw [h2]
    have : ¬ (infBits ≤ b) := by omega
    rw [if_neg this]

/-! ## the `sympy.Float` stage -/

theorem bitLen_le_of_lt (m p : Nat) (h : m < 2 ^ p) : bitLen m ≤ p := by
  unfold bitLen
  split
  · omega
  · rename_i hm
    have : Nat.log2 m < p := (Nat.log2_lt hm).mpr h
    omega

/-- a significand that fits is not touched: widening never rounds -/
theorem roundSig_id (p m j : Nat) (h : bitLen m ≤ p) : roundSig p (m, j) = (m, j) := by
  unfold roundSig
  simp only [h, if_true]

theorem roundSig_id_53 (p m j : Nat) (hp : 53 ≤ p) (hm : m < 2 ^ 53) : roundSig p (m, j) = (m, j) :=
  roundSig_id p m j (Nat.le_trans (bitLen_le_of_lt m 53 hm) hp)

theorem withSign_magOf (b : Nat) (hb : b < 2 ^ 64) : withSign (isNeg b) (magOf b) = b := by
  unfold withSign isNeg magOf signBit
  by_cases h : 2 ^ 63 ≤ b
  · simp only [h, decide_true, if_true]; omega
  · simp only [h, decide_false]
    have : b % 2 ^ 63 = b := Nat.mod_eq_of_lt (by omega)
    simp [this]

/-- `float(sympy.Float(x, p))` for a finite non-zero double `x` and any precision of at least 53 bits at every
    step is `x` again — bit for bit -/
theorem evalfStage_id_of_prec (fp b : Nat) (h1 : 53 ≤ innerPrec fp) (h2 : 53 ≤ evalfPrec fp)
    (hb : b < 2 ^ 64) (hfin : isFiniteBits b = true) (hnz : magOf b ≠ 0) :
    evalfStage fp b = b := by
  unfold evalfStage
  have hmag : magOf b < infBits := by simpa [isFiniteBits] using hfin
  simp only [hfin, Bool.not_true, Bool.false_eq_true, if_false]
  have ⟨hval, hlt⟩ := decodeScaled_spec (magOf b)
  have hm0 : (decodeScaled (magOf b)).1 ≠ 0 := by
    intro h0
    rw [h0, Nat.zero_mul] at hval
    have hrt := ratToBits_scaledOfBits (magOf b) hmag
    rw [← hval] at hrt
    have hz : ratToBits 0 (2 ^ 1074) = 0 := by
      rw [ratToBits_eq]
      simp only [Nat.zero_mul]
      have : spacing 0 (2 ^ 1074) = 0 := by unfold spacing; simp only [Nat.zero_div]; decide
      rw [this]
      unfold roundDivEven assemble rawBits infBits
      simp
    rw [hz] at hrt
    exact hnz hrt.symm
  simp only [hm0, if_false]
  generalize hd : decodeScaled (magOf b) = mj at *
  obtain ⟨m, j⟩ := mj
  simp only at hval hlt
  rw [roundSig_id_53 _ m j h1 hlt, roundSig_id_53 _ m j (by omega : 53 ≤ evalfPrec fp + 4) hlt,
    roundSig_id_53 _ m j h2 hlt]
  unfold toFloat
  rw [roundSig_id_53 53 m j (Nat.le_refl _) hlt]
  unfold ldexpScaled
  simp only
  rw [hval, ratToBits_scaledOfBits _ hmag, withSign_magOf b hb]

end C14
