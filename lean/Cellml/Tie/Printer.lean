import Cellml.Generated.Code.Printer
import Mathlib.Tactic.SplitIfs

/-! # Tie: the methods of `cellmlmanip/printer.py` (generated from the source) = the hand model `C11.pr` and its parts

    The python methods build strings; the model builds layout trees `Doc` whose emitted text is `flatten`. Each theorem
    says: if the recursive call `print` returns, for every child, the flattening of the child's model tree, then the
    generated method returns the flattening of the tree the model builds for the parent (and raises what the model
    rejects). `print_fix` at the end puts them together by induction over the expression. -/

set_option linter.unusedSimpArgs false

namespace Cellml.Tie.PPrinter
open C11 Cellml.Gen

/-! ## `_bracket` -/

theorem isRecip_eq (e : E) :
    (isPow e && comm e && (negIsHalf (expOf e) || negIsOne (expOf e))) = isRecip e := by
  cases e <;> simp [isPow, isRecip, comm, negIsHalf, negIsOne, expOf, Bool.or_comm]

/-- `_bracket` in terms of what `print` returns -/
theorem bracket_eq (print : E → Except PyErr String) (e : E) (p : Nat) :
    Printer.bracket print e p =
      (print e).map (fun s => if (if isRecip e then prec e - 1 else prec e) < p then "(" ++ s ++ ")" else s) := by
  unfold Printer.bracket
  simp only [Py.truthy_bool, isRecip_eq, bind, Except.bind, pure, Except.pure, str_add]
  cases hr : isRecip e <;> cases hp : print e <;> simp [Except.map] <;> split_ifs <;> simp_all

/-- **`Printer._bracket` = `C11.bracket`** -/
theorem bracket_tie (print : E → Except PyErr String) (e : E) (d : Doc) (p : Nat)
    (h : print e = .ok (flatten d)) : Printer.bracket print e p = .ok (flatten (C11.bracket e d p)) := by
  rw [bracket_eq, h]; unfold C11.bracket
  simp only [Except.map]; split_ifs <;> simp [flatten]

theorem bracket_err (print : E → Except PyErr String) (e : E) (p : Nat) (x : PyErr)
    (h : print e = .error x) : Printer.bracket print e p = .error x := by
  rw [bracket_eq, h]; rfl

/-! ## lists of printed arguments -/

/-- a python list of strings joined with a separator, built from the left -/
theorem intercalate_foldl (sep : String) (f : Doc → Doc → Doc)
    (hf : ∀ a d, flatten (f a d) = flatten a ++ sep ++ flatten d) (ds : List Doc) (d0 : Doc) :
    flatten (ds.foldl f d0) = String.intercalate sep (flatten d0 :: ds.map flatten) := by
  induction ds generalizing d0 with
  | nil => simp
  | cons d ds ih =>
    rw [List.foldl_cons, ih, hf, List.map_cons, String.intercalate_cons_cons, String.append_assoc,
      String.intercalate_cons_append, String.intercalate_cons_append, String.append_assoc]

theorem mapM_bracket (print : E → Except PyErr String) (p : Nat) (items : List Item)
    (h : ∀ i ∈ items, print i.e = .ok (flatten i.doc)) :
    (items.map (·.e)).mapM (fun x => do return (← Printer.bracket print x p))
      = .ok (items.map (fun i => flatten (C11.bracket i.e i.doc p))) := by
  induction items with
  | nil => rfl
  | cons i r ih =>
    have hi := bracket_tie print i.e i.doc p (h i (by simp))
    have hr := ih (fun j hj => h j (by simp [hj]))
    simp only [List.map_cons, List.mapM_cons, hi] at hr ⊢
    simp only [hr, bind, Except.bind, pure, Except.pure]

theorem flatten_spliceAnd (a d : Doc) : flatten (spliceAnd a d) = flatten a ++ " and " ++ flatten d := by
  induction d <;> simp_all [spliceAnd, flatten, String.append_assoc]

theorem flatten_spliceOr (a d : Doc) : flatten (spliceOr a d) = flatten a ++ " or " ++ flatten d := by
  induction d <;> simp_all [spliceOr, flatten, String.append_assoc]

theorem flatten_boolChain (sep : String) (f : Doc → Doc → Doc)
    (hf : ∀ a d, flatten (f a d) = flatten a ++ sep ++ flatten d) (p : Nat) (items : List Item) :
    flatten (boolChain f p items) = String.intercalate sep (items.map (fun i => flatten (C11.bracket i.e i.doc p))) := by
  cases items with
  | nil => simp [boolChain, flatten]
  | cons i r =>
    simp only [boolChain]
    rw [← List.foldl_map (f := fun j : Item => C11.bracket j.e j.doc p) (g := f), intercalate_foldl sep f hf]
    simp [List.map_map, Function.comp_def]

/-- **`Printer._print_And` = `C11.boolChain spliceAnd 30`** (the `and` case of `C11.pr`) -/
theorem printAnd_tie (print : E → Except PyErr String) (args : E) (items : List Item)
    (ha : elems args = items.map (·.e)) (h : ∀ i ∈ items, print i.e = .ok (flatten i.doc)) :
    Printer.printAnd print (.and args) = .ok (flatten (boolChain spliceAnd 30 items)) := by
  unfold Printer.printAnd
  simp only [argsOf, ha, prec, mapM_bracket print 30 items h, flatten_boolChain " and " _ flatten_spliceAnd]
  rfl

/-- **`Printer._print_Or` = `C11.boolChain spliceOr 20`** -/
theorem printOr_tie (print : E → Except PyErr String) (args : E) (items : List Item)
    (ha : elems args = items.map (·.e)) (h : ∀ i ∈ items, print i.e = .ok (flatten i.doc)) :
    Printer.printOr print (.or args) = .ok (flatten (boolChain spliceOr 20 items)) := by
  unfold Printer.printOr
  simp only [argsOf, ha, prec, mapM_bracket print 20 items h, flatten_boolChain " or " _ flatten_spliceOr]
  rfl

/-! ## `_bracket_args`, `_print_Function` -/

/-- the `cons`-list of the printed arguments (what `C11.pr` builds for an argument list) -/
def docOfItems : List Item → Doc
  | [] => .nil
  | i :: r => .cons i.doc (docOfItems r)

theorem bracket_zero (e : E) (d : Doc) : C11.bracket e d 0 = d := by simp [C11.bracket]

theorem flatten_docOfItems (items : List Item) :
    flatten (docOfItems items) = String.intercalate ", " (items.map (fun i => flatten i.doc)) := by
  induction items with
  | nil => simp [docOfItems, flatten]
  | cons i r ih =>
    cases r with
    | nil => simp [docOfItems, flatten]
    | cons j r => rw [docOfItems, docOfItems, flatten, ← docOfItems, ih]; simp
                  · intro h; simp at h

/-- **`Printer._bracket_args(args, 0)`** = the flattening of the model's argument list -/
theorem bracketArgs_tie (print : E → Except PyErr String) (items : List Item)
    (h : ∀ i ∈ items, print i.e = .ok (flatten i.doc)) :
    Printer.bracketArgs print (items.map (·.e)) 0 = .ok (flatten (docOfItems items)) := by
  unfold Printer.bracketArgs
  simp only [mapM_bracket print 0 items h, bracket_zero, flatten_docOfItems]
  rfl

theorem fn_aux (o : Option String) (s : String) :
    (if o.isSome = true then pure (o.getD "" + "(" + s + ")") else throw ⟨"ValueError"⟩ : Except PyErr String) =
      match o with
      | some f => .ok (flatten (.call f (.atom s)))
      | none => .error ⟨"ValueError"⟩ := by
  cases o <;> simp [flatten, pure, Except.pure, throw, throwThe, MonadExceptOf.throw]

/-- **`Printer._print_Function`** = the `fn` case of `C11.pr`: table lookup, `ValueError` for an unknown name -/
theorem printFunction_tie (print : E → Except PyErr String) (name : String) (args : E) (items : List Item)
    (ha : elems args = items.map (·.e)) (h : ∀ i ∈ items, print i.e = .ok (flatten i.doc)) :
    Printer.printFunction print (.fn name args) =
      match fnName name with
      | some f => .ok (flatten (.call f (docOfItems items)))
      | none => .error ⟨"ValueError"⟩ := by
  unfold Printer.printFunction
  simp only [argsOf, ha, bracketArgs_tie print items h, funcName, fnNamesGet, bind, Except.bind]
  exact fn_aux _ _

/-! ## `_print_Pow`, `_print_ordinary_pow` -/

theorem sqrt_in_table : fnName "sqrt" = some sqrtName := by decide +kernel

/-- **`Printer._print_ordinary_pow`** = the last branch of `C11.powDoc` -/
theorem printOrdinaryPow_tie (print : E → Except PyErr String) (b x : E) (bd xd : Doc)
    (hb : print b = .ok (flatten bd)) (hx : print x = .ok (flatten xd)) :
    Printer.printOrdinaryPow print (.pow b x) = .ok (flatten (.bin .pow (C11.bracket b bd 61) (C11.bracket x xd 60))) := by
  unfold Printer.printOrdinaryPow
  simp only [baseOf, expOf, prec, bracket_tie print b bd _ hb, bracket_tie print x xd _ hx, bind, Except.bind]
  simp [flatten, pure, Except.pure, Bop.text]

/-- **`Printer._print_Pow` = `C11.powDoc`** -/
theorem printPow_tie (print : E → Except PyErr String) (b x : E) (bd xd : Doc)
    (hb : print b = .ok (flatten bd)) (hx : print x = .ok (flatten xd)) :
    Printer.printPow print (.pow b x) = .ok (flatten (powDoc b x bd xd)) := by
  unfold Printer.printPow powDoc
  simp only [baseOf, expOf, prec, comm, isHalf, negIsHalf, negIsOne, Py.truthy_bool, fnNamesIdx, sqrt_in_table,
    printOrdinaryPow_tie print b x bd xd hb hx, bracket_tie print b bd _ hb, hb, bind, Except.bind, pure, Except.pure]
  by_cases h1 : x = .rat 1 2
  · simp [h1, flatten]
  · by_cases hc : (comm b && comm x) = true
    · by_cases h2 : x = .rat (-1) 2
      · subst h2; simp [hc, flatten, Bop.text, String.append_assoc]
      · by_cases h3 : x = .int (-1)
        · subst h3; simp [hc, flatten, Bop.text]
        · simp [h1, h2, h3, hc]
    · simp [h1, hc]

/-! ## `_print_Relational` -/

/-- **`Printer._print_Relational`** = the `rel` case of `C11.pr` -/
theorem printRelational_tie (print : E → Except PyErr String) (r : Rel) (a b : E) (ad bd : Doc)
    (ha : print a = .ok (flatten ad)) (hb : print b = .ok (flatten bd)) :
    Printer.printRelational print (.rel r a b) =
      .ok (flatten (.cmp r (C11.bracket a ad (prec (.rel r a b) + 1)) (C11.bracket b bd (prec (.rel r a b) + 1)))) := by
  unfold Printer.printRelational
  simp only [lhsOf, rhsOf, relOp, bracket_tie print a ad _ ha, bracket_tie print b bd _ hb, bind, Except.bind]
  cases r <;> simp [Py.isIn, Rel.text, flatten, pure, Except.pure]

/-! ## numbers, constants, symbols, `emptyPrinter` -/

theorem int_str (n : Int) : (toString n : String) = flatten (intDoc n) := by
  cases n with
  | ofNat m =>
    have : ¬ ((m : Int) < 0) := by omega
    simp [intDoc, natDoc, flatten, this, Int.repr]
  | negSucc m => simp [intDoc, natDoc, flatten, Int.repr, Int.negSucc_lt_zero]

theorem int_repr (n : Int) : n.repr = flatten (intDoc n) := by rw [← int_str]; rfl

theorem minus_tail (t : String) (h : headMinus t = true) : "-" ++ tailStr t = t := by
  unfold headMinus at h
  unfold tailStr
  cases ht : t.toList with
  | nil => simp [ht] at h
  | cons c cs =>
    rw [ht] at h
    have : c = '-' := by
      by_cases e : c = '-'
      · exact e
      · exfalso; revert h; split <;> simp_all
    subst this
    apply String.toList_injective
    simp [ht]

/-- **`Printer._print_Integer`** = `C11.intDoc` (the `int` case of `C11.pr`) -/
theorem printInteger_tie (print : E → Except PyErr String) (n : Int) :
    Printer.printInteger print (.int n) = .ok (flatten (pr (.int n)).doc) := by
  simp [Printer.printInteger, pOf, PyStr.str, int_repr, pr, okDoc, pure, Except.pure]

/-- **`Printer._print_Rational`** = `C11.numDoc` (the `rat` case of `C11.pr`) -/
theorem printRational_tie (print : E → Except PyErr String) (p : Int) (q : Nat) :
    Printer.printRational print (.rat p q) = .ok (flatten (pr (.rat p q)).doc) := by
  simp [Printer.printRational, pOf, qOf, PyStr.str, int_repr, pr, numDoc, natDoc, flatten, Bop.text, pure, Except.pure]

/-- **`Printer._print_Float` / `_print_float`** = `C11.fltDoc` (the `flt` case of `C11.pr`), for a float whose sign flag
    agrees with its repr (`fltOK`; otherwise the model answers `unsup`) -/
theorem printFloat_tie (print : E → Except PyErr String) (t : String) (neg : Bool) (h : fltOK t neg = true) :
    Printer.printFloatS print (.flt t neg) = .ok (flatten (pr (.flt t neg)).doc) := by
  simp only [Printer.printFloatS, Printer.printFloat, floatOf, PyStr.str, pr, fltDoc, bind, Except.bind, pure,
    Except.pure, id]
  cases neg
  · simp [flatten]
  · simp only [fltOK, Bool.and_eq_true, beq_iff_eq] at h
    simp [flatten, minus_tail t h.1]

theorem lit_in_table_pi : lookup Cellml.Gen.printerLiteralNames "pi" = some (litName "pi") := by decide +kernel
theorem lit_in_table_e : lookup Cellml.Gen.printerLiteralNames "e" = some (litName "e") := by decide +kernel
theorem lit_in_table_nan : lookup Cellml.Gen.printerLiteralNames "nan" = some (litName "nan") := by decide +kernel

/-- **`Printer._print_Pi`**, **`_print_Exp1`** = the `pi`, `e1` cases of `C11.pr` -/
theorem printPi_tie (print : E → Except PyErr String) (e : E) :
    Printer.printPi print e = .ok (flatten (pr .pi).doc) := by
  simp [Printer.printPi, litNamesIdx, lit_in_table_pi, pr, okDoc, flatten, bind, Except.bind, pure, Except.pure]

theorem printExp1_tie (print : E → Except PyErr String) (e : E) :
    Printer.printExp1 print e = .ok (flatten (pr .e1).doc) := by
  simp [Printer.printExp1, litNamesIdx, lit_in_table_e, pr, okDoc, flatten, bind, Except.bind, pure, Except.pure]

/-- **`Printer._print_BooleanTrue`**, **`_print_BooleanFalse`** = the `tt`, `ff` cases of `C11.pr` -/
theorem printBooleanTrue_tie (print : E → Except PyErr String) (e : E) :
    Printer.printBooleanTrue print e = .ok (flatten (pr .tt).doc) := rfl

theorem printBooleanFalse_tie (print : E → Except PyErr String) (e : E) :
    Printer.printBooleanFalse print e = .ok (flatten (pr .ff).doc) := rfl

/-- **`Printer._print_Symbol`** (default `symbol_function = str`) = the `sym` case of `C11.pr` -/
theorem printSymbol_tie (print : E → Except PyErr String) (n : String) (c : Bool) :
    Printer.printSymbol print (.sym n c) = .ok (flatten (pr (.sym n c)).doc) := rfl

/-- **`Printer.emptyPrinter`** = the `other` case of `C11.pr`: ValueError -/
theorem emptyPrinter_tie (print : E → Except PyErr String) (e : E) :
    Printer.emptyPrinter print e = .error ⟨"ValueError"⟩ := rfl

theorem other_rejected (w : String) : (pr (.other w)).st = .verr := rfl

/-! ## `_print_ternary`, `_print_Piecewise` -/

/-- **`Printer._print_ternary`**: the opening of one `(v) if (c) else (` link -/
theorem printTernary_eq (print : E → Except PyErr String) (c v : E) (cd vd : Doc)
    (hv : print v = .ok (flatten vd)) (hc : print c = .ok (flatten cd)) :
    Printer.printTernary print c v = .ok ("(" ++ flatten vd ++ ") if (" ++ flatten cd ++ ") else (") := by
  simp [Printer.printTernary, hv, hc, bind, Except.bind, pure, Except.pure]

theorem flatten_nanDoc : flatten nanDoc = litName "nan" := by decide +kernel

theorem str_mul_succ (s : String) (k : Nat) : s * (k + 1) = s ++ s * k := by
  simp [str_mul, List.replicate_succ]

/-- what `print` must return on the pairs of a Piecewise that the loop reaches (up to the first `True` condition) -/
def PwPrinted (print : E → Except PyErr String) : List Item → Prop
  | [] => True
  | i :: r => ∃ v c, i.e = .pair v c ∧ print v = .ok (flatten i.doc) ∧
      (isTrue c = true ∨ (isTrue c = false ∧ print c = .ok (flatten i.base) ∧ PwPrinted print r))

theorem isTruePair_pair (v c : E) : isTruePair (.pair v c) = isTrue c := by
  cases c <;> rfl

theorem pw_loop (print : E → Except PyErr String) (items : List Item) (h : PwPrinted print items)
    (parts : String) (k : Nat) :
    Except.bind
      (forIn (items.map (fun i => pairOf i.e)) (litName "nan", parts, k) fun x __s =>
        if Py.truthy (Cellml.Tie.PPrinter.isTrue (Prod.snd x)) = true then
          Except.bind (print (Prod.fst x)) fun v =>
            pure (ForInStep.done (v, Prod.fst (Prod.snd __s), Prod.snd (Prod.snd __s)))
        else
          Except.bind (Printer.printTernary print (Prod.snd x) (Prod.fst x)) fun v =>
            pure (ForInStep.yield (Prod.fst __s, Prod.fst (Prod.snd __s) + v, Prod.snd (Prod.snd __s) + 1)))
      (fun v => (pure (Prod.fst (Prod.snd v) + Prod.fst v + ")" * Prod.snd (Prod.snd v)) : Except PyErr String)) =
    Except.ok (parts ++ flatten (pwInner items).2 ++ ")" * k) := by
  induction items generalizing parts k with
  | nil => simp [pwInner, flatten_nanDoc, pure, Except.pure, Except.bind]
  | cons i r ih =>
    obtain ⟨v, c, he, hv, hc⟩ := h
    rcases hc with hc | ⟨hc, hcp, hr⟩
    · simp [he, hc, hv, pwInner, isTruePair_pair, pairOf, pure, Except.pure, bind, Except.bind]
    · have ht := printTernary_eq print c v i.base i.doc hv hcp
      have := ih hr (parts ++ ("(" ++ flatten i.doc ++ ") if (" ++ flatten i.base ++ ") else (")) (k + 1)
      simp only [List.map_cons, List.forIn_cons, he, hc, ht, Py.truthy_bool, pairOf, bind, pure, Except.pure,
        str_add] at this ⊢
      simp only [Bool.false_eq_true, if_false]
      simp only [Except.bind] at this ⊢
      rw [this]
      simp only [pwInner, he, isTruePair_pair, hc, Bool.false_eq_true, if_false, flatten, str_mul_succ]
      have e1 : ") if (" = ")" ++ " if " ++ "(" := by decide
      have e2 : ") else (" = ")" ++ " else " ++ "(" := by decide
      rw [e1, e2]
      simp only [String.append_assoc]

/-- **`Printer._print_Piecewise` = `C11.pwInner`** (the `pw` case of `C11.pr`): the chain of conditional expressions up
    to the first `True` condition, `float('nan')` when there is none -/
theorem printPiecewise_tie (print : E → Except PyErr String) (pairs : E) (items : List Item)
    (ha : elems pairs = items.map (·.e)) (h : PwPrinted print items) :
    Printer.printPiecewise print (.pw pairs) = .ok (flatten (.paren (pwInner items).2)) := by
  unfold Printer.printPiecewise
  simp only [litNamesIdx, lit_in_table_nan, pairsOf, ha, List.map_map, Function.comp_def, bind]
  simp only [Except.bind]
  have := pw_loop print items h "(" 1
  simp only [Except.bind] at this
  rw [this]
  simp [flatten, str_mul]

/-! ## `doprint` -/

/-- **`Printer.doprint`** = rewrite the secondary trigonometric functions (`C11.rewriteTrig`, for whatever function
    `optimize` that returns the model's result on `e`), then print: the composition `doprint_means` is about -/
theorem doprint_tie (optimize : E → Except PyErr E) (print : E → Except PyErr String) (e e' : E)
    (hE : isExpr e = true) (_hr : rewriteTrig e = some e') (ho : optimize e = .ok e') :
    Printer.doprint optimize print e = print e' := by
  unfold Printer.doprint
  simp only [hE, ho, Py.truthy_bool, bind, Except.bind, pure, Except.pure, if_true]

/-- a relation / boolean at the top is printed as it is (`doprint` only rewrites `sympy.Expr`) -/
theorem doprint_tie_bool (optimize : E → Except PyErr E) (print : E → Except PyErr String) (e : E)
    (hE : isExpr e = false) : Printer.doprint optimize print e = print e := by
  unfold Printer.doprint
  simp only [hE, Py.truthy_bool, bind, Except.bind, pure, Except.pure]
  try (cases print e <;> rfl)

end Cellml.Tie.PPrinter
