import Cellml.Props.C15
import Cellml.Tie.LoaderConsts
import Cellml.Tie.LoaderGen

/-! # C15 — order independence at the set-iteration site of the loader, stated about the GENERATED code

    Of the three modelled set-iteration sites (`C15.Adv`: `consts`, `refs`, `anc`) the loader ties cover `consts`:
    `Parser.transform_constants`. (The sites `refs` / `anc` are in `Model.graph` / `get_equations_for`; their ties are
    `Tie/Graph*.lean`, not part of this package.) Subject: `Gen.LoaderConsts.transformConstants`, generated from the
    source text. In the source after the fix the loop is `for var in list(self.model.variables())` — the generated
    `for var in self.variables` over a LIST — and the one `set` left, `state_vars = set(get_state_variables())`, is
    only used for `in`.

    * `transformConstants_gen_eq`            (`transformConstants_eq`): what the generated function appends is
      `C15.transformConstants`, the variable table in insertion order;
    * `transformConstants_gen_set_irrelevant` / `…_adv`  (`load_order_independent` at this site): whatever order a fair
      adversary gives the set `state_vars`, the generated function returns the same state — for EVERY view, proved on
      the generated text (no tie hypothesis);
    * `load_order_independent_gen`, `load_variables_equations_independent_gen`: the generated `parse` has no adversary
      argument and returns one flat model. -/

namespace Cellml.Props.C15Gen
open Load _root_.C15 Cellml.Tie Cellml.Tie.GenA Cellml.Gen

/-! ## what the generated `transform_constants` appends -/

/-- `transformConstants_eq` for the generated code. Domain hypothesis of the tie (`transformConstants_tie`): the
    variable table has distinct identities (`hnd`). On that domain, whenever the generated function returns, the
    equations it has appended to `model.equations` are exactly `C15.transformConstants states vt` — the initial-value
    constants in `variables()` order — and it returns iff `Load.checkConstants` passes. -/
theorem transformConstants_gen_eq (states defined : List VRef) (vt : VarTable) (hnd : (vt.map (·.1)).Nodup)
    (added : List FlatEq) (cleared : List VRef) :
    (∀ st', LoaderConsts.transformConstants (constsView states vt) ⟨defined, added, cleared⟩ = .ok st' →
      st'.added = added ++ transformConstants states vt) ∧
    ((∃ st', LoaderConsts.transformConstants (constsView states vt) ⟨defined, added, cleared⟩ = .ok st') ↔
      checkConstants states defined vt = .ok ()) := by
  rw [transformConstants_tie states defined vt hnd added cleared, Cellml.Props.C15.transformConstants_eq]
  cases checkConstants states defined vt with
  | error e => simp
  | ok u => cases u; simp

/-! ## the remaining `set` is only used for membership -/

theorem isIn_perm {α : Type} [BEq α] [LawfulBEq α] {l l' : List α} (hp : l.Perm l') (x : α) :
    Py.isIn x l = Py.isIn x l' := by
  unfold Py.isIn
  rw [Bool.eq_iff_iff]
  simp only [List.contains_iff_mem]
  exact hp.mem_iff

/-- **the generated `transform_constants` does not depend on the iteration order of its `set`**: two views that hand
    out `set(self.model.get_state_variables())` in different orders (same elements) and agree on `variables()` give the
    same result — same appended equations in the same order, same cleared initial values, same exception. For every
    view and every start state; proved on the generated text. -/
theorem transformConstants_gen_set_irrelevant (sv sv' : List VarObj) (hp : sv'.Perm sv) (vars : List VarObj)
    (st : TCState) :
    LoaderConsts.transformConstants ⟨sv', vars⟩ st = LoaderConsts.transformConstants ⟨sv, vars⟩ st := by
  rw [transformConstants_forIn, transformConstants_forIn]
  have : tcStep sv' = tcStep sv := by
    funext var s
    unfold tcStep
    rw [isIn_perm hp var]
  simp only [this]

/-- the same with the adversary of `C15.Adv` choosing the order of the set: a fair adversary has no influence -/
theorem transformConstants_gen_adv (π π' : Adv) (hπ : π.Fair) (hπ' : π'.Fair) (states : List VRef) (vt : VarTable)
    (st : TCState) :
    LoaderConsts.transformConstants ⟨π.consts (constsView states vt).stateVars, vt⟩ st =
    LoaderConsts.transformConstants ⟨π'.consts (constsView states vt).stateVars, vt⟩ st := by
  rw [transformConstants_gen_set_irrelevant _ _ (hπ.consts _), transformConstants_gen_set_irrelevant _ _ (hπ'.consts _)]

/-- BEFORE the fix the loop ran over `set(self.model.variables())`; had the generated loop been given the variables in
    an adversary's order, the appended equations would follow that order — the generated function is NOT invariant
    under permutations of `variables` (so the `list(…)` of the source matters): witness with two constants. -/
theorem transformConstants_gen_variables_order_matters :
    ∃ (vt : VarTable) (st : TCState), (vt.map (·.1)).Nodup ∧
      LoaderConsts.transformConstants ⟨[], vt⟩ st ≠ LoaderConsts.transformConstants ⟨[], vt.reverse⟩ st := by
  refine ⟨[(("A", "a"), ⟨[], .none, .none, some 1, none, "dimensionless"⟩),
           (("A", "b"), ⟨[], .none, .none, some 2, none, "dimensionless"⟩)], ⟨[], [], []⟩, by decide, ?_⟩
  decide +kernel

/-! ## the generated `parse` -/

/-- `load_order_independent` for the generated `parse`: it takes no adversary — nothing in the generated text iterates
    a set — and the flat model it returns is a function of the document alone (also independent of the
    `unit_store` argument). -/
theorem load_order_independent_gen (fd : C17.FaultDoc) (us us' : Option Unit) :
    (genParse fd us).map (·.flat) = (genParse fd us').map (·.flat) := rfl

/-- `load_variables_equations_independent` for the generated `parse`: two successful runs return the same
    `variables()` and the same `equations`, in the same order. -/
theorem load_variables_equations_independent_gen (fd : C17.FaultDoc) (us us' : Option Unit) (F F' : Flat)
    (h : (genParse fd us).map (·.flat) = .ok (some F)) (h' : (genParse fd us').map (·.flat) = .ok (some F')) :
    variables F = variables F' ∧ F.eqs = F'.eqs := by
  rw [load_order_independent_gen fd us us'] at h
  rw [h] at h'
  simp only [Except.ok.injEq, Option.some.injEq] at h'
  subst h'
  exact ⟨rfl, rfl⟩

end Cellml.Props.C15Gen
