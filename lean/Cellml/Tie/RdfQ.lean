import Cellml.Generated.Code.RdfQ
import Cellml.Tie.CmetaQ
import Mathlib.Tactic.SplitIfs

/-! # Tie: the remaining annotation / RDF functions (generated from the source) = the model functions

    * `rdf.create_rdf_node` = `PCmeta.createRdfNode` (the callee that the CmetaQ package bound as a leaf: now under the
      tie itself);
    * `Model.get_ontology_terms_by_variable` = `Model.termsOf` (Cmeta.lean, the hand model of C13);
    * `Model.has_ontology_annotation`, `Model.get_rdf_annotations`, `Model.get_rdf_value`, `Variable._set_cmeta_id`,
      `Variable.rdf_identity`, `Model.add_rdf`, `Parser._add_rdf` = the functions of Model/Gen.RdfQ.lean
      (`add_rdf` through the hand model's `Model.addRdf`). -/

namespace Cellml.Tie.PRdfQ
open Model Model.RdfQ Cellml.Tie.PCmeta Cellml.Gen

-- ------------------------------------------------------------------------------------------------ str leaves
theorem hash_toList : "#".toList = ['#'] := by decide
theorem slash_toList : "/".toList = ['/'] := by decide

theorem singleton_isPrefixOf (c : Char) (l : List Char) : [c].isPrefixOf l = (l.head? == some c) := by
  cases l with
  | nil => rfl
  | cons x r =>
    simp only [List.isPrefixOf, List.head?_cons, Bool.and_true]
    rw [Bool.eq_iff_iff]
    simp only [beq_iff_eq, Option.some.injEq]
    exact eq_comm

theorem pyEndsWith_hash (s : String) : pyEndsWith s "#" = endsWithChar s '#' := by
  unfold pyEndsWith endsWithChar
  rw [hash_toList]
  simp only [List.reverse_cons, List.reverse_nil, List.nil_append, singleton_isPrefixOf, List.head?_reverse]

theorem pyEndsWith_slash (s : String) : pyEndsWith s "/" = endsWithChar s '/' := by
  unfold pyEndsWith endsWithChar
  rw [slash_toList]
  simp only [List.reverse_cons, List.reverse_nil, List.nil_append, singleton_isPrefixOf, List.head?_reverse]

theorem pyStartsWith_hash (s : String) : pyStartsWith s "#" = (s.toList.head? == some '#') := by
  unfold pyStartsWith
  rw [hash_toList, singleton_isPrefixOf]

/-- python's `startswith` on the characters is Lean's `String.isPrefixOf` (what the hand model's `nsOk` uses) -/
theorem pyStartsWith_eq (s pre : String) : pyStartsWith s pre = pre.isPrefixOf s := by
  unfold pyStartsWith String.isPrefixOf
  rw [Bool.eq_iff_iff, List.isPrefixOf_iff_prefix, String.startsWith_string_iff]

-- ------------------------------------------------------------------------------------------------ create_rdf_node
/-- `create_rdf_node(x)` for EVERY argument kind (None, a node, a `(namespace, local)` tuple, a string): never raises,
    and answers what the view function `PCmeta.createRdfNode` (used by the CmetaQ ties and C13Gen) answers -/
theorem createRdfNode_tie (x : RdfArg) : Gen.RdfQ.createRdfNode x = .ok (PCmeta.createRdfNode x) := by
  cases x with
  | none => rfl
  | node n => rfl
  | pair ns loc =>
    unfold Gen.RdfQ.createRdfNode PCmeta.createRdfNode
    simp only [RdfArg.isNone, isNode, isTuple, unpack2, Py.truthy_bool, pyEndsWith_hash, pyEndsWith_slash,
      bind, Except.bind, Bool.false_or, Py.str_add]
    by_cases h : (!endsWithChar ns '#' && !endsWithChar ns '/') = true
    · simp [h, namespaceTerm, pure, Except.pure, String.append_assoc]
    · simp [h, namespaceTerm, pure, Except.pure]
  | str s =>
    unfold Gen.RdfQ.createRdfNode PCmeta.createRdfNode
    simp only [RdfArg.isNone, isNode, isTuple, isStr, strText, Py.truthy_bool, pyStartsWith_hash, Bool.false_or,
      Bool.true_and]
    by_cases h : s.toList.head? = some '#'
    · simp [h, mkURIRef, pure, Except.pure]
    · simp [h, mkLiteral, strText, pure, Except.pure]

/-- a `str` that starts with `#` becomes the URIRef with that text — never a Literal -/
theorem createRdfNode_fragment (c : String) : Gen.RdfQ.createRdfNode (.str ("#" ++ c)) = .ok (.node (.uri ("#" ++ c))) := by
  rw [createRdfNode_tie]
  simp [PCmeta.createRdfNode, String.toList_append, hash_toList]

/-- the result is always `None` or a node -/
theorem createRdfNode_cases (x : RdfArg) :
    PCmeta.createRdfNode x = .none ∨ ∃ n, PCmeta.createRdfNode x = .node n := by
  cases x with
  | none => exact .inl rfl
  | node n => exact .inr ⟨n, rfl⟩
  | pair ns loc => right; simp only [PCmeta.createRdfNode]; split_ifs <;> exact ⟨_, rfl⟩
  | str s => right; simp only [PCmeta.createRdfNode]; split_ifs <;> exact ⟨_, rfl⟩

-- ------------------------------------------------------------------------------------------------ with_ns
/-- `with_ns(XmlNs.RDF, 'RDF')` is the qualified tag of an `<rdf:RDF>` element -/
theorem withNs_rdf : Gen.RdfQ.withNs xmlNsRDF "RDF" = .ok rdfTag :=
  congrArg Except.ok (by decide : Py.fmt "{%s}%s" [xmlNsRDF.value, "RDF"] = rdfTag)

-- ------------------------------------------------------------------------------------------------ Variable
theorem rdfIdentity_tie (v : VarObj) : Gen.RdfQ.rdfIdentity v = .ok v._rdf_identity := rfl

/-- `Variable._set_cmeta_id(c)` = the model's `setCmetaId`, for `None` and for every id; it never raises -/
theorem setCmetaId_tie (v : VarObj) (c : Option String) :
    Gen.RdfQ.setCmetaId v c = .ok (Model.RdfQ.setCmetaId v c) := by
  cases c with
  | none => rfl
  | some c =>
    unfold Gen.RdfQ.setCmetaId Model.RdfQ.setCmetaId
    simp only [Option.isNone_some, strOf, Py.str_add, createRdfNode_fragment, bind, Except.bind, nodeOf, Option.map_some]
    rfl

/-- `variable.rdf_identity` as the view reads it off the hand model's state is what the generated `_set_cmeta_id`
    leaves in the object when it is given the variable's id -/
theorem rdfIdentityOf_gen (a : AState) (v : Nat) (o : VarObj) :
    (Gen.RdfQ.setCmetaId o (cmetaOf a.m v)).map (·._rdf_identity) = .ok (rdfIdentityOf a v) := by
  rw [setCmetaId_tie]; rfl

theorem rdfIdentityOf_eq (a : AState) (v : Nat) :
    rdfIdentityOf a v = (cmetaOf a.m v).map (fun c => RNode.uri ("#" ++ c)) := rfl

-- ------------------------------------------------------------------------------------------------ get_rdf_annotations
/-- an argument of the queries as a pattern position of the model: through `create_rdf_node`, `None` or a node -/
def patOf (x : RdfArg) : Option RNode := nodeOf (PCmeta.createRdfNode x)

theorem argMatches_create (x : RdfArg) (n : RNode) :
    argMatches (PCmeta.createRdfNode x) n = patMatches (patOf x) n := by
  unfold patOf
  rcases createRdfNode_cases x with h | ⟨m, h⟩ <;> rw [h] <;> rfl

/-- `get_rdf_annotations(s, p, o)` for ALL arguments = the model's `annotations`; it never raises -/
theorem getRdfAnnotations_tie (a : AState) (s p o : RdfArg) :
    Gen.RdfQ.getRdfAnnotations a s p o = .ok (annotations a (patOf s) (patOf p) (patOf o)) := by
  unfold Gen.RdfQ.getRdfAnnotations annotations rdfTriples
  simp only [createRdfNode_tie, bind, Except.bind, argMatches_create]
  rfl

theorem getRdfAnnotations_default : Gen.RdfQ.getRdfAnnotations_default_object_ = RdfArg.none := rfl

-- ------------------------------------------------------------------------------------------------ get_rdf_value
def vErrCls : VErr → String
  | .assertionError => "AssertionError"

/-- `get_rdf_value(s, p)` for ALL arguments = the model's `rdfValue`, AssertionError included -/
theorem getRdfValue_tie (a : AState) (s p : RdfArg) :
    Gen.RdfQ.getRdfValue a s p = errClass vErrCls (rdfValue a (patOf s) (patOf p)) := by
  unfold Gen.RdfQ.getRdfValue rdfValue
  simp only [getRdfAnnotations_tie, getRdfAnnotations_default, bind, Except.bind]
  have hn : patOf RdfArg.none = none := rfl
  rw [hn]
  match annotations a (patOf s) (patOf p) none with
  | [] => simp [errClass, vErrCls, throw, throwThe, MonadExceptOf.throw]
  | [t] =>
    cases ho : t.obj with
    | uri x => simp [errClass, vErrCls, listGet, tripleObj, isLiteral, ho, bind, Except.bind, throw, throwThe,
        MonadExceptOf.throw]
    | lit x => simp [errClass, listGet, tripleObj, isLiteral, ho, bind, Except.bind, pyStrip, nodeStr, RNode.text,
        pure, Except.pure]
  | _ :: _ :: _ => simp [errClass, vErrCls, throw, throwThe, MonadExceptOf.throw]

-- ------------------------------------------------------------------------------------------------ get_ontology_terms_by_variable
theorem splitChars_last (l cur : List Char) :
    (splitChars '#' l cur).getLast? = some (afterHash l (cur.reverse ++ l)) := by
  induction l generalizing cur with
  | nil => simp [splitChars, afterHash]
  | cons c r ih =>
    by_cases h : c = '#'
    · simp only [splitChars, h, if_true, afterHash, List.getLast?_cons, ih, List.reverse_nil, List.nil_append,
        Option.getD_some]
    · simp only [splitChars, h, if_false, afterHash, ih, List.reverse_cons, List.append_assoc, List.singleton_append]

/-- `str(object).split('#')[-1]` is the hand model's `localName`; the index never fails -/
theorem listLast_split (s : String) : listLast (pySplit s "#") = .ok (localName s) := by
  unfold listLast pySplit localName
  rw [hash_toList]
  simp only [List.getLast?_map, splitChars_last, List.reverse_nil, List.nil_append, Option.map_some]

/-- `namespace_uri is None or str(object).startswith(namespace_uri)` is the hand model's `nsOk` -/
theorem nsOk_eq (ns : Option String) (o : RNode) :
    (ns.isNone || Py.truthy (pyStartsWith (nodeStr o) (ns.getD ""))) = nsOk ns o := by
  cases ns with
  | none => rfl
  | some n => simp [nsOk, pyStartsWith_eq, nodeStr]

theorem hash_beq (x y : String) : ("#" ++ x == "#" ++ y) = (x == y) := by
  rw [Bool.eq_iff_iff, beq_iff_eq, beq_iff_eq]
  constructor
  · intro h
    have := congrArg String.toList h
    simp only [String.toList_append, List.append_cancel_left_eq] at this
    exact String.toList_inj.mp this
  · intro h; rw [h]

/-- `self.rdf.objects(variable.rdf_identity, bqbiol:is)` for a variable with id `c`: the objects of the triples the hand
    model's `annotationsOf` selects -/
theorem rdfObjects_eq (a : AState) (c : String) :
    rdfObjects a (some (.uri ("#" ++ c))) (.node (.uri bqbiolIs))
      = (a.rdf.filter (fun t => t.subj == c && t.pred == bqbiolIs)).map (fun t => t.obj) := by
  unfold rdfObjects
  congr 1
  apply List.filter_congr
  intro t _
  simp only [patMatches, subjNode, predNode, argMatches, nodeMatches, uri_beq, hash_beq]

/-- the `for object in …` loop of the generated function over any list of objects, from any accumulated list -/
theorem terms_loop (ns : Option String) (l : List RNode) (acc : List String) :
    (forIn l acc (fun object r =>
        let ontology_terms := r
        if (ns.isNone || Py.truthy (pyStartsWith (nodeStr object) (ns.getD ""))) = true then do
          let uri_parts := pySplit (nodeStr object) "#"
          let __do_lift ← listLast uri_parts
          let ontology_terms := ontology_terms ++ [__do_lift]
          pure PUnit.unit
          pure (ForInStep.yield ontology_terms)
        else do
          pure PUnit.unit
          pure (ForInStep.yield ontology_terms)) : Except PyErr (List String))
      = .ok (acc ++ (l.filter (nsOk ns)).map (fun o => localName o.text)) := by
  induction l generalizing acc with
  | nil => simp [pure, Except.pure]
  | cons o r ih =>
    simp only [List.forIn_cons, nsOk_eq, listLast_split, bind, Except.bind, pure, Except.pure] at ih ⊢
    by_cases h : nsOk ns o = true
    · simp only [h, if_true]
      rw [ih]
      simp [List.filter_cons, h, nodeStr]
    · simp only [h, Bool.false_eq_true, if_false]
      rw [ih]
      simp [List.filter_cons, h]

/-- `get_ontology_terms_by_variable(v, ns)` for ALL arguments = the hand model's `termsOf` (Cmeta.lean); it never raises -/
theorem getOntologyTermsByVariable_tie (a : AState) (v : Nat) (ns : Option String) :
    Gen.RdfQ.getOntologyTermsByVariable a v ns = .ok (termsOf a v ns) := by
  unfold Gen.RdfQ.getOntologyTermsByVariable termsOf annotationsOf
  rw [rdfIdentityOf_eq]
  cases hc : cmetaOf a.m v with
  | none => simp [pure, Except.pure]
  | some c =>
    have hp : ((("http://biomodels.net/biology-qualifiers/", "is") : String × String) : RdfArg)
        = .pair "http://biomodels.net/biology-qualifiers/" "is" := rfl
    simp only [Option.map_some, Py.truthy_option, Option.isSome_some, if_true, hp, createRdfNode_tie, bqbiol_is,
      bind, Except.bind, rdfObjects_eq]
    have h := terms_loop ns ((a.rdf.filter (fun t => t.subj == c && t.pred == bqbiolIs)).map (fun t => t.obj)) []
    simp only [bind, Except.bind, pure, Except.pure] at h ⊢
    rw [h]
    simp [List.filter_map, List.map_map, Function.comp_def]

-- ------------------------------------------------------------------------------------------------ has_ontology_annotation
/-- `has_ontology_annotation(v, ns)` = the model's `hasAnnotation` -/
theorem hasOntologyAnnotation_tie (a : AState) (v : Nat) (ns : Option String) :
    Gen.RdfQ.hasOntologyAnnotation a v ns = .ok (hasAnnotation a v ns) := by
  unfold Gen.RdfQ.hasOntologyAnnotation hasAnnotation
  simp only [getOntologyTermsByVariable_tie, bind, Except.bind, pure, Except.pure]
  cases termsOf a v ns <;> simp

-- ------------------------------------------------------------------------------------------------ add_rdf, Parser._add_rdf
/-- `add_rdf(doc)` of a document that parses to `ts`: the hand model's `addRdf` (Cmeta.lean) for each triple in turn … -/
theorem addRdf_tie (a : AState) (ts : List Triple) :
    Gen.RdfQ.addRdf ⟨some ts⟩ a = (.ok (), addRdfDoc a ts) := rfl

/-- … and of a document the parser refuses: the exception, the graph untouched -/
theorem addRdf_bad (a : AState) : Gen.RdfQ.addRdf ⟨none⟩ a = (.error ⟨"SAXParseException"⟩, a) := rfl

/-- the model's fold over the blocks, started from any `(state, still going)` -/
def blocksFold (acc : AState × Bool) (l : List Elem) : AState × Bool :=
  l.foldl (fun (acc : AState × Bool) x =>
      if acc.2 then
        match x.parsed with
        | some ts => (addRdfDoc acc.1 ts, true)
        | none => (acc.1, false)
      else acc) acc

theorem blocksFold_stopped (a : AState) (l : List Elem) : blocksFold (a, false) l = (a, false) := by
  induction l with
  | nil => rfl
  | cons x r ih => simpa [blocksFold] using ih

/-- the `for rdf in …` loop of the generated `_add_rdf` over any list of blocks -/
theorem blocks_loop (l : List Elem) (a : AState) :
    (forIn l PUnit.unit (fun rdf _ => do
        Gen.RdfQ.addRdf (etreeToString rdf)
        pure (ForInStep.yield PUnit.unit)) : M PUnit) a
      = (if (blocksFold (a, true) l).2 then .ok PUnit.unit else .error ⟨"SAXParseException"⟩, (blocksFold (a, true) l).1) := by
  induction l generalizing a with
  | nil => rfl
  | cons x r ih =>
    rw [List.forIn_cons]
    cases hp : x.parsed with
    | none =>
      have h1 : Gen.RdfQ.addRdf (etreeToString x) a = (.error ⟨"SAXParseException"⟩, a) := by
        simp [Gen.RdfQ.addRdf, etreeToString, rdfParseXml, hp]
      have h2 : blocksFold (a, true) (x :: r) = (a, false) := by
        simp only [blocksFold, List.foldl_cons, if_true, hp]
        exact blocksFold_stopped a r
      rw [h2]
      simp only [bind, PyM.bind_apply, h1]
      rfl
    | some ts =>
      have h1 : Gen.RdfQ.addRdf (etreeToString x) a = (.ok (), addRdfDoc a ts) := by
        simp [Gen.RdfQ.addRdf, etreeToString, rdfParseXml, hp, addRdfDoc]
      have h2 : blocksFold (a, true) (x :: r) = blocksFold (addRdfDoc a ts, true) r := by
        simp only [blocksFold, List.foldl_cons, if_true, hp]
      rw [h2, ← ih]
      simp only [bind, PyM.bind_apply, h1]
      rfl

/-- `Parser._add_rdf(element)` = the model's `parserAddRdf`: the state left behind, and `SAXParseException` exactly when a
    block does not parse -/
theorem parserAddRdf_tie (a : AState) (e : Elem) :
    Gen.RdfQ.parserAddRdf e a
      = (if (Model.RdfQ.parserAddRdf a e).2 then .ok () else .error ⟨"SAXParseException"⟩, (Model.RdfQ.parserAddRdf a e).1) := by
  rw [show Model.RdfQ.parserAddRdf a e = blocksFold (a, true) (elemIter e rdfTag) from rfl]
  unfold Gen.RdfQ.parserAddRdf
  simp only [bind, PyM.bind_apply, PyM.rdE_run, withNs_rdf]
  have h := blocks_loop (elemIter e rdfTag) a
  simp only [bind] at h
  rw [h]
  cases (blocksFold (a, true) (elemIter e rdfTag)) with
  | mk s b => cases b <;> rfl

end Cellml.Tie.PRdfQ
