/-! Property theorems for C10 (not built yet). -/
