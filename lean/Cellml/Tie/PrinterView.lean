import Cellml.Tie.Prelude
import Cellml.C11.Rewrite

/-! # What the translated methods of printer.py see of a SymPy expression

    The generated code (`Cellml/Generated/Code/Printer*.lean`) works on python strings and on SymPy objects. A SymPy
    object is a tree `C11.E` of the hand-written model; the accessors below stand for the SymPy / python leaves the
    methods call (`precedence(e)`, `e.is_commutative`, `e.exp`, `-x is S.Half`, `str(n)`, `s.startswith('-')` …).
    The recursive call `self._print(x)` is NOT bound here: the generated definitions take it as a parameter
    `print : E → Except PyErr String` (open recursion). Core Lean only. -/

namespace Cellml.Tie.PPrinter
open C11

/-- python `+` on strings -/
instance : Add String := ⟨String.append⟩
@[simp] theorem str_add (a b : String) : a + b = a ++ b := rfl

/-- python `s * n` on a string -/
instance : HMul String Nat String := ⟨fun s n => String.join (List.replicate n s)⟩
theorem str_mul (s : String) (n : Nat) : s * n = String.join (List.replicate n s) := rfl

/-- python `str(x)` -/
class PyStr (α : Type) where
  str : α → String

/-- `str(n)` of a python int -/
instance : PyStr Int := ⟨fun n => toString n⟩
instance : PyStr Nat := ⟨fun n => toString n⟩
/-- a python float is represented by its `repr` (this is what `E.flt` stores) -/
instance : PyStr String := ⟨id⟩

/-- a python list `xs[0]` -/
def idx0 {α} : List α → Except PyErr α
  | [] => .error ⟨"IndexError"⟩
  | a :: _ => .ok a

/-- the elements of a `cons`-list -/
def elems : E → List E
  | .cons h t => h :: elems t
  | _ => []

/-- `expr.args` of an n-ary node (`Add`, `Mul`, `And`, `Or`, a function application) -/
def argsOf : E → List E
  | .add a | .mul a | .and a | .or a | .fn _ a => elems a
  | _ => []

/-- `expr.args` of a `Piecewise`: its `(value, condition)` pairs -/
def pairOf : E → E × E
  | .pair v c => (v, c)
  | e => (e, .nil)
def pairsOf : E → List (E × E)
  | .pw a => (elems a).map pairOf
  | _ => []

/-- `isinstance(c, BooleanTrue)` -/
def isTrue : E → Bool
  | .tt => true
  | _ => false

/-- `isinstance(expr, sympy.Pow)` -/
def isPow : E → Bool
  | .pow _ _ => true
  | _ => false

/-- `expr.exp` / `expr.base` of a `Pow` -/
def expOf : E → E
  | .pow _ x => x
  | _ => .nil
def baseOf : E → E
  | .pow b _ => b
  | _ => .nil

/-- `x is sympy.S.Half` -/
def isHalf (x : E) : Bool := x == .rat 1 2
/-- `-x is sympy.S.Half`: SymPy evaluates the negation; for every exponent that is a number or an opaque term this is
    `x = -1/2` (held compound exponents that evaluate to a constant are outside the model: `C11.constCompound`) -/
def negIsHalf (x : E) : Bool := x == .rat (-1) 2
/-- `-x is sympy.S.One` (same remark) -/
def negIsOne (x : E) : Bool := x == .int (-1)

/-- `expr.lhs`, `expr.rhs`, `expr.rel_op` of a `Relational` -/
def lhsOf : E → E
  | .rel _ a _ => a
  | _ => .nil
def rhsOf : E → E
  | .rel _ _ b => b
  | _ => .nil
def relOp : E → String
  | .rel r _ _ => r.text
  | _ => ""

/-- `expr.func.__name__` -/
def funcName : E → String
  | .fn n _ => n
  | _ => ""

/-- `expr.p`, `expr.q` of an `Integer` / `Rational` -/
def pOf : E → Int
  | .int n => n
  | .rat p _ => p
  | _ => 0
def qOf : E → Nat
  | .rat _ q => q
  | _ => 1

/-- `float(expr)` of a `Float`: the python float, represented by its `repr` -/
def floatOf : E → String
  | .flt t _ => t
  | _ => ""

/-- `self._function_names[k]` (KeyError) and `self._function_names.get(k, None)`: the generated table -/
def fnNamesIdx (k : String) : Except PyErr String :=
  match fnName k with
  | some v => .ok v
  | none => .error ⟨"KeyError"⟩
def fnNamesGet (k : String) : Option String := fnName k

/-- `self._literal_names[k]` -/
def litNamesIdx (k : String) : Except PyErr String :=
  match lookup Cellml.Gen.printerLiteralNames k with
  | some v => .ok v
  | none => .error ⟨"KeyError"⟩

/-- `self._symbol_function(expr)` with the default `str` -/
def symbolFunction : E → String
  | .sym n _ => n
  | _ => ""

/-- `isinstance(expr, sympy.Expr)`: arithmetic expressions (not relations, `And`/`Or`, `true`/`false`) -/
def isExpr : E → Bool
  | .rel _ _ _ | .and _ | .or _ | .tt | .ff | .pair _ _ | .nil | .cons _ _ => false
  | _ => true

/-- `x.is_Rational` (an `Integer` is a `Rational`) -/
def isRational : E → Bool
  | .int _ | .rat _ _ => true
  | _ => false

/-- SymPy's evaluated `Pow(b, x)` where `x` is the negation of a negative rational: `Pow(b, 1)` is `b` -/
def powEval (b x : E) : E := if x == .int 1 then b else .pow b x

/-- `item.args[0]` of a `Pow`: its base -/
def arg0 : E → E
  | .pow b _ => b
  | _ => .nil

end Cellml.Tie.PPrinter
