import Mathlib.Algebra.Field.Basic
import Mathlib.Algebra.GroupWithZero.Basic
import Mathlib.Tactic.Ring
import Mathlib.Tactic.FieldSimp

/-! Spike: scales as unnormalised prime-exponent lists. Multiplication is append, inverse negates,
    equality is decided on a normal form whose interpretation provably equals the original. -/

abbrev Scale := List (Nat × Int)

def Scale.mul (a b : Scale) : Scale := a ++ b
def Scale.inv (a : Scale) : Scale := a.map (fun (p, e) => (p, -e))
def Scale.pow (a : Scale) (n : Int) : Scale := a.map (fun (p, e) => (p, e * n))

/-- insert into an association list sorted by prime, adding exponents, dropping zeros -/
def ins (p : Nat) (e : Int) : Scale → Scale
  | [] => if e = 0 then [] else [(p, e)]
  | (q, f) :: t =>
      if p < q then (if e = 0 then (q, f) :: t else (p, e) :: (q, f) :: t)
      else if p = q then (if e + f = 0 then t else (q, e + f) :: t)
      else (q, f) :: ins p e t

def norm : Scale → Scale
  | [] => []
  | (p, e) :: t => ins p e (norm t)

#eval norm [(5, 3), (2, -3), (5, -3), (2, 1), (3, 0)]     -- [(2, -2)]

variable {K : Type} [Field K]

/-- interpretation; primes are assumed non-zero in K (characteristic 0) -/
noncomputable def interp : Scale → K
  | [] => 1
  | (p, e) :: t => (p : K) ^ e * interp t

theorem interp_mul (a b : Scale) : (interp (a.mul b) : K) = interp a * interp b := by
  induction a with
  | nil => simp [Scale.mul, interp]
  | cons h t ih =>
      obtain ⟨p, e⟩ := h
      simp only [Scale.mul, List.cons_append, interp] at *
      rw [ih]; ring

theorem interp_ins [CharZero K] (p : Nat) (hp : p ≠ 0) (e : Int) (s : Scale) :
    (interp (ins p e s) : K) = (p : K) ^ e * interp s := by
  have hpK : (p : K) ≠ 0 := by exact_mod_cast hp
  induction s with
  | nil => unfold ins; split <;> simp_all [interp]
  | cons h t ih =>
      obtain ⟨q, f⟩ := h
      unfold ins
      split
      · split <;> simp_all [interp]
      · split
        · rename_i hpq; subst hpq
          split
          · rename_i hz
            have : (p : K) ^ e * ((p : K) ^ f * interp t) = (p : K) ^ (e + f) * interp t := by
              rw [zpow_add₀ hpK]; ring
            simp only [interp]; rw [this, hz]; simp
          · simp only [interp]; rw [zpow_add₀ hpK]; ring
        · simp only [interp, ih]; ring

theorem interp_norm [CharZero K] (s : Scale) (hs : ∀ x ∈ s, x.1 ≠ 0) : (interp (norm s) : K) = interp s := by
  induction s with
  | nil => simp [norm, interp]
  | cons h t ih =>
      obtain ⟨p, e⟩ := h
      simp only [norm, interp]
      rw [interp_ins p (hs (p, e) (by simp)) e, ih (fun x hx => hs x (by simp [hx]))]

/-- soundness of the decidable equality test used by the executable model -/
theorem norm_eq_sound [CharZero K] (a b : Scale) (ha : ∀ x ∈ a, x.1 ≠ 0) (hb : ∀ x ∈ b, x.1 ≠ 0)
    (h : norm a = norm b) : (interp a : K) = interp b := by
  rw [← interp_norm a ha, ← interp_norm b hb, h]

#print axioms norm_eq_sound
