import Cellml.C06.CaseFree
import Cellml.C06.Meta

/-! C06: unit consistency of the equations (`units.evaluate_units` of both sides equivalent), with a unit as a scale
    and a vector of dimension exponents, is preserved by `convert_variable`. -/

namespace Model.CV
open Model

-- ================================================================================================ unit algebra
theorem Dim.add_sub_cancel (a b : Dim) : a.add (b.sub a) = b := by
  cases a; cases b; simp only [Dim.add, Dim.sub, Dim.mk.injEq]; omega

theorem Dim.sub_sub_sub (a b c : Dim) : (a.sub b).sub (c.sub b) = a.sub c := by
  cases a; cases b; cases c; simp only [Dim.sub, Dim.mk.injEq]; omega

theorem Dim.sub_add_sub (a b c : Dim) : (a.sub b).add (c.sub a) = c.sub b := by
  cases a; cases b; cases c; simp only [Dim.add, Dim.sub, Dim.mk.injEq]; omega

theorem Dim.sub_sub_self (a b : Dim) : a.sub (a.sub b) = b := by
  cases a; cases b; simp only [Dim.sub, Dim.mk.injEq]; omega

/-- `v · (u / v) = u` -/
theorem U.mul_div_cancel (v u : U) (hv : v.scale ≠ 0) : v.mul (u.div v) = u := by
  cases v with | mk vs vd => cases u with | mk us ud =>
  simp only [U.mul, U.div, U.mk.injEq, Dim.add_sub_cancel, and_true]
  simp only at hv; field_simp

/-- `u / (u / v) = v` -/
theorem U.div_div_self (u v : U) (hu : u.scale ≠ 0) : u.div (u.div v) = v := by
  cases v with | mk vs vd => cases u with | mk us ud =>
  simp only [U.div, U.mk.injEq, Dim.sub_sub_self, and_true]
  simp only at hu
  by_cases hv : vs = 0
  · simp [hv]
  · field_simp

/-- `(x / t) · (u / x) = u / t` -/
theorem U.state_law (x t u : U) (hx : x.scale ≠ 0) : (x.div t).mul (u.div x) = u.div t := by
  cases x with | mk xs xd => cases t with | mk ts td => cases u with | mk us ud =>
  simp only [U.mul, U.div, U.mk.injEq, Dim.sub_add_sub, and_true]
  simp only at hx; field_simp

/-- `(x / t) / (u / t) = x / u` -/
theorem U.free_law (x t u : U) (ht : t.scale ≠ 0) : (x.div t).div (u.div t) = x.div u := by
  cases x with | mk xs xd => cases t with | mk ts td => cases u with | mk us ud =>
  simp only [U.div, U.mk.injEq, Dim.sub_sub_sub, and_true]
  simp only at ht
  by_cases hu : us = 0
  · simp [hu]
  · field_simp

-- ================================================================================================ units of expressions
/-- both sides of the equation have the same units -/
def Consistent (J : UI) (s : CState) (e : CEqn) : Prop := unitOf J s e.rhs = some (lhsUnit s e.lhs)

/-- the model is unit-consistent -/
def UnitsOK (J : UI) (s : CState) : Prop := ∀ e ∈ s.equations, Consistent J s e

theorem unitOf_congr (J : UI) (s s' : CState) (e : X) (h : ∀ i ∈ e.vars, unitOfV s' i = unitOfV s i) :
    unitOf J s' e = unitOf J s e := by
  induction e with
  | var v => simp only [unitOf]; rw [h v (by simp [X.vars])]
  | deriv x t => simp only [unitOf]; rw [h x (by simp [X.vars]), h t (by simp [X.vars])]
  | lit q u => rfl
  | add a b iha ihb | sub a b iha ihb | mul a b iha ihb | div a b iha ihb | fn2 f a b iha ihb =>
    simp only [X.vars, List.mem_append] at h
    simp only [unitOf, iha (fun i hi => h i (Or.inl hi)), ihb (fun i hi => h i (Or.inr hi))]
  | fn1 f a iha =>
    simp only [X.vars] at h
    simp only [unitOf, iha h]

theorem consistent_congr (J : UI) {s s' : CState} {n : Nat} {e : CEqn} (hs : EqScoped n e)
    (h : ∀ i, i < n → unitOfV s' i = unitOfV s i) : Consistent J s' e ↔ Consistent J s e := by
  obtain ⟨hl, hr⟩ := (eqScoped_iff n e).mp hs
  unfold Consistent
  rw [unitOf_congr J s s' e.rhs (fun i hi => h i (hr i hi))]
  have : lhsUnit s' e.lhs = lhsUnit s e.lhs := by
    cases hle : e.lhs with
    | var v => simp only [lhsUnit]; exact h v (hl v (by simp [hle, CLhs.vars]))
    | deriv x t =>
      simp only [lhsUnit]
      rw [h x (hl x (by simp [hle, CLhs.vars])), h t (hl t (by simp [hle, CLhs.vars]))]
  rw [this]

/-- rewriting derivatives into variables that carry the derivative's units does not change the units -/
theorem unitOf_subst (J : UI) (s : CState) (rep : Rep)
    (hr : ∀ k w, rep.lookup k = some w → unitOfV s w = (unitOfV s k.1).div (unitOfV s k.2)) (e : X) :
    unitOf J s (e.subst rep) = unitOf J s e := by
  induction e with
  | var v => rfl
  | deriv x t =>
    simp only [X.subst]
    cases hl : rep.lookup (x, t) with
    | none => rfl
    | some w => simp only [unitOf, hr (x, t) w hl]
  | lit q u => rfl
  | add a b iha ihb | sub a b iha ihb | mul a b iha ihb | div a b iha ihb | fn2 f a b iha ihb =>
    simp only [X.subst, unitOf, iha, ihb]
  | fn1 f a iha => simp only [X.subst, unitOf, iha]

theorem consistent_substEq (J : UI) (s : CState) (rep : Rep)
    (hr : ∀ k w, rep.lookup k = some w → unitOfV s w = (unitOfV s k.1).div (unitOfV s k.2)) {e : CEqn}
    (hn : NoLhs rep e) (hc : Consistent J s e) : Consistent J s (substEq rep e) := by
  unfold Consistent substEq at *
  simp only [unitOf_subst J s rep hr, substLhs_of_noLhs hn]; exact hc

end Model.CV
