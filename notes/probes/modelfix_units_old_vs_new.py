"""MODELFIX_Units: the new corpus cases of harness/props/c07.py / c16.py on the OLD compiled driver (/verif, read only)
and on the repaired one. Run: CELLML_REPO=/repo PYTHONPATH=/repo /venv/bin/python notes/probes/modelfix_units_old_vs_new.py"""
import importlib
import os
import subprocess
import sys

HERE = os.path.dirname(os.path.abspath(__file__))
sys.path.insert(0, os.path.join(HERE, '..', '..', 'harness'))
import common  # noqa: E402

OLD = os.environ.get('OLD_DRIVER', '/verif/lean/.lake/build/bin/driver')
NEW = common.DRIVER


for prop, idx in (('c07', 1), ('c16', 3)):
    mod = importlib.import_module('props.' + prop)
    case = mod.corpus()[idx]
    obs = mod.impl(case)
    reqs = mod.requests(case, obs)
    for name, drv in (('old /verif driver', OLD), ('repaired driver', NEW)):
        p = subprocess.run([drv], input='\n'.join(reqs) + '\n', capture_output=True, text=True, timeout=600)
        replies = [common.parse_sx(l) for l in p.stdout.strip().split('\n')]
        print('%s corpus[%d] on the %s: compare -> %r' % (prop.upper(), idx, name, mod.compare(case, obs, replies)))
    if prop == 'c07':
        print('   implementation, definitions:', obs['defs'])
    else:
        print('   implementation, operations:', [st['r'] if not isinstance(st['r'], list) else st['r'][:2] for st in obs['steps']])

# the order of the tests alone (deviation 2): the name is tested before the expression is evaluated
mod = importlib.import_module('props.c16')
case = {'kind': 'stores', 'ops': [['store', None], ['def', 0, 'metre', [{'units': 'second', 'exponent': 'x'}]]]}
obs = mod.impl(case)
reqs = mod.requests(case, obs)
for name, drv in (('old /verif driver', OLD), ('repaired driver', NEW)):
    p = subprocess.run([drv], input='\n'.join(reqs) + '\n', capture_output=True, text=True, timeout=600)
    replies = [common.parse_sx(l) for l in p.stdout.strip().split('\n')]
    print("C16 add_unit('metre', '((second)**x)') on the %s: compare -> %r" % (name, mod.compare(case, obs, replies)))
