import Cellml.Expr.Infer

/-! Outcome classes of the C04 model of `UnitCalculator.traverse` (lean/Cellml/Expr/Infer.lean): the only failures that
    are not `UnitError`s are the three magnitude-arithmetic exceptions (Python arithmetic on the magnitudes that
    `traverse` carries along), and they need a power, a derivative, floor / ceiling or exp. Proof file. -/

namespace C18.InferClass
open Infer

/-- an error is a `UnitError`, or one of the magnitude-arithmetic exceptions -/
def MagErr : UnitErr → Prop
  | .otherException w => w = "ZeroDivisionError" ∨ w = "OverflowError" ∨ w = "TypeError"
  | _ => True

/-- an error is a `UnitError` -/
def UnitErrOnly : UnitErr → Prop
  | .otherException _ => False
  | _ => True

structure Fine (P : UnitErr → Prop) {α : Type} (x : Except UnitErr α) : Prop where
  h : ∀ err, x = .error err → P err

theorem Fine.ok {P : UnitErr → Prop} {α : Type} (a : α) : Fine P (Except.ok a : Except UnitErr α) := by
  constructor; intro err h; cases h

theorem Fine.pure {P : UnitErr → Prop} {α : Type} (a : α) : Fine P (pure a : Except UnitErr α) := Fine.ok a

theorem Fine.error {P : UnitErr → Prop} {α : Type} {err : UnitErr} (h : P err) :
    Fine P (Except.error err : Except UnitErr α) := by
  constructor; intro err' h'; cases h'; exact h

theorem Fine.throw {P : UnitErr → Prop} {α : Type} {err : UnitErr} (h : P err) :
    Fine P (throw err : Except UnitErr α) := Fine.error h

theorem Fine.bind {P : UnitErr → Prop} {α β : Type} {x : Except UnitErr α} {f : α → Except UnitErr β}
    (hx : Fine P x) (hf : ∀ a, Fine P (f a)) : Fine P (x >>= f) := by
  constructor
  intro err h
  cases x with
  | error e => simp [Bind.bind, Except.bind] at h; subst h; exact hx.h _ rfl
  | ok a => exact (hf a).h err h

theorem fine_finish {P : UnitErr → Prop} (hu : P .unexpectedMath) (ha : P .argsInvalidUnits) (reg : Registry)
    (l : List (M × Container)) : Fine P (finish reg l) := by
  cases l with
  | nil => exact Fine.error hu
  | cons q rest => simp only [finish]; split; exact Fine.ok _; exact Fine.error ha

theorem fine_varQ {P : UnitErr → Prop} (hs : ∀ w, P (.unsupported w)) (Γ : VarEnv) (i : Nat) : Fine P (varQ Γ i) := by
  unfold varQ
  split
  · exact Fine.error (hs _)
  · split
    · split <;> exact Fine.ok _
    · exact Fine.ok _

theorem fine_divM (a b : M) : Fine MagErr (divM a b) := by
  unfold divM; split <;> (try split) <;> first | exact Fine.ok _ | exact Fine.error (Or.inl rfl)

theorem fine_powM (a b : M) : Fine MagErr (powM a b) := by
  unfold powM
  repeat' split
  all_goals first
    | exact Fine.ok _
    | exact Fine.error (Or.inl rfl)
    | exact Fine.error trivial
    | (simp only []; split <;> first | exact Fine.ok _ | exact Fine.error trivial)

theorem fine_floorM (up : Bool) (m : M) : Fine MagErr (floorM up m) := by
  unfold floorM; split <;> first | exact Fine.ok _ | exact Fine.error (Or.inr (Or.inr rfl))

/-- one proof step over the `do` blocks of `trav`: leaves are closed by the lemmas above, binds are split -/
macro "fine_step" : tactic => `(tactic| first
  | assumption
  | exact Fine.ok _
  | exact Fine.pure _
  | exact fine_finish (by simp [MagErr]) (by simp [MagErr]) _ _
  | exact fine_varQ (by simp [MagErr]) _ _
  | exact fine_divM _ _
  | exact fine_powM _ _
  | exact fine_floorM _ _
  | exact Fine.throw (Fine.h ‹_› _ ‹_›)
  | (refine Fine.error ?_; simp [MagErr]; done)
  | (refine Fine.throw ?_; simp [MagErr]; done)
  | (apply Fine.bind)
  | split
  | (intro _))

/-- every failure of `trav` is a `UnitError` or a magnitude-arithmetic exception -/
theorem fine_trav (reg : Registry) (Γ : VarEnv) : ∀ x : E, Fine MagErr (trav reg Γ x) := by
  intro x
  induction x <;> simp only [trav] <;> repeat' fine_step

theorem traverse_class (reg : Registry) (Γ : VarEnv) (x : E) (w : String)
    (h : traverse reg Γ x = .error (.otherException w)) :
    w = "ZeroDivisionError" ∨ w = "OverflowError" ∨ w = "TypeError" := by
  have hf : Fine MagErr (traverse reg Γ x) := by
    unfold traverse
    exact Fine.bind (fine_trav reg Γ x) (fun l => fine_finish (by simp [MagErr]) (by simp [MagErr]) reg l)
  exact hf.h _ h

/-- no power, derivative, floor, ceiling or exp anywhere in the tree -/
def noMagnitudeOps : E → Bool
  | .pow _ _ | .deriv _ _ | .floor _ | .ceil _ => false
  | .fn1 f a => f != "exp" && noMagnitudeOps a
  | .add a b | .mul a b | .fnN _ a b | .rel _ a b | .and a b | .or a b => noMagnitudeOps a && noMagnitudeOps b
  | .abs a | .not a => noMagnitudeOps a
  | .ite c t el => noMagnitudeOps c && noMagnitudeOps t && noMagnitudeOps el
  | _ => true

macro "strict_step" : tactic => `(tactic| first
  | assumption
  | exact Fine.ok _
  | exact Fine.pure _
  | exact fine_finish (by simp [UnitErrOnly]) (by simp [UnitErrOnly]) _ _
  | exact fine_varQ (by simp [UnitErrOnly]) _ _
  | exact Fine.throw (Fine.h ‹_› _ ‹_›)
  | (refine Fine.error ?_; simp [UnitErrOnly]; done)
  | (refine Fine.throw ?_; simp [UnitErrOnly]; done)
  | (apply Fine.bind)
  | split
  | (intro _)
  | (exfalso; simp_all [bne_iff_ne, beq_iff_eq]; done))

theorem strict_trav (reg : Registry) (Γ : VarEnv) :
    ∀ x : E, noMagnitudeOps x = true → Fine UnitErrOnly (trav reg Γ x) := by
  intro x
  induction x <;> intro hm <;> simp only [noMagnitudeOps, Bool.and_eq_true] at hm <;>
    (try simp_all only [forall_const]) <;> (try (simp at hm; done)) <;> simp only [trav] <;>
    repeat' strict_step

theorem traverse_strict (reg : Registry) (Γ : VarEnv) (x : E) (hm : noMagnitudeOps x = true) (w : String) :
    traverse reg Γ x ≠ .error (.otherException w) := by
  intro h
  have hf : Fine UnitErrOnly (traverse reg Γ x) := by
    unfold traverse
    exact Fine.bind (strict_trav reg Γ x hm)
      (fun l => fine_finish (by simp [UnitErrOnly]) (by simp [UnitErrOnly]) reg l)
  exact hf.h _ h

end C18.InferClass
