import Cellml.Expr.Convert
import Cellml.Expr.InferLemmas
import Cellml.Props.C07

/-! Structural facts about the model of `convert_expression_recursively`: what `maybe_convert_expr` can return, and one
    inversion lemma per constructor (a successful conversion determines the recursive calls that were made and the shape
    of the result). No semantics here; the property theorems are in `Cellml/Props/C05.lean`. -/

namespace Convert
open Units Infer PMap

theorem bind_ok {ε α β : Type} {x : Except ε α} {f : α → Except ε β} {r : β} (h : (x >>= f) = .ok r) :
    ∃ a, x = .ok a ∧ f a = .ok r := by
  cases x with
  | error e => cases h
  | ok a => exact ⟨a, rfl, h⟩

theorem bind_error {ε α β : Type} {x : Except ε α} {f : α → Except ε β} {err : ε} (h : (x >>= f) = .error err) :
    x = .error err ∨ ∃ a, x = .ok a ∧ f a = .error err := by
  cases x with
  | error e => left; simpa [bind, Except.bind] using h
  | ok a => exact Or.inr ⟨a, rfl, h⟩

/-! ### `maybe_convert_expr` -/

/-- everything `maybe_convert_expr` can return: unchanged in the source unit (no target), unchanged in the target unit
    (factor one), or multiplied by the factor `f = scale frm / scale t` as a Quantity in `t / frm` -/
theorem maybeConv_spec {reg : Registry} {ex : E} {wc : Bool} {frm : Container} {tgt : Option Container} {same : Bool}
    {r : CR} (h : maybeConv reg ex wc frm tgt same = .ok r) :
    (tgt = none ∧ r = ⟨ex, wc, frm, same⟩) ∨
    (∃ t, tgt = some t ∧ factor reg frm t = .ok [] ∧ r = ⟨ex, wc, t, same⟩) ∨
    (∃ t f, tgt = some t ∧ factor reg frm t = .ok f ∧ f ≠ [] ∧
        r = ⟨.mul (.cf f (divC t frm)) ex, true, t, false⟩) := by
  cases tgt with
  | none =>
      simp only [maybeConv, Except.ok.injEq] at h
      exact Or.inl ⟨rfl, h.symm⟩
  | some t =>
      right
      simp only [maybeConv, conversionFactor] at h
      cases hf : factor reg frm t with
      | error e' => rw [hf] at h; cases e' <;> simp at h
      | ok f =>
          rw [hf] at h
          by_cases hnil : f = []
          · subst hnil
            simp only [if_true, Except.ok.injEq] at h
            exact Or.inl ⟨t, rfl, hf, h.symm⟩
          · simp only [hnil, if_false, Except.ok.injEq] at h
            exact Or.inr ⟨t, f, rfl, hf, hnil, h.symm⟩

/-- with an explicit target the result is in the target unit, and the two units have the same dimension -/
theorem maybeConv_some {reg : Registry} {ex : E} {wc : Bool} {frm t : Container} {same : Bool} {r : CR}
    (h : maybeConv reg ex wc frm (some t) same = .ok r) :
    r.u = t ∧ ∃ f, factor reg frm t = .ok f := by
  rcases maybeConv_spec h with ⟨h1, _⟩ | ⟨t', h1, hf, rfl⟩ | ⟨t', f, h1, hf, _, rfl⟩
  · cases h1
  · cases h1; exact ⟨rfl, _, hf⟩
  · cases h1; exact ⟨rfl, _, hf⟩

theorem maybeConv_none {reg : Registry} {ex : E} {wc : Bool} {frm : Container} {same : Bool} :
    maybeConv reg ex wc frm none same = .ok ⟨ex, wc, frm, same⟩ := rfl

/-- every error of `maybe_convert_expr`: a UnitConversionError exactly when pint reports a DimensionalityError,
    otherwise a Python-level exception that is not a UnitError (a unit name the registry does not know) -/
theorem maybeConv_error {reg : Registry} {ex : E} {wc : Bool} {frm : Container} {tgt : Option Container} {same : Bool}
    {err : UnitErr} (h : maybeConv reg ex wc frm tgt same = .error err) :
    ∃ t, tgt = some t ∧
      ((err = .cannotConvert ∧ factor reg frm t = .error .dimensionality) ∨
       (err = .otherException "UndefinedUnitError" ∧ ∃ e', factor reg frm t = .error e' ∧ e' ≠ .dimensionality)) := by
  cases tgt with
  | none => simp [maybeConv] at h
  | some t =>
      refine ⟨t, rfl, ?_⟩
      simp only [maybeConv, conversionFactor] at h
      cases hf : factor reg frm t with
      | ok f => rw [hf] at h; by_cases hnil : f = [] <;> simp [hnil] at h
      | error e' =>
          rw [hf] at h
          cases e' with
          | dimensionality => simp only [Except.error.injEq] at h; exact Or.inl ⟨h.symm, rfl⟩
          | undefinedUnit =>
              simp only [Except.error.injEq] at h; exact Or.inr ⟨h.symm, _, rfl, by intro hc; cases hc⟩
          | valueError =>
              simp only [Except.error.injEq] at h; exact Or.inr ⟨h.symm, _, rfl, by intro hc; cases hc⟩
          | other w =>
              simp only [Except.error.injEq] at h; exact Or.inr ⟨h.symm, _, rfl, by intro hc; cases hc⟩

/-- between known units: UnitConversionError iff the dimensions differ -/
theorem maybeConv_cannotConvert_iff {reg : Registry} {ex : E} {wc : Bool} {frm t : Container} {same : Bool}
    (hk : allKnown reg frm = true) (hk' : allKnown reg t = true) :
    maybeConv reg ex wc frm (some t) same = .error .cannotConvert ↔ ¬ dimsOf reg frm ≃ dimsOf reg t := by
  constructor
  · intro h hd
    obtain ⟨f, hf⟩ := Cellml.Props.C07.same_dims_convert reg frm t hk hk' hd
    obtain ⟨t', ht', hcase⟩ := maybeConv_error h
    cases ht'
    rcases hcase with ⟨_, h2⟩ | ⟨h1, _⟩
    · rw [hf] at h2; cases h2
    · cases h1
  · intro hd
    have := Cellml.Props.C07.mismatch_is_error' reg frm t hk hk' hd
    simp only [maybeConv, conversionFactor, this]

/-! ### inversion: a successful conversion determines the recursive calls and the shape of the result -/

section inversion
variable {reg : Registry} {Γ : VarEnv} {tgt : Option Container} {r : CR}

private theorem throw_bind_ne {α : Type} {err : UnitErr} {f : PUnit → Except UnitErr α} {r : α} :
    ((throw err : Except UnitErr PUnit) >>= f) ≠ .ok r := by
  intro h; cases h

theorem convert_var_inv {i : Nat} (h : convert reg Γ (.var i) tgt = .ok r) :
    ∃ vi, Γ[i]? = some vi ∧ maybeConv reg (.var i) false vi.unit tgt true = .ok r := by
  simp only [convert] at h
  split at h
  · rename_i vi hvi; exact ⟨vi, hvi, h⟩
  · cases h

theorem convert_deriv_inv {v t : Nat} (h : convert reg Γ (.deriv v t) tgt = .ok r) :
    ∃ vv vt, Γ[v]? = some vv ∧ Γ[t]? = some vt ∧
      maybeConv reg (.deriv v t) false (divC vv.unit vt.unit) tgt true = .ok r := by
  simp only [convert] at h
  split at h
  · rename_i vv vt hvv hvt; exact ⟨vv, vt, hvv, hvt, h⟩
  · cases h

theorem convert_mul_inv {a b : E} (h : convert reg Γ (.mul a b) tgt = .ok r) :
    ∃ ra rb, convert reg Γ a none = .ok ra ∧ convert reg Γ b none = .ok rb ∧
      maybeConv reg (if (ra.wc || rb.wc) = true then .mul ra.e rb.e else .mul a b) (ra.wc || rb.wc)
        (mulC ra.u rb.u) tgt (!(ra.wc || rb.wc)) = .ok r := by
  simp only [convert] at h
  obtain ⟨ra, hra, h⟩ := bind_ok h
  obtain ⟨rb, hrb, h⟩ := bind_ok h
  exact ⟨ra, rb, hra, hrb, h⟩

theorem convert_pow_inv {b x : E} (h : convert reg Γ (.pow b x) tgt = .ok r) :
    ∃ rx q rb, convert reg Γ x (some []) = .ok rx ∧ evalClosed rx.e = some (some q) ∧
      convert reg Γ b none = .ok rb ∧
      maybeConv reg (if (rx.wc || rb.wc) = true then .pow rb.e rx.e else .pow b x) (rx.wc || rb.wc)
        (powC rb.u q) tgt (!(rx.wc || rb.wc)) = .ok r := by
  simp only [convert] at h
  obtain ⟨rx, hrx, h⟩ := bind_ok h
  split at h
  · cases h
  · cases h
  · rename_i q hq
    obtain ⟨q', hq', h⟩ := bind_ok h
    cases hq'
    obtain ⟨rb, hrb, h⟩ := bind_ok h
    exact ⟨rx, q, rb, hrx, hq, hrb, h⟩

theorem convert_add_inv {a b : E} (h : convert reg Γ (.add a b) tgt = .ok r) :
    ∃ ra rb, convert reg Γ a tgt = .ok ra ∧ convert reg Γ b (some (tgt.getD ra.u)) = .ok rb ∧
      r = ⟨if (ra.wc || rb.wc) = true then .add ra.e rb.e else .add a b, ra.wc || rb.wc, rb.u, !(ra.wc || rb.wc)⟩ := by
  simp only [convert] at h
  obtain ⟨ra, hra, h⟩ := bind_ok h
  obtain ⟨rb, hrb, h⟩ := bind_ok h
  simp only [pure, Except.pure, Except.ok.injEq] at h
  exact ⟨ra, rb, hra, hrb, h.symm⟩

theorem convert_rel_inv {rr : Rel} {a b : E} (h : convert reg Γ (.rel rr a b) tgt = .ok r) :
    dimlessTarget tgt = true ∧ ∃ ra rb, convert reg Γ a none = .ok ra ∧ convert reg Γ b (some ra.u) = .ok rb ∧
      r = ⟨if (ra.wc || rb.wc) = true then .rel rr ra.e rb.e else .rel rr a b, ra.wc || rb.wc, [],
            !(ra.wc || rb.wc)⟩ := by
  simp only [convert] at h
  split at h
  · exact absurd h throw_bind_ne
  · rename_i hd
    obtain ⟨ra, hra, h⟩ := bind_ok h
    obtain ⟨rb, hrb, h⟩ := bind_ok h
    simp only [pure, Except.pure, Except.ok.injEq] at h
    exact ⟨by simpa using hd, ra, rb, hra, hrb, h.symm⟩

theorem convert_ite_inv {c t el : E} (h : convert reg Γ (.ite c t el) tgt = .ok r) :
    ∃ rt rc, convert reg Γ t tgt = .ok rt ∧ convert reg Γ c (some []) = .ok rc ∧
      ((el = .undef ∧
          r = ⟨if (rt.wc || rc.wc) = true then .ite rc.e rt.e .undef else .ite c t .undef, rt.wc || rc.wc, rt.u,
                !(rt.wc || rc.wc)⟩) ∨
       (el ≠ .undef ∧ ∃ re, convert reg Γ el (some (tgt.getD rt.u)) = .ok re ∧
          r = ⟨if (rt.wc || rc.wc || re.wc) = true then .ite rc.e rt.e re.e else .ite c t el,
                rt.wc || rc.wc || re.wc, re.u, !(rt.wc || rc.wc || re.wc)⟩)) := by
  simp only [convert] at h
  obtain ⟨rt, hrt, h⟩ := bind_ok h
  obtain ⟨rc, hrc, h⟩ := bind_ok h
  refine ⟨rt, rc, hrt, hrc, ?_⟩
  split at h
  · rename_i hel
    simp only [pure, Except.pure, Except.ok.injEq] at h
    exact Or.inl ⟨hel, h.symm⟩
  · rename_i hel
    obtain ⟨re, hre, h⟩ := bind_ok h
    simp only [pure, Except.pure, Except.ok.injEq] at h
    exact Or.inr ⟨hel, re, hre, h.symm⟩

theorem convert_abs_inv {a : E} (h : convert reg Γ (.abs a) tgt = .ok r) :
    ∃ ra, convert reg Γ a tgt = .ok ra ∧
      r = ⟨if ra.wc = true then .abs ra.e else .abs a, ra.wc, ra.u, !ra.wc⟩ := by
  simp only [convert] at h
  obtain ⟨ra, hra, h⟩ := bind_ok h
  simp only [pure, Except.pure, Except.ok.injEq] at h
  exact ⟨ra, hra, h.symm⟩

theorem convert_floor_inv {a : E} (h : convert reg Γ (.floor a) tgt = .ok r) :
    ∃ ra, convert reg Γ a tgt = .ok ra ∧
      r = ⟨if ra.wc = true then .floor ra.e else .floor a, ra.wc, ra.u, !ra.wc⟩ := by
  simp only [convert] at h
  obtain ⟨ra, hra, h⟩ := bind_ok h
  simp only [pure, Except.pure, Except.ok.injEq] at h
  exact ⟨ra, hra, h.symm⟩

theorem convert_ceil_inv {a : E} (h : convert reg Γ (.ceil a) tgt = .ok r) :
    ∃ ra, convert reg Γ a tgt = .ok ra ∧
      r = ⟨if ra.wc = true then .ceil ra.e else .ceil a, ra.wc, ra.u, !ra.wc⟩ := by
  simp only [convert] at h
  obtain ⟨ra, hra, h⟩ := bind_ok h
  simp only [pure, Except.pure, Except.ok.injEq] at h
  exact ⟨ra, hra, h.symm⟩

theorem convert_fn1_inv {f : String} {a : E} (h : convert reg Γ (.fn1 f a) tgt = .ok r) :
    dimlessTarget tgt = true ∧ ∃ ra, convert reg Γ a (some []) = .ok ra ∧
      r = ⟨if ra.wc = true then .fn1 f ra.e else .fn1 f a, ra.wc, ra.u, !ra.wc⟩ := by
  simp only [convert] at h
  split at h
  · exact absurd h throw_bind_ne
  · rename_i hd
    obtain ⟨ra, hra, h⟩ := bind_ok h
    simp only [pure, Except.pure, Except.ok.injEq] at h
    exact ⟨by simpa using hd, ra, hra, h.symm⟩

theorem convert_not_inv {a : E} (h : convert reg Γ (.not a) tgt = .ok r) :
    dimlessTarget tgt = true ∧ ∃ ra, convert reg Γ a (some []) = .ok ra ∧
      r = ⟨if ra.wc = true then .not ra.e else .not a, ra.wc, ra.u, !ra.wc⟩ := by
  simp only [convert] at h
  split at h
  · exact absurd h throw_bind_ne
  · rename_i hd
    obtain ⟨ra, hra, h⟩ := bind_ok h
    simp only [pure, Except.pure, Except.ok.injEq] at h
    exact ⟨by simpa using hd, ra, hra, h.symm⟩

theorem convert_fnN_inv {f : String} {a b : E} (h : convert reg Γ (.fnN f a b) tgt = .ok r) :
    dimlessTarget tgt = true ∧ ∃ ra rb, convert reg Γ a (some []) = .ok ra ∧ convert reg Γ b (some []) = .ok rb ∧
      r = ⟨if (ra.wc || rb.wc) = true then .fnN f ra.e rb.e else .fnN f a b, ra.wc || rb.wc, rb.u,
            !(ra.wc || rb.wc)⟩ := by
  simp only [convert] at h
  split at h
  · exact absurd h throw_bind_ne
  · rename_i hd
    obtain ⟨ra, hra, h⟩ := bind_ok h
    obtain ⟨rb, hrb, h⟩ := bind_ok h
    simp only [pure, Except.pure, Except.ok.injEq] at h
    exact ⟨by simpa using hd, ra, rb, hra, hrb, h.symm⟩

theorem convert_and_inv {a b : E} (h : convert reg Γ (.and a b) tgt = .ok r) :
    dimlessTarget tgt = true ∧ ∃ ra rb, convert reg Γ a (some []) = .ok ra ∧ convert reg Γ b (some []) = .ok rb ∧
      r = ⟨if (ra.wc || rb.wc) = true then .and ra.e rb.e else .and a b, ra.wc || rb.wc, rb.u,
            !(ra.wc || rb.wc)⟩ := by
  simp only [convert] at h
  split at h
  · exact absurd h throw_bind_ne
  · rename_i hd
    obtain ⟨ra, hra, h⟩ := bind_ok h
    obtain ⟨rb, hrb, h⟩ := bind_ok h
    simp only [pure, Except.pure, Except.ok.injEq] at h
    exact ⟨by simpa using hd, ra, rb, hra, hrb, h.symm⟩

theorem convert_or_inv {a b : E} (h : convert reg Γ (.or a b) tgt = .ok r) :
    dimlessTarget tgt = true ∧ ∃ ra rb, convert reg Γ a (some []) = .ok ra ∧ convert reg Γ b (some []) = .ok rb ∧
      r = ⟨if (ra.wc || rb.wc) = true then .or ra.e rb.e else .or a b, ra.wc || rb.wc, rb.u,
            !(ra.wc || rb.wc)⟩ := by
  simp only [convert] at h
  split at h
  · exact absurd h throw_bind_ne
  · rename_i hd
    obtain ⟨ra, hra, h⟩ := bind_ok h
    obtain ⟨rb, hrb, h⟩ := bind_ok h
    simp only [pure, Except.pure, Except.ok.injEq] at h
    exact ⟨by simpa using hd, ra, rb, hra, hrb, h.symm⟩

/-- numbers, constants, `true`, `false`: leaves that can only be dimensionless -/
def isNumLeaf : E → Bool
  | .int _ | .rat _ | .flt _ | .pi | .e | .oo | .nan | .tt | .ff => true
  | _ => false

theorem convert_numLeaf {ex : E} (hl : isNumLeaf ex = true) :
    convert reg Γ ex tgt =
      if dimlessTarget tgt = true then .ok ⟨ex, false, [], true⟩ else .error .mustBeDimensionless := by
  cases ex <;> first | rfl | cases hl

theorem convert_numLeaf_inv {ex : E} (hl : isNumLeaf ex = true) (h : convert reg Γ ex tgt = .ok r) :
    dimlessTarget tgt = true ∧ r = ⟨ex, false, [], true⟩ := by
  rw [convert_numLeaf hl] at h
  split at h
  · rename_i hd; simp only [Except.ok.injEq] at h; exact ⟨hd, h.symm⟩
  · cases h

theorem dimlessTarget_some {t : Container} (h : dimlessTarget (some t) = true) : t = [] := by
  simpa [dimlessTarget] using h

end inversion

/-! ### (c) identity: nothing converted ⇒ the very same expression, and the same object -/

theorem maybeConv_ident {reg : Registry} {ex : E} {wc : Bool} {frm : Container} {tgt : Option Container} {same : Bool}
    {r : CR} (h : maybeConv reg ex wc frm tgt same = .ok r) :
    (same = (!wc) → r.same = !r.wc) ∧ (r.wc = false → r.e = ex ∧ wc = false) := by
  rcases maybeConv_spec h with ⟨_, rfl⟩ | ⟨t', _, _, rfl⟩ | ⟨t', f, _, _, _, rfl⟩
  · exact ⟨fun hs => hs, fun hw => ⟨rfl, hw⟩⟩
  · exact ⟨fun hs => hs, fun hw => ⟨rfl, hw⟩⟩
  · exact ⟨fun _ => rfl, fun hw => by cases hw⟩

private theorem ident_mk (wc : Bool) (X Y : E) (u : Container) :
    (⟨if wc = true then X else Y, wc, u, !wc⟩ : CR).same = !(⟨if wc = true then X else Y, wc, u, !wc⟩ : CR).wc ∧
    ((⟨if wc = true then X else Y, wc, u, !wc⟩ : CR).wc = false →
      (⟨if wc = true then X else Y, wc, u, !wc⟩ : CR).e = Y) :=
  ⟨rfl, fun hw => by simp only at hw; simp only [hw, Bool.false_eq_true, if_false]⟩

private theorem ident_mc {reg : Registry} {X Y : E} {wc : Bool} {frm : Container} {tgt : Option Container} {r : CR}
    (h : maybeConv reg (if wc = true then X else Y) wc frm tgt (!wc) = .ok r) :
    r.same = (!r.wc) ∧ (r.wc = false → r.e = Y) := by
  obtain ⟨h1, h2⟩ := maybeConv_ident h
  refine ⟨h1 rfl, fun hw => ?_⟩
  obtain ⟨he, hwc⟩ := h2 hw
  rw [he, hwc]; simp

/-- `same` (the returned object IS the argument) is exactly "nothing was converted", and then the expression is
    unchanged -/
theorem convert_ident {reg : Registry} {Γ : VarEnv} {ex : E} {tgt : Option Container} {r : CR}
    (h : convert reg Γ ex tgt = .ok r) : r.same = (!r.wc) ∧ (r.wc = false → r.e = ex) := by
  have leaf : ∀ {ex' : E} {frm : Container}, maybeConv reg ex' false frm tgt true = .ok r →
      r.same = (!r.wc) ∧ (r.wc = false → r.e = ex') := by
    intro ex' frm h'
    obtain ⟨h1, h2⟩ := maybeConv_ident h'
    exact ⟨h1 rfl, fun hw => (h2 hw).1⟩
  cases ex with
  | qty v u => simp only [convert] at h; exact leaf h
  | cf s u => simp only [convert] at h; exact leaf h
  | var i => obtain ⟨vi, _, h'⟩ := convert_var_inv h; exact leaf h'
  | deriv v t => obtain ⟨vv, vt, _, _, h'⟩ := convert_deriv_inv h; exact leaf h'
  | mul a b => obtain ⟨ra, rb, _, _, h'⟩ := convert_mul_inv h; exact ident_mc h'
  | pow b x => obtain ⟨rx, q, rb, _, _, _, h'⟩ := convert_pow_inv h; exact ident_mc h'
  | add a b => obtain ⟨ra, rb, _, _, rfl⟩ := convert_add_inv h; exact ident_mk _ _ _ _
  | rel rr a b => obtain ⟨_, ra, rb, _, _, rfl⟩ := convert_rel_inv h; exact ident_mk _ _ _ _
  | ite c t el =>
      obtain ⟨rt, rc, _, _, hcase⟩ := convert_ite_inv h
      rcases hcase with ⟨hel, rfl⟩ | ⟨_, re, _, rfl⟩
      · subst hel; exact ident_mk _ _ _ _
      · exact ident_mk _ _ _ _
  | abs a => obtain ⟨ra, _, rfl⟩ := convert_abs_inv h; exact ident_mk _ _ _ _
  | floor a => obtain ⟨ra, _, rfl⟩ := convert_floor_inv h; exact ident_mk _ _ _ _
  | ceil a => obtain ⟨ra, _, rfl⟩ := convert_ceil_inv h; exact ident_mk _ _ _ _
  | fn1 f a => obtain ⟨_, ra, _, rfl⟩ := convert_fn1_inv h; exact ident_mk _ _ _ _
  | not a => obtain ⟨_, ra, _, rfl⟩ := convert_not_inv h; exact ident_mk _ _ _ _
  | fnN f a b => obtain ⟨_, ra, rb, _, _, rfl⟩ := convert_fnN_inv h; exact ident_mk _ _ _ _
  | and a b => obtain ⟨_, ra, rb, _, _, rfl⟩ := convert_and_inv h; exact ident_mk _ _ _ _
  | or a b => obtain ⟨_, ra, rb, _, _, rfl⟩ := convert_or_inv h; exact ident_mk _ _ _ _
  | undef => cases h
  | other n => cases h
  | int n => obtain ⟨_, rfl⟩ := convert_numLeaf_inv rfl h; exact ⟨rfl, fun _ => rfl⟩
  | rat q => obtain ⟨_, rfl⟩ := convert_numLeaf_inv rfl h; exact ⟨rfl, fun _ => rfl⟩
  | flt q => obtain ⟨_, rfl⟩ := convert_numLeaf_inv rfl h; exact ⟨rfl, fun _ => rfl⟩
  | pi => obtain ⟨_, rfl⟩ := convert_numLeaf_inv rfl h; exact ⟨rfl, fun _ => rfl⟩
  | e => obtain ⟨_, rfl⟩ := convert_numLeaf_inv rfl h; exact ⟨rfl, fun _ => rfl⟩
  | oo => obtain ⟨_, rfl⟩ := convert_numLeaf_inv rfl h; exact ⟨rfl, fun _ => rfl⟩
  | nan => obtain ⟨_, rfl⟩ := convert_numLeaf_inv rfl h; exact ⟨rfl, fun _ => rfl⟩
  | tt => obtain ⟨_, rfl⟩ := convert_numLeaf_inv rfl h; exact ⟨rfl, fun _ => rfl⟩
  | ff => obtain ⟨_, rfl⟩ := convert_numLeaf_inv rfl h; exact ⟨rfl, fun _ => rfl⟩

/-! rebuilding with unchanged operands is the identity, so the result is ALWAYS the constructor applied to the
    converted operands -/
theorem rebuild1 {mk : E → E} {wa : Bool} {a a' : E} (ha : wa = false → a' = a) :
    (if wa = true then mk a' else mk a) = mk a' := by
  cases wa
  · rw [ha rfl]; rfl
  · rfl

theorem rebuild2 {mk : E → E → E} {wa wb : Bool} {a a' b b' : E} (ha : wa = false → a' = a)
    (hb : wb = false → b' = b) : (if (wa || wb) = true then mk a' b' else mk a b) = mk a' b' := by
  cases wa <;> cases wb <;> simp_all

theorem rebuild3 {mk : E → E → E → E} {wa wb wc : Bool} {a a' b b' c c' : E} (ha : wa = false → a' = a)
    (hb : wb = false → b' = b) (hc : wc = false → c' = c) :
    (if (wa || wb || wc) = true then mk a' b' c' else mk a b c) = mk a' b' c' := by
  cases wa <;> cases wb <;> cases wc <;> simp_all

/-! ### with an explicit target the result is in the target unit -/

/-- the constructs that can only be dimensionless return `dimensionless` and accept no other target -/
theorem convert_target {reg : Registry} {Γ : VarEnv} :
    ∀ (ex : E) (t : Container) (r : CR), convert reg Γ ex (some t) = .ok r → r.u = t := by
  intro ex
  induction ex with
  | qty v u => intro t r h; simp only [convert] at h; exact (maybeConv_some h).1
  | cf s u => intro t r h; simp only [convert] at h; exact (maybeConv_some h).1
  | var i => intro t r h; obtain ⟨vi, _, h'⟩ := convert_var_inv h; exact (maybeConv_some h').1
  | deriv v t' => intro t r h; obtain ⟨vv, vt, _, _, h'⟩ := convert_deriv_inv h; exact (maybeConv_some h').1
  | mul a b _ _ => intro t r h; obtain ⟨ra, rb, _, _, h'⟩ := convert_mul_inv h; exact (maybeConv_some h').1
  | pow b x _ _ => intro t r h; obtain ⟨rx, q, rb, _, _, _, h'⟩ := convert_pow_inv h; exact (maybeConv_some h').1
  | add a b _ ihb =>
      intro t r h
      obtain ⟨ra, rb, _, hrb, rfl⟩ := convert_add_inv h
      exact ihb _ rb hrb
  | rel rr a b _ _ =>
      intro t r h
      obtain ⟨hd, ra, rb, _, _, rfl⟩ := convert_rel_inv h
      exact (dimlessTarget_some hd).symm
  | ite c t' el _ iht ihel =>
      intro t r h
      obtain ⟨rt, rc, hrt, _, hcase⟩ := convert_ite_inv h
      rcases hcase with ⟨_, rfl⟩ | ⟨_, re, hre, rfl⟩
      · exact iht _ rt hrt
      · exact ihel _ re hre
  | abs a iha => intro t r h; obtain ⟨ra, hra, rfl⟩ := convert_abs_inv h; exact iha _ ra hra
  | floor a iha => intro t r h; obtain ⟨ra, hra, rfl⟩ := convert_floor_inv h; exact iha _ ra hra
  | ceil a iha => intro t r h; obtain ⟨ra, hra, rfl⟩ := convert_ceil_inv h; exact iha _ ra hra
  | fn1 f a iha =>
      intro t r h
      obtain ⟨hd, ra, hra, rfl⟩ := convert_fn1_inv h
      rw [dimlessTarget_some hd]; exact iha _ ra hra
  | not a iha =>
      intro t r h
      obtain ⟨hd, ra, hra, rfl⟩ := convert_not_inv h
      rw [dimlessTarget_some hd]; exact iha _ ra hra
  | fnN f a b _ ihb =>
      intro t r h
      obtain ⟨hd, ra, rb, _, hrb, rfl⟩ := convert_fnN_inv h
      rw [dimlessTarget_some hd]; exact ihb _ rb hrb
  | and a b _ ihb =>
      intro t r h
      obtain ⟨hd, ra, rb, _, hrb, rfl⟩ := convert_and_inv h
      rw [dimlessTarget_some hd]; exact ihb _ rb hrb
  | or a b _ ihb =>
      intro t r h
      obtain ⟨hd, ra, rb, _, hrb, rfl⟩ := convert_or_inv h
      rw [dimlessTarget_some hd]; exact ihb _ rb hrb
  | undef => intro t r h; cases h
  | other n => intro t r h; cases h
  | int n => intro t r h; obtain ⟨hd, rfl⟩ := convert_numLeaf_inv rfl h; exact (dimlessTarget_some hd).symm
  | rat q => intro t r h; obtain ⟨hd, rfl⟩ := convert_numLeaf_inv rfl h; exact (dimlessTarget_some hd).symm
  | flt q => intro t r h; obtain ⟨hd, rfl⟩ := convert_numLeaf_inv rfl h; exact (dimlessTarget_some hd).symm
  | pi => intro t r h; obtain ⟨hd, rfl⟩ := convert_numLeaf_inv rfl h; exact (dimlessTarget_some hd).symm
  | e => intro t r h; obtain ⟨hd, rfl⟩ := convert_numLeaf_inv rfl h; exact (dimlessTarget_some hd).symm
  | oo => intro t r h; obtain ⟨hd, rfl⟩ := convert_numLeaf_inv rfl h; exact (dimlessTarget_some hd).symm
  | nan => intro t r h; obtain ⟨hd, rfl⟩ := convert_numLeaf_inv rfl h; exact (dimlessTarget_some hd).symm
  | tt => intro t r h; obtain ⟨hd, rfl⟩ := convert_numLeaf_inv rfl h; exact (dimlessTarget_some hd).symm
  | ff => intro t r h; obtain ⟨hd, rfl⟩ := convert_numLeaf_inv rfl h; exact (dimlessTarget_some hd).symm

/-- first-operand rule: the unit the remaining operands are converted to is the unit of the first result -/
theorem getD_target {reg : Registry} {Γ : VarEnv} {ex : E} {tgt : Option Container} {r : CR}
    (h : convert reg Γ ex tgt = .ok r) : tgt.getD r.u = r.u := by
  cases tgt with
  | none => rfl
  | some t => simp only [Option.getD_some]; exact (convert_target ex t r h).symm

/-! ### every error is a UnitError, except for unknown unit names and the two `unsupported` situations -/

/-- the errors a conversion can end in: the five UnitError classes the method documents, pint's UndefinedUnitError
    (a unit name the registry does not know), and the two situations outside the modelled fragment -/
def errClass : UnitErr → Bool
  | .unexpectedMath | .mustBeDimensionless | .mustBeNumber | .boolean | .cannotConvert => true
  | .otherException w => w == "UndefinedUnitError"
  | .unsupported w => w == "unknown variable" || w == "exponent value not tracked"
  | _ => false

private theorem throw_bind_err {α : Type} {e0 err : UnitErr} {f : PUnit → Except UnitErr α}
    (h : ((throw e0 : Except UnitErr PUnit) >>= f) = .error err) : err = e0 := by
  cases h; rfl

theorem maybeConv_errClass {reg : Registry} {ex : E} {wc : Bool} {frm : Container} {tgt : Option Container}
    {same : Bool} {err : UnitErr} (h : maybeConv reg ex wc frm tgt same = .error err) : errClass err = true := by
  obtain ⟨t, _, hc⟩ := maybeConv_error h
  rcases hc with ⟨rfl, _⟩ | ⟨rfl, _⟩ <;> rfl

theorem convert_errClass {reg : Registry} {Γ : VarEnv} :
    ∀ (ex : E) (tgt : Option Container) (err : UnitErr), convert reg Γ ex tgt = .error err → errClass err = true := by
  intro ex
  have un1 : ∀ (mk : E → E) (a : E) (t : Option Container) (err : UnitErr)
      (_ : ∀ t err, convert reg Γ a t = .error err → errClass err = true)
      (g : CR → CR),
      ((convert reg Γ a t >>= fun ra => (pure (g ra) : Except UnitErr CR)) = .error err) → errClass err = true := by
    intro mk a t err iha g h
    rcases bind_error h with h1 | ⟨ra, _, h⟩
    · exact iha _ _ h1
    · cases h
  have un2 : ∀ (a b : E) (t1 t2 : Option Container) (err : UnitErr)
      (_ : ∀ t err, convert reg Γ a t = .error err → errClass err = true)
      (_ : ∀ t err, convert reg Γ b t = .error err → errClass err = true)
      (g : CR → CR → CR),
      ((convert reg Γ a t1 >>= fun ra => convert reg Γ b t2 >>= fun rb => (pure (g ra rb) : Except UnitErr CR))
        = .error err) → errClass err = true := by
    intro a b t1 t2 err iha ihb g h
    rcases bind_error h with h1 | ⟨ra, _, h⟩
    · exact iha _ _ h1
    · rcases bind_error h with h1 | ⟨rb, _, h⟩
      · exact ihb _ _ h1
      · cases h
  induction ex with
  | qty v u => intro tgt err h; simp only [convert] at h; exact maybeConv_errClass h
  | cf s u => intro tgt err h; simp only [convert] at h; exact maybeConv_errClass h
  | var i =>
      intro tgt err h; simp only [convert] at h
      split at h
      · exact maybeConv_errClass h
      · cases h; rfl
  | deriv v t =>
      intro tgt err h; simp only [convert] at h
      split at h
      · exact maybeConv_errClass h
      · cases h; rfl
  | mul a b iha ihb =>
      intro tgt err h; simp only [convert] at h
      rcases bind_error h with h1 | ⟨ra, _, h⟩
      · exact iha _ _ h1
      · rcases bind_error h with h1 | ⟨rb, _, h⟩
        · exact ihb _ _ h1
        · exact maybeConv_errClass h
  | pow b x ihb ihx =>
      intro tgt err h; simp only [convert] at h
      rcases bind_error h with h1 | ⟨rx, _, h⟩
      · exact ihx _ _ h1
      · split at h
        · cases h; rfl
        · cases h; rfl
        · rcases bind_error h with h1 | ⟨q, _, h⟩
          · cases h1
          · rcases bind_error h with h1 | ⟨rb, _, h⟩
            · exact ihb _ _ h1
            · exact maybeConv_errClass h
  | add a b iha ihb =>
      intro tgt err h; simp only [convert] at h
      rcases bind_error h with h1 | ⟨ra, _, h⟩
      · exact iha _ _ h1
      · rcases bind_error h with h1 | ⟨rb, _, h⟩
        · exact ihb _ _ h1
        · cases h
  | rel rr a b iha ihb =>
      intro tgt err h; simp only [convert] at h
      split at h
      · rw [throw_bind_err h]; rfl
      · rcases bind_error h with h1 | ⟨ra, _, h⟩
        · exact iha _ _ h1
        · rcases bind_error h with h1 | ⟨rb, _, h⟩
          · exact ihb _ _ h1
          · cases h
  | ite c t el ihc iht ihe =>
      intro tgt err h; simp only [convert] at h
      rcases bind_error h with h1 | ⟨rt, _, h⟩
      · exact iht _ _ h1
      · rcases bind_error h with h1 | ⟨rc, _, h⟩
        · exact ihc _ _ h1
        · split at h
          · cases h
          · rcases bind_error h with h1 | ⟨re, _, h⟩
            · exact ihe _ _ h1
            · cases h
  | abs a iha => intro tgt err h; simp only [convert] at h; exact un1 E.abs a _ _ iha _ h
  | floor a iha => intro tgt err h; simp only [convert] at h; exact un1 E.floor a _ _ iha _ h
  | ceil a iha => intro tgt err h; simp only [convert] at h; exact un1 E.ceil a _ _ iha _ h
  | fn1 f a iha =>
      intro tgt err h; simp only [convert] at h
      split at h
      · rw [throw_bind_err h]; rfl
      · exact un1 (E.fn1 f) a _ _ iha _ h
  | not a iha =>
      intro tgt err h; simp only [convert] at h
      split at h
      · rw [throw_bind_err h]; rfl
      · exact un1 E.not a _ _ iha _ h
  | fnN f a b iha ihb =>
      intro tgt err h; simp only [convert] at h
      split at h
      · rw [throw_bind_err h]; rfl
      · exact un2 a b _ _ _ iha ihb _ h
  | and a b iha ihb =>
      intro tgt err h; simp only [convert] at h
      split at h
      · rw [throw_bind_err h]; rfl
      · exact un2 a b _ _ _ iha ihb _ h
  | or a b iha ihb =>
      intro tgt err h; simp only [convert] at h
      split at h
      · rw [throw_bind_err h]; rfl
      · exact un2 a b _ _ _ iha ihb _ h
  | undef => intro tgt err h; cases h; rfl
  | other n => intro tgt err h; cases h; rfl
  | int n => intro tgt err h; rw [convert_numLeaf rfl] at h; split at h <;> cases h; rfl
  | rat q => intro tgt err h; rw [convert_numLeaf rfl] at h; split at h <;> cases h; rfl
  | flt q => intro tgt err h; rw [convert_numLeaf rfl] at h; split at h <;> cases h; rfl
  | pi => intro tgt err h; rw [convert_numLeaf rfl] at h; split at h <;> cases h; rfl
  | e => intro tgt err h; rw [convert_numLeaf rfl] at h; split at h <;> cases h; rfl
  | oo => intro tgt err h; rw [convert_numLeaf rfl] at h; split at h <;> cases h; rfl
  | nan => intro tgt err h; rw [convert_numLeaf rfl] at h; split at h <;> cases h; rfl
  | tt => intro tgt err h; rw [convert_numLeaf rfl] at h; split at h <;> cases h; rfl
  | ff => intro tgt err h; rw [convert_numLeaf rfl] at h; split at h <;> cases h; rfl

/-! ### an exponent that `float()` can evaluate exactly was not converted -/

theorem evalClosed_cf_mul {f : Scale} {u : Container} {ex : E} {q : Rat} (hf : f ≠ [])
    (h : evalClosed (.mul (.cf f u) ex) = some (some q)) : False := by
  simp only [evalClosed, hf, if_false] at h
  split at h
  · rename_i h1 _; cases h1
  · simp at h
  · simp at h

theorem maybeConv_closed {reg : Registry} {ex : E} {wc : Bool} {frm : Container} {tgt : Option Container}
    {same : Bool} {r : CR} {q : Rat} (h : maybeConv reg ex wc frm tgt same = .ok r)
    (hq : evalClosed r.e = some (some q)) : r.e = ex ∧ r.wc = wc := by
  rcases maybeConv_spec h with ⟨_, rfl⟩ | ⟨t, _, _, rfl⟩ | ⟨t, f, _, _, hne, rfl⟩
  · exact ⟨rfl, rfl⟩
  · exact ⟨rfl, rfl⟩
  · exact (evalClosed_cf_mul hne hq).elim

theorem evalClosed_bin_mul {a b : E} {q : Rat} (h : evalClosed (.mul a b) = some (some q)) :
    (∃ x, evalClosed a = some (some x)) ∧ (∃ y, evalClosed b = some (some y)) := by
  simp only [evalClosed] at h
  split at h <;> simp only [Option.some.injEq, reduceCtorEq] at h
  rename_i x y hx hy; exact ⟨⟨x, hx⟩, ⟨y, hy⟩⟩

theorem evalClosed_bin_add {a b : E} {q : Rat} (h : evalClosed (.add a b) = some (some q)) :
    (∃ x, evalClosed a = some (some x)) ∧ (∃ y, evalClosed b = some (some y)) := by
  simp only [evalClosed] at h
  split at h <;> simp only [Option.some.injEq, reduceCtorEq] at h
  rename_i x y hx hy; exact ⟨⟨x, hx⟩, ⟨y, hy⟩⟩

theorem evalClosed_bin_pow {a b : E} {q : Rat} (h : evalClosed (.pow a b) = some (some q)) :
    (∃ x, evalClosed a = some (some x)) ∧ (∃ y, evalClosed b = some (some y)) := by
  simp only [evalClosed] at h
  split at h <;> try (simp only [Option.some.injEq, reduceCtorEq] at h)
  rename_i x y hx hy; exact ⟨⟨x, hx⟩, ⟨y, hy⟩⟩

theorem evalClosed_abs {a : E} {q : Rat} (h : evalClosed (.abs a) = some (some q)) :
    ∃ x, evalClosed a = some (some x) := by
  simp only [evalClosed] at h
  split at h
  · rename_i x hx; exact ⟨x, hx⟩
  · exact ⟨q, h⟩

/-- a conversion inserts a factor Quantity whose value `float()`… the exact model does not track, so a result that
    evaluates to an exactly known number contains no conversion -/
theorem closed_not_converted {reg : Registry} {Γ : VarEnv} :
    ∀ (ex : E) (tgt : Option Container) (r : CR) (q : Rat), convert reg Γ ex tgt = .ok r →
      evalClosed r.e = some (some q) → r.wc = false := by
  intro ex
  induction ex with
  | qty v u => intro tgt r q h hq; simp only [convert] at h; exact (maybeConv_closed h hq).2
  | cf s u => intro tgt r q h hq; simp only [convert] at h; exact (maybeConv_closed h hq).2
  | var i => intro tgt r q h hq; obtain ⟨vi, _, h'⟩ := convert_var_inv h; exact (maybeConv_closed h' hq).2
  | deriv v t =>
      intro tgt r q h hq; obtain ⟨vv, vt, _, _, h'⟩ := convert_deriv_inv h; exact (maybeConv_closed h' hq).2
  | mul a b iha ihb =>
      intro tgt r q h hq
      obtain ⟨ra, rb, hra, hrb, h'⟩ := convert_mul_inv h
      rw [rebuild2 (mk := E.mul) (convert_ident hra).2 (convert_ident hrb).2] at h'
      obtain ⟨he, hw⟩ := maybeConv_closed h' hq
      rw [he] at hq
      obtain ⟨⟨x, hx⟩, ⟨y, hy⟩⟩ := evalClosed_bin_mul hq
      rw [hw, iha _ ra x hra hx, ihb _ rb y hrb hy]; rfl
  | pow b x ihb ihx =>
      intro tgt r q h hq
      obtain ⟨rx, q', rb, hrx, hq', hrb, h'⟩ := convert_pow_inv h
      rw [rebuild2 (mk := fun x' b' => E.pow b' x') (convert_ident hrx).2 (convert_ident hrb).2] at h'
      obtain ⟨he, hw⟩ := maybeConv_closed h' hq
      rw [he] at hq
      obtain ⟨⟨x0, hx⟩, ⟨y, hy⟩⟩ := evalClosed_bin_pow hq
      rw [hw, ihx _ rx y hrx hy, ihb _ rb x0 hrb hx]; rfl
  | add a b iha ihb =>
      intro tgt r q h hq
      obtain ⟨ra, rb, hra, hrb, rfl⟩ := convert_add_inv h
      rw [rebuild2 (mk := E.add) (convert_ident hra).2 (convert_ident hrb).2] at hq
      obtain ⟨⟨x, hx⟩, ⟨y, hy⟩⟩ := evalClosed_bin_add hq
      simp only [iha _ ra x hra hx, ihb _ rb y hrb hy]; rfl
  | abs a iha =>
      intro tgt r q h hq
      obtain ⟨ra, hra, rfl⟩ := convert_abs_inv h
      rw [rebuild1 (mk := E.abs) (convert_ident hra).2] at hq
      obtain ⟨x, hx⟩ := evalClosed_abs hq
      exact iha _ ra x hra hx
  | floor a _ =>
      intro tgt r q h hq
      obtain ⟨ra, hra, rfl⟩ := convert_floor_inv h
      rw [rebuild1 (mk := E.floor) (convert_ident hra).2] at hq
      simp only [evalClosed] at hq; split at hq <;> simp at hq
  | ceil a _ =>
      intro tgt r q h hq
      obtain ⟨ra, hra, rfl⟩ := convert_ceil_inv h
      rw [rebuild1 (mk := E.ceil) (convert_ident hra).2] at hq
      simp only [evalClosed] at hq; split at hq <;> simp at hq
  | fn1 f a _ =>
      intro tgt r q h hq
      obtain ⟨_, ra, hra, rfl⟩ := convert_fn1_inv h
      rw [rebuild1 (mk := E.fn1 f) (convert_ident hra).2] at hq
      simp only [evalClosed] at hq; split at hq <;> simp at hq
  | rel rr a b _ _ =>
      intro tgt r q h hq
      obtain ⟨_, ra, rb, hra, hrb, rfl⟩ := convert_rel_inv h
      rw [rebuild2 (mk := E.rel rr) (convert_ident hra).2 (convert_ident hrb).2] at hq
      simp [evalClosed] at hq
  | ite c t el _ _ _ =>
      intro tgt r q h hq
      obtain ⟨rt, rc, hrt, hrc, hcase⟩ := convert_ite_inv h
      rcases hcase with ⟨_, rfl⟩ | ⟨_, re, hre, rfl⟩
      · rw [rebuild2 (mk := fun t' c' => E.ite c' t' .undef) (convert_ident hrt).2 (convert_ident hrc).2] at hq
        simp [evalClosed] at hq
      · rw [rebuild3 (mk := fun t' c' e' => E.ite c' t' e') (convert_ident hrt).2 (convert_ident hrc).2
          (convert_ident hre).2] at hq
        simp [evalClosed] at hq
  | not a _ =>
      intro tgt r q h hq
      obtain ⟨_, ra, hra, rfl⟩ := convert_not_inv h
      rw [rebuild1 (mk := E.not) (convert_ident hra).2] at hq
      simp [evalClosed] at hq
  | fnN f a b _ _ =>
      intro tgt r q h hq
      obtain ⟨_, ra, rb, hra, hrb, rfl⟩ := convert_fnN_inv h
      rw [rebuild2 (mk := E.fnN f) (convert_ident hra).2 (convert_ident hrb).2] at hq
      simp [evalClosed] at hq
  | and a b _ _ =>
      intro tgt r q h hq
      obtain ⟨_, ra, rb, hra, hrb, rfl⟩ := convert_and_inv h
      rw [rebuild2 (mk := E.and) (convert_ident hra).2 (convert_ident hrb).2] at hq
      simp [evalClosed] at hq
  | or a b _ _ =>
      intro tgt r q h hq
      obtain ⟨_, ra, rb, hra, hrb, rfl⟩ := convert_or_inv h
      rw [rebuild2 (mk := E.or) (convert_ident hra).2 (convert_ident hrb).2] at hq
      simp [evalClosed] at hq
  | undef => intro tgt r q h; cases h
  | other n => intro tgt r q h; cases h
  | int n => intro tgt r q h _; obtain ⟨_, rfl⟩ := convert_numLeaf_inv rfl h; rfl
  | rat v => intro tgt r q h _; obtain ⟨_, rfl⟩ := convert_numLeaf_inv rfl h; rfl
  | flt v => intro tgt r q h _; obtain ⟨_, rfl⟩ := convert_numLeaf_inv rfl h; rfl
  | pi => intro tgt r q h _; obtain ⟨_, rfl⟩ := convert_numLeaf_inv rfl h; rfl
  | e => intro tgt r q h _; obtain ⟨_, rfl⟩ := convert_numLeaf_inv rfl h; rfl
  | oo => intro tgt r q h _; obtain ⟨_, rfl⟩ := convert_numLeaf_inv rfl h; rfl
  | nan => intro tgt r q h _; obtain ⟨_, rfl⟩ := convert_numLeaf_inv rfl h; rfl
  | tt => intro tgt r q h _; obtain ⟨_, rfl⟩ := convert_numLeaf_inv rfl h; rfl
  | ff => intro tgt r q h _; obtain ⟨_, rfl⟩ := convert_numLeaf_inv rfl h; rfl

/-! ### (b) the result passes strict unit inference (`traverse`) with a unit equivalent to the reported one -/

section strict
open Spec

/-- Python exceptions raised by ARITHMETIC ON MAGNITUDES inside `traverse` (0 to a negative power, `math.exp`
    overflow, floor of a complex number, quotient of initial values, power of a magnitude the exact model does not
    track): none of them is a UnitError, none depends on units -/
def magErr : UnitErr → Bool
  | .otherException w => w == "ZeroDivisionError" || w == "OverflowError" || w == "TypeError"
  | .unsupported w => w == "power of an untracked magnitude"
  | _ => false

/-- verdict of strict inference on a result that is reported to be in unit `u` -/
def Good (reg : Registry) (res : Except UnitErr (M × Container)) (u : Container) : Prop :=
  match res with
  | .ok q => isEquivalent reg q.2 u = true
  | .error err => magErr err = true

/-- A class of units closed under the unit arithmetic of the converter on which "converts with factor one" implies
    `is_equivalent`. (It cannot be ALL units: `radian` converts to `dimensionless` with factor one and is not
    equivalent to it — known finding of C07, see `radian_not_strict`.) -/
structure UClass (reg : Registry) where
  P : Container → Prop
  nil : P []
  mul : ∀ {a b}, P a → P b → P (mulC a b)
  div : ∀ {a b}, P a → P b → P (divC a b)
  pow : ∀ {a} (q : Rat), P a → P (powC a q)
  faithful : ∀ {a b}, P a → P b → factor reg a b = .ok [] → isEquivalent reg a b = true

/-- the operators for which strict inference of the result is proved: everything with a unit except `oo`/`nan`;
    exponents are products of numeric leaves (C04's "numeric exponent") -/
def strictFrag : E → Bool
  | .qty _ _ | .cf _ _ | .var _ | .deriv _ _ | .int _ | .rat _ | .flt _ | .pi | .e => true
  | .mul a b | .add a b => strictFrag a && strictFrag b
  | .pow b x => strictFrag b && numProd x
  | .abs a | .floor a | .ceil a | .fn1 _ a => strictFrag a
  | .ite _ t el => strictFrag t && (decide (el = .undef) || strictFrag el)
  | _ => false

/-- every unit written in the value part of the expression belongs to the class -/
def unitsIn (P : Container → Prop) : E → Prop
  | .qty _ u | .cf _ u => P u
  | .mul a b | .add a b => unitsIn P a ∧ unitsIn P b
  | .pow b _ => unitsIn P b
  | .abs a | .floor a | .ceil a | .fn1 _ a => unitsIn P a
  | .ite _ t el => unitsIn P t ∧ unitsIn P el
  | _ => True

variable {reg : Registry} {Γ : VarEnv}

theorem isEq_iff (a b : Container) : isEquivalent reg a b = true ↔ toRoot reg a ≃₂ toRoot reg b :=
  sameUnits_iff reg a b

theorem isEq_mulC {a a' b b' : Container} (ha : isEquivalent reg a a' = true) (hb : isEquivalent reg b b' = true) :
    isEquivalent reg (mulC a b) (mulC a' b') = true := by
  rw [isEq_iff] at *
  exact (sem_mulC reg a b).trans ((mul_congr ha hb).trans (sem_mulC reg a' b').symm)

theorem isEq_powC {a a' : Container} (q : Rat) (ha : isEquivalent reg a a' = true) :
    isEquivalent reg (powC a q) (powC a' q) = true := by
  rw [isEq_iff] at *
  exact (sem_powC reg a q).trans ((pow_congr q ha).trans (sem_powC reg a' q).symm)

/-- the unit of `cf · e`: (t / frm) · frm = t -/
theorem isEq_conv {u frm t : Container} (hu : isEquivalent reg u frm = true) :
    isEquivalent reg (mulC (divC t frm) u) t = true := by
  rw [isEq_iff] at *
  refine (sem_mulC reg _ _).trans ?_
  have hd := sem_divC reg t frm
  refine ⟨?_, ?_⟩ <;> intro p
  · have h1 := hd.1 p; have h2 := hu.1 p
    simp only [Spec.mul, Spec.div, get_add, get_sub] at h1 ⊢
    rw [h1, h2]; grind
  · have h1 := hd.2 p; have h2 := hu.2 p
    simp only [Spec.mul, Spec.div, get_add, get_sub] at h1 ⊢
    rw [h1, h2]; grind

theorem isEq_dimless {u : Container} (hu : isEquivalent reg u [] = true) : isDimless reg u = true := by
  rw [isEq_iff] at hu
  rw [isDimless_iff]
  refine (dimsOfRoot_congr reg hu.2).trans ?_
  refine (dimsOfRoot_congr reg (sem_nil reg).2).trans ?_
  have := dimsOfRoot_smul reg 0 []
  have e : smul (0 : Rat) ([] : Container) = [] := rfl
  rw [e] at this
  refine this.trans ?_
  intro p; simp only [get_smul, get_nil]; grind

theorem good_error {err : UnitErr} {u u' : Container} (h : Good reg (.error err) u) : Good reg (.error err) u' := h

/-- `maybe_convert_expr` keeps the verdict -/
theorem good_maybeConv (C : UClass reg) {ex : E} {wc : Bool} {frm : Container} {tgt : Option Container}
    {same : Bool} {r : CR} (hfrm : C.P frm) (htgt : ∀ t, tgt = some t → C.P t)
    (h : maybeConv reg ex wc frm tgt same = .ok r) (hg : Good reg (traverse reg Γ ex) frm) :
    Good reg (traverse reg Γ r.e) r.u ∧ C.P r.u := by
  rcases maybeConv_spec h with ⟨_, rfl⟩ | ⟨t, ht, hf, rfl⟩ | ⟨t, f, ht, hf, _, rfl⟩
  · exact ⟨hg, hfrm⟩
  · refine ⟨?_, htgt t ht⟩
    have he := C.faithful hfrm (htgt t ht) hf
    cases hq : traverse reg Γ ex with
    | error err => rw [hq] at hg; exact hg
    | ok q =>
        rw [hq] at hg
        simp only [Good] at hg ⊢
        exact Cellml.Props.C07.equiv_trans reg _ _ _ hg he
  · refine ⟨?_, htgt t ht⟩
    simp only
    rw [traverse_mul, traverse_cf]
    cases hq : traverse reg Γ ex with
    | error err => rw [hq] at hg; exact hg
    | ok q =>
        rw [hq] at hg
        simp only [Good, bind, Except.bind, pure, Except.pure] at hg ⊢
        exact isEq_conv hg

theorem good_ok_refl {m : M} {u : Container} : Good reg (.ok (m, u)) u :=
  Cellml.Props.C07.equiv_refl reg u

theorem good_mul {a b : E} {ua ub : Container} (ha : Good reg (traverse reg Γ a) ua)
    (hb : Good reg (traverse reg Γ b) ub) : Good reg (traverse reg Γ (.mul a b)) (mulC ua ub) := by
  rw [traverse_mul]
  cases hqa : traverse reg Γ a with
  | error err => rw [hqa] at ha; exact ha
  | ok qa =>
      cases hqb : traverse reg Γ b with
      | error err => rw [hqb] at hb; exact hb
      | ok qb =>
          rw [hqa] at ha; rw [hqb] at hb
          simp only [Good, bind, Except.bind, pure, Except.pure] at ha hb ⊢
          exact isEq_mulC ha hb

theorem magErr_powM {a b : M} {err : UnitErr} (h : powM a b = .error err) : magErr err = true := by
  rcases powM_error a b err h with rfl | rfl <;> rfl

theorem good_pow {b x : E} {ub : Container} {q : Rat} {f : Bool} (hb : Good reg (traverse reg Γ b) ub)
    (hx : traverse reg Γ x = .ok (.num q f, [])) : Good reg (traverse reg Γ (.pow b x)) (powC ub q) := by
  rw [traverse_pow, hx]
  cases hqb : traverse reg Γ b with
  | error err => rw [hqb] at hb; exact hb
  | ok qb =>
      rw [hqb] at hb
      simp only [Good] at hb
      simp only [bind, Except.bind, powStep, ne_eq, not_true_eq_false, if_false, M.isNumber, Bool.not_true,
        Bool.false_eq_true]
      cases hp : powM qb.1 (.num q f) with
      | error err => exact magErr_powM hp
      | ok m =>
          simp only
          split
          · rename_i hnil
            rw [hnil] at hb
            exact isEq_powC q hb
          · exact isEq_powC q hb

theorem good_add {a b : E} {u : Container} (ha : Good reg (traverse reg Γ a) u)
    (hb : Good reg (traverse reg Γ b) u) : Good reg (traverse reg Γ (.add a b)) u := by
  rw [traverse_add]
  cases hta : trav reg Γ a with
  | error err =>
      rw [trav_error_traverse reg Γ a err hta] at ha
      exact ha
  | ok qa =>
      have hfa : traverse reg Γ a = finish reg qa := by simp [traverse, hta, bind, Except.bind]
      rw [hfa] at ha
      cases hf : finish reg qa with
      | error err =>
          rw [hf] at ha
          rcases finish_error reg qa err hf with rfl | rfl <;> cases ha
      | ok ra =>
          rw [hf] at ha
          cases hqb : traverse reg Γ b with
          | error err => rw [hqb] at hb; exact hb
          | ok qb =>
              rw [hqb] at hb
              simp only [Good] at ha hb
              have hs : sameUnits reg ra.2 qb.2 = true :=
                Cellml.Props.C07.equiv_trans reg _ _ _ ha (Cellml.Props.C07.equiv_symm reg _ _ hb)
              simp only [bind, Except.bind]
              rw [finish_snoc_ok reg qa qb ra hf hs]
              exact ha

theorem good_abs {a : E} {u : Container} (ha : Good reg (traverse reg Γ a) u) :
    Good reg (traverse reg Γ (.abs a)) u := by
  rw [traverse_abs]
  cases hqa : traverse reg Γ a with
  | error err => rw [hqa] at ha; exact ha
  | ok qa => rw [hqa] at ha; exact ha

theorem good_floor {a : E} {u : Container} (ha : Good reg (traverse reg Γ a) u) :
    Good reg (traverse reg Γ (.floor a)) u := by
  rw [traverse_floor]
  cases hqa : traverse reg Γ a with
  | error err => rw [hqa] at ha; exact ha
  | ok qa =>
      rw [hqa] at ha
      simp only [bind, Except.bind]
      cases hm : floorM false qa.1 with
      | error err => rw [floorM_error false qa.1 err hm]; rfl
      | ok m => exact ha

theorem good_ceil {a : E} {u : Container} (ha : Good reg (traverse reg Γ a) u) :
    Good reg (traverse reg Γ (.ceil a)) u := by
  rw [traverse_ceil]
  cases hqa : traverse reg Γ a with
  | error err => rw [hqa] at ha; exact ha
  | ok qa =>
      rw [hqa] at ha
      simp only [bind, Except.bind]
      cases hm : floorM true qa.1 with
      | error err => rw [floorM_error true qa.1 err hm]; rfl
      | ok m => exact ha

theorem fn1Step_error_dimless {f : String} {q : M × Container} {err : UnitErr} (hd : isDimless reg q.2 = true)
    (h : fn1Step reg f q = .error err) : err = .otherException "OverflowError" := by
  rcases fn1Step_error reg f q err h with rfl | rfl | ⟨_, rfl⟩
  · simp only [fn1Step, hd] at h; repeat' split at h
    all_goals simp_all
  · simp only [fn1Step, hd] at h; repeat' split at h
    all_goals simp_all
  · rfl

theorem good_fn1 {f : String} {a : E} (ha : Good reg (traverse reg Γ a) []) :
    Good reg (traverse reg Γ (.fn1 f a)) [] := by
  rw [traverse_fn1]
  cases hqa : traverse reg Γ a with
  | error err => rw [hqa] at ha; exact ha
  | ok qa =>
      rw [hqa] at ha
      simp only [Good] at ha
      have hd := isEq_dimless ha
      simp only [bind, Except.bind]
      cases hs : fn1Step reg f qa with
      | error err => rw [fn1Step_error_dimless hd hs]; rfl
      | ok r' =>
          simp only [Good]
          rw [(fn1Step_ok reg f qa r' hs).2]
          exact Cellml.Props.C07.equiv_refl reg []

theorem good_ite {c t el : E} {u : Container} (ht : Good reg (traverse reg Γ t) u)
    (he : el ≠ .undef → Good reg (traverse reg Γ el) u) : Good reg (traverse reg Γ (.ite c t el)) u := by
  rw [traverse_ite]
  cases hqt : traverse reg Γ t with
  | error err => rw [hqt] at ht; exact ht
  | ok qt =>
      rw [hqt] at ht
      simp only [bind, Except.bind]
      split
      · exact ht
      · rename_i hel
        have he' := he hel
        cases hqe : traverse reg Γ el with
        | error err => rw [hqe] at he'; exact he'
        | ok qe =>
            rw [hqe] at he'
            simp only [Good] at ht he'
            have hs : sameUnits reg qt.2 qe.2 = true :=
              Cellml.Props.C07.equiv_trans reg _ _ _ ht (Cellml.Props.C07.equiv_symm reg _ _ he')
            simp only [hs, if_true]
            exact ht

theorem varQ_some {i : Nat} {vi : VarInfo} (h : Γ[i]? = some vi) : ∃ m, varQ Γ i = .ok (m, vi.unit) := by
  simp only [varQ, h]
  repeat' split
  all_goals exact ⟨_, rfl⟩

theorem good_deriv {v t : Nat} {vv vt : VarInfo} (hv : Γ[v]? = some vv) (ht : Γ[t]? = some vt) :
    Good reg (traverse reg Γ (.deriv v t)) (divC vv.unit vt.unit) := by
  rw [traverse_deriv]
  obtain ⟨mv, hmv⟩ := varQ_some hv
  obtain ⟨mt, hmt⟩ := varQ_some ht
  simp only [hmv, hmt, bind, Except.bind]
  cases hd : divM mv mt with
  | error err => rw [divM_error mv mt err hd]; rfl
  | ok m => exact Cellml.Props.C07.equiv_refl reg _

/-! numeric exponents (products of numeric leaves): never converted, value known to `float()` and to `traverse` -/

theorem factor_nil_nil : factor reg [] [] = .ok [] :=
  Cellml.Props.C07.equiv_factor_one reg [] [] rfl rfl (Cellml.Props.C07.equiv_refl reg [])

theorem convert_numProd {x : E} (hx : numProd x = true) :
    ∀ tgt : Option Container, (tgt = none ∨ tgt = some []) → convert reg Γ x tgt = .ok ⟨x, false, [], true⟩ := by
  induction x with
  | qty v u =>
      intro tgt ht
      simp only [numProd, decide_eq_true_eq] at hx; subst hx
      rcases ht with rfl | rfl
      · rfl
      · simp only [convert, maybeConv, conversionFactor, factor_nil_nil, if_true]
  | int n => intro tgt ht; rw [convert_numLeaf rfl]; rcases ht with rfl | rfl <;> rfl
  | rat q => intro tgt ht; rw [convert_numLeaf rfl]; rcases ht with rfl | rfl <;> rfl
  | flt q => intro tgt ht; rw [convert_numLeaf rfl]; rcases ht with rfl | rfl <;> rfl
  | mul a b iha ihb =>
      intro tgt ht
      simp only [numProd, Bool.and_eq_true] at hx
      have ha := iha hx.1 none (Or.inl rfl)
      have hb := ihb hx.2 none (Or.inl rfl)
      have hm : mulC ([] : Container) [] = [] := rfl
      simp only [convert, ha, hb, bind, Except.bind, Bool.or_self, Bool.false_eq_true, if_false, hm, Bool.not_false]
      rcases ht with rfl | rfl
      · rfl
      · simp only [maybeConv, conversionFactor, factor_nil_nil, if_true]
  | _ => simp [numProd] at hx

theorem evalClosed_numProd {x : E} (hx : numProd x = true) :
    ∃ q, constVal x = some q ∧ evalClosed x = some (some q) := by
  induction x with
  | qty v u => exact ⟨v, rfl, rfl⟩
  | int n => exact ⟨n, rfl, rfl⟩
  | rat q => exact ⟨q, rfl, rfl⟩
  | flt q => exact ⟨q, rfl, rfl⟩
  | mul a b iha ihb =>
      simp only [numProd, Bool.and_eq_true] at hx
      obtain ⟨qa, ca, ea⟩ := iha hx.1
      obtain ⟨qb, cb, eb⟩ := ihb hx.2
      exact ⟨qa * qb, by simp only [constVal, ca, cb], by simp only [evalClosed, ea, eb]⟩
  | _ => simp [numProd] at hx

/-- strict inference of every conversion result, by induction on the expression -/
theorem convert_strict_aux (C : UClass reg) (hΓ : ∀ (i : Nat) (vi : VarInfo), Γ[i]? = some vi → C.P vi.unit) :
    ∀ ex : E, strictFrag ex = true → unitsIn C.P ex → ∀ (tgt : Option Container) (r : CR),
      (∀ t, tgt = some t → C.P t) → convert reg Γ ex tgt = .ok r →
      Good reg (traverse reg Γ r.e) r.u ∧ C.P r.u := by
  intro ex
  induction ex with
  | qty v u =>
      intro _ hu tgt r ht h
      simp only [convert] at h
      exact good_maybeConv C hu ht h (by rw [traverse_qty]; exact good_ok_refl)
  | cf s u =>
      intro _ hu tgt r ht h
      simp only [convert] at h
      exact good_maybeConv C hu ht h (by rw [traverse_cf]; exact good_ok_refl)
  | var i =>
      intro _ _ tgt r ht h
      obtain ⟨vi, hvi, h'⟩ := convert_var_inv h
      obtain ⟨m, hm⟩ := varQ_some hvi
      exact good_maybeConv C (hΓ i vi hvi) ht h' (by rw [traverse_var, hm]; exact good_ok_refl)
  | deriv v t =>
      intro _ _ tgt r ht h
      obtain ⟨vv, vt, hvv, hvt, h'⟩ := convert_deriv_inv h
      exact good_maybeConv C (C.div (hΓ v vv hvv) (hΓ t vt hvt)) ht h' (good_deriv hvv hvt)
  | int n =>
      intro _ _ tgt r _ h
      obtain ⟨_, rfl⟩ := convert_numLeaf_inv rfl h
      exact ⟨by simp only [traverse_int]; exact good_ok_refl, C.nil⟩
  | rat q =>
      intro _ _ tgt r _ h
      obtain ⟨_, rfl⟩ := convert_numLeaf_inv rfl h
      exact ⟨by simp only [traverse_rat]; exact good_ok_refl, C.nil⟩
  | flt q =>
      intro _ _ tgt r _ h
      obtain ⟨_, rfl⟩ := convert_numLeaf_inv rfl h
      exact ⟨by simp only [traverse_flt]; exact good_ok_refl, C.nil⟩
  | pi =>
      intro _ _ tgt r _ h
      obtain ⟨_, rfl⟩ := convert_numLeaf_inv rfl h
      exact ⟨by simp only [traverse_pi]; exact good_ok_refl, C.nil⟩
  | e =>
      intro _ _ tgt r _ h
      obtain ⟨_, rfl⟩ := convert_numLeaf_inv rfl h
      exact ⟨by simp only [traverse_e]; exact good_ok_refl, C.nil⟩
  | mul a b iha ihb =>
      intro hf hu tgt r ht h
      simp only [strictFrag, Bool.and_eq_true] at hf
      obtain ⟨ra, rb, hra, hrb, h'⟩ := convert_mul_inv h
      rw [rebuild2 (mk := E.mul) (convert_ident hra).2 (convert_ident hrb).2] at h'
      obtain ⟨ga, pa⟩ := iha hf.1 hu.1 none ra (by intro t ht'; cases ht') hra
      obtain ⟨gb, pb⟩ := ihb hf.2 hu.2 none rb (by intro t ht'; cases ht') hrb
      exact good_maybeConv C (C.mul pa pb) ht h' (good_mul ga gb)
  | pow b x ihb _ =>
      intro hf hu tgt r ht h
      simp only [strictFrag, Bool.and_eq_true] at hf
      obtain ⟨rx, q, rb, hrx, hq, hrb, h'⟩ := convert_pow_inv h
      rw [convert_numProd hf.2 (some []) (Or.inr rfl)] at hrx
      cases hrx
      obtain ⟨q', hc, hq'⟩ := evalClosed_numProd hf.2
      rw [hq'] at hq; cases hq
      obtain ⟨q'', f, htx, hc'⟩ := numProd_traverse reg Γ x hf.2
      rw [hc] at hc'; cases hc'
      rw [rebuild2 (mk := fun x' b' => E.pow b' x') (fun _ => rfl) (convert_ident hrb).2] at h'
      obtain ⟨gb, pb⟩ := ihb hf.1 hu none rb (by intro t ht'; cases ht') hrb
      exact good_maybeConv C (C.pow _ pb) ht h' (good_pow gb htx)
  | add a b iha ihb =>
      intro hf hu tgt r ht h
      simp only [strictFrag, Bool.and_eq_true] at hf
      obtain ⟨ra, rb, hra, hrb, rfl⟩ := convert_add_inv h
      rw [rebuild2 (mk := E.add) (convert_ident hra).2 (convert_ident hrb).2]
      rw [getD_target hra] at hrb
      obtain ⟨ga, pa⟩ := iha hf.1 hu.1 tgt ra ht hra
      obtain ⟨gb, pb⟩ := ihb hf.2 hu.2 _ rb (by intro t ht'; cases ht'; exact pa) hrb
      have hub : rb.u = ra.u := convert_target b _ rb hrb
      simp only [hub] at gb ⊢
      exact ⟨good_add ga gb, pa⟩
  | abs a iha =>
      intro hf hu tgt r ht h
      obtain ⟨ra, hra, rfl⟩ := convert_abs_inv h
      rw [rebuild1 (mk := E.abs) (convert_ident hra).2]
      obtain ⟨ga, pa⟩ := iha hf hu tgt ra ht hra
      exact ⟨good_abs ga, pa⟩
  | floor a iha =>
      intro hf hu tgt r ht h
      obtain ⟨ra, hra, rfl⟩ := convert_floor_inv h
      rw [rebuild1 (mk := E.floor) (convert_ident hra).2]
      obtain ⟨ga, pa⟩ := iha hf hu tgt ra ht hra
      exact ⟨good_floor ga, pa⟩
  | ceil a iha =>
      intro hf hu tgt r ht h
      obtain ⟨ra, hra, rfl⟩ := convert_ceil_inv h
      rw [rebuild1 (mk := E.ceil) (convert_ident hra).2]
      obtain ⟨ga, pa⟩ := iha hf hu tgt ra ht hra
      exact ⟨good_ceil ga, pa⟩
  | fn1 f a iha =>
      intro hf hu tgt r ht h
      obtain ⟨_, ra, hra, rfl⟩ := convert_fn1_inv h
      rw [rebuild1 (mk := E.fn1 f) (convert_ident hra).2]
      obtain ⟨ga, pa⟩ := iha hf hu _ ra (by intro t ht'; cases ht'; exact C.nil) hra
      have hua : ra.u = [] := convert_target a _ ra hra
      simp only [hua] at ga ⊢
      exact ⟨good_fn1 ga, C.nil⟩
  | ite c t el _ iht ihe =>
      intro hf hu tgt r ht h
      simp only [strictFrag, Bool.and_eq_true, Bool.or_eq_true, decide_eq_true_eq] at hf
      obtain ⟨rt, rc, hrt, hrc, hcase⟩ := convert_ite_inv h
      obtain ⟨gt, pt⟩ := iht hf.1 hu.1 tgt rt ht hrt
      rcases hcase with ⟨hel, rfl⟩ | ⟨hel, re, hre, rfl⟩
      · rw [rebuild2 (mk := fun t' c' => E.ite c' t' .undef) (convert_ident hrt).2 (convert_ident hrc).2]
        exact ⟨good_ite gt (fun hne => absurd rfl hne), pt⟩
      · rw [rebuild3 (mk := fun t' c' e' => E.ite c' t' e') (convert_ident hrt).2 (convert_ident hrc).2
          (convert_ident hre).2]
        rw [getD_target hrt] at hre
        have hfe : strictFrag el = true := by
          rcases hf.2 with h0 | h0
          · exact absurd h0 hel
          · exact h0
        obtain ⟨ge, _⟩ := ihe hfe hu.2 _ re (by intro t' ht'; cases ht'; exact pt) hre
        have hue : re.u = rt.u := convert_target el _ re hre
        simp only [hue] at ge ⊢
        exact ⟨good_ite gt (fun _ => ge), pt⟩
  | _ => intro hf; simp [strictFrag] at hf

/-! ### a real instance of `UClass`: units whose root units all carry a dimension

    For a registry whose dimensioned root units have pairwise different dimensions (checked by `decide` for a concrete
    registry), "same dimension" determines the root units of such units, hence factor one implies `is_equivalent`. -/

/-- the root units that carry a dimension, with it -/
def dimBases : Registry → List (String × String)
  | [] => []
  | (n, .base (some d)) :: r => (n, d) :: dimBases r
  | _ :: r => dimBases r

/-- coefficient of dimension `d0` in the dimensionality of a root container -/
def dimCoef (L : List (String × String)) (c : Container) (d0 : String) : Rat :=
  match L with
  | [] => 0
  | (n, d) :: t => (if d = d0 then c.get n else 0) + dimCoef t c d0

theorem get_dimsOfRoot (reg : Registry) (c : Container) (d0 : String) :
    get (dimsOfRoot reg c) d0 = dimCoef (dimBases reg) c d0 := by
  induction reg with
  | nil => rfl
  | cons hd tl ih =>
      obtain ⟨n, df⟩ := hd
      cases df with
      | base dim =>
          cases dim with
          | none => simpa [dimsOfRoot, dimBases] using ih
          | some d => simp only [dimsOfRoot, dimBases, dimCoef, get_add, get_single, ih]
      | derived k of => simpa [dimsOfRoot, dimBases] using ih

theorem dimCoef_absent (L : List (String × String)) (c : Container) (d0 : String)
    (h : d0 ∉ L.map Prod.snd) : dimCoef L c d0 = 0 := by
  induction L with
  | nil => rfl
  | cons hd tl ih =>
      obtain ⟨n, d⟩ := hd
      simp only [List.map_cons, List.mem_cons, not_or] at h
      have hne : ¬ d = d0 := fun e => h.1 e.symm
      simp only [dimCoef, hne, if_false, ih h.2]; grind

theorem dimCoef_unique (L : List (String × String)) (c : Container) (n0 d0 : String)
    (hnd : (L.map Prod.snd).Nodup) (hm : (n0, d0) ∈ L) : dimCoef L c d0 = c.get n0 := by
  induction L with
  | nil => cases hm
  | cons hd tl ih =>
      obtain ⟨n, d⟩ := hd
      simp only [List.map_cons, List.nodup_cons] at hnd
      simp only [List.mem_cons, Prod.mk.injEq] at hm
      rcases hm with ⟨rfl, rfl⟩ | hm
      · simp only [dimCoef, if_true, dimCoef_absent tl c d0 hnd.1]; grind
      · have hne : ¬ d = d0 := by
          intro e; subst e
          exact hnd.1 (List.mem_map.mpr ⟨(n0, d), hm, rfl⟩)
        simp only [dimCoef, hne, if_false, ih hnd.2 hm]; grind

/-- the dimensioned root units of the registry have pairwise different dimensions -/
def dimsDistinct (reg : Registry) : Bool := decide ((dimBases reg).map Prod.snd).Nodup

/-- every root unit of the unit carries a dimension (no `radian`, no unknown name) -/
def RootsDim (reg : Registry) (c : Container) : Prop :=
  ∀ n, get (toRoot reg c).2 n ≠ 0 → ∃ d, (n, d) ∈ dimBases reg

/-- executable sufficient test for `RootsDim` -/
def rootsDimB (reg : Registry) (c : Container) : Bool :=
  (rootOf reg c).all (fun p => (dimBases reg).any (fun nd => nd.1 == p.1))

theorem get_ne_zero_mem {κ : Type} [DecidableEq κ] (l : PMap κ) (k : κ) (h : get l k ≠ 0) : ∃ x, (k, x) ∈ l := by
  induction l with
  | nil => exact absurd rfl h
  | cons hd tl ih =>
      obtain ⟨k', x⟩ := hd
      by_cases hk : k' = k
      · subst hk; exact ⟨x, by simp⟩
      · have : get tl k ≠ 0 := by
          intro h0; apply h; simp only [get_cons, hk, if_false, h0]; grind
        obtain ⟨y, hy⟩ := ih this
        exact ⟨y, by simp [hy]⟩

theorem rootsDim_of_test {reg : Registry} {c : Container} (h : rootsDimB reg c = true) : RootsDim reg c := by
  intro n hn
  have hn' : get (rootOf reg c) n ≠ 0 := by simpa only [rootOf, get_norm] using hn
  obtain ⟨x, hx⟩ := get_ne_zero_mem _ _ hn'
  simp only [rootsDimB, List.all_eq_true] at h
  have := h (n, x) hx
  simp only [List.any_eq_true, beq_iff_eq] at this
  obtain ⟨⟨n', d⟩, hmem, heq⟩ := this
  simp only at heq; subst heq
  exact ⟨d, hmem⟩

/-- on units whose root units all carry a dimension, factor one implies `is_equivalent` -/
theorem faithful_of_distinct {reg : Registry} (hreg : dimsDistinct reg = true) {a b : Container}
    (ha : RootsDim reg a) (hb : RootsDim reg b) (hf : factor reg a b = .ok []) : isEquivalent reg a b = true := by
  obtain ⟨ka, kb, hd, _⟩ := (Cellml.Props.C07.factor_ok_iff reg a b []).mp hf
  refine (Cellml.Props.C07.equiv_iff_factor_one reg a b ka kb).mpr ⟨hf, ?_⟩
  have hdd : dimsOfRoot reg (toRoot reg a).2 ≃ dimsOfRoot reg (toRoot reg b).2 :=
    (dimsOf_equiv reg a).symm.trans ((equiv_of_beq hd).trans (dimsOf_equiv reg b))
  have hnd : ((dimBases reg).map Prod.snd).Nodup := of_decide_eq_true hreg
  intro n
  by_cases hex : ∃ d, (n, d) ∈ dimBases reg
  · obtain ⟨d, hmem⟩ := hex
    have h1 := dimCoef_unique (dimBases reg) (toRoot reg a).2 n d hnd hmem
    have h2 := dimCoef_unique (dimBases reg) (toRoot reg b).2 n d hnd hmem
    rw [← h1, ← h2, ← get_dimsOfRoot, ← get_dimsOfRoot]
    exact hdd d
  · have za : get (toRoot reg a).2 n = 0 := Classical.byContradiction fun h0 => hex (ha n h0)
    have zb : get (toRoot reg b).2 n = 0 := Classical.byContradiction fun h0 => hex (hb n h0)
    rw [za, zb]

/-- the class of units without dimensionless root units, for a registry with distinct base dimensions -/
def dimClass (reg : Registry) (hreg : dimsDistinct reg = true) : UClass reg where
  P := RootsDim reg
  nil := by
    intro n hn
    exact absurd (by have := (sem_nil reg).2 n; simpa [Spec.one] using this) hn
  mul := by
    intro a b ha hb n hn
    have h := (sem_mulC reg a b).2 n
    simp only [Spec.mul, get_add] at h
    by_cases h0 : get (toRoot reg a).2 n = 0
    · apply hb n; intro h1; apply hn; rw [h, h0, h1]; grind
    · exact ha n h0
  div := by
    intro a b ha hb n hn
    have h := (sem_divC reg a b).2 n
    simp only [Spec.div, get_sub] at h
    by_cases h0 : get (toRoot reg a).2 n = 0
    · apply hb n; intro h1; apply hn; rw [h, h0, h1]; grind
    · exact ha n h0
  pow := by
    intro a q ha n hn
    have h := (sem_powC reg a q).2 n
    simp only [Spec.pow, get_smul] at h
    apply ha n; intro h0; apply hn; rw [h, h0]; grind
  faithful := fun ha hb hf => faithful_of_distinct hreg ha hb hf

end strict

end Convert
