import Cellml.Generated.Code.ConvertVarE
import Cellml.Tie.ConvertVarDriver
import Mathlib.Tactic.SplitIfs

/-! # Tie: `Model.convert_variable` and its helpers (generated from model.py, exceptions with class and state) = the
      stopping hand model `Model.CVE.*` — EQUALITY of results, of exception classes and of the states left behind -/

namespace Cellml.Tie.CVE
open Model Model.CV Cellml.Gen Cellml.Tie Cellml.Tie.CV
open Model.CVE (Raised)

theorem removeOdeAssign_tieE (s : CState) (ode : CEqn) (x : Nat) :
    ConvertVarE.removeOdeAndAssignRhsToNewVariable s ode x = Model.CVE.removeOdeAssign s ode x := by
  rfl

theorem convertFreeDeriv_tieE (s : CState) (ode : CEqn) (nt : Nat) (cfq : X) :
    ConvertVarE.convertFreeVariableDeriv s ode nt cfq = Model.CVE.convertFreeDeriv s ode nt cfq := by
  obtain ⟨lhs, rhs⟩ := ode
  cases lhs <;> rfl

theorem convertStateDeriv_tieE (s : CState) (v nv : Nat) (cfq : X) :
    ConvertVarE.convertStateVariableDeriv s v nv cfq = Model.CVE.convertStateDeriv s v nv cfq := by
  unfold ConvertVarE.convertStateVariableDeriv Model.CVE.convertStateDeriv odeLookupE
  cases h : s.odeDef.lookup v with
  | none => simp only [h]; rfl
  | some ode =>
    obtain ⟨lhs, rhs⟩ := ode
    simp only [h]
    cases lhs <;> rfl

/-- a python `for` whose body is one step of a `foldlM` (no `break`) is the `foldlM` -/
theorem forIn_eq_foldlM {ε σ α : Type} (step : σ → α → Except ε σ) (body : α → σ → Except ε (ForInStep σ))
    (h : ∀ a st, body a st = (step st a >>= fun r => pure (ForInStep.yield r))) :
    ∀ (l : List α) (s : σ), forIn l s body = l.foldlM step s
  | [], s => rfl
  | a :: l, s => by
    rw [List.forIn_cons, List.foldlM_cons, h]
    cases hs : step s a with
    | error e => rfl
    | ok r => exact forIn_eq_foldlM step body h l r

theorem replaceRefs_tieE (s : CState) (rep : Rep) :
    ConvertVarE.replaceReferencesToDerivatives s rep = Model.CVE.replaceRefs s rep := by
  unfold ConvertVarE.replaceReferencesToDerivatives Model.CVE.replaceRefs
  have := forIn_eq_foldlM (Model.CVE.replaceStep rep)
    (fun equation r => do
      let mut st := r
      if (!(Py.truthy (isDisjoint (dictKeys rep) (X.derivs (equation).rhs)))) then
        st ← removeEqE st equation
        st ← Model.CVE.addEq st (substEq rep equation) true
      pure (ForInStep.yield st)) (fun e st => ?_) s.equations s
  · simp only [bind, Except.bind, pure, Except.pure] at this ⊢
    rw [this]
    cases List.foldlM (Model.CVE.replaceStep rep) s s.equations <;> rfl
  · unfold Model.CVE.replaceStep
    rw [not_isDisjoint_eq_mentions]
    by_cases hm : mentions rep e = true
    · simp only [hm, if_true]
      have e1 : removeEqE st e = Model.CVE.removeEq st e := rfl
      rw [e1]
      cases Model.CVE.removeEq st e with
      | error x => rfl
      | ok r1 => cases h2 : Model.CVE.addEq r1 (substEq rep e) true <;> simp [bind, Except.bind, h2]
    · simp only [hm]; rfl

/-- the INPUT branch of `_convert_variable_instance` after the annotations have been moved -/
theorem instInput_tieE (s2 : CState) (v nv : Nat) (cfq : X) :
    (if (s2.varDef.lookup v).isSome = true then do
          let st_1 ← removeEqE s2 (s2.varDef.lookup v)
          let st ← Model.CVE.addEq st_1 (mkEq nv (eqArg1 (s2.varDef.lookup v) * cfq)) true
          let st ← Model.CVE.addEq (setInitialValue st v none) (mkEq v (nv / cfq))
            (!Py.isIn v (odeKeys (setInitialValue st v none)))
          pure (st, nv)
        else do
          let st ← Model.CVE.addEq (setInitialValue s2 v none) (mkEq v (nv / cfq))
            (!Py.isIn v (odeKeys (setInitialValue s2 v none)))
          pure (st, nv))
      = (do let s3 ← Model.CVE.instInput s2 v nv cfq; pure (s3, nv)) := by
  unfold Model.CVE.instInput
  cases ho : s2.varDef.lookup v with
  | none =>
    simp only [Option.isSome_none, Bool.false_eq_true, if_false, not_isIn_odeKeys]
    rfl
  | some oe =>
    simp only [Option.isSome_some, if_true, not_isIn_odeKeys]
    have e1 : removeEqE s2 (some oe) = Model.CVE.removeEq s2 oe := rfl
    rw [e1]
    cases Model.CVE.removeEq s2 oe with
    | error x => rfl
    | ok r1 =>
      have e2 : eqArg1 (some oe) = oe.rhs := rfl
      rw [e2]
      simp only [bind, Except.bind, pure, Except.pure]
      have e3 : mkEq nv (oe.rhs * cfq) = ⟨.var nv, .mul oe.rhs cfq⟩ := rfl
      rw [e3]
      cases Model.CVE.addEq r1 ⟨.var nv, .mul oe.rhs cfq⟩ true with
      | error x => rfl
      | ok r2 => rfl

theorem convertInstance_tieE (s : CState) (v : Nat) (cf : Rat) (u : U) (dir : Dir) (move : Bool) :
    ConvertVarE.convertVariableInstance s v (.lit cf (u.div (unitOfV s v))) u dir move
      = Model.CVE.convertInstance s v cf u dir move := by
  unfold ConvertVarE.convertVariableInstance Model.CVE.convertInstance
  cases dir with
  | output =>
    simp only [show (Dir.output == Dir.input) = false from rfl, Bool.false_and, Bool.false_eq_true, if_false, newInit]
    rfl
  | input =>
    have hrest : ∀ niv : Option Rat, niv = newInit s v cf .input →
        (do
          let __x ← Model.CVE.addVariable s (freshName s (nameOfV s v + "_converted")) u niv
          if ((cmetaOfV __x.fst v).isSome && Py.truthy move) = true then do
            let st ← Model.CVE.transferCmeta __x.fst v __x.snd
            if (st.varDef.lookup v).isSome = true then do
              let st_1 ← removeEqE st (st.varDef.lookup v)
              let st ← Model.CVE.addEq st_1 (mkEq __x.snd (eqArg1 (st.varDef.lookup v) * X.lit cf (u.div (unitOfV s v)))) true
              let st ← Model.CVE.addEq (setInitialValue st v none) (mkEq v (__x.snd / X.lit cf (u.div (unitOfV s v))))
                (!Py.isIn v (odeKeys (setInitialValue st v none)))
              pure (st, __x.snd)
            else do
              let st ← Model.CVE.addEq (setInitialValue st v none) (mkEq v (__x.snd / X.lit cf (u.div (unitOfV s v))))
                (!Py.isIn v (odeKeys (setInitialValue st v none)))
              pure (st, __x.snd)
          else
            if (__x.fst.varDef.lookup v).isSome = true then do
              let st_1 ← removeEqE __x.fst (__x.fst.varDef.lookup v)
              let st ← Model.CVE.addEq st_1 (mkEq __x.snd (eqArg1 (__x.fst.varDef.lookup v) * X.lit cf (u.div (unitOfV s v)))) true
              let st ← Model.CVE.addEq (setInitialValue st v none) (mkEq v (__x.snd / X.lit cf (u.div (unitOfV s v))))
                (!Py.isIn v (odeKeys (setInitialValue st v none)))
              pure (st, __x.snd)
            else do
              let st ← Model.CVE.addEq (setInitialValue __x.fst v none) (mkEq v (__x.snd / X.lit cf (u.div (unitOfV s v))))
                (!Py.isIn v (odeKeys (setInitialValue __x.fst v none)))
              pure (st, __x.snd))
          = Model.CVE.convertInstance s v cf u .input move := by
      rintro niv rfl
      unfold Model.CVE.convertInstance
      simp only [instInput_tieE]
      cases Model.CVE.addVariable s (freshName s (nameOfV s v + "_converted")) u (newInit s v cf .input) with
      | error x => rfl
      | ok r =>
        obtain ⟨s1, nv⟩ := r
        by_cases hc : ((cmetaOfV s1 v).isSome && move) = true
        · simp only [bind, Except.bind, hc, Py.truthy_bool, if_true]
        · simp only [bind, Except.bind, hc, Py.truthy_bool]
          rfl
    have hc := hrest
    unfold Model.CVE.convertInstance at hc
    cases hi : initOfV s v with
    | none =>
      simp only [show (Dir.input == Dir.input) = true from rfl, Bool.true_and, hi, Option.isSome_none,
        Bool.false_eq_true, if_false, if_true]
      exact hc none (by simp [newInit, hi])
    | some q =>
      simp only [show (Dir.input == Dir.input) = true from rfl, Bool.true_and, hi, Option.isSome_some,
        if_true, pyFloat]
      exact hc (some q * cf) (by simp [newInit, hi]; rfl)

theorem pyInsert_eq_insertItem (st : CState) (x : Nat × CEqn) (l : List (Nat × CEqn)) :
    pyInsert (fun v_eq : Nat × CEqn => orderAdded st v_eq.1) x l = Model.CVE.insertItem x l := by
  induction l with
  | nil => rfl
  | cons y ys ih =>
    simp only [orderAdded] at ih
    simp only [pyInsert, Model.CVE.insertItem, orderAdded, ih]

theorem pySorted_eq_foldr (st : CState) (l : List (Nat × CEqn)) :
    pySorted (fun v_eq : Nat × CEqn => orderAdded st v_eq.1) l = l.foldr Model.CVE.insertItem [] := by
  induction l with
  | nil => rfl
  | cons x xs ih => simp only [pySorted, List.foldr_cons, pyInsert_eq_insertItem, ih]

theorem ok_bindE {ε β γ : Type} (a : β) (k : β → Except ε γ) : (Except.ok a >>= k) = k a := rfl

/-- the loop over the ODEs in model order (the body as generated) is the hand model's `foldlM` of `freeStep` -/
theorem freeLoop_tieE (acc : CState × Rep) (v nv : Nat) (cfq : X) :
      (forIn (pySorted (fun v_eq => orderAdded acc.1 v_eq.1) (odeItems acc.1)) acc fun x __s => do
        let __do_lift ← odeBoundVarE __s.fst x.snd
        if (!__do_lift == v) = true then do
          throw (Raised.mk "AssertionError" __s.fst)
          let __x ← ConvertVarE.convertFreeVariableDeriv __s.fst x.snd nv cfq
          pure (ForInStep.yield (__x.fst, dictUpdate __s.snd __x.snd))
        else do
          let __x ← ConvertVarE.convertFreeVariableDeriv __s.fst x.snd nv cfq
          pure (ForInStep.yield (__x.fst, dictUpdate __s.snd __x.snd)))
      = (Model.CVE.sortedItems acc.1).foldlM (Model.CVE.freeStep v nv cfq) acc := by
  unfold Model.CVE.sortedItems
  rw [List.foldlM_map, pySorted_eq_foldr]
  refine forIn_eq_foldlM (fun a (p : Nat × CEqn) => Model.CVE.freeStep v nv cfq a p.2) _ (fun p st => ?_) _ _
  obtain ⟨k, ⟨lhs, rhs⟩⟩ := p
  unfold Model.CVE.freeStep
  cases lhs with
  | var w => rfl
  | deriv x t =>
    simp only [odeBoundVarE, derivArg1E, convertFreeDeriv_tieE, ok_bindE]
    by_cases htv : t = v
    · subst htv
      simp only [beq_self_eq_true, Bool.not_true, Bool.false_eq_true, if_false, if_true]
      cases Model.CVE.convertFreeDeriv st.fst { lhs := CLhs.deriv x t, rhs := rhs } nv cfq <;> rfl
    · have : (t == v) = false := beq_eq_false_iff_ne.mpr htv
      simp only [this, Bool.not_false, if_true, if_neg htv]
      rfl

theorem getFree_catch (s : CState) :
    (tryCatch (getFreeVariableE s) (fun e__ => if (e__.cls == "ValueError") then pure none else throw e__))
      = (.ok (getFree s) : Except Raised (Option Nat)) := by
  cases hf : getFree s <;>
    simp [getFreeVariableE, hf, tryCatch, tryCatchThe, MonadExceptOf.tryCatch, Except.tryCatch, pure] <;> rfl

theorem replacePhase_tieE (b : CState × Rep) (nv : Nat) :
    (if Py.truthy b.2 = true then do
          let st ← ConvertVarE.replaceReferencesToDerivatives b.1 b.2
          pure (st, nv)
        else (pure (b.1, nv) : Except Raised (CState × Nat)))
      = (if b.2.isEmpty = true then do
            let s' ← (pure b.1 : Except Raised CState)
            pure (s', nv)
          else do
            let s' ← Model.CVE.replaceRefs b.1 b.2
            pure (s', nv)) := by
  obtain ⟨b1, b2⟩ := b
  cases b2 with
  | nil => rfl
  | cons p r =>
    simp only [Py.truthy_list, List.isEmpty_cons, Bool.not_false, if_true, Bool.false_eq_true, if_false,
      replaceRefs_tieE]

/-- `{}.update(d)` for the dict `_convert_state_variable_deriv` answers is that dict -/
theorem dictUpdate_nil_convertStateDerivE (s : CState) (v nv : Nat) (cfq : X) (a : CState × Rep)
    (h : Model.CVE.convertStateDeriv s v nv cfq = .ok a) : dictUpdate [] a.2 = a.2 := by
  unfold Model.CVE.convertStateDeriv at h
  split at h
  · cases h
  · split at h
    · rename_i _ ode _ _ x t _
      cases h1 : Model.CVE.removeOdeAssign s ode v with
      | error e => simp [h1, bind, Except.bind] at h
      | ok r =>
        obtain ⟨s1, w⟩ := r
        cases h2 : Model.CVE.addEq s1 ⟨.deriv nv t, .mul (.var w) cfq⟩ true with
        | error e => simp [h1, h2, bind, Except.bind] at h
        | ok s2 =>
          simp [h1, h2, bind, Except.bind, pure, Except.pure] at h
          subst h
          rfl
    · cases h

theorem convertVariable_tieE (view : CVViewE) (s : CState) (v : Nat) (u : U) (dir : Dir) (move : Bool) :
    ConvertVarE.convertVariable view s v u dir move
      = Model.CVE.convertVariable s v u (view.getConversionFactor (unitOfV s v) u) dir move := by
  unfold ConvertVarE.convertVariable Model.CVE.convertVariable
  by_cases hv : nameOfV s v ∈ CV.names s
  · have hin : Py.isIn (nameOfV s v) (CV.names s) = true := by simpa [Py.isIn] using hv
    simp only [hin, hv, Bool.not_true, Bool.false_eq_true, if_false, if_true, CVViewE.getCfE]
    cases hcf : view.getConversionFactor (unitOfV s v) u with
    | error c => rfl
    | ok cf =>
      simp only [ok_bindE, num_beq_one]
      by_cases h1 : cf = 1
      · subst h1; rfl
      · simp only [h1, decide_false, Bool.false_eq_true, if_false]
        rw [if_pos (show Py.truthy (CfVal.num cf).isNumber = true from rfl)]
        have hq : (createQuantity (CfVal.num cf) (u / unitOfV s v)).toX = X.lit cf (u.div (unitOfV s v)) := rfl
        simp only [hq, getFree_catch, ok_bindE, convertInstance_tieE]
        cases hci : Model.CVE.convertInstance s v cf u dir move with
        | error e => rfl
        | ok r =>
          obtain ⟨s1, nv⟩ := r
          simp only [ok_bindE]
          cases dir with
          | output => rfl
          | input =>
            simp only [show (Dir.input == Dir.output) = false from rfl, Bool.false_eq_true, if_false]
            have hc : Py.isIn v (stateVariables s) = hasKey v s.odeDef := contains_keys_eq_hasKey v s.odeDef
            have hc2 : (some v == getFree s) = (getFree s == some v) := BEq.comm
            rw [hc, hc2]
            have hloop : ∀ a : CState × Rep, _ = _ := fun a => freeLoop_tieE (a.1, a.2) v nv (X.lit cf (u.div (unitOfV s v)))
            simp only at hloop
            have hrest : ∀ a : CState × Rep,
                (if (getFree s == some v) = true then do
                    let __s ←
                      forIn (pySorted (fun v_eq => orderAdded a.1 v_eq.fst) (odeItems a.1)) (a.1, a.2) fun x __s => do
                          let __do_lift ← odeBoundVarE __s.fst x.snd
                          if (!__do_lift == v) = true then do
                              throw (Raised.mk "AssertionError" __s.fst)
                              let __x ←
                                ConvertVarE.convertFreeVariableDeriv __s.fst x.snd nv (X.lit cf (u.div (unitOfV s v)))
                              pure (ForInStep.yield (__x.fst, dictUpdate __s.snd __x.snd))
                            else do
                              let __x ←
                                ConvertVarE.convertFreeVariableDeriv __s.fst x.snd nv (X.lit cf (u.div (unitOfV s v)))
                              pure (ForInStep.yield (__x.fst, dictUpdate __s.snd __x.snd))
                    if Py.truthy __s.snd = true then do
                        let st ← ConvertVarE.replaceReferencesToDerivatives __s.fst __s.snd
                        pure (st, nv)
                      else pure (__s.fst, nv)
                  else
                    if Py.truthy a.2 = true then do
                      let st ← ConvertVarE.replaceReferencesToDerivatives a.1 a.2
                      pure (st, nv)
                    else pure (a.1, nv))
                = (do
                    let b ← if (getFree s == some v) = true then
                        (Model.CVE.sortedItems a.1).foldlM (Model.CVE.freeStep v nv (X.lit cf (u.div (unitOfV s v)))) a
                      else pure a
                    let s' ← if b.2.isEmpty = true then pure b.1 else Model.CVE.replaceRefs b.1 b.2
                    pure (s', nv)) := by
              intro a
              by_cases hF : (getFree s == some v) = true
              · simp only [hF, if_true]
                rw [hloop a]
                cases List.foldlM (Model.CVE.freeStep v nv (X.lit cf (u.div (unitOfV s v)))) a (Model.CVE.sortedItems a.1) with
                | error e => rfl
                | ok b =>
                  simp only [ok_bindE]
                  rw [replacePhase_tieE b nv]
              · simp only [hF, if_false, Bool.false_eq_true, pure_bind]
                rw [replacePhase_tieE a nv]
                split <;> rfl
            by_cases hS : hasKey v s.odeDef = true
            · simp only [hS, if_true, convertStateDeriv_tieE]
              cases ha : Model.CVE.convertStateDeriv s1 v nv (X.lit cf (u.div (unitOfV s v))) with
              | error e => rfl
              | ok a =>
                simp only [ok_bindE]
                rw [dictUpdate_nil_convertStateDerivE _ _ _ _ a ha]
                exact hrest a
            · simp only [hS, if_false, Bool.false_eq_true]
              exact hrest (s1, [])
  · have hin : Py.isIn (nameOfV s v) (CV.names s) = false := by simpa [Py.isIn] using hv
    simp only [hin, hv, Bool.not_false, if_true, if_false]
    rfl

end Cellml.Tie.CVE
