import Cellml.C08.Lemmas

/-! # C08 — any sequence of edits leaves a coherent model; rejected edits change nothing

    Model: `Cellml/Model/State.lean` (`MState`, `step`, `run`), `Cellml/Model/Graph.lean` (`buildGraph`),
    `Cellml/Model/Inv.lean` (`Inv`, `content`, `fresh`, `obs`). The model is the code of cellmlmanip/model.py after the
    three `fix:` commits recorded in findings/C08.json; the behaviour before them is kept as `addEquationToday` /
    `addVariableToday` with proved counterexamples.

    Every theorem quantifies over ALL histories of API calls of any length — valid edits, edits that raise, and the
    cache-populating queries at any position — or over all states satisfying the invariant and all calls. The tie to
    the Python code is the correspondence check `harness/props/c08.py`. -/

deriving instance DecidableEq for Except

namespace Cellml.Props.C08
open Model

/-- the invariant holds for a new model … -/
theorem inv_init (mc : Option String) : Inv (init mc) := Model.inv_init mc

/-- … is preserved by every API call, whether it returns or raises … -/
theorem inv_step (s : MState) (op : Op) (h : Inv s) : Inv (step s op).1 := Model.inv_step h op

/-- … hence holds after every history: the definition maps are exactly what the equation list says, a cached graph is
    the graph of the current equations, the name and cmeta registries match the variable list, `order_added` increases
    in the order of introduction. -/
theorem inv_reachable (mc : Option String) (ops : List Op) : Inv (run mc ops) := by
  unfold run
  suffices ∀ (s : MState), Inv s → Inv (ops.foldl (fun s op => (step s op).1) s) from this _ (inv_init mc)
  induction ops with
  | nil => intro s h; exact h
  | cons op ops ih => intro s h; exact ih _ (inv_step s op h)

/-- **coherent**: after any history every query — the equation list, the definition of each variable, the state
    variables and their order, the free variable, the cmeta lookups, both graphs, the roles left on the variables —
    answers as on a freshly built model holding the same variables and equations. -/
theorem coherent (mc : Option String) (ops : List Op) :
    obs (run mc ops) = obs (fresh (content (run mc ops))) :=
  obs_fresh (inv_reachable mc ops)

/-- the same, for any state satisfying the invariant -/
theorem coherent_of_inv (s : MState) (h : Inv s) : obs s = obs (fresh (content s)) := obs_fresh h

/-- `fresh` is not an ad-hoc construction: it is the model that `add_equation`, called for each equation of the content
    in turn on a model holding the same variables, builds -/
theorem fresh_is_built (mc : Option String) (ops : List Op) :
    (run mc ops).equations.foldl (fun st e => (step st (.addEquation e)).1)
        (fresh { content (run mc ops) with equations := [] }) = fresh (content (run mc ops)) :=
  Model.fresh_is_built (inv_reachable mc ops)

/-- two histories that arrive at the same variables and equations answer every query alike -/
theorem history_independent (mc₁ mc₂ : Option String) (ops₁ ops₂ : List Op)
    (h : content (run mc₁ ops₁) = content (run mc₂ ops₂)) : obs (run mc₁ ops₁) = obs (run mc₂ ops₂) := by
  rw [coherent mc₁ ops₁, coherent mc₂ ops₂, h]

/-- **atomic**: a call that raises (duplicate name, cmeta id in use, duplicate definition, invalid left-hand side,
    higher-order derivative, unknown equation, transfer without / onto a cmeta id, a graph that cannot be built, no free
    variable) leaves every observable of the model as it was before the call. -/
theorem atomic (s s' : MState) (op : Op) (e : Err) (h : Inv s) (hs : step s op = (s', .raised e)) :
    obs s' = obs s := by
  rcases raised_state h op e hs with rfl | ⟨_, hg, hn, rfl⟩
  · rfl
  · exact obs_failed_build hg hn

/-- atomicity at every point of every history -/
theorem atomic_reachable (mc : Option String) (ops : List Op) (op : Op) (s' : MState) (e : Err)
    (hs : step (run mc ops) op = (s', .raised e)) : obs s' = obs (run mc ops) :=
  atomic _ s' op e (inv_reachable mc ops) hs

/-- a rejected *edit* leaves the whole state untouched, not only what can be observed (a graph query that raises has
    rewritten `type` fields, which the next successful query rewrites again) -/
theorem rejected_edit_state (s s' : MState) (op : Op) (e : Err) (h : Inv s) (hs : step s op = (s', .raised e))
    (hedit : op ≠ .qGraph ∧ op ≠ .qGraphNum) : s' = s := by
  rcases raised_state h op e hs with h1 | ⟨hq | hq, _⟩
  · exact h1
  · exact absurd hq hedit.1
  · exact absurd hq hedit.2

/-- `get_state_variables()` returns the state variables in the order in which they were introduced (the order of
    `variables()`), whatever was added and removed in between; `order_added` is never shared -/
theorem states_in_order_of_introduction (mc : Option String) (ops : List Op)
    (hlive : ∀ k ∈ stateKeys (run mc ops), k ∈ (run mc ops).live) :
    getStateVariables (run mc ops) = (run mc ops).live.filter (fun i => hasKey i (run mc ops).odeDef) :=
  states_in_variables_order (inv_reachable mc ops) hlive

theorem order_added_increasing (mc : Option String) (ops : List Op) :
    ((run mc ops).live.map (orderOf (run mc ops))).Pairwise (· < ·) :=
  (inv_reachable mc ops).reg.orderInc

-- ------------------------------------------------------------------------------------------------ non-vacuity
/-- x, t, a; `dx/dt = a`; `a = 1`; the graph is read; then three rejected edits and a removal -/
def demoOps : List Op :=
  [.addVariable "x" none (some 2), .addVariable "t" (some "time") none, .addVariable "a" none none,
   .addEquation ⟨0, .deriv 0 1 1, [.var 2], [.var 2], false⟩,
   .addEquation ⟨1, .var 2, [], [], true⟩,
   .qGraph]

def demo : MState := run (some "model") demoOps

example : (step demo (.addEquation ⟨2, .var 0, [], [], true⟩)).2 = .raised .valueError := by decide +kernel
example : (step demo (.addEquation ⟨3, .other, [], [], false⟩)).2 = .raised .valueError := by decide +kernel
example : (step demo (.addEquation ⟨4, .deriv 0 1 2, [], [], false⟩)).2 = .raised .valueError := by decide +kernel
example : (step demo (.removeEquation ⟨5, .var 2, [], [], true⟩)).2 = .raised .keyError := by decide +kernel
example : (step demo (.addVariable "x" none none)).2 = .raised .valueError := by decide +kernel
example : (step demo (.addVariable "y" (some "model") none)).2 = .raised .valueError := by decide +kernel
example : (step demo (.transferCmetaId 0 1)).2 = .raised .valueError := by decide +kernel
example : getStateVariables demo = [0] ∧ getFreeVariable demo = some 1 ∧ demo.graph.isSome = true := by decide +kernel
/-- the graph has the ODE node, the parameter, and the state and free variables with their roles -/
example : (obs demo).graph = .ok ⟨[⟨.deriv 0 1, some ⟨0, .deriv 0 1 1, [.var 2], [.var 2], false⟩, none⟩,
      ⟨.var 2, some ⟨1, .var 2, [], [], true⟩, some .parameter⟩, ⟨.var 1, none, some .free⟩, ⟨.var 0, none, some .state⟩],
    [(.var 2, .deriv 0 1)]⟩ := by decide +kernel
/-- removing the ODE and then using the former state variable on a right-hand side: the graph is refused, as on a
    fresh model (before the fix the stale role STATE let it through) -/
example : (obs (run (some "model") (demoOps ++ [.removeEquation ⟨0, .deriv 0 1 1, [.var 2], [.var 2], false⟩,
      .addVariable "b" none none, .addEquation ⟨6, .var 3, [.var 0], [.var 0], false⟩]))).graph =
    .error (.badRef true false) := by decide +kernel

-- ------------------------------------------------------------------------------------------------ before the fixes
/-- `add_equation` as it was (append, then validate): a rejected equation stays in `equations` -/
theorem today_not_atomic :
    (addEquationToday demo ⟨2, .var 0, [], [], true⟩ true).2 = .raised .valueError ∧
    (addEquationToday demo ⟨2, .var 0, [], [], true⟩ true).1.equations ≠ demo.equations ∧
    (addEquationToday demo ⟨3, .other, [], [], false⟩ true).2 = .raised .valueError ∧
    (addEquationToday demo ⟨3, .other, [], [], false⟩ true).1.equations ≠ demo.equations := by decide +kernel

/-- … and the model is then no longer coherent: the list holds two definitions of `x` -/
theorem today_not_coherent :
    ¬ ((addEquationToday demo ⟨2, .var 0, [], [], true⟩ true).1.equations.filterMap defKey).Nodup := by
  decide +kernel

/-- `add_variable` as it was (`order_added = len(_name_to_variable)`): after t, a, x, remove a, add y, the live
    variables x and y share `order_added`; with `dy/dt` added before `dx/dt` the states come out as y, x although x was
    introduced first -/
theorem today_order_reused :
    let s0 := (addVariableToday (init none) "t" none none).1
    let s1 := (addVariableToday s0 "a" none none).1
    let s2 := (addVariableToday s1 "x" none none).1
    let s3 := (removeVariable s2 1).1
    let s4 := (addVariableToday s3 "y" none none).1
    let s5 := (step s4 (.addEquation ⟨0, .deriv 3 0 1, [], [], false⟩)).1
    let s6 := (step s5 (.addEquation ⟨1, .deriv 2 0 1, [], [], false⟩)).1
    orderOf s6 2 = orderOf s6 3 ∧ s6.live = [0, 2, 3] ∧ getStateVariables s6 = [3, 2] := by decide +kernel

end Cellml.Props.C08
