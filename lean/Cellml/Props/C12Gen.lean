import Cellml.Props.C12
import Cellml.Tie.Sing
import Cellml.Tie.SingFixAdd
import Cellml.Tie.SingDet3
set_option linter.unusedSectionVars false
set_option linter.unusedSimpArgs false

/-! # C12 — the headline theorems of `Props/C12.lean`, restated for the definitions GENERATED from the source text of
    `cellmlmanip/_singularity_fixes.py` (`Cellml/Generated/Code/Sing{Pw,Fix,Trav}.lean`).

    Every statement here is a corollary of a theorem of `Props/C12.lean` through a tie theorem of `Tie/Sing*.lean`; none
    mentions a hand-written model function in its conclusion except where the python function takes another python
    function as an argument whose tie is an open-recursion fixpoint (`_fix_expr_parts`, see `fixParts_is_generated`).

    * `_generate_piecewise`  : `Gen.SingPw.generatePiecewise`  — `outside_equal_gen`, `inside_between_gen`,
      `swap_irrelevant_gen`, `window_brackets_gen`
    * `_remove_singularities`: `Gen.SingFix.removeSingularities` — `remove_outside_equal_gen`, `forms_repaired_gen`
    * `remove_fixable_singularities`: `Gen.SingTrav.removeFixableSingularities` — `never_raises_gen`,
      `defined_vars_unchanged_gen`, `excluded_unchanged_gen`, `survives_gen`, `traverse_sound_gen`
    * `_get_singularity`: `Gen.SingDet3.getSingularity` (+ `Gen.SingDet.*`) — `genDet_eq`, `forms_detected_gen`,
      `forms_detected_zero_offset_gen`, `window_brackets_det_gen`, `forms_repaired_gendet` (last section) -/

namespace Cellml.Props.C12Gen
open _root_.C12 _root_.C12.Expr Cellml.Gen Cellml.Tie Cellml.Tie.Sing Cellml.Props.C12

/-! ## `_generate_piecewise` (generated), over every ordered field -/

section
variable {K : Type} [Field K] [LinearOrder K] [IsStrictOrderedRing K]

/-- `outside_equal` for the generated `_generate_piecewise`: outside the range it returns (never raises) the value of
    the original expression — any `f`, any bounds, any `sp` -/
theorem outside_equal_gen (f : K → K) (V sp vmin vmax : K)
    (h : ¬ (lo vmin vmax ≤ V ∧ V ≤ hi vmin vmax)) : SingPw.generatePiecewise f V sp vmin vmax = .ok (f V) := by
  rw [generatePiecewise_tie, outside_equal f V vmin vmax h]

/-- `inside_between` for the generated `_generate_piecewise`: for distinct bounds and a voltage inside the range the
    returned value is a convex combination of the two edge values, between them, within their distance of either, and
    at the edges the function returns the edge values -/
theorem inside_between_gen (f : K → K) (V sp vmin vmax : K) (hne : vmin ≠ vmax)
    (h : lo vmin vmax ≤ V ∧ V ≤ hi vmin vmax) :
    ∃ r : K, SingPw.generatePiecewise f V sp vmin vmax = .ok r ∧
      (∃ t : K, 0 ≤ t ∧ t ≤ 1 ∧ r = (1 - t) * f (lo vmin vmax) + t * f (hi vmin vmax)) ∧
      min (f (lo vmin vmax)) (f (hi vmin vmax)) ≤ r ∧ r ≤ max (f (lo vmin vmax)) (f (hi vmin vmax)) ∧
      |r - f (lo vmin vmax)| ≤ |f (hi vmin vmax) - f (lo vmin vmax)| ∧
      |r - f (hi vmin vmax)| ≤ |f (hi vmin vmax) - f (lo vmin vmax)| ∧
      SingPw.generatePiecewise f (lo vmin vmax) sp vmin vmax = .ok (f (lo vmin vmax)) ∧
      SingPw.generatePiecewise f (hi vmin vmax) sp vmin vmax = .ok (f (hi vmin vmax)) := by
  obtain ⟨h1, h2, h3, h4, h5, h6, h7⟩ := inside_between f V vmin vmax hne h
  refine ⟨generate f V vmin vmax, generatePiecewise_tie f V sp vmin vmax, h1, h2, h3, h4, h5, ?_, ?_⟩
  · rw [generatePiecewise_tie, h6]
  · rw [generatePiecewise_tie, h7]

/-- `swap_irrelevant` for the generated function -/
theorem swap_irrelevant_gen (f : K → K) (V sp vmin vmax : K) :
    SingPw.generatePiecewise f V sp vmin vmax = SingPw.generatePiecewise f V sp vmax vmin := by
  rw [generatePiecewise_tie, generatePiecewise_tie, swap_irrelevant]

/-- `window_brackets` for the generated `_generate_piecewise` called with the range of `U = k·V + c`
    (`Vmin = (δ − c)/k`, `Vmax = (−δ − c)/k`, `sp = −c/k`): the singular point lies strictly between the bounds, and the
    generated function returns the original value exactly at the voltages with `|U(V)| > δ` -/
theorem window_brackets_gen (f : K → K) (k c δ : K) (hk : k ≠ 0) (hδ : 0 < δ) :
    (min (vminOf k c δ) (vmaxOf k c δ) < spOf k c ∧ spOf k c < max (vminOf k c δ) (vmaxOf k c δ)) ∧
    ∀ V : K, ¬ |k * V + c| ≤ δ →
      SingPw.generatePiecewise f V (spOf k c) (vminOf k c δ) (vmaxOf k c δ) = .ok (f V) := by
  obtain ⟨hb, hiff⟩ := window_brackets k c δ hk hδ
  exact ⟨hb, fun V hV => outside_equal_gen f V _ _ _ (fun hin => hV ((hiff V).mp hin))⟩

end

/-! ## `_fix_expr_parts` / `_remove_singularities` (generated) -/

/-- the hand model `fixParts` (on which `fix_outside_equal`, `forms_repaired`, … are stated) is what the functional
    generated from the source of `_fix_expr_parts` maps it to, one level deeper: all branches (`Add` included).
    `hcanon`: SymPy trees have no `Mul` with fewer than two arguments (`Tie/SingFixAdd.lean`, `fixExprParts_tie`). -/
theorem fixParts_is_generated (det : List Expr → List (Win Rat)) (n : Nat) (e : Expr)
    (hcanon : ∀ as, dropOnes e = mul as → 2 ≤ as.length) :
    SingFix.fixExprParts det (fun x => enc (fixParts det n x)) e = .ok (enc (fixParts det (n + 1) e)) :=
  fixParts_fixpoint det n e hcanon

/-- the generated `_remove_singularities`, run with the `_fix_expr_parts` of the model (see `fixParts_is_generated`) -/
def genRemove (det : List Expr → List (Win Rat)) : Expr → Except PyErr (Bool × Expr) :=
  SingFix.removeSingularities (fun x => .ok (enc (fixParts det (x.size + 1) x)))

theorem genRemove_ok (det : List Expr → List (Win Rat)) (e : Expr) :
    genRemove det e = .ok (pyRemoveSing det e) := removeSingularities_tie det e

section
variable {K : Type} [Field K] [LinearOrder K] [IsStrictOrderedRing K]

/-- `remove_outside_equal` / `fix_outside_equal` for the generated `_remove_singularities`: whatever it returns as the
    new expression has, outside every generated range, the value of the original one — every detector, every
    interpretation of `exp` / functions / variables; and it never raises -/
theorem remove_outside_equal_gen (I : Interp K) (v : K) (det : List Expr → List (Win Rat)) (e : Expr) :
    ∃ changed ex, genRemove det e = .ok (changed, ex) ∧ (clear v ex → eval I v ex = eval I v e) := by
  refine ⟨(pyRemoveSing det e).1, (pyRemoveSing det e).2, genRemove_ok det e, ?_⟩
  unfold pyRemoveSing
  by_cases h : e.hasExp = true
  · simp only [h, Bool.not_true, Bool.false_eq_true, if_false]
    exact fun hc => fix_outside_equal I v det _ e hc
  · simp [h]

end

/-- `forms_repaired` for the generated `_remove_singularities`: every product `P·(one of the four documented forms)`
    with an affine exponent argument is reported changed and wrapped with exactly the range `|U| ≤ δ` -/
theorem forms_repaired_gen (δ P k c : Rat) (hk : k ≠ 0) (hc : c ≠ 0) (hP : P ≠ 1) (n : Nat) (rev : Bool) :
    genRemove (detect δ rev) (mul (form n P k c)) = .ok (true, wrapWin (window k c δ) (mul (form n P k c))) := by
  have h := forms_repaired δ P k c hk hc hP n rev
  rw [← fixOf_pyRemoveSing] at h
  rw [genRemove_ok]
  unfold fixOf at h
  split at h
  · rename_i h1
    have h2 := Option.some.inj h
    exact congrArg Except.ok (Prod.ext h1 h2)
  · cases h

/-! ## `remove_fixable_singularities` (generated), run with the generated `_remove_singularities` -/

/-- the generated traversal with the generated `_remove_singularities`; `order`: the nodes of the sorted graph with
    their equation or `None`; result: `(Model.equations, unprocessed_eqs, units hung on re-created quantities)` -/
def genRun (det : List Expr → List (Win Rat)) (sid : Nat) (vUnits : C18.UnitArg) (order : List (Option Eqn))
    (excl : List String) (eqs : List Eqn) : Except PyErr (List Eqn × Env × List C18.UnitRef) :=
  SingTrav.removeFixableSingularities sid vUnits order (genRemove det) excl eqs

/-- hypotheses on the call: `V` is a variable of the model (its unit is a unit of the model's store or of a store
    sharing the registry), every variable has at most one equation -/
structure Call (vUnits : C18.UnitArg) (order : List (Option Eqn)) : Prop where
  vOfModel : vUnits = .ownUnit ∨ vUnits = .sharedUnit
  nodup : (lhss (order.filterMap id)).Nodup

theorem genRun_eq (det : List Expr → List (Win Rat)) (sid : Nat) (vUnits : C18.UnitArg) (order : List (Option Eqn))
    (excl : List String) (eqs : List Eqn) (hc : Call vUnits order) :
    ∃ created, (∀ r ∈ created, r = C18.UnitRef.ofStore sid) ∧
      genRun det sid vUnits order excl eqs
        = .ok ((traverse (removeSing det) excl (order.filterMap id) eqs).eqs,
               (traverse (removeSing det) excl (order.filterMap id) eqs).env, created) :=
  removeFixable_removeSing_tie det sid vUnits hc.vOfModel order excl eqs hc.nodup

/-- the generated function never raises -/
theorem never_raises_gen (det : List Expr → List (Win Rat)) (sid : Nat) (vUnits : C18.UnitArg)
    (order : List (Option Eqn)) (excl : List String) (eqs : List Eqn) (hc : Call vUnits order) :
    ∃ res, genRun det sid vUnits order excl eqs = .ok res := by
  obtain ⟨created, _, h⟩ := genRun_eq det sid vUnits order excl eqs hc
  exact ⟨_, h⟩

/-- what a returned result is -/
theorem result_gen {det : List Expr → List (Win Rat)} {sid : Nat} {vUnits : C18.UnitArg} {order : List (Option Eqn)}
    {excl : List String} {eqs eqs' : List Eqn} {env' : Env} {created : List C18.UnitRef} (hc : Call vUnits order)
    (hrun : genRun det sid vUnits order excl eqs = .ok (eqs', env', created)) :
    eqs' = (traverse (removeSing det) excl (order.filterMap id) eqs).eqs ∧
    (∀ r ∈ created, r = C18.UnitRef.ofStore sid) := by
  obtain ⟨cr, hcr, h⟩ := genRun_eq det sid vUnits order excl eqs hc
  rw [h] at hrun
  have := Except.ok.inj hrun
  simp only [Prod.mk.injEq] at this
  obtain ⟨h1, _, h3⟩ := this
  exact ⟨h1.symm, h3 ▸ hcr⟩

/-- `defined_vars_unchanged` for the generated traversal: the left-hand sides of `Model.equations` after the call are
    a permutation of those before -/
theorem defined_vars_unchanged_gen {det : List Expr → List (Win Rat)} {sid : Nat} {vUnits : C18.UnitArg}
    {order : List (Option Eqn)} {excl : List String} {eqs eqs' : List Eqn} {env' : Env} {created : List C18.UnitRef}
    (hc : Call vUnits order) (hn : (lhss eqs).Nodup) (hm : ∀ e ∈ order.filterMap id, e.lhs ∈ lhss eqs)
    (hrun : genRun det sid vUnits order excl eqs = .ok (eqs', env', created)) :
    (lhss eqs').Perm (lhss eqs) := by
  rw [(result_gen hc hrun).1]
  exact defined_vars_unchanged _ excl _ eqs hn hm

/-- `excluded_unchanged` for the generated traversal: the equation of a variable listed in `modifiable_parameters`
    is still there, unchanged -/
theorem excluded_unchanged_gen {det : List Expr → List (Win Rat)} {sid : Nat} {vUnits : C18.UnitArg}
    {order : List (Option Eqn)} {excl : List String} {eqs eqs' : List Eqn} {env' : Env} {created : List C18.UnitRef}
    (hc : Call vUnits order) (e0 : Eqn) (h0 : e0 ∈ eqs) (hx : e0.lhs ∈ excl)
    (hrun : genRun det sid vUnits order excl eqs = .ok (eqs', env', created)) : e0 ∈ eqs' := by
  rw [(result_gen hc hrun).1]
  exact excluded_unchanged _ excl _ eqs e0 h0 hx

/-- `survives` (hence `piecewise_rhs_unchanged`, `no_pattern_unchanged`) for the generated traversal -/
theorem survives_gen {det : List Expr → List (Win Rat)} {sid : Nat} {vUnits : C18.UnitArg}
    {order : List (Option Eqn)} {excl : List String} {eqs eqs' : List Eqn} {env' : Env} {created : List C18.UnitRef}
    (hc : Call vUnits order) (e0 : Eqn) (hn : (lhss eqs).Nodup) (hsub : ∀ e ∈ order.filterMap id, e ∈ eqs)
    (h0 : e0 ∈ eqs)
    (h : e0.rhs.isPiecewise = true ∨ excl.contains e0.lhs = true ∨ ∀ env, (subst env e0.rhs).hasExp = false)
    (hrun : genRun det sid vUnits order excl eqs = .ok (eqs', env', created)) : e0 ∈ eqs' := by
  rw [(result_gen hc hrun).1]
  refine survives _ excl _ eqs e0 hn hsub h0 ?_
  rcases h with h | h | h
  · exact Or.inl h
  · exact Or.inr (Or.inl h)
  · exact Or.inr (Or.inr (fun env => removeSing_noexp det _ (h env)))

section
variable {K : Type} [Field K] [LinearOrder K] [IsStrictOrderedRing K]

/-- **`traverse_sound` for the generated traversal (only repairs).** Every solution of the original model satisfies
    every equation of `Model.equations` as the generated `remove_fixable_singularities` leaves it, at every voltage
    outside the generated ranges of that equation -/
theorem traverse_sound_gen {det : List Expr → List (Win Rat)} {sid : Nat} {vUnits : C18.UnitArg}
    {order : List (Option Eqn)} {excl : List String} {eqs eqs' : List Eqn} {env' : Env} {created : List C18.UnitRef}
    (I : Interp K) (hc : Call vUnits order) (hsub : ∀ e ∈ order.filterMap id, e ∈ eqs) (hs : Solves I eqs)
    (hrun : genRun det sid vUnits order excl eqs = .ok (eqs', env', created)) : SolvesOutside I eqs' := by
  rw [(result_gen hc hrun).1]
  exact traverse_sound I det excl _ eqs hsub hs

end

/-! ## non-vacuity: the concrete model of `Props/C12.lean` run through the generated functions -/

/-- `x = 3·U/(exp U − 1)` is replaced (and moves to the end), `y` and the excluded `z` stay; two quantities re-created,
    both with a unit of store 0; the hypotheses `Call` hold -/
example : (genRun (detect exδ false) 0 .ownUnit (exEqs.map some) ["z"] exEqs).toOption.map
        (fun r => (lhss r.1, r.2.2)) = some (["y", "z", "x"], [.ofStore 0, .ofStore 0]) ∧
    Call .ownUnit (exEqs.map some) := by
  refine ⟨by decide +kernel, Or.inl rfl, by decide +kernel⟩

/-! ## `_get_singularity` (generated): the detector is no longer an arbitrary `det`

    `Gen.SingDet3.getSingularity` is the text of `_get_singularity` (with `Gen.SingDet.onTopLoop`, `checkUMatch`,
    `solveReal`, `Gen.SingDet3.fp2Loop`, `spLoop`, `recordLoop`, `isNegativePowerF`), run on the canonical product
    `canon rev args` (the model's classification of SymPy's factors) with the model's reading of SymPy's matcher and of
    `solveset` on the affine fragment, and ANY `log` leaf with `log 1 = 0` (`Tie/SingDet3.lean`, `getSingularity_tie`). -/

section
open Cellml.Tie.PSing2 Cellml.Tie.PSing3

/-- a returned triple `(Vmin, Vmax, sp)` as a range -/
def tripleWin (t : Rat × Rat × Rat) : Win Rat := ⟨t.1, t.2.1, t.2.2⟩

/-- the detector GENERATED from the source of `_get_singularity`, as a function of the arguments of the product -/
def genDet (lg : Rat → Rat) (δ : Rat) (rev : Bool) (args : List Expr) : List (Win Rat) :=
  match SingDet3.getSingularity matchNegM matchPosM lg solveAff (canon rev args) δ with
  | .ok l => l.map tripleWin
  | .error _ => []

/-- on the affine fragment (no factor outside it) the generated detector never raises and IS `C12.detect` -/
theorem genDet_eq (lg : Rat → Rat) (hlg : lg 1 = 0) (δ : Rat) (rev : Bool) (args : List Expr)
    (h : (detect? δ rev args).isSome) : genDet lg δ rev args = detect δ rev args := by
  unfold genDet
  rw [getSingularity_detect lg hlg δ rev args h]
  simp [List.map_map, Function.comp_def, tripleWin, winTriple]

theorem form_in_fragment (δ P k c : Rat) (hk : k ≠ 0) (hc : c ≠ 0) (n : Nat) (rev : Bool) :
    (detect? δ rev (form n P k c)).isSome := by
  have h := forms_detected δ P k c hk hc n rev
  unfold detect at h
  cases hd : detect? δ rev (form n P k c) with
  | some ws => rfl
  | none => rw [hd] at h; cases h

theorem form0_in_fragment (δ P k : Rat) (hk : k ≠ 0) (hk1 : k ≠ 1) (n : Nat) (rev : Bool) :
    (detect? δ rev (form n P k 0)).isSome := by
  have h := forms_detected_zero_offset δ P k hk hk1 n rev
  unfold detect at h
  cases hd : detect? δ rev (form n P k 0) with
  | some ws => rfl
  | none => rw [hd] at h; cases h

/-- **`forms_detected` for the generated `_get_singularity`**: on each of the four documented forms (outer factor `P`,
    `U = k·V + c`) it returns (never raises) exactly one triple, the range `|U| ≤ δ` with its singular point -/
theorem forms_detected_gen (lg : Rat → Rat) (hlg : lg 1 = 0) (δ P k c : Rat) (hk : k ≠ 0) (hc : c ≠ 0) (n : Nat)
    (rev : Bool) :
    SingDet3.getSingularity matchNegM matchPosM lg solveAff (canon rev (form n P k c)) δ
      = .ok [(vminOf k c δ, vmaxOf k c δ, spOf k c)] := by
  rw [getSingularity_detect lg hlg δ rev _ (form_in_fragment δ P k c hk hc n rev), forms_detected δ P k c hk hc n rev]
  rfl

/-- the same for an offset of zero (`U = k·V`, held by SymPy as a product) -/
theorem forms_detected_zero_offset_gen (lg : Rat → Rat) (hlg : lg 1 = 0) (δ P k : Rat) (hk : k ≠ 0) (hk1 : k ≠ 1)
    (n : Nat) (rev : Bool) :
    SingDet3.getSingularity matchNegM matchPosM lg solveAff (canon rev (form n P k 0)) δ
      = .ok [(vminOf k 0 δ, vmaxOf k 0 δ, spOf k 0)] := by
  rw [getSingularity_detect lg hlg δ rev _ (form0_in_fragment δ P k hk hk1 n rev),
    forms_detected_zero_offset δ P k hk hk1 n rev]
  rfl

/-- **`window_brackets` for what the generated `_get_singularity` returns** on a documented form: the singular point
    lies strictly between the two bounds, and a voltage is inside the range exactly when `|U(V)| ≤ δ` -/
theorem window_brackets_det_gen (lg : Rat → Rat) (hlg : lg 1 = 0) (δ P k c : Rat) (hk : k ≠ 0) (hc : c ≠ 0)
    (hδ : 0 < δ) (n : Nat) (rev : Bool) :
    ∃ vmin vmax sp, SingDet3.getSingularity matchNegM matchPosM lg solveAff (canon rev (form n P k c)) δ
        = .ok [(vmin, vmax, sp)] ∧
      (min vmin vmax < sp ∧ sp < max vmin vmax) ∧
      ∀ V : Rat, (lo vmin vmax ≤ V ∧ V ≤ hi vmin vmax) ↔ |k * V + c| ≤ δ :=
  ⟨_, _, _, forms_detected_gen lg hlg δ P k c hk hc n rev, window_brackets k c δ hk hδ⟩

/-- `forms_repaired` needs of the detector only what it answers on the product itself -/
theorem forms_repaired_of (det : List Expr → List (Win Rat)) (δ P k c : Rat) (hP : P ≠ 1) (n : Nat)
    (hdet : det (form n P k c) = [window k c δ]) :
    removeSing det (mul (form n P k c)) = some (wrapWin (window k c δ) (mul (form n P k c))) := by
  unfold removeSing
  rw [form_hasExp]
  simp only [Bool.not_true, Bool.false_eq_true, if_false]
  unfold fixParts
  rw [form_hasExp, form_dropOnes n P k c hP]
  simp only [Bool.not_true, Bool.false_eq_true, if_false, fixBody, hdet]
  simp [Res.touched, wrap]

/-- **`forms_repaired` with BOTH `_remove_singularities` and `_get_singularity` generated from the source**: every
    product `P·(one of the four documented forms)` with an affine exponent argument is reported changed and wrapped
    with exactly the range `|U| ≤ δ` -/
theorem forms_repaired_gendet (lg : Rat → Rat) (hlg : lg 1 = 0) (δ P k c : Rat) (hk : k ≠ 0) (hc : c ≠ 0) (hP : P ≠ 1)
    (n : Nat) (rev : Bool) :
    genRemove (genDet lg δ rev) (mul (form n P k c)) = .ok (true, wrapWin (window k c δ) (mul (form n P k c))) := by
  have hdet : genDet lg δ rev (form n P k c) = [window k c δ] := by
    rw [genDet_eq lg hlg δ rev _ (form_in_fragment δ P k c hk hc n rev), forms_detected δ P k c hk hc n rev]
  have h := forms_repaired_of (genDet lg δ rev) δ P k c hP n hdet
  rw [← fixOf_pyRemoveSing] at h
  rw [genRemove_ok]
  unfold fixOf at h
  split at h
  · rename_i h1
    have h2 := Option.some.inj h
    exact congrArg Except.ok (Prod.ext h1 h2)
  · cases h

/-- non-vacuity: the generated detector run on `3·U/(exp U − 1)`, `U = V/2 − 5/2`, `δ = 1e-7` -/
example : SingDet3.getSingularity matchNegM matchPosM (fun _ => 0) solveAff (canon false (form 0 3 (1/2) (-5/2))) exδ
    = .ok [(5 + 2 / 10000000, 5 - 2 / 10000000, 5)] := by
  rw [forms_detected_gen (fun _ => 0) rfl exδ 3 (1/2) (-5/2) (by decide +kernel) (by decide +kernel) 0 false]
  decide +kernel

end

end Cellml.Props.C12Gen
