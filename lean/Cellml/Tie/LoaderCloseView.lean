import Cellml.Tie.LoaderView

/-! # What the set-up part of `Parser._add_connections` (everything before `while connections_to_process:`) sees

    Core Lean only (the generated `Generated/Code/ConnSetup.lean` imports this). -/

namespace Cellml.Tie.PLoaderClose
open Load Cellml.Tie

/-- a `<map_variables>` element: `child.attrib.get('variable_1')`, `child.attrib.get('variable_2')` -/
structure MapVars where
  variable_1 : String
  variable_2 : String
deriving Repr, DecidableEq

/-- a `<connection>` element: the attributes of its (single, by the schema) `<map_components>` child and its
    `<map_variables>` children in document order -/
structure ConnElem where
  component_1 : String
  component_2 : String
  maps : List MapVars
deriving Repr, DecidableEq

/-- the `<model>` element: `model.findall(with_ns(XmlNs.CELLML, 'connection'))` -/
structure ConnsElem where
  connections : List ConnElem

/-- `Parser` as seen by the set-up part of `_add_connections`: the keys of `self.components`, and what
    `_determine_connection_direction` sees (`LoaderView`) -/
structure ConnSetupView where
  components : List String
  loader : LoaderView

/-- the work list refers to a `Variable` object by its identity (as `Load.connect` and the generated loop body do) -/
def varIds (p : VarObj × VarObj) : VRef × VRef := (p.1.1, p.2.1)

end Cellml.Tie.PLoaderClose
