import Cellml.C06.Cases

/-! C06: `convert_variable(…, INPUT)` of a state variable. -/

namespace Model.CV
open Model

variable {K : Type} [Field K]

theorem convertVariable_input_state (s : CState) (v : Nat) (u : U) (cf : Rat) (move : Bool) (hcf : cf ≠ 1)
    (hst : hasKey v s.odeDef = true) (hfr : getFree s ≠ some v) :
    convertVariable s v u cf .input move =
      (let ci := convertInstance s v cf u .input move
       let cs := convertStateDeriv ci.1 v ci.2 (cfQ s v u cf)
       (if cs.2.isEmpty then cs.1 else replaceRefs cs.1 cs.2, ci.2, cs.2)) := by
  simp [convertVariable, statePhase, freePhase, replacePhase, hcf, hst, hfr, cfQ]

theorem oneFree_of_all {E : List CEqn} (t0 : Nat) (h : ∀ e ∈ E, ∀ x t, e.lhs = .deriv x t → t = t0) : OneFree E := by
  intro e₁ h₁ e₂ h₂ x₁ t₁ x₂ t₂ hl₁ hl₂
  rw [h e₁ h₁ x₁ t₁ hl₁, h e₂ h₂ x₂ t₂ hl₂]

/-- the equations after `_convert_state_variable_deriv`, before the references are replaced -/
def stateEqs (s : CState) (v : Nat) (cfq : X) (ode : CEqn) (t : Nat) : List CEqn :=
  s.equations.erase ode ++ [⟨.var v, .div (.var s.vars.length) cfq⟩, ⟨.var (s.vars.length + 1), ode.rhs⟩,
    ⟨.deriv s.vars.length t, .mul (.var (s.vars.length + 1)) cfq⟩]

theorem mem_stateEqs {s : CState} {v : Nat} {cfq : X} {ode : CEqn} {t : Nat} {e : CEqn}
    (he : e ∈ stateEqs s v cfq ode t) :
    (e ∈ s.equations.erase ode) ∨ e = ⟨.var v, .div (.var s.vars.length) cfq⟩ ∨
    e = ⟨.var (s.vars.length + 1), ode.rhs⟩ ∨ e = ⟨.deriv s.vars.length t, .mul (.var (s.vars.length + 1)) cfq⟩ := by
  simpa [stateEqs] using he

/-- the structural half of the state case -/
theorem state_struct {s : CState} (hwf : WF s) (v : Nat) (hv : v < s.vars.length) (u : U) (cf : Rat) (move : Bool)
    (hcf1 : cf ≠ 1) (ode : CEqn) (t : Nat) (hode : ode ∈ s.equations) (hlt : ode.lhs = .deriv v t) :
    ∃ s2 : CState,
      s2 = (convertStateDeriv (convertInstance s v cf u .input move).1 v s.vars.length (cfQ s v u cf)).1 ∧
      convertVariable s v u cf .input move =
        (replaceRefs s2 [((v, t), s.vars.length + 1)], s.vars.length, [((v, t), s.vars.length + 1)]) ∧
      s2.equations = stateEqs s v (cfQ s v u cf) ode t ∧ s2.vars.length = s.vars.length + 2 ∧ Inv0 s2 ∧
      Cross s2.equations ∧ (∀ e ∈ s2.equations, NoLhs [((v, t), s.vars.length + 1)] e) := by
  have hst : hasKey v s.odeDef = true := (hwf.inv.hasKey_odeDef v).mpr ⟨ode, hode, t, hlt⟩
  have htv : v ≠ t := hwf.noSelf ode hode v t hlt
  have hfr : getFree s ≠ some v := by
    rw [getFree_of_ode hwf.inv hwf.oneFree hode hlt]; intro h; cases h; exact htv rfl
  have hvn : s.varDef.lookup v = none := by
    cases hlk : s.varDef.lookup v with
    | none => rfl
    | some oe =>
      obtain ⟨h1, h2⟩ := (hwf.inv.lookup_varDef v oe).mp hlk
      exact absurd rfl (hwf.cross oe h1 ode hode v v t h2 hlt)
  obtain ⟨c1, c2, c3, c4⟩ := convertInstance_spec hwf.inv v hv cf u .input move
  have hE1 : (convertInstance s v cf u .input move).1.equations =
      s.equations ++ [⟨.var v, .div (.var s.vars.length) (cfQ s v u cf)⟩] := by
    rw [c2]; simp only [instEqs, hvn]
  have hode1 : ode ∈ (convertInstance s v cf u .input move).1.equations := by
    rw [hE1]; exact List.mem_append_left _ hode
  have hlk : (convertInstance s v cf u .input move).1.odeDef.lookup v = some ode :=
    (c4.lookup_odeDef v ode).mpr ⟨hode1, t, hlt⟩
  have hfree : ∀ e0 ∈ (convertInstance s v cf u .input move).1.equations, defKey e0 ≠ s.vars.length := by
    rw [hE1]; intro e0 he0
    rcases List.mem_append.mp he0 with he0 | he0
    · have := hwf.inv.defKey_lt he0; omega
    · simp only [List.mem_cons, List.not_mem_nil, or_false] at he0
      rw [he0]; simp only [defKey, keyKind]; omega
  obtain ⟨d1, d2, d3, d4⟩ := convertStateDeriv_spec c4 v s.vars.length (cfQ s v u cf) rfl ode v t hlk hlt
    (by rw [c3]; omega) hfree
  rw [c3] at d1 d2 d3
  refine ⟨(convertStateDeriv (convertInstance s v cf u .input move).1 v s.vars.length (cfQ s v u cf)).1, rfl, ?_, ?_,
    d3, d4, ?_, ?_⟩
  · rw [convertVariable_input_state s v u cf move hcf1 hst hfr]
    simp only [c1, d1]
    rfl
  · rw [d2, hE1, List.erase_append_left _ hode]; simp [stateEqs]
  · -- Cross
    have hE2 : (convertStateDeriv (convertInstance s v cf u .input move).1 v s.vars.length (cfQ s v u cf)).1.equations
        = stateEqs s v (cfQ s v u cf) ode t := by
      rw [d2, hE1, List.erase_append_left _ hode]; simp [stateEqs]
    rw [hE2]
    intro e₁ h₁ e₂ h₂ a x t' ha hx hax
    subst hax
    rcases mem_stateEqs h₂ with h2 | h2 | h2 | h2
    · have hm2 := List.mem_of_mem_erase h2
      have hne2 := (hwf.inv.nodup.mem_erase_iff.mp h2).1
      have halt := hwf.inv.defKey_lt hm2
      rw [defKey_deriv hx] at halt
      rcases mem_stateEqs h₁ with h1 | h1 | h1 | h1
      · exact hwf.cross e₁ (List.mem_of_mem_erase h1) e₂ hm2 a a t' ha hx rfl
      · rw [h1] at ha; cases ha
        exact hne2 (hwf.inv.key_inj hm2 hode (by rw [keyKind_deriv hx, keyKind_deriv hlt]))
      · rw [h1] at ha; cases ha; omega
      · rw [h1] at ha; cases ha
    · rw [h2] at hx; cases hx
    · rw [h2] at hx; cases hx
    · rw [h2] at hx; cases hx
      rcases mem_stateEqs h₁ with h1 | h1 | h1 | h1
      · have := hwf.inv.defKey_lt (List.mem_of_mem_erase h1)
        rw [defKey_var ha] at this; omega
      · rw [h1] at ha; injection ha with ha; omega
      · rw [h1] at ha; injection ha with ha; omega
      · rw [h1] at ha; cases ha
  · -- NoLhs
    rw [d2, hE1, List.erase_append_left _ hode]
    intro e he x t' hl
    have hne : (x, t') ≠ (v, t) := by
      intro hh; cases hh
      simp only [List.mem_append, List.mem_cons, List.not_mem_nil, or_false] at he
      rcases he with (he | he) | he | he
      · have hm := List.mem_of_mem_erase he
        exact (hwf.inv.nodup.mem_erase_iff.mp he).1
          (hwf.inv.key_inj hm hode (by rw [keyKind_deriv hl, keyKind_deriv hlt]))
      · rw [he] at hl; cases hl
      · rw [he] at hl; cases hl
      · rw [he] at hl; cases hl; omega
    simp [hasKey, hne.symm]

theorem lookup_single (k k' : Nat × Nat) (w : Nat) :
    List.lookup k' [(k, w)] = if k' = k then some w else none := by
  by_cases h : k' = k
  · subst h; simp
  · have : (k' == k) = false := by simpa using h
    simp [List.lookup, this, h]

/-- `convert_variable(v, units, INPUT)` for a state variable `v` -/
theorem case_input_state (I : Interp K) {s : CState} (hwf : WF s) (v : Nat) (hv : v < s.vars.length) (u : U)
    (cf : Rat) (hcf1 : cf ≠ 1) (hcf : I.lit cf ≠ 0) (move : Bool) (hst : hasKey v s.odeDef = true) :
    CallOK I s v cf .input (convertVariable s v u cf .input move) := by
  obtain ⟨ode, hode, t, hlt⟩ := (hwf.inv.hasKey_odeDef v).mp hst
  have htv : v ≠ t := hwf.noSelf ode hode v t hlt
  have htn : t < s.vars.length := by
    have := (eqScoped_iff _ _).mp (hwf.inv.scopedE ode hode)
    exact this.1 t (by simp [hlt, CLhs.vars])
  obtain ⟨s2, _, hr, e2, l2, i2, c2, n2⟩ := state_struct hwf v hv u cf move hcf1 ode t hode hlt
  obtain ⟨r1, r2, r3, r4, r5, r6⟩ := replaceRefs_sem I (rep := [((v, t), s.vars.length + 1)]) i2 c2 n2
    (by intro p hp; simp only [List.mem_cons, List.not_mem_nil, or_false] at hp; rw [hp, l2]; omega)
  -- every ODE of the model is with respect to `t`; the one of `v` is `ode`
  have hall : ∀ e ∈ s.equations, ∀ x t', e.lhs = .deriv x t' → t' = t :=
    fun e he x t' hl => hwf.oneFree e he ode hode x t' v t hl hlt
  have hlhs : ∀ e' ∈ (replaceRefs s2 [((v, t), s.vars.length + 1)]).equations,
      (∃ e ∈ s.equations, e'.lhs = e.lhs) ∨ (∃ a, e'.lhs = .var a) ∨ e'.lhs = .deriv s.vars.length t := by
    intro e' he'
    obtain ⟨e, he, hl⟩ := r4 e' he'
    rw [e2] at he
    rcases mem_stateEqs he with h | h | h | h
    · exact Or.inl ⟨e, List.mem_of_mem_erase h, hl⟩
    · exact Or.inr (Or.inl ⟨v, by rw [hl, h]⟩)
    · exact Or.inr (Or.inl ⟨_, by rw [hl, h]⟩)
    · exact Or.inr (Or.inr (by rw [hl, h]))
  rw [hr]
  refine { ret := rfl, wf := ⟨r1, r2, ?_, ?_⟩, grows := by simp only [r3, l2]; omega, fwd := ?_, bwd := ?_ }
  · apply oneFree_of_all t
    intro e' he' x t' hl
    rcases hlhs e' he' with ⟨e, he, h⟩ | ⟨a, h⟩ | h
    · exact hall e he x t' (h ▸ hl)
    · rw [h] at hl; cases hl
    · rw [h] at hl; cases hl; rfl
  · intro e' he' x t' hl
    rcases hlhs e' he' with ⟨e, he, h⟩ | ⟨a, h⟩ | h
    · exact hwf.noSelf e he x t' (h ▸ hl)
    · rw [h] at hl; cases hl
    · rw [h] at hl; cases hl; omega
  · -- forward
    intro σ hσ
    let τ : Val K := ⟨fun i => if i = s.vars.length then I.lit cf * σ.v v
                               else if i = s.vars.length + 1 then σ.d v t else σ.v i,
                      fun x y => if x = s.vars.length then I.lit cf * σ.d v y else σ.d x y⟩
    have hag : Agree s.vars.length σ τ :=
      ⟨fun i hi => by simp only [τ]; rw [if_neg (by omega), if_neg (by omega)],
       fun x y hx _ => by simp only [τ]; rw [if_neg (by omega)]⟩
    have hE : SatL I τ s.equations := (satL_of_agree I hwf.inv.scopedE hag).mpr hσ
    have hτn : τ.v s.vars.length = I.lit cf * σ.v v := by simp [τ]
    have hτw : τ.v (s.vars.length + 1) = σ.d v t := by simp [τ]
    have hτv : τ.v v = σ.v v := hag.1 v hv
    have hτd : τ.d v t = σ.d v t := hag.2 v t hv htn
    have hτdn : ∀ y, τ.d s.vars.length y = I.lit cf * σ.d v y := fun y => by simp [τ]
    have hode' := hE ode hode
    simp only [Holds, hlt, lhsVal] at hode'
    have hS2 : SatL I τ s2.equations := by
      rw [e2]; unfold stateEqs
      simp only [satL_append, satL_cons]
      refine ⟨fun e he => hE e (List.mem_of_mem_erase he), ?_, ?_, ?_, satL_nil I _⟩
      · simp only [Holds, lhsVal, ev_div, ev_var, cfQ, ev_lit, hτn, hτv]; field_simp
      · simp only [Holds, lhsVal, hτw, ← hode', hτd]
      · simp only [Holds, lhsVal, ev_mul, ev_var, cfQ, ev_lit, hτdn, hτw]; ring
    refine ⟨τ, ?_, hag, hτn, ?_, ?_⟩
    · apply r5 τ _ hS2
      intro k w hk
      rw [lookup_single] at hk
      by_cases hkk : k = (v, t)
      · rw [if_pos hkk] at hk; cases hk; rw [hkk]; simp only [hτw, hτd]
      · rw [if_neg hkk] at hk; cases hk
    · intro p hp
      simp only [List.mem_cons, List.not_mem_nil, or_false] at hp
      rw [hp]; exact hτw
    · intro _ e he x t' hl
      have ht' := hall e he x t' hl
      subst ht'
      have hxn : x < s.vars.length := by
        have := hwf.inv.defKey_lt he; rwa [defKey_deriv hl] at this
      rw [moved_ne (Ne.symm htv), factorOf_ne (Ne.symm htv)]
      by_cases hx : x = v
      · subst hx; rw [moved_eq, factorOf_eq, hτdn]; simp
      · rw [moved_ne hx, factorOf_ne hx, hag.2 x t' hxn htn]; simp
  · -- backward
    intro σ' hσ'
    have hρ := r6 σ' hσ'
    rw [e2] at hρ; unfold stateEqs at hρ
    simp only [satL_append, satL_cons] at hρ
    obtain ⟨h1, hA, hB, hC, _⟩ := hρ
    have hlk : List.lookup (v, t) [((v, t), s.vars.length + 1)] = some (s.vars.length + 1) := by
      rw [lookup_single]; simp
    have hρd : (pull [((v, t), s.vars.length + 1)] σ').d v t = σ'.v (s.vars.length + 1) := by
      simp only [pull, hlk]
    have hρv : ∀ i, (pull [((v, t), s.vars.length + 1)] σ').v i = σ'.v i := fun _ => rfl
    have hρo : ∀ x y, x ≠ v → (pull [((v, t), s.vars.length + 1)] σ').d x y = σ'.d x y := by
      intro x y hx
      have : List.lookup (x, y) [((v, t), s.vars.length + 1)] = none := by
        rw [lookup_single]; rw [if_neg]; intro hh; cases hh; exact hx rfl
      simp only [pull, this]
    simp only [Holds, lhsVal, ev_div, ev_mul, ev_var, cfQ, ev_lit, hρv] at hA hB hC
    have hn : σ'.v s.vars.length = I.lit cf * σ'.v v := by rw [hA]; field_simp
    refine ⟨?_, hn, ?_⟩
    · apply (satL_erase I _ s.equations ode hode).mpr ⟨h1, ?_⟩
      simp only [Holds, hlt, lhsVal, hρd, hB]
    · intro _ e he x t' hl
      have ht' := hall e he x t' hl
      subst ht'
      rw [moved_ne (Ne.symm htv), factorOf_ne (Ne.symm htv)]
      by_cases hx : x = v
      · subst hx
        rw [moved_eq, factorOf_eq, hρd, ← hρo s.vars.length t' (by omega), hC]; ring
      · rw [moved_ne hx, factorOf_ne hx, hρo x t' hx]; simp

end Model.CV
