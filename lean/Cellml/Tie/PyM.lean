import Cellml.Tie.Prelude

/-! # Method bodies that MUTATE the object they run on, and fuelled `while` loops (code translator, T2)

    `Except PyErr` (Prelude) is enough for a function that only reads. A python method such as `Model.remove_variable`
    changes `self` step by step and may raise half-way; what the caller then holds is the state AT THE RAISE. `PyM σ α`
    keeps it: a computation takes the object graph `σ` and answers with a value or an exception class AND the state it
    left behind. The generated definitions are ordinary `do` blocks in this monad; the leaves that read or write a
    field are the `rd` / `upd` / `run` primitives below (the pattern tables wrap them).  Core Lean only. -/

namespace Cellml.Tie.PCmeta

/-- a python method body over the mutable state `σ`: value or exception class, and the state left behind either way -/
def PyM (σ α : Type) : Type := σ → Except PyErr α × σ

namespace PyM
variable {σ α β : Type}

@[inline] protected def pure (a : α) : PyM σ α := fun s => (.ok a, s)

@[inline] protected def bind (x : PyM σ α) (f : α → PyM σ β) : PyM σ β := fun s =>
  match x s with
  | (.ok a, s') => f a s'
  | (.error e, s') => (.error e, s')

instance : Monad (PyM σ) where
  pure := PyM.pure
  bind := PyM.bind

/-- `raise` -/
@[inline] protected def throw (e : PyErr) : PyM σ α := fun s => (.error e, s)

/-- `try … except`: the handler runs on the state the body left behind -/
@[inline] protected def tryCatch (x : PyM σ α) (h : PyErr → PyM σ α) : PyM σ α := fun s =>
  match x s with
  | (.error e, s') => h e s'
  | (.ok a, s') => (.ok a, s')

instance : MonadExceptOf PyErr (PyM σ) where
  throw := PyM.throw
  tryCatch := PyM.tryCatch

/-- read something off the state -/
@[inline] def rd (f : σ → α) : PyM σ α := fun s => (.ok (f s), s)

/-- a read that may raise (a call of a function that does not mutate) -/
@[inline] def rdE (f : σ → Except PyErr α) : PyM σ α := fun s => (f s, s)

/-- a write -/
@[inline] def upd (f : σ → σ) : PyM σ Unit := fun s => (.ok (), f s)

/-- a write that may raise, leaving a state behind either way -/
@[inline] def updE (f : σ → Except PyErr Unit × σ) : PyM σ Unit := f

@[simp] theorem pure_run (a : α) (s : σ) : (pure a : PyM σ α) s = (.ok a, s) := rfl
@[simp] theorem throw_run (e : PyErr) (s : σ) : (throw e : PyM σ α) s = (.error e, s) := rfl
@[simp] theorem rd_run (f : σ → α) (s : σ) : rd f s = (.ok (f s), s) := rfl
@[simp] theorem rdE_run (f : σ → Except PyErr α) (s : σ) : rdE f s = (f s, s) := rfl
@[simp] theorem upd_run (f : σ → σ) (s : σ) : upd f s = (.ok (), f s) := rfl
@[simp] theorem updE_run (f : σ → Except PyErr Unit × σ) (s : σ) : updE f s = f s := rfl

theorem bind_run (x : PyM σ α) (f : α → PyM σ β) (s : σ) :
    (x >>= f) s = match x s with
      | (.ok a, s') => f a s'
      | (.error e, s') => (.error e, s') := rfl

@[simp] theorem bind_run_ok (x : PyM σ α) (f : α → PyM σ β) (s s' : σ) (a : α) (h : x s = (.ok a, s')) :
    (x >>= f) s = f a s' := by simp [bind_run, h]

@[simp] theorem bind_run_error (x : PyM σ α) (f : α → PyM σ β) (s s' : σ) (e : PyErr) (h : x s = (.error e, s')) :
    (x >>= f) s = (.error e, s') := by simp [bind_run, h]

theorem ite_run (c : Prop) [Decidable c] (x y : PyM σ α) (s : σ) :
    (if c then x else y) s = if c then x s else y s := by split <;> rfl

theorem bind_apply (x : PyM σ α) (f : α → PyM σ β) (s : σ) :
    PyM.bind x f s = match x s with
      | (.ok a, s') => f a s'
      | (.error e, s') => (.error e, s') := rfl

end PyM

namespace Py

/-- `while test: body` over the loop variables `σ`, at most `fuel` tests; out of fuel: `FuelExhausted` (a convention
    of the translation: python has no such exception — a tie theorem says on which inputs it cannot happen) -/
def whileFuel {m : Type → Type} [Monad m] [MonadExceptOf PyErr m] {σ : Type} :
    Nat → σ → (σ → m Bool) → (σ → m σ) → m σ
  | 0, _, _, _ => throw (PyErr.mk "FuelExhausted")
  | fuel + 1, s, test, body => do
    if (← test s) then
      let s' ← body s
      whileFuel fuel s' test body
    else
      return s

/-- python `str + str` -/
instance : Add String := ⟨String.append⟩

@[simp] theorem str_add (a b : String) : a + b = a ++ b := rfl

end Py

end Cellml.Tie.PCmeta
