import Cellml.Props.C08
import Cellml.Tie.ModelState
import Cellml.Tie.Cmeta
import Cellml.Tie.RolesQueries
import Cellml.C13.Lemmas

/-! # C08, stated about the GENERATED code

    `Props/C08.lean` proves its theorems about the hand model `Model.step` / `Model.run`. Here the same statements are
    made about `genStep` / `genRun`, whose every API call is the Lean definition GENERATED from the python source of
    `cellmlmanip/model.py` (`lean/Cellml/Generated/Code/ModelState.lean`, `Cmeta.lean`, `Roles.lean`), and proved as
    corollaries through the tie theorems (`Tie/ModelState.lean`, `Tie/Cmeta.lean`, `Tie/RolesQueries.lean`).

    * `GOp`: a python call with ALL its arguments (the hand model's `Op` drops `units`, the interfaces, the shape of
      a `Derivative`'s `args`, the RDF store `add_cmeta_id` reads for the display name).
    * `Dom s g`: the domain hypotheses of the ties that the invariant does not give (see notes/reports/TIE2_GenC.md):
      the variable handed to `remove_variable` / `add_cmeta_id` / `transfer_cmeta_id` / `get_definition` is a variable of
      the model; the unit name handed to `add_variable` is known to the unit store; the `DerivShape` is one sympy can
      produce for the order of the left-hand side.
    * `HistDom`: `Dom` at every point of a history.
    * The calls for which the packages named in the task have no generated definition (`create_quantity`, the two graph
      properties) are the constructor `GOp.hand`; they are run by the hand model and are NOT covered by this file. -/

namespace Cellml.Props.C08Gen
open Model
open Cellml.Tie (PyErr)
open Cellml.Tie.PModelState (DerivShape UnitArg outcome errName)
open Cellml.Gen

/-- the API calls with no generated definition in the ModelState / Cmeta / Roles packages -/
inductive HandOp | createQuantity | qGraph | qGraphNum
deriving DecidableEq, Repr

def HandOp.toOp : HandOp → Op
  | .createQuantity => .createQuantity
  | .qGraph => .qGraph
  | .qGraphNum => .qGraphNum

/-- one python call on a `Model` object, with all its arguments -/
inductive GOp
  | addVariable (name : String) (units : UnitArg) (init : Option Rat) (pub priv cmeta : Option String)
  | removeVariable (v : Nat)
  | addEquation (shape : DerivShape) (e : Eqn)
  | removeEquation (e : Eqn)
  | addCmetaId (rdf : List Triple) (v : Nat)
  | transferCmetaId (rdf : List Triple) (src dst : Nat)
  | qDefinition (v : Nat)
  | qStates (rhs : Nat → Expr) (sort : Bool)
  | qFree (rhs : Nat → Expr)
  | hand (op : HandOp)

/-- the call the hand model sees -/
def GOp.toOp : GOp → Op
  | .addVariable n _ i _ _ c => .addVariable n c i
  | .removeVariable v => .removeVariable v
  | .addEquation _ e => .addEquation e
  | .removeEquation e => .removeEquation e
  | .addCmetaId _ v => .addCmetaId v
  | .transferCmetaId _ a b => .transferCmetaId a b
  | .qDefinition v => .qDefinition v
  | .qStates _ _ => .qStates
  | .qFree _ => .qFree
  | .hand op => op.toOp

/-- forget the returned value -/
def unit {α σ} (r : Except PyErr α × σ) : Except PyErr Unit × σ := (r.1.map (fun _ => ()), r.2)

/-- **one API call, run by the generated code**: returned / exception class, and the model object afterwards -/
def genStep (s : MState) : GOp → Except PyErr Unit × MState
  | .addVariable n u i pu pr c => unit ((ModelState.addVariable n u i pu pr c).run s)
  | .removeVariable v => (ModelState.removeVariable v).run s
  | .addEquation sh e => (ModelState.addEquation sh e true).run s
  | .removeEquation e => (ModelState.removeEquation e).run s
  | .addCmetaId rdf v => ((Cmeta.addCmetaId v ⟨s, rdf⟩).1, (Cmeta.addCmetaId v ⟨s, rdf⟩).2.m)
  | .transferCmetaId rdf a b => ((Cmeta.transferCmetaId a b ⟨s, rdf⟩).1, (Cmeta.transferCmetaId a b ⟨s, rdf⟩).2.m)
  | .qDefinition v => unit ((ModelState.getDefinition v).run s)
  | .qStates rhs sort => ((Roles.getStateVariables ⟨s, rhs⟩ sort).map (fun _ => ()), s)
  | .qFree rhs => ((Roles.getFreeVariable ⟨s, rhs⟩).map (fun _ => ()), s)
  | .hand op => outcome () (step s op.toOp)

/-- a history of python calls on a new model, run by the generated code -/
def genRun (mc : Option String) (ops : List GOp) : MState := ops.foldl (fun s g => (genStep s g).2) (init mc)

/-- the domain hypotheses of the ties that `Inv` does not give -/
def Dom (s : MState) : GOp → Prop
  | .addVariable _ u _ _ _ _ => u ≠ .name false
  | .removeVariable v => isLive s v = true
  | .addEquation sh e => ∀ st t o, e.lhs = .deriv st t o → sh.ok o
  | .removeEquation _ => True
  | .addCmetaId _ v => isLive s v = true
  | .transferCmetaId _ a b => isLive s a = true ∧ isLive s b = true
  | .qDefinition v => isLive s v = true
  | .qStates _ _ => True
  | .qFree _ => True
  | .hand _ => True

/-- `Dom` at every point of a history -/
def HistDomFrom : MState → List GOp → Prop
  | _, [] => True
  | s, g :: r => Dom s g ∧ HistDomFrom (genStep s g).2 r

def HistDom (mc : Option String) (ops : List GOp) : Prop := HistDomFrom (init mc) ops

-- ------------------------------------------------------------------------------------------------ one call
theorem unit_outcome {α} (a : α) (r : MState × Outcome) : unit (outcome a r) = outcome () r := by
  obtain ⟨s, o⟩ := r
  cases o <;> rfl

theorem transfer_outcome (s : MState) (a b : Nat) :
    (transferCmetaId s a b).2 = .ok ∨ (transferCmetaId s a b).2 = .raised .valueError ∨
      (transferCmetaId s a b).2 = .raised .notInModel := by
  unfold transferCmetaId
  split
  · exact .inr (.inr rfl)
  · split
    · exact .inr (.inl rfl)
    · split
      · exact .inr (.inl rfl)
      · exact .inl rfl

theorem addCmetaId_returns {s : MState} (h : Inv s) {v : Nat} (hl : isLive s v = true) : (addCmetaId s v).2 = .ok := by
  have hv : v ∈ s.live := by simpa [isLive] using hl
  cases hc : cmetaOf s v with
  | none =>
    obtain ⟨_, _, _, _, _, hok, _⟩ := addCmetaId_ok h.reg hv hc
    exact hok
  | some c =>
    unfold addCmetaId
    simp [hl, hc]

/-- **the generated code and the hand model make the same call**: same state afterwards, returned iff returned, same
    exception class — for every state satisfying the invariant and every call in the domain of the ties -/
theorem genStep_eq (s : MState) (h : Inv s) (g : GOp) (hd : Dom s g) :
    genStep s g = outcome () (step s g.toOp) := by
  cases g with
  | addVariable n u i pu pr c =>
    show unit _ = _
    rw [Cellml.Tie.PModelState.addVariable_tie_of_inv s h n u i pu pr c hd, unit_outcome]; rfl
  | removeVariable v => exact Cellml.Tie.PModelState.removeVariable_tie_of_inv s h v hd
  | addEquation sh e => exact Cellml.Tie.PModelState.step_addEquation_tie s e sh hd
  | removeEquation e => exact Cellml.Tie.PModelState.step_removeEquation_tie s e
  | addCmetaId rdf v =>
    show ((Cmeta.addCmetaId v ⟨s, rdf⟩).1, (Cmeta.addCmetaId v ⟨s, rdf⟩).2.m) = outcome () (addCmetaId s v)
    rw [Cellml.Tie.PCmeta.addCmetaId_tie ⟨s, rdf⟩ v hd]
    have hok := addCmetaId_returns h hd
    simp only [Cellml.Tie.PCmeta.liftM]
    rcases hr : addCmetaId s v with ⟨s1, o⟩
    rw [hr] at hok
    simp only at hok
    subst hok
    rfl
  | transferCmetaId rdf a b =>
    show ((Cmeta.transferCmetaId a b ⟨s, rdf⟩).1, (Cmeta.transferCmetaId a b ⟨s, rdf⟩).2.m)
      = outcome () (transferCmetaId s a b)
    have hb : b < s.heap.length := h.reg.liveBound b (by simpa [isLive] using hd.2)
    rw [Cellml.Tie.PCmeta.transferCmetaId_tie ⟨s, rdf⟩ a b hd.1 hd.2 hb]
    simp only [Cellml.Tie.PCmeta.liftM]
    have hcases := transfer_outcome s a b
    have hnot : (transferCmetaId s a b).2 ≠ .raised .notInModel := by
      unfold transferCmetaId
      simp only [hd.1, hd.2, Bool.not_true, Bool.or_self, Bool.false_eq_true, if_false]
      split
      · simp
      · split <;> simp
    rcases hr : transferCmetaId s a b with ⟨s1, o⟩
    rw [hr] at hcases hnot
    simp only at hcases hnot
    rcases hcases with rfl | rfl | rfl
    · rfl
    · rfl
    · exact absurd rfl hnot
  | qDefinition v =>
    show unit _ = outcome () (if isLive s v then (s, .ok) else (s, .raised .notInModel))
    have hd' : isLive s v = true := hd
    rw [Cellml.Tie.PModelState.getDefinition_tie, hd']
    rfl
  | qStates rhs sort =>
    show ((Roles.getStateVariables ⟨s, rhs⟩ sort).map (fun _ => ()), s) = outcome () (s, .ok)
    rw [Cellml.Tie.PRoles.getStateVariables_tie]
    rfl
  | qFree rhs =>
    show ((Roles.getFreeVariable ⟨s, rhs⟩).map (fun _ => ()), s)
      = outcome () (s, match getFreeVariable s with | some _ => .ok | none => .raised .valueError)
    rw [Cellml.Tie.PRoles.getFreeVariable_tie ⟨s, rhs⟩ (Cellml.Tie.PRoles.odeLhsOk_of_inv ⟨s, rhs⟩ h.eq)]
    show ((Cellml.Tie.PRoles.optErr "ValueError" (getFreeVariable s)).map (fun _ => ()), s) = _
    cases getFreeVariable s <;> rfl
  | hand op => rfl

theorem genStep_state (s : MState) (h : Inv s) (g : GOp) (hd : Dom s g) : (genStep s g).2 = (step s g.toOp).1 := by
  rw [genStep_eq s h g hd]
  rcases step s g.toOp with ⟨s1, o⟩
  cases o <;> rfl

/-- a call of the generated code that raised, as a raise of the hand model -/
theorem raised_of_gen {s s' : MState} (h : Inv s) {g : GOp} (hd : Dom s g) {e : PyErr}
    (hs : genStep s g = (.error e, s')) : ∃ x, step s g.toOp = (s', .raised x) := by
  rw [genStep_eq s h g hd] at hs
  rcases hr : step s g.toOp with ⟨s1, o⟩
  rw [hr] at hs
  cases o with
  | ok => cases hs
  | raised x =>
    simp only [outcome, Prod.mk.injEq] at hs
    exact ⟨x, by rw [hs.2]⟩

-- ------------------------------------------------------------------------------------------------ histories
theorem genRun_from (ops : List GOp) : ∀ (s : MState), Inv s → HistDomFrom s ops →
    ops.foldl (fun s g => (genStep s g).2) s = (ops.map GOp.toOp).foldl (fun s op => (step s op).1) s := by
  induction ops with
  | nil => intro s _ _; rfl
  | cons g r ih =>
    intro s h hd
    simp only [List.foldl_cons, List.map_cons]
    have e := genStep_state s h g hd.1
    have hd2 := hd.2
    rw [e] at hd2 ⊢
    exact ih _ (C08.inv_step s g.toOp h) hd2

/-- **the history run by the generated code arrives where the hand model's history arrives** -/
theorem genRun_eq (mc : Option String) (ops : List GOp) (hd : HistDom mc ops) :
    genRun mc ops = run mc (ops.map GOp.toOp) :=
  genRun_from ops (init mc) (C08.inv_init mc) hd

-- ================================================================================================ the headline theorems
/-- `C08.inv_reachable` for the generated code: the invariant holds after every history of python calls (run by the
    definitions generated from model.py) that stays in the domain of the ties -/
theorem inv_reachable (mc : Option String) (ops : List GOp) (hd : HistDom mc ops) : Inv (genRun mc ops) := by
  rw [genRun_eq mc ops hd]; exact C08.inv_reachable mc _

/-- `C08.coherent` for the generated code -/
theorem coherent (mc : Option String) (ops : List GOp) (hd : HistDom mc ops) :
    obs (genRun mc ops) = obs (fresh (content (genRun mc ops))) := by
  rw [genRun_eq mc ops hd]; exact C08.coherent mc _

/-- … with the two observables that have a generated query, asked through the generated query: `get_definition(v)` and
    `is_state(v)` on the model reached by the generated history answer as on the freshly built model -/
theorem coherent_queries (mc : Option String) (ops : List GOp) (hd : HistDom mc ops) (v : Nat) :
    ((ModelState.getDefinition v).run (genRun mc ops)).1
        = ((ModelState.getDefinition v).run (fresh (content (genRun mc ops)))).1 ∧
    ((ModelState.isState v).run (genRun mc ops)).1
        = ((ModelState.isState v).run (fresh (content (genRun mc ops)))).1 := by
  have hc := coherent mc ops hd
  refine ⟨?_, ?_⟩
  · rw [Cellml.Tie.PModelState.getDefinition_tie_obs, Cellml.Tie.PModelState.getDefinition_tie_obs, hc]
  · rw [Cellml.Tie.PModelState.isState_tie_stateKeys, Cellml.Tie.PModelState.isState_tie_stateKeys]
    have : stateKeys (genRun mc ops) = stateKeys (fresh (content (genRun mc ops))) := congrArg Obs.stateKeys hc
    rw [this]

/-- `C08.history_independent` for the generated code -/
theorem history_independent (mc₁ mc₂ : Option String) (ops₁ ops₂ : List GOp) (hd₁ : HistDom mc₁ ops₁)
    (hd₂ : HistDom mc₂ ops₂) (h : content (genRun mc₁ ops₁) = content (genRun mc₂ ops₂)) :
    obs (genRun mc₁ ops₁) = obs (genRun mc₂ ops₂) := by
  rw [coherent mc₁ ops₁ hd₁, coherent mc₂ ops₂ hd₂, h]

/-- `C08.atomic` for the generated code: a generated call that raises — whatever the exception class — leaves every
    observable of the model as it was -/
theorem atomic (s s' : MState) (g : GOp) (e : PyErr) (h : Inv s) (hd : Dom s g) (hs : genStep s g = (.error e, s')) :
    obs s' = obs s := by
  obtain ⟨x, hx⟩ := raised_of_gen h hd hs
  exact C08.atomic s s' g.toOp x h hx

/-- atomicity at every point of every generated history -/
theorem atomic_reachable (mc : Option String) (ops : List GOp) (hh : HistDom mc ops) (g : GOp) (s' : MState) (e : PyErr)
    (hd : Dom (genRun mc ops) g) (hs : genStep (genRun mc ops) g = (.error e, s')) : obs s' = obs (genRun mc ops) :=
  atomic _ s' g e (inv_reachable mc ops hh) hd hs

/-- `C08.rejected_edit_state` for the generated code: a rejected edit leaves the whole model object untouched -/
theorem rejected_edit_state (s s' : MState) (g : GOp) (e : PyErr) (h : Inv s) (hd : Dom s g)
    (hs : genStep s g = (.error e, s')) (hedit : g ≠ .hand .qGraph ∧ g ≠ .hand .qGraphNum) : s' = s := by
  obtain ⟨x, hx⟩ := raised_of_gen h hd hs
  refine C08.rejected_edit_state s s' g.toOp x h hx ⟨?_, ?_⟩
  · intro hq
    cases g <;> simp [GOp.toOp] at hq
    rename_i op
    cases op <;> simp [HandOp.toOp] at hq
    exact hedit.1 rfl
  · intro hq
    cases g <;> simp [GOp.toOp] at hq
    rename_i op
    cases op <;> simp [HandOp.toOp] at hq
    exact hedit.2 rfl

-- ================================================================================================ the domain is needed, and met
/-- the domain hypothesis on the unit name is not implied by `Inv`: outside it the generated `add_variable` raises
    KeyError where the hand model adds the variable (`addVariable_unknown_unit`) — but atomicity holds there too -/
theorem atomic_unknown_unit (s s' : MState) (n : String) (i : Option Rat) (pu pr c : Option String) (e : PyErr)
    (hs : genStep s (.addVariable n (.name false) i pu pr c) = (.error e, s')) : s' = s := by
  have := Cellml.Tie.PModelState.addVariable_unknown_unit s n i pu pr c
  simp only [genStep, unit, this] at hs
  exact (Prod.mk.inj hs).2.symm

/-- non-vacuity: the demo history of `Props/C08.lean` as python calls (shape of `Derivative(x, t)`: two args, count 1)
    is in the domain, and the generated code arrives at the demo state -/
def demoOps : List GOp :=
  [.addVariable "x" .unit (some 2) none none none, .addVariable "t" (.name true) none none none (some "time"),
   .addVariable "a" .unit none none none none,
   .addEquation ⟨2, 1⟩ ⟨0, .deriv 0 1 1, [.var 2], [.var 2], false⟩,
   .addEquation ⟨2, 1⟩ ⟨1, .var 2, [], [], true⟩,
   .hand .qGraph]

theorem demo_toOps : demoOps.map GOp.toOp = C08.demoOps := rfl

end Cellml.Props.C08Gen
