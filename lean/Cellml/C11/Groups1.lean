import Cellml.C11.Wf
import Cellml.C11.DocLemmas

/-! C11 — `print_groups`, part 1: bracketing, sums, boolean chains. -/
namespace C11
set_option linter.unusedSimpArgs false

theorem bracketA_ok (e : E) (d : Doc) (p : Nat) (hp : PyOK d = true) (hl : LvA e d) :
    PyOK (bracket e d p) = true ∧ 40 ≤ level (bracket e d p) ∧ (p = 50 → 50 ≤ level (bracket e d p)) ∧
      (p = 60 → 55 ≤ level (bracket e d p)) ∧ (p = 61 → 100 ≤ level (bracket e d p)) := by
  obtain ⟨h40, h50, h60, h61⟩ := hl
  rw [bracket_eq]
  by_cases h : precA e < p
  · simp only [h, if_true, ok_paren, level_paren, hp, Bool.true_and, decide_eq_true_eq]
    exact ⟨by omega, by omega, fun _ => by omega, fun _ => by omega, fun _ => by omega⟩
  · simp only [h, if_false]
    exact ⟨hp, h40, fun hp' => h50 (by omega), fun hp' => h60 (by omega), fun hp' => h61 (by omega)⟩

theorem bracketB_ok (e : E) (d : Doc) (p : Nat) (hp : PyOK d = true) (hl : LvB e d) :
    PyOK (bracket e d p) = true ∧ 20 ≤ level (bracket e d p) ∧ (p = 30 → 30 ≤ level (bracket e d p)) ∧
      (p = 51 → 100 ≤ level (bracket e d p)) := by
  obtain ⟨h20, h30, _, h51⟩ := hl
  rw [bracket_eq]
  by_cases h : precA e < p
  · simp only [h, if_true, ok_paren, level_paren, hp, Bool.true_and, decide_eq_true_eq]
    exact ⟨by omega, by omega, fun _ => by omega, fun _ => by omega⟩
  · simp only [h, if_false]
    exact ⟨hp, h20, fun hp' => h30 (by omega), fun hp' => h51 (by omega)⟩

/-- an arithmetic term is never looser than a sum -/
theorem precA_ge_40 (e : E) (h : wf .A e = true) (hl : isList e = false) : 40 ≤ prec e := by
  cases e <;> simp [wf, isList] at h hl <;> simp [prec]
  all_goals (try split) <;> omega

/-! ## `_print_Add` -/

/-- what the fold over the terms maintains -/
theorem addStep_ok (acc : Option Doc) (i : Item)
    (hacc : ∀ a, acc = some a → PyOK a = true ∧ 40 ≤ level a)
    (hi : PyOK i.doc = true ∧ 40 ≤ level i.doc) (hprec : 40 ≤ prec i.e) :
    ∃ r, addStep acc i = some r ∧ PyOK r = true ∧ 40 ≤ level r := by
  have hbr : decide (prec i.e < 40) = false := by simp; omega
  cases acc with
  | none =>
      simp only [addStep, hbr, Bool.false_eq_true, if_false]
      by_cases hs : startsMinus i.doc = true
      · simp only [hs, if_true]; exact ⟨_, rfl, hi.1, hi.2⟩
      · simp only [hs, Bool.false_eq_true, if_false]; exact ⟨_, rfl, hi.1, hi.2⟩
  | some a =>
      have ha := hacc a rfl
      simp only [addStep, hbr, Bool.false_eq_true, if_false]
      by_cases hs : startsMinus i.doc = true
      · simp only [hs, if_true]
        have hpl := peelLeft_ok i.doc 40 hi.1 hs hi.2 (by omega)
        have := spliceSum_ok a true ha.1 ha.2 _ hpl.1 hpl.2
        exact ⟨_, rfl, this.1, by omega⟩
      · simp only [hs, Bool.false_eq_true, if_false]
        have := spliceSum_ok a false ha.1 ha.2 _ hi.1 hi.2
        exact ⟨_, rfl, this.1, by omega⟩

theorem foldl_addStep_ok (items : List Item) : ∀ acc,
    (∀ a, acc = some a → PyOK a = true ∧ 40 ≤ level a) →
    (∀ i ∈ items, (PyOK i.doc = true ∧ 40 ≤ level i.doc) ∧ 40 ≤ prec i.e) →
    ∀ a, items.foldl addStep acc = some a → PyOK a = true ∧ 40 ≤ level a := by
  induction items with
  | nil => intro acc hacc _ a h; exact hacc a h
  | cons i is ih =>
      intro acc hacc hall a h
      simp only [List.foldl_cons] at h
      obtain ⟨r, hr, hr1, hr2⟩ := addStep_ok acc i hacc (hall i (by simp)).1 (hall i (by simp)).2
      rw [hr] at h
      exact ih (some r) (fun a' ha' => by cases ha'; exact ⟨hr1, hr2⟩) (fun j hj => hall j (by simp [hj])) a h

theorem addDoc_ok (items : List Item) (hne : items ≠ [])
    (hall : ∀ i ∈ items, (PyOK i.doc = true ∧ 40 ≤ level i.doc) ∧ 40 ≤ prec i.e) :
    PyOK (addDoc items) = true ∧ 40 ≤ level (addDoc items) := by
  cases items with
  | nil => exact absurd rfl hne
  | cons i is =>
      simp only [addDoc, List.foldl_cons]
      obtain ⟨r, hr, hr1, hr2⟩ := addStep_ok none i (fun a h => by cases h) (hall i (by simp)).1 (hall i (by simp)).2
      rw [hr]
      cases hf : is.foldl addStep (some r) with
      | none =>
          -- the fold never loses its accumulator
          exfalso
          have : ∀ (l : List Item) (x : Doc), l.foldl addStep (some x) ≠ none := by
            intro l; induction l with
            | nil => intro x; simp
            | cons j js ih => intro x; simp only [List.foldl_cons, addStep]; exact ih _
          exact this is r hf
      | some a =>
          simp only [Option.getD_some]
          exact foldl_addStep_ok is (some r) (fun a' ha' => by cases ha'; exact ⟨hr1, hr2⟩)
            (fun j hj => hall j (by simp [hj])) a hf

/-! ## `_print_And`, `_print_Or` -/

theorem andChain_ok (items : List Item) (hne : items ≠ [])
    (hall : ∀ i ∈ items, PyOK i.doc = true ∧ LvB i.e i.doc) :
    PyOK (boolChain spliceAnd 30 items) = true ∧ 30 ≤ level (boolChain spliceAnd 30 items) := by
  cases items with
  | nil => exact absurd rfl hne
  | cons i is =>
      simp only [boolChain]
      have h0 := bracketB_ok i.e i.doc 30 (hall i (by simp)).1 (hall i (by simp)).2
      have : ∀ (l : List Item) (acc : Doc), PyOK acc = true → 30 ≤ level acc →
          (∀ j ∈ l, PyOK j.doc = true ∧ LvB j.e j.doc) →
          PyOK (l.foldl (fun acc j => spliceAnd acc (bracket j.e j.doc 30)) acc) = true ∧
            30 ≤ level (l.foldl (fun acc j => spliceAnd acc (bracket j.e j.doc 30)) acc) := by
        intro l; induction l with
        | nil => intro acc h1 h2 _; exact ⟨h1, h2⟩
        | cons j js ih =>
            intro acc h1 h2 hj
            simp only [List.foldl_cons]
            have hb := bracketB_ok j.e j.doc 30 (hj j (by simp)).1 (hj j (by simp)).2
            have hs := spliceAnd_ok acc h1 h2 _ hb.1 (hb.2.2.1 rfl)
            exact ih _ hs.1 (by omega) (fun k hk => hj k (by simp [hk]))
      exact this is _ h0.1 (h0.2.2.1 rfl) (fun j hj => hall j (by simp [hj]))

theorem orChain_ok (items : List Item) (hne : items ≠ [])
    (hall : ∀ i ∈ items, PyOK i.doc = true ∧ LvB i.e i.doc) :
    PyOK (boolChain spliceOr 20 items) = true ∧ 20 ≤ level (boolChain spliceOr 20 items) := by
  cases items with
  | nil => exact absurd rfl hne
  | cons i is =>
      simp only [boolChain]
      have h0 := bracketB_ok i.e i.doc 20 (hall i (by simp)).1 (hall i (by simp)).2
      have : ∀ (l : List Item) (acc : Doc), PyOK acc = true → 20 ≤ level acc →
          (∀ j ∈ l, PyOK j.doc = true ∧ LvB j.e j.doc) →
          PyOK (l.foldl (fun acc j => spliceOr acc (bracket j.e j.doc 20)) acc) = true ∧
            20 ≤ level (l.foldl (fun acc j => spliceOr acc (bracket j.e j.doc 20)) acc) := by
        intro l; induction l with
        | nil => intro acc h1 h2 _; exact ⟨h1, h2⟩
        | cons j js ih =>
            intro acc h1 h2 hj
            simp only [List.foldl_cons]
            have hb := bracketB_ok j.e j.doc 20 (hj j (by simp)).1 (hj j (by simp)).2
            have hs := spliceOr_ok acc h1 h2 _ hb.1 hb.2.1
            exact ih _ hs.1 (by omega) (fun k hk => hj k (by simp [hk]))
      exact this is _ h0.1 h0.2.1 (fun j hj => hall j (by simp [hj]))

/-! ## `_print_Piecewise` -/

theorem nanDoc_ok : PyOK nanDoc = true ∧ level nanDoc = 100 := by
  unfold nanDoc; split <;> simp

theorem pwInner_ok (items : List Item)
    (hall : ∀ i ∈ items, (PyOK i.doc = true ∧ 10 ≤ level i.doc) ∧ (PyOK i.base = true ∧ 10 ≤ level i.base)) :
    PyOK (pwInner items).2 = true ∧ 10 ≤ level (pwInner items).2 := by
  induction items with
  | nil => simp [pwInner, nanDoc_ok.1, nanDoc_ok.2]
  | cons i is ih =>
      have hi := hall i (by simp)
      have ht := ih (fun j hj => hall j (by simp [hj]))
      simp only [pwInner]
      split
      · exact hi.1
      · simp [hi.1.1, hi.1.2, hi.2.1, hi.2.2, ht.1, ht.2]

end C11
