import Cellml.Units.Wire
import Cellml.Expr.Convert

/-! Requests of the expression channels:
    `(C04 (stores …) (defs …) (vars (unit-expr init|none) …) (exprs e …))`
    `(C05 (stores …) (defs …) (vars …) (jobs (e target|none) …))`
    where unit-expr = `((store name exp) …)` and quantities inside expressions carry unit-exprs. -/
namespace Expr.Wire
open Sexp Units Units.Wire

structure Ctx where
  w   : World
  reg : Registry
  Γ   : VarEnv
  defs : List Sexp

def resolveUnit (w : World) (u : Sexp) : Option Container :=
  match unitExpr? w u with
  | .ok (_, c) => some c
  | .error _ => none

def setup (args : List Sexp) : Option (Ctx × List Sexp) :=
  match args with
  | .list (.atom "stores" :: ss) :: .list (.atom "defs" :: ds) :: .list (.atom "vars" :: vs) :: rest =>
      let w0 := mkWorld ss
      let (w, rs) := applyDefs w0 ds
      let Γ : Option VarEnv := vs.mapM (fun v => match v with
        | .list [u, i] => do
            let c ← resolveUnit w u
            let init : Option Rat := match i with | .atom "none" => none | x => rat? x
            some ({ unit := c, init := init } : VarInfo)
        | _ => none)
      match Γ, w.regs[0]? with
      | some Γ, some reg => some ({ w := w, reg := reg, Γ := Γ, defs := rs }, rest)
      | _, _ => none
  | _ => none

def unitReply (reg : Registry) (u : Container) : List Sexp :=
  [ofScale (toRoot reg u).1, ofContainer "root" (toRoot reg u).2, ofContainer "dims" (dimsOf reg u),
   ofContainer "units" u]

def errReply (e : UnitErr) : Sexp :=
  match e with
  | .unsupported w => .list [.atom "unsupported", .str w]
  | e => .list [.atom "err", .atom e.name]

end Expr.Wire
