"""C13 — annotations always point at exactly one live variable.

Correspondence: random histories of add_variable / remove_variable / add_cmeta_id / transfer_cmeta_id / convert_variable /
rdf.add / add_rdf on API-built models and on documents loaded from harness/docgen.py (cmeta ids on source, relay and
target ends of connections); after EVERY call every lookup (has_cmeta_id, get_variable_by_cmeta_id for every id of the
universe, get_variables_by_rdf for every query, get_variable_by_ontology_term for every term,
get_ontology_terms_by_variable / get_display_name for every live variable) is compared with the Lean model
(lean/Cellml/Model/Cmeta.lean through channel C13). Oracle: the bijection recomputed from `variables()` alone.
"""
import logging
import os
import shutil
import sys
import tempfile

sys.path.insert(0, os.path.dirname(os.path.dirname(os.path.abspath(__file__))))
import docgen as D  # noqa: E402
from common import Str, sx  # noqa: E402
from props import c01  # noqa: E402

ID = 'C13'
LEAN_MODULES = ['Cellml.Props.C13', 'Cellml.Tie.CmetaQ', 'Cellml.Tie.Cmeta', 'Cellml.Tie.Misc5', 'Cellml.Tie.ConnLoop', 'Cellml.Props.C13Gen',
                'Cellml.Tie.RdfQ', 'Cellml.Props.C13GenQ']
N = {'quick': 3000, 'thorough': 40000}
RULE = ('histories of 6-28 calls (add_variable with/without cmeta id incl. ids in use and the model\'s own id, '
        'remove_variable, add_cmeta_id incl. names whose generated id collides with an id in use / the model id / a name '
        'with "$", transfer_cmeta_id incl. onto annotated and from unannotated variables, convert_variable INPUT/OUTPUT '
        'with move_annotations True/False on plain, state and free variables incl. double conversion, rdf.add / add_rdf '
        'of bqbiol:is / bqbiol:isVersionOf / dc:description triples on live ids, unknown ids and the model id) on models '
        'built through the API with ODEs and definitions (2/3 of the cases), and the same histories continued on '
        'documents loaded from docgen (component forests, relay chains with and without unit changes, cmeta ids on '
        'source / relay / target ends, 1-3 ids per chain, RDF block in the file) (1/3). Scripted prefixes: transfer -> '
        'remove -> re-add the same id; convert twice; annotate -> remove -> re-add. Variables are addressed by their '
        'position among the live variables, so every call is well-formed. Non-trivial: at least one id moved, was '
        'generated, clashed, or a variable with annotations was removed; distinct: by the whole case.')
TRUSTED = ['Lean 4.33 kernel', 'axioms: propext, Classical.choice, Quot.sound',
           'rdflib.Graph (a set of triples; subjects(p, o) / objects(s, p) / triples((s, None, None)) / remove) is modelled '
           'as a duplicate-free triple list, not verified',
           'the outcome of the unit layer in convert_variable (factor 1 / DimensionalityError / conversion needed) and the '
           'list of state variables whose ODE it rewrites are read from the implementation and given to the model',
           'harness/docgen.py and the C01 loader model (Load.load) for loaded documents']
ASSUMPTIONS = ['subjects of triples are local resources "#id"; blank-node, literal or non-local subjects make '
               'get_variable_by_cmeta_id raise AssertionError / NotImplementedError and are not generated',
               'variables handed to the API are variables of the model (no foreign objects)',
               'get_ontology_terms_by_variable / get_display_name are compared up to the order rdflib yields objects in',
               'convert_variable: only its effect on variables and cmeta ids is modelled (its equations are C06)',
               'literals are plain (no datatype, no language)']
FINGERPRINT = {'cellmlmanip/model.py': [
    'Model.add_variable', 'Model.remove_variable', 'Model.add_cmeta_id', 'Model.transfer_cmeta_id', 'Model.has_cmeta_id',
    'Model.get_variable_by_cmeta_id', 'Model.get_variables_by_rdf', 'Model.get_variable_by_ontology_term',
    'Model.get_ontology_terms_by_variable', 'Model.has_ontology_annotation', 'Model.get_display_name', 'Model.add_rdf',
    'Model.get_unique_name', 'Model._convert_variable_instance', 'Model._remove_ode_and_assign_rhs_to_new_variable',
    'Variable._set_cmeta_id', 'Variable.__init__'],
    'cellmlmanip/parser.py': ['Parser._add_connections', 'Parser._add_rdf'],
    'cellmlmanip/rdf.py': ['create_rdf_node']}

BQ = 'http://biomodels.net/biology-qualifiers/'
OX = 'https://chaste.comlab.ox.ac.uk/cellml/ns/oxford-metadata#'
EX = 'http://example.org/onto'                      # no trailing '#': create_rdf_node appends one
DC = 'http://purl.org/dc/elements/1.1/'
PREDS = {'is': (BQ, 'is'), 'isVersionOf': (BQ, 'isVersionOf'), 'description': (DC, 'description')}
# objects: ('uri', namespace, local) through create_rdf_node((ns, local)); ('lit', text) through create_rdf_node(text)
OBJS = [('uri', OX, 'membrane_voltage'), ('uri', OX, 'time'), ('uri', OX, 'sodium_current'), ('uri', EX, 'time'),
        ('uri', EX, 'V'), ('lit', 'a description'), ('lit', 'x#y#z')]
NSS = [None, OX, EX + '#', 'https://chaste']
MODEL_IDS = [None, 'mid', 'mid', 'a']
NAMES = ['a', 'b', 'V', 'x$y', 't', 'a_', 'mid', 'b_id', 'V_converted', 'zz']
IDS = ['a', 'a_', 'b_id', 'mid', 'V', 'zz', 'x__y', 'mid_', 't']
UNITS = ['mV', 'volt', 'ms', 'second', 'dimensionless', 'mV_per_ms']
UNIVERSE = sorted(set(IDS + ['a__', 'b', 'b_', 'V_', 'x__y_', 't_', 'mid__', 'zz_', 'nope', 'b_id_']))


def obj_text(o):
    if o[0] == 'lit':
        return ['lit', o[1]]
    ns = o[1] if o[1].endswith('#') or o[1].endswith('/') else o[1] + '#'
    return ['uri', ns + o[2]]


def pred_text(k):
    ns, local = PREDS[k]
    return ns + local


# ---------------------------------------------------------------------------------------------- generator
def random_op(rng, api):
    r = rng.random()
    k = rng.randrange(12)
    if r < 0.17:
        cm = rng.choice(IDS) if rng.random() < 0.6 else None
        return ['addVar', rng.choice(NAMES), cm, rng.choice(UNITS if api else ['volt', 'second', 'dimensionless'])]
    if r < 0.29:
        return ['rmVar', k]
    if r < 0.43:
        return ['cmeta', k]
    if r < 0.55:
        return ['xfer', k, rng.randrange(12), rng.random() < 0.6]
    if r < 0.77:
        tgt = ['var', k] if rng.random() < 0.8 else ['id', rng.choice(IDS + ['nope'])]
        pk = rng.choice(['is', 'is', 'is', 'is', 'isVersionOf', 'description'])
        ok = rng.randrange(5) if pk != 'description' else rng.choice([5, 6])
        return ['rdf', tgt, pk, ok, rng.choice(['add', 'add', 'xml'])]
    if r < 0.93:
        return ['conv', k, rng.randrange(12), rng.choice(['in', 'out']), rng.random() < 0.6]
    if r < 0.97:
        return ['ode', k, rng.randrange(12)]
    return ['def', k, rng.choice([None, rng.randrange(12)])]


SCRIPTS = [
    # transfer -> remove -> re-add the same id
    [['addVar', 'a', 'b_id', 'mV'], ['addVar', 'b', None, 'mV'], ['rdf', ['var', 0], 'is', 0, 'add'], ['xfer', 0, 1],
     ['rmVar', 1], ['addVar', 'V', 'b_id', 'volt']],
    # generated id collides with an id in use, twice; and with the model's own id
    [['addVar', 'V', 'a', 'mV'], ['addVar', 'a_', 'a_', 'mV'], ['addVar', 'a', None, 'mV'], ['cmeta', 2],
     ['addVar', 'mid', None, 'volt'], ['cmeta', 3], ['addVar', 'x$y', None, 'volt'], ['cmeta', 4]],
    # double conversion, with and without moving the annotations, of a state variable and of the free variable
    [['addVar', 'V', 'V', 'mV'], ['addVar', 't', 't', 'ms'], ['ode', 0, 1], ['rdf', ['var', 0], 'is', 0, 'xml'],
     ['rdf', ['var', 1], 'is', 1, 'add'], ['conv', 0, 'volt', 'in', True], ['conv', 2, 'mV', 'in', False],
     ['conv', 1, 'second', 'in', True], ['conv', 1, 'second', 'out', True]],
    # annotate -> remove -> re-add: the new carrier of the id has no annotations
    [['addVar', 'a', 'zz', 'mV'], ['rdf', ['var', 0], 'is', 2, 'add'], ['rdf', ['var', 0], 'description', 5, 'add'],
     ['rmVar', 0], ['addVar', 'b', 'zz', 'mV'], ['rdf', ['id', 'mid'], 'is', 1, 'add']],
    # two variables with one term; the same local name in two namespaces
    [['addVar', 'a', 'a', 'mV'], ['addVar', 'b', 'b_id', 'mV'], ['rdf', ['var', 0], 'is', 1, 'add'],
     ['rdf', ['var', 1], 'is', 1, 'add'], ['rdf', ['var', 1], 'is', 3, 'add'], ['rmVar', 0]],
]


def api_case(rng):
    ops = []
    if rng.random() < 0.35:
        ops += [list(o) for o in rng.choice(SCRIPTS)]
    else:
        for _ in range(rng.randint(2, 4)):
            ops.append(['addVar', rng.choice(NAMES), rng.choice(IDS) if rng.random() < 0.5 else None, rng.choice(UNITS)])
        if rng.random() < 0.5:
            ops.append(['ode', rng.randrange(4), rng.randrange(4)])
    for _ in range(rng.randint(4, 20)):
        ops.append(random_op(rng, True))
    return {'kind': 'api', 'model_cmeta': rng.choice(MODEL_IDS), 'ops': ops}


def doc_case(rng, doc=None, what='random'):
    if doc is None:
        r = rng.random()
        if r < 0.3:
            topo = rng.choice(D.topo_cases())
            parent, o, t = topo
            hops = len(D.route(parent, o, t)) - 1
            fam = D.FAMILIES[(1, 0)][:5]
            us = [rng.choice(fam)] * (hops + 1) if rng.random() < 0.5 else [rng.choice(fam) for _ in range(hops + 1)]
            doc = D.topo_doc(rng, parent, o, t, us, swap=rng.random() < 0.5,
                             kind=rng.choice(['alg', 'state', 'const-init']), annotate=rng.choice([0, 1, 2, 2]))
            what = 'topo'
        elif r < 0.45:
            parent, far = D.far_forest(rng)
            doc = D.gen_valid_doc(rng, parent=parent, far=far, n_signals=rng.randint(1, 4), p_cmeta=0.7,
                                  multi_cmeta=rng.random() < 0.3)
            what = 'far'
        else:
            doc = D.gen_valid_doc(rng, k=rng.choice([2, 3, 3, 4, 5]), n_signals=rng.randint(1, 5), p_cmeta=0.6,
                                  multi_cmeta=rng.random() < 0.25)
    if rng.random() < 0.3:
        doc['cmeta'] = rng.choice(['mid', 'a', 'membrane_voltage'])
    ids = [v['cmeta'] for c in doc['components'] for v in c['variables'] if v.get('cmeta')]
    rdf0 = []
    for i in ids:
        if rng.random() < 0.8:
            rdf0.append([i, 'is', rng.randrange(5)])
    if rdf0 and rng.random() < 0.3:
        rdf0.append([rng.choice(ids), 'description', 5])
    ops = [random_op(rng, False) for _ in range(rng.randint(2, 9))]
    return {'kind': 'doc', 'what': what, 'doc': doc, 'rdf0': rdf0, 'ops': ops}


def gen(rng, n, tier):
    for i in range(n):
        if i % 3 == 2:
            yield doc_case(rng)
        else:
            yield api_case(rng)


def relay_witness(annotate=2, units=('mV', 'mV', 'mV')):
    """A.out -> B.in/out -> C.in, all in the same unit, the id on C's variable (the far end)"""
    import random
    doc = D.topo_doc(random.Random(1), [None, 0, 1], 0, 2, list(units), annotate=annotate)
    return {'kind': 'doc', 'what': 'witness-relay', 'doc': doc, 'rdf0': [['ann_x', 'is', 0]], 'ops': []}


def corpus():
    out = [relay_witness(a, u) for a in (0, 1, 2) for u in (('mV', 'mV', 'mV'), ('mV', 'volt', 'volt'), ('mV', 'mV', 'volt'))]
    for s in SCRIPTS:
        for mc in ('mid', None):
            out.append({'kind': 'api', 'model_cmeta': mc, 'ops': [list(o) for o in s]})
    return out


# ---------------------------------------------------------------------------------------------- implementation
RDF_NS = 'http://www.w3.org/1999/02/22-rdf-syntax-ns#'


def _xesc(s):
    return str(s).replace('&', '&amp;').replace('<', '&lt;').replace('"', '&quot;')


def rdf_xml(triples):
    """triples: [(subject id, predicate key, object index)] -> an <rdf:RDF> element"""
    out = ['<rdf:RDF xmlns:rdf="%s">' % RDF_NS]
    for s, pk, ok in triples:
        ns, local = PREDS[pk]
        kind, text = obj_text(OBJS[ok])
        if kind == 'uri':
            body = '<p:%s xmlns:p="%s" rdf:resource="%s"/>' % (local, _xesc(ns), _xesc(text))
        else:
            body = '<p:%s xmlns:p="%s">%s</p:%s>' % (local, _xesc(ns), _xesc(text), local)
        out.append('<rdf:Description rdf:about="#%s">%s</rdf:Description>' % (_xesc(s), body))
    out.append('</rdf:RDF>')
    return ''.join(out)


def case_universe(case):
    u = list(UNIVERSE)
    if case.get('model_cmeta') and case['model_cmeta'] not in u:
        u.append(case['model_cmeta'])
    if case['kind'] == 'doc':
        doc = case['doc']
        if doc.get('cmeta') and doc['cmeta'] not in u:
            u.append(doc['cmeta'])
        for c in doc['components']:
            for v in c['variables']:
                for x in (v.get('cmeta'), (c['name'] + '$' + v['name']).replace('$', '__')):
                    if x and x not in u:
                        u.append(x)
    return u


def queries():
    qs = [('is', None), ('isVersionOf', None), ('description', None)]
    qs += [('is', i) for i in range(5)] + [('isVersionOf', 0), ('description', 5), ('description', 6)]
    return qs


class Run:
    def __init__(self, case):
        import cellmlmanip
        from cellmlmanip.model import Model
        self.case = case
        self.univ = case_universe(case)
        self.ids, self.objs = {}, []
        self.load_error = None
        self.used = None
        if case['kind'] == 'api':
            self.m = Model('m', cmeta_id=case['model_cmeta'])
            self.m.units.add_unit('mV', 'volt / 1000')
            self.m.units.add_unit('ms', 'second / 1000')
            self.m.units.add_unit('mV_per_ms', 'mV / ms')
        else:
            xml = D.to_xml(case['doc'])
            if case.get('rdf0'):
                xml = xml.replace('</model>\n', rdf_xml(case['rdf0']) + '\n</model>\n')
            tmp = tempfile.mkdtemp(prefix='c13_')
            try:
                path = os.path.join(tmp, 'doc.cellml')
                with open(path, 'w') as f:
                    f.write(xml)
                try:
                    self.m = cellmlmanip.load_model(path)
                except Exception as e:
                    self.m = None
                    self.load_error = 'err:' + type(e).__name__
                    self.load_msg = str(e)[:160]
            finally:
                shutil.rmtree(tmp, ignore_errors=True)
            if self.m is not None:
                from cellmlmanip.model import Variable
                self.used = sorted({v.name for eq in self.m.equations for v in eq.atoms(Variable)})
        if self.m is not None:
            self.adopt()

    def adopt(self):
        for v in self.m.variables():
            if v not in self.ids:
                self.ids[v] = len(self.objs)
                self.objs.append(v)

    def num(self, v):
        return self.ids.get(v, -1)

    def node(self, o):
        from cellmlmanip.rdf import create_rdf_node
        return create_rdf_node((o[1], o[2])) if o[0] == 'uri' else create_rdf_node(o[1])

    def call(self, f):
        try:
            return ['ok', f()]
        except Exception as e:
            return ['err', type(e).__name__]

    def snapshot(self):
        import rdflib
        m = self.m
        live = list(m.variables())
        for v in live:
            if v.cmeta_id is not None and v.cmeta_id not in self.univ:
                self.univ.append(v.cmeta_id)
        s = {'vars': [[self.num(v), v.name, v.cmeta_id, v.order_added] for v in live]}
        s['has'] = [bool(m.has_cmeta_id(c)) for c in self.univ]
        s['byid'] = [self.call(lambda c=c: self.num(m.get_variable_by_cmeta_id(c))) for c in self.univ]
        s['byrdf'] = []
        for pk, ok in queries():
            obj = None if ok is None else self.node(OBJS[ok])
            s['byrdf'].append(self.call(lambda: [self.num(v) for v in m.get_variables_by_rdf(PREDS[pk], obj)]))
        s['byterm'] = [self.call(lambda o=o: self.num(m.get_variable_by_ontology_term(self.node(o))))
                       for o in OBJS[:5]]
        s['terms'] = [[self.num(v)] + [sorted(m.get_ontology_terms_by_variable(v, ns)) for ns in NSS] for v in live]
        s['display'] = [[self.num(v)] + [m.get_display_name(v, ns) for ns in NSS] for v in live]
        s['triples'] = sorted([str(a), str(b), 'uri' if isinstance(c, rdflib.URIRef) else 'lit', str(c)]
                              for a, b, c in m.rdf)
        s['nuniv'] = len(self.univ)
        return s

    def pick(self, k):
        live = list(self.m.variables())
        return live[k % len(live)] if live else None

    def step(self, op):
        """returns (entry for the observation, skipped?)"""
        import sympy
        from cellmlmanip.model import DataDirectionFlow
        m = self.m
        kind = op[0]
        if kind == 'addVar':
            r = self.call(lambda: m.add_variable(op[1], op[3], cmeta_id=op[2]) and None)
            return {'wire': ['addVar', op[1], op[2]], 'out': r}
        if kind in ('rmVar', 'cmeta'):
            v = self.pick(op[1])
            if v is None:
                return None
            f = m.remove_variable if kind == 'rmVar' else m.add_cmeta_id
            e = {'wire': [kind, self.num(v)], 'had': v.cmeta_id}
            e['out'] = self.call(lambda: f(v))
            return e
        if kind == 'xfer':
            a, b = self.pick(op[1]), self.pick(op[2])
            if len(op) > 3 and op[3]:       # mostly: from an annotated variable onto one without id
                live = list(m.variables())
                withid = [v for v in live if v.cmeta_id is not None]
                without = [v for v in live if v.cmeta_id is None]
                if withid and without:
                    a, b = withid[op[1] % len(withid)], without[op[2] % len(without)]
            if a is None or a is b:
                return None
            e = {'wire': ['xfer', self.num(a), self.num(b)], 'had': [a.cmeta_id, b.cmeta_id]}
            e['out'] = self.call(lambda: m.transfer_cmeta_id(a, b))
            return e
        if kind == 'rdf':
            if op[1][0] == 'var':
                v = self.pick(op[1][1])
                sid = v.cmeta_id if v is not None else None
            else:
                sid = op[1][1]
            if sid is None:
                return None
            if sid not in self.univ:
                self.univ.append(sid)
            pk, ok = op[2], op[3]
            if op[4] == 'xml':
                r = self.call(lambda: m.add_rdf(rdf_xml([(sid, pk, ok)])))
            else:
                from cellmlmanip.rdf import create_rdf_node
                r = self.call(lambda: m.rdf.add((create_rdf_node('#' + sid), create_rdf_node(PREDS[pk]),
                                                 self.node(OBJS[ok]))) and None)
            return {'wire': ['rdf', sid, pred_text(pk), obj_text(OBJS[ok])], 'out': r}
        if kind == 'conv':
            v = self.pick(op[1])
            if v is None:
                return None
            try:
                units = self.pick(op[2]).units if isinstance(op[2], int) else m.units.get_unit(op[2])
            except Exception:
                return None
            direction = DataDirectionFlow.INPUT if op[3] == 'in' else DataDirectionFlow.OUTPUT
            states = m.get_state_variables()
            try:
                free = m.get_free_variable()
            except ValueError:
                free = None
            e = {'had': v.cmeta_id, 'move': bool(op[4]), 'dir': op[3]}
            try:
                nv = m.convert_variable(v, units, direction, move_annotations=bool(op[4]))
                e['out'] = ['ok', None]
                if nv is v:
                    ck = 'same'
                elif op[3] == 'out':
                    ck = 'output'
                else:
                    ck = ['input'] + ([self.num(v)] if v in states else [self.num(x) for x in states] if v is free else [])
                e['new'] = nv.name
            except Exception as ex:
                e['out'] = ['err', type(ex).__name__]
                ck = 'same'
                if type(ex).__name__ != 'DimensionalityError':
                    e['abort'] = True       # raised half-way (C06/C08 territory): the bijection is still checked
            e['wire'] = ['conv', self.num(v), bool(op[4]), ck]
            return e
        if kind in ('ode', 'def'):
            a = self.pick(op[1])
            b = self.pick(op[2]) if op[2] is not None else None
            if a is None or a is b:
                return None
            try:
                if kind == 'ode':
                    try:
                        b = m.get_free_variable()       # a model has one free variable: keep to it once there is one
                    except ValueError:
                        pass
                    if a is b or m.is_state(b):
                        return None
                    m.add_equation(sympy.Eq(sympy.Derivative(a, b), m.create_quantity(1.0, a.units / b.units)))
                elif b is None:
                    m.add_equation(sympy.Eq(a, m.create_quantity(2.0, a.units)))
                else:
                    m.add_equation(sympy.Eq(a, b * m.create_quantity(2.0, a.units / b.units)))
            except Exception:
                pass
            return None
        raise ValueError(op)


def impl(case):
    logging.disable(logging.CRITICAL)
    run = Run(case)
    if run.m is None:
        return {'load': run.load_error, 'msg': run.load_msg, 'steps': []}
    obs = {'load': 'ok', 'init': run.snapshot(), 'steps': [], 'used': run.used}
    for op in case['ops']:
        e = run.step(op)
        if e is None:
            continue
        run.adopt()
        e['snap'] = run.snapshot()
        if e.get('abort'):
            obs['aborted'] = e
            break
        obs['steps'].append(e)
    obs['univ'] = list(run.univ)
    obs['model_cmeta'] = case.get('model_cmeta') if case['kind'] == 'api' else case['doc'].get('cmeta')
    return obs


# ---------------------------------------------------------------------------------------------- model side
def wire_op(w):
    k = w[0]
    if k == 'addVar':
        return ['addVar', Str(w[1]), Str(w[2]) if w[2] is not None else 'none']
    if k in ('rmVar', 'cmeta'):
        return [k, w[1]]
    if k == 'xfer':
        return ['xfer', w[1], w[2]]
    if k == 'rdf':
        return ['rdf', Str(w[1]), Str(w[2]), [w[3][0], Str(w[3][1])]]
    if k == 'conv':
        ck = w[3] if isinstance(w[3], str) else ['input'] + list(w[3][1:])
        return ['conv', w[1], bool(w[2]), ck]
    raise ValueError(w)


def univ_sx(univ):
    qs = [[Str(pred_text(pk)), 'none' if ok is None else [obj_text(OBJS[ok])[0], Str(obj_text(OBJS[ok])[1])]]
          for pk, ok in queries()]
    ts = [[obj_text(o)[0], Str(obj_text(o)[1])] for o in OBJS[:5]]
    return ['univ', ['ids'] + [Str(c) for c in univ], ['queries'] + qs, ['terms'] + ts,
            ['nss'] + ['none' if n is None else Str(n) for n in NSS]]


def requests(case, obs):
    if case['kind'] == 'api':
        mc = case.get('model_cmeta')
        ini = ['api', Str(mc) if mc else 'none']
        pre = []
    else:
        mc = case['doc'].get('cmeta')
        ini = ['doc', Str(mc) if mc else 'none'] + c01.doc_sx(case['doc'])
        pre = [['rdf', Str(s), Str(pred_text(pk)), [obj_text(OBJS[ok])[0], Str(obj_text(OBJS[ok])[1])]]
               for s, pk, ok in case.get('rdf0', [])]
    univ = obs.get('univ') or case_universe(case)
    ops = pre + [wire_op(e['wire']) for e in obs['steps']]
    return [sx(['C13', 'run', ini, univ_sx(univ), ['ops'] + ops])]


def _field(snap, name):
    for f in snap:
        if isinstance(f, list) and f and f[0] == name:
            return f[1:]
    return None


def _res(r):
    """model `(ok x)` / `(err Class)` -> the implementation's ['ok', x] / ['err', Class] shape"""
    if r[0] == 'ok':
        x = r[1]
        return ['ok', [int(i) for i in x] if isinstance(x, list) else int(x)]
    return ['err', str(r[1])]


def compare_snap(s, ms, where):
    mv = [[int(v[0]), str(v[1]), None if v[2] == 'none' else str(v[2])] for v in _field(ms, 'vars')]
    iv = [v[:3] for v in s['vars']]
    if mv != iv:
        return '%s: variables differ: implementation %r, model %r' % (where, iv, mv)
    n = s['nuniv']
    mh = [x == 'true' for x in _field(ms, 'has')][:n]
    if mh != s['has']:
        return '%s: has_cmeta_id differs at %r (lengths %d/%d)' % (where, [i for i, (x, y) in enumerate(zip(mh, s['has'])) if x != y], len(mh), len(s['has']))
    mb = [['err', 'KeyError'] if x == 'none' else ['ok', int(x)] for x in _field(ms, 'byid')][:n]
    if mb != s['byid']:
        return '%s: get_variable_by_cmeta_id differs: implementation %r, model %r' % (where, s['byid'], mb)
    mr = [_res(r) for r in _field(ms, 'byrdf')]
    if mr != s['byrdf']:
        return '%s: get_variables_by_rdf differs: implementation %r, model %r' % (where, s['byrdf'], mr)
    mt = [_res(r) for r in _field(ms, 'byterm')]
    if mt != s['byterm']:
        return '%s: get_variable_by_ontology_term differs: implementation %r, model %r' % (where, s['byterm'], mt)
    mterms = [[int(e[0])] + [sorted(str(t) for t in l) for l in e[1:]] for e in _field(ms, 'terms')]
    if mterms != s['terms']:
        return '%s: get_ontology_terms_by_variable differs: implementation %r, model %r' % (where, s['terms'], mterms)
    md = _field(ms, 'display')
    if [int(e[0]) for e in md] != [d[0] for d in s['display']]:
        return '%s: get_display_name: variables differ' % where
    for e, d in zip(md, s['display']):
        for cands, got in zip(e[1:], d[1:]):
            if got not in [str(c) for c in cands]:
                return '%s: get_display_name(%s) = %r, model allows %r' % (where, d[0], got, cands)
    msub = sorted([str(t[0]), str(t[1]), str(t[2][0]), str(t[2][1])] for t in _field(ms, 'triples'))
    isub = sorted([t[0][1:]] + t[1:] for t in s['triples'])
    if msub != isub:
        return '%s: triples differ: in the implementation %r, in the model %r' % (where, isub, msub)
    return None


def compare(case, obs, replies):
    rep = replies[0]
    if obs['load'] != 'ok':
        if isinstance(rep, list) and rep and rep[0] == 'err':
            return None if 'err:' + str(rep[1]) == obs['load'] else \
                'load: implementation %s, model %s' % (obs['load'], rep[1])
        return 'load: implementation %s (%s), model loads' % (obs['load'], obs.get('msg'))
    if not isinstance(rep, list) or not rep or rep[0] != 'ok':
        return 'load: implementation loads, model answers %r' % (rep if not isinstance(rep, list) else rep[:3],)
    entries = rep[1:]
    npre = len(case.get('rdf0', [])) if case['kind'] == 'doc' else 0
    if len(entries) != 1 + npre + len(obs['steps']):
        return 'model answered %d entries for %d calls' % (len(entries), 1 + npre + len(obs['steps']))
    mm = compare_snap(obs['init'], entries[npre][1], 'after loading' if case['kind'] == 'doc' else 'new model')
    if mm:
        return mm
    for i, (e, me) in enumerate(zip(obs['steps'], entries[1 + npre:])):
        where = 'call %d %r' % (i, e['wire'])
        out = 'ok' if e['out'][0] == 'ok' or e['out'][1] == 'DimensionalityError' else e['out'][1]
        if str(me[0]) != out:
            return '%s: outcome: implementation %r, model %s' % (where, e['out'], me[0])
        mm = compare_snap(e['snap'], me[1], where)
        if mm:
            return mm
    return None


# ---------------------------------------------------------------------------------------------- property oracle
def _carriers(s):
    car = {}
    for num, _name, cm, _order in s['vars']:
        if cm is not None:
            car.setdefault(cm, []).append(num)
    return car


def check_snap(s, univ, model_cmeta, where, fails):
    """the property on one moment of the model, recomputed from `variables()` and the triples alone"""
    def fail(key, detail):
        fails.append({'key': key, 'detail': '%s: %s' % (where, detail)})
    car = _carriers(s)
    for cm, vs in car.items():
        if len(vs) > 1:
            fail('bijection:shared-id', 'cmeta id %r is carried by variables %r' % (cm, vs))
        if cm == model_cmeta:
            fail('bijection:model-id-on-variable', 'variable %r carries the model\'s own cmeta id %r' % (vs, cm))
    n = s['nuniv']
    for c, has, by in zip(univ[:n], s['has'], s['byid']):
        exp_has = c in car or (model_cmeta is not None and c == model_cmeta)
        if has != exp_has:
            fail('bijection:has_cmeta_id', 'has_cmeta_id(%r) = %r but %s' % (c, has, 'it is in use' if exp_has else 'nobody carries it'))
        exp = ['ok', car[c][0]] if c in car else ['err', 'KeyError']
        if by != exp:
            fail('lookup:id', 'get_variable_by_cmeta_id(%r) = %r, the live carrier is %r' % (c, by, exp))
    order = {num: o for num, _n, _c, o in s['vars']}
    name_of = {num: nm for num, nm, _c, _o in s['vars']}
    for (pk, ok), got in zip(queries(), s['byrdf']):
        match = [t for t in s['triples'] if t[1] == pred_text(pk) and (ok is None or t[2:] == obj_text(OBJS[ok]))]
        subj = [t[0][1:] for t in match]
        if all(x in car for x in subj):
            exp = ['ok', sorted((car[x][0] for x in subj), key=lambda i: (order[i], i))]
        else:
            exp = ['err', 'KeyError']      # an annotation about something that is not a variable (unknown id, the model)
        if got != exp:
            fail('lookup:rdf', 'get_variables_by_rdf(%s, %r) = %r, the carriers of the matching subjects are %r'
                 % (pk, ok, got, exp))
    for o, got in zip(OBJS[:5], s['byterm']):
        subj = [t[0][1:] for t in s['triples'] if t[1] == pred_text('is') and t[2:] == obj_text(o)]
        if not all(x in car for x in subj) or not subj:
            exp = ['err', 'KeyError']
        elif len(subj) > 1:
            exp = ['err', 'ValueError']
        else:
            exp = ['ok', car[subj[0]][0]]
        if got != exp:
            fail('lookup:term', 'get_variable_by_ontology_term(%r) = %r, expected %r' % (o[2], got, exp))
    cm_of = {num: cm for num, _n, cm, _o in s['vars']}
    for row, drow in zip(s['terms'], s['display']):
        num = row[0]
        mine = [t for t in s['triples'] if cm_of[num] is not None and t[0] == '#' + cm_of[num] and t[1] == pred_text('is')]
        for ns, got, disp in zip(NSS, row[1:], drow[1:]):
            exp = sorted(t[3].split('#')[-1] for t in mine if ns is None or t[3].startswith(ns))
            if got != exp:
                fail('lookup:terms', 'get_ontology_terms_by_variable(%r, %r) = %r, its annotations say %r'
                     % (name_of[num], ns, got, exp))
            allowed = exp if exp else [cm_of[num] if cm_of[num] else name_of[num].replace('$', '__')]
            if disp not in allowed:
                fail('lookup:display-name', 'get_display_name(%r, %r) = %r, expected one of %r' % (name_of[num], ns, disp, allowed))


def _same_state(a, b):
    return a['vars'] == b['vars'] and a['triples'] == b['triples']


def oracle(case, obs):
    fails = []

    def fail(key, detail):
        fails.append({'key': key, 'detail': detail})
    if obs['load'] != 'ok':
        if obs['load'] != 'err:ValueError':
            fail('load:unexpected-exception:' + obs['load'][4:], obs.get('msg', ''))
        return fails
    univ, mc = obs['univ'], obs['model_cmeta']
    check_snap(obs['init'], univ, mc, 'after loading' if case['kind'] == 'doc' else 'new model', fails)
    if case['kind'] == 'doc':
        load_oracle(case, obs, fails)
    if obs.get('aborted'):
        check_snap(obs['aborted']['snap'], univ, mc, 'after %r raised %s' % (obs['aborted']['wire'], obs['aborted']['out'][1]),
                   fails)
    prev = obs['init']
    for i, e in enumerate(obs['steps']):
        s = e['snap']
        where = 'call %d %r' % (i, e['wire'])
        check_snap(s, univ, mc, where, fails)
        k, out = e['wire'][0], e['out']
        if out[0] == 'err' and not _same_state(prev, s):
            fail('rejected-call-changed-annotations', where)
        pcar, car = _carriers(prev), _carriers(s)
        cm_now = {num: cm for num, _n, cm, _o in s['vars']}
        if out[0] == 'ok':
            if k == 'rmVar':
                gone = e['had']
                left = [t for t in s['triples'] if gone is not None and t[0] == '#' + gone]
                if left:
                    fail('remove:annotations-left', '%s: triples about %r remain: %r' % (where, gone, left))
                if e['wire'][1] in cm_now:
                    fail('remove:still-live', where)
                if [t for t in prev['triples'] if gone is None or t[0] != '#' + gone] != s['triples']:
                    fail('remove:other-annotations-changed', where)
            elif s['triples'] != prev['triples'] and k != 'rdf':
                fail('annotations-changed-by-unrelated-call', where)
            if k == 'cmeta':
                new = cm_now.get(e['wire'][1])
                if e['had'] is not None and new != e['had']:
                    fail('add-cmeta:replaced-existing-id', where)
                if e['had'] is None and (new is None or new in pcar or new == mc):
                    fail('add-cmeta:not-fresh', '%s: generated id %r' % (where, new))
            if k == 'xfer':
                a, b = e['wire'][1], e['wire'][2]
                if cm_now.get(a) is not None or cm_now.get(b) != e['had'][0]:
                    fail('transfer:id-not-moved', where)
            if k == 'conv' and e['wire'][3] != 'same':
                new = [num for num, nm, _c, _o in s['vars'] if nm == e['new']]
                orig = e['wire'][1]
                if e['had'] is not None and e['move']:
                    if not new or cm_now.get(new[0]) != e['had'] or cm_now.get(orig) is not None:
                        fail('convert:id-not-moved', where)
                elif cm_now.get(orig) != e['had'] or (new and cm_now.get(new[0]) is not None):
                    fail('convert:id-moved', where)
            if k in ('addVar', 'rdf', 'cmeta', 'xfer', 'conv'):
                # nobody else's id changes
                touched = set(e['wire'][1:3]) if k in ('xfer', 'conv', 'cmeta') else set()
                for num, _n, cm, _o in prev['vars']:
                    if num not in touched and cm_now.get(num, cm) != cm:
                        fail('bystander-id-changed', '%s: variable %d had %r, now %r' % (where, num, cm, cm_now.get(num)))
        prev = s
    return fails


def load_oracle(case, obs, fails):
    doc = case['doc']
    s = obs['init']
    car = _carriers(s)
    parent = {}

    def find(x):
        while parent.setdefault(x, x) != x:
            x = parent[x]
        return x
    for cn in doc['connections']:
        for v1, v2 in cn['vars']:
            a, b = find(cn['c1'] + '$' + v1), find(cn['c2'] + '$' + v2)
            if a != b:
                parent[a] = b
    used = set(obs['used'])
    name_of = {num: nm for num, nm, _c, _o in s['vars']}
    for c in doc['components']:
        for v in c['variables']:
            cid = v.get('cmeta')
            if not cid:
                continue
            if cid not in car:
                fails.append({'key': 'load:id-lost', 'detail': 'cmeta id %r of %s$%s is on no variable of the loaded model'
                              % (cid, c['name'], v['name'])})
                continue
            home = name_of[car[cid][0]]
            origin = c['name'] + '$' + v['name']
            if find(home) != find(origin):
                fails.append({'key': 'load:id-on-unrelated-variable', 'detail': '%r written on %s sits on %s' % (cid, origin, home)})
            cls_used = [x for x in used if find(x) == find(origin)]
            if home not in used and cls_used:
                fails.append({'key': 'load:annotation-on-unused-relay',
                              'detail': 'cmeta id %r written on %s sits on %s, which occurs in no equation of the loaded model; '
                                        'the equations refer to this quantity as %s' % (cid, origin, home, sorted(cls_used))})
    have = {(t[0], t[1], t[3]) for t in s['triples']}
    for sid, pk, ok in case.get('rdf0', []):
        if ('#' + sid, pred_text(pk), obj_text(OBJS[ok])[1]) not in have:
            fails.append({'key': 'load:rdf-lost', 'detail': 'triple about %r is not in model.rdf' % sid})


def _features(case, obs):
    f = set()
    if obs['load'] != 'ok':
        return {'load-refused'}
    if case['kind'] == 'doc':
        doc_ids = {c['name'] + '$' + v['name']: v['cmeta'] for c in case['doc']['components'] for v in c['variables']
                   if v.get('cmeta')}
        now = {nm: cm for _i, nm, cm, _o in obs['init']['vars'] if cm}
        if doc_ids:
            f.add('load-moved' if doc_ids != now else 'load-kept')
    for e in obs['steps']:
        k, out = e['wire'][0], e['out'][0]
        if k == 'xfer' and out == 'ok':
            f.add('transfer')
        if k == 'cmeta' and out == 'ok' and e['had'] is None:
            f.add('generated')
        if k == 'addVar' and out == 'err':
            f.add('clash')
        if k == 'rmVar' and e['had'] is not None:
            f.add('removed-annotated')
        if k == 'conv' and e['wire'][3] != 'same' and e['had'] is not None:
            f.add('conv-move' if e['move'] else 'conv-keep')
    return f


def nontrivial(case, obs):
    return bool(_features(case, obs) - {'load-kept', 'load-refused'})


def tag(case, obs):
    f = _features(case, obs)
    return case['kind'] + ':' + ('+'.join(sorted(f)) if f else 'plain')


def shrink(violation):
    case = violation['case']
    keys = {f['key'] for f in violation['failures']}

    def still(c):
        o = impl(c)
        return [f for f in oracle(c, o) if f['key'] in keys], o
    changed = True
    while changed and case['ops']:
        changed = False
        for i in range(len(case['ops']) - 1, -1, -1):
            c2 = dict(case, ops=case['ops'][:i] + case['ops'][i + 1:])
            fs, o = still(c2)
            if fs:
                case, changed = c2, True
                violation = {'case': c2, 'failures': fs, 'obs': o}
                break
    return violation


MANIFEST = {
    'technique': 'Lean 4 proof (invariant over all histories of calls, induction over the work list of connection '
                 'resolution) + correspondence of every lookup after every call + bijection oracle',
    'text': ('Model: lean/Cellml/Model/Cmeta.lean on the C08 state (live variables, cmeta ids on the objects, the '
             'registry, the model id) plus the RDF graph as a duplicate-free triple list; calls: all of C08, '
             'remove_variable with its triple deletion, rdf.add, convert_variable (variables and ids only), the '
             'loader\'s mover. Proved (lean/Cellml/Props/C13.lean, 21 theorems, all for every state with the invariant / '
             'every history / every document): bij_init, bij_step (every call, returning or raising), bij_reachable; '
             'lookup_id, lookup_rdf, lookup_term, annotations_reachable; remove_drops_annotations, '
             'readd_has_no_annotations; addCmetaId_fresh (incl. termination of the while loop by pigeonhole), '
             'addCmetaId_keeps; transfer_moves; convert_moves_id, convert_keeps_id, convert_same_noop; load_moves_id, '
             'load_moves_id_flat (ids end on assigned_to, which is the ultimate source the maths use or the left-hand '
             'side of a conversion equation); today_relay_unused (proved counterexample for the rule before df25620).'),
    'note': ('Defect repaired: parser.py moved the id of a factor-1 target to the direct source (a relay variable that '
             'occurs in no equation); commit df25620 moves it to source.assigned_to; witness in findings/C13.json. '
             'Not modelled: rdflib itself, non-local subjects, the equations of convert_variable (C06).'),
}
