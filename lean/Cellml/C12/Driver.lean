import Cellml.Basic.Sexp
/-! Channel C12 of the model driver (stub: not built yet). -/
namespace C12
def handle (_args : List Sexp) : Sexp := .atom "not-implemented"
end C12
