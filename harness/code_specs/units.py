"""Code-translator spec (see harness/translate_code.py and harness/code_specs/__init__.py): the methods of
cellmlmanip/units.py:UnitStore, tied in lean/Cellml/Tie/Units.lean to the hand models Units.{Define,Conv,Rules} and
Iso.Namespace.  The view is lean/Cellml/Tie/UnitsView.lean.

Every pattern below stands for a LEAF: a module-level table that is itself a translated table (`_CELLML_UNITS`), a call
into pint / sympy / `re` / `math`, an attribute of a pint object, or a call of another translated method (bound to the
generated definition of that method, not to the model). Guards, their order, `in` / `not in` / `==` / `and`, the
argument order, string constants and which branch defines what come from the source."""

_STORE = '(self : StoreObj)'

# leaves shared by all methods
_COMMON = [
    # module-level tables: Cellml.Gen.cellmlUnits / unsupportedUnits are translated from the same source lines
    ('_CELLML_UNITS', 'Cellml.Gen.cellmlUnits'),
    ('_UNSUPPORTED_UNITS', 'Cellml.Gen.unsupportedUnits'),
    # another translated method (the generated definition earlier in this file)
    ('self._prefix_name(__A)', '(Id.run (prefixName self {A}))'),
    # pint
    ('self._registry.Unit(__A)', '(pintUnit (self)._registry {A})'),
    ('self._registry.get_base_units(__A)', '(pintBaseUnits (self)._registry {A})'),
    ('self._registry.Quantity(__A, __B)', '(QuantityObj.mk {A} {B})'),
    ('__A.to(__B)', '← pintTo (self)._registry {A} {B}'),
    ('__A.dimensionality', '(pintDims (self)._registry {A})'),
    ('1 * __A', '(unitQuantity {A})'),          # int * Unit -> Quantity of magnitude one
    ('1 / __A', '(magInv {A})'),                # reciprocal of a magnitude (a scale is a prime-exponent map)
    # tuple indexing
    ('__A[0]', '({A}).1'),
    ('__A[1]', '({A}).2'),
    ('str(__A)', '(PyStr.str {A})'),
]

GROUP = {
    'name': 'Units',
    'imports': ['Cellml.Tie.UnitsView'],
    'header': 'open Cellml.Tie.PUnits',
    'patterns': _COMMON,
    'functions': [
        {'file': 'cellmlmanip/units.py', 'func': 'UnitStore._prefix_name', 'lean_name': 'prefixName',
         'signature': _STORE + ' (name : String) : Id String'},

        # `match` is the regex Match object of one word: the view passes the matched text itself
        {'file': 'cellmlmanip/units.py', 'func': 'UnitStore._prefix_expression', 'lean_name': 'prefixExpression',
         'signature': _STORE + ' (match_ : String) : Id String',
         'patterns': [('match.group(0)', 'match_')]},

        {'file': 'cellmlmanip/units.py', 'func': 'UnitStore.is_defined', 'lean_name': 'isDefined',
         'signature': _STORE + ' (name : String) : Id Bool'},

        {'file': 'cellmlmanip/units.py', 'func': 'UnitStore.get_unit', 'lean_name': 'getUnit',
         'signature': _STORE + ' (name : String) : Except PyErr UnitObj'},

        {'file': 'cellmlmanip/units.py', 'func': 'UnitStore.add_base_unit', 'lean_name': 'addBaseUnit',
         'signature': _STORE + ' (name : String) : Except PyErr (StoreObj × UnitObj)',
         'mutable_params': ['self'],
         'patterns': [
             # pint's syntax of a base-unit definition; both occurrences of the name are passed on
             ("__A + '=[' + __B + ']'", '(PDefinition.base {A} {B})')],
         'stmt_patterns': [
             ('self._registry.define(__A)',
              'let reg__ ← pintDefine (self)._registry {A}\nself := { self with _registry := reg__ }'),
             ('self._known_units.add(__A)', 'self := { self with _known_units := setAdd (self)._known_units {A} }'),
             # the method mutates `self`: the new object is returned with the result
             ('return __A', 'return (self, {A})')]},

        {'file': 'cellmlmanip/units.py', 'func': 'UnitStore.add_unit', 'lean_name': 'addUnit',
         'signature': _STORE + ' (name : String) (expression : PExpr) : Except PyErr (StoreObj × UnitObj)',
         'mutable_params': ['self'],
         'patterns': [
             ('_WORD.sub(__F, __A)', '(wordSub {F} {A})'),
             # the bound method handed to re.sub: the generated `_prefix_expression`
             ('self._prefix_expression', '(fun m__ => Id.run (prefixExpression self m__))'),
             ('self._registry.parse_expression(__A)', '← pintParse (self)._registry {A}'),
             ("UnitDefinition(__A, '', (), ScaleConverter(__B))", '(PDefinition.scaled {A} {B})'),
             # pint's syntax of a definition by an expression
             ("__A + '=' + __B", '(PDefinition.eqn {A} {B})')],
         'stmt_patterns': [
             ('self._registry.define(__A)',
              'let reg__ ← pintDefine (self)._registry {A}\nself := { self with _registry := reg__ }'),
             ('self._known_units.add(__A)', 'self := { self with _known_units := setAdd (self)._known_units {A} }'),
             ('return __A', 'return (self, {A})')]},

        {'file': 'cellmlmanip/units.py', 'func': 'UnitStore.is_equivalent', 'lean_name': 'isEquivalent',
         'signature': _STORE + ' (unit1 unit2 : UnitObj) : Id Bool',
         'patterns': [('math.isclose(__A, __B)', '(scaleClose {A} {B})')]},

        {'file': 'cellmlmanip/units.py', 'func': 'UnitStore.convert', 'lean_name': 'convert',
         'signature': _STORE + ' (quantity : QuantityObj) (unit : UnitObj) : Except PyErr QuantityObj'},

        {'file': 'cellmlmanip/units.py', 'func': 'UnitStore.get_conversion_factor', 'lean_name': 'getConversionFactor',
         'signature': _STORE + ' (from_unit to_unit : UnitObj) : Except PyErr CFObj',
         'patterns': [
             ('self.convert(__A, __B)', '← convert self {A} {B}'),        # the generated `convert` above
             ('isinstance(__A, sympy.Number)', '(isNumber {A})'),
             ('isinstance(__A, numbers.Number)', '(isNumber {A})'),
             ('float(__A)', '(pyFloat {A})'),
             ('math.isclose(__A, 1.0)', '(isCloseOne {A})'),              # one is the empty prime-exponent map
             ('isinstance(__A, sympy.Mul)', '(isSympyMul {A})'),
             ('1.0 in __A.args', '(hasFloatOneArg {A})'),
             ('sympy.Mul(*[a for a in __A.args if a != 1.0])', '(dropFloatOneArgs {A})')]},

        {'file': 'cellmlmanip/units.py', 'func': 'UnitStore.format', 'lean_name': 'format',
         'signature': _STORE + ' (unit : UnitObj) (base_units : Bool) : Id String',
         'patterns': [("_STORE_PREFIX.sub('', __A)", '(Iso.strip {A})')]},
    ],
}
