import Cellml.Units.Rules

/-! `UnitStore.add_conversion_rule` as an operation on the rule list (units.py 304-340, pint 0.18
    `ContextRegistry.enable_contexts` / `ContextChain.insert_contexts`).

    The C19 model takes the enabled transformations as a newest-first list `rules : List Rule` read by
    `Units.lookupRule` / `convertWithRules` / `convertQ` / `conversionFactorR`; the C19 driver puts a rule into it by
    `mkRule reg f t body :: rules`. `addRule` is that step as a function, with the one failure pint has at
    registration time: a unit that is not in the registry (a unit of a store with another registry) makes
    `enable_contexts` raise `UndefinedUnitError` when it rewrites the key to dimensionalities, before the context is
    inserted. Nothing else is checked at registration (a rule of the wrong dimension is only refused at conversion
    time, `Cellml.Props.C19.rule_of_wrong_dimension_refused`); the rule is not rescaled to the units it was registered
    with; every call inserts one more context in front, so a later rule for the same pair of dimensionalities shadows
    an earlier one. Core Lean only. -/

namespace Units

/-- `add_conversion_rule(from_unit, to_unit, lambda ureg, rhs: rhs * … / …)` on the enabled rules of a registry -/
def addRule (reg : Registry) (rules : List Rule) (fromU toU : Container) (body : List RFactor) :
    Except UErr (List Rule) :=
  if allKnown reg fromU && allKnown reg toU then .ok (mkRule reg fromU toU body :: rules)
  else .error .undefinedUnit

end Units
