"""Specs of the code translator (harness/translate_code.py): which functions of /repo are translated into Lean, under
which signature, and how their leaves (attribute paths, calls into pint / sympy / the model) are bound to the accessors
of the hand-written models. One module here = one GROUP = one generated Lean module
lean/Cellml/Generated/Code/<name>.lean; the tie theorems about it are in lean/Cellml/Tie/<name>.lean."""
import importlib
import os
import pkgutil

GROUPS = []
for _m in sorted(pkgutil.iter_modules([os.path.dirname(__file__)]), key=lambda m: m.name):
    GROUPS.append(importlib.import_module(__name__ + '.' + _m.name).GROUP)
