"""Expressions over a unit family: generation (type-directed, mostly valid, with single-leaf mutations), construction as
real SymPy objects through the Model API, serialisation of the tree SymPy actually built, and an independent
physical evaluator (the oracle of C04/C05)."""
import re
from fractions import Fraction

import mpmath

import unitlib as U
from common import Str

mpmath.mp.dps = 40
STORE = re.compile(r'^store(\d+)_(.*)$')

EXPR_RECIPES = [r for r in U.RECIPES if not any(u in ('radian', 'steradian', 'lumen', 'lux') for sp in r for u, _ in sp)]


# ------------------------------------------------------------------------------------------ case generation
def gen_context(rng):
    """A single-store family with 2-3 clusters of equal dimension + variables over its units."""
    fam = U.gen_family(rng, n_units=rng.randint(6, 9), n_stores=1, recipes=EXPR_RECIPES, with_base=rng.random() < 0.2,
                       small_scales=True)
    units = []          # unit-exprs available
    for d in fam['defs']:
        units.append([[0, d['name'], '1']])
    for b in rng.sample(['volt', 'second', 'metre', 'ampere', 'dimensionless', 'farad', 'litre', 'mole'], 3):
        units.append([[0, b, '1']])
    units.append([[0, 'dimensionless', '1']])
    nv = rng.randint(4, 7)
    variables = []
    for i in range(nv):
        u = rng.choice(units)
        init = rng.choice([None, None, '0', '1.5', '-2', '0.25', '3'])
        variables.append({'name': 'v%d' % i, 'unit': u, 'init': init})
    return {'family': fam, 'units': units, 'vars': variables}


class Gen:
    """Type-directed generator: `dim` is a key identifying a dimension (computed from the oracle semantics)."""

    # random ratio exponents leave float noise in pint's exponents (2.54 * (1/2.54) != 1), which makes the real
    # is_equivalent() fail for reasons outside the exact model: they are exercised by exact corpus cases instead
    ratio_exponent_p = 0.0

    def __init__(self, rng, ctx, sem):
        self.rng, self.ctx, self.sem = rng, ctx, sem
        self.by_dim = {}
        for u in ctx['units']:
            s = U.sem_of(sem, [tuple(x) for x in u])
            self.by_dim.setdefault(dimkey(s.dims), []).append(u)
        self.vars_by_dim = {}
        for i, v in enumerate(ctx['vars']):
            s = U.sem_of(sem, [tuple(x) for x in v['unit']])
            self.vars_by_dim.setdefault(dimkey(s.dims), []).append(i)
        self.dims = [d for d in self.by_dim if d != ()]

    def number(self):
        r = self.rng
        return r.choice(['1', '2', '0.5', '3', '10', '-1.5', '0.125', '4', '7', '-2', '100', '0.75'])

    def leaf(self, d):
        r = self.rng
        vs = self.vars_by_dim.get(d, [])
        if vs and r.random() < 0.5:
            return ['var', r.choice(vs)]
        us = self.by_dim.get(d)
        if not us:
            return ['qty', self.number(), [[0, 'dimensionless', '1']]]
        if d == () and r.random() < 0.35:
            return r.choice([['int', r.choice([1, 2, 3, -1, 5])], ['rat', r.choice([1, 3, -1]), r.choice([2, 4])],
                             ['flt', self.number()], 'pi', 'e'])
        return ['qty', self.number(), r.choice(us)]

    def expr(self, d, depth):
        r = self.rng
        if depth <= 0 or r.random() < 0.18:
            return self.leaf(d)
        k = r.random()
        if k < 0.22:
            return ['add'] + [self.expr(d, depth - 1) for _ in range(r.choice([2, 2, 3]))]
        if k < 0.40:
            # product: D * dimensionless-ratio, or (D*E) / E
            if self.dims and r.random() < 0.5:
                e = r.choice(self.dims)
                return ['mul', self.expr(d, depth - 1), self.expr(e, depth - 1), ['pow', self.expr(e, depth - 1), ['int', -1]]]
            return ['mul', self.expr(d, depth - 1), self.expr((), depth - 1)]
        if k < 0.50 and d == ():
            f = r.choice(['exp', 'log', 'sin', 'cos', 'tanh', 'acos', 'atan', 'sinh'])
            return ['fn1', f, self.expr((), depth - 1)]
        if k < 0.58:
            return [r.choice(['abs', 'floor', 'ceil']), self.expr(d, depth - 1)]
        if k < 0.70:
            n = r.choice([1, 2, 2])
            pieces = []
            for _ in range(n):
                pieces.append([self.expr(d, depth - 1), self.cond(depth - 1)])
            if r.random() < 0.8:
                pieces.append([self.expr(d, depth - 1), 'tt'])
            return ['pw', pieces]
        if k < 0.80:
            # power with a numeric exponent: (sqrt-able) squares and inverses
            ex = r.choice([['int', 2], ['int', -1], ['rat', 1, 2], ['qty', '2', [[0, 'dimensionless', '1']]], ['int', 3],
                           ['flt', '2.0'], ['mul', ['int', -1], ['qty', '2', [[0, 'dimensionless', '1']]]]])
            val = Fraction(*ex[1:]) if ex[0] == 'rat' else (Fraction(ex[1]) if ex[0] in ('int', 'flt') else
                                                           (Fraction(ex[1]) if ex[0] == 'qty' else Fraction(-2)))
            if r.random() < self.ratio_exponent_p:
                # an exponent that itself needs a unit conversion: a ratio of two quantities of one dimension in
                # different units whose physical value is the nice number `val`
                rx = self.ratio_exponent(val)
                if rx is not None:
                    ex = rx
            inner = self.expr(d, depth - 1)
            # (inner ** val) ** (1/val) keeps dimension d:  use  inner**val * inner**(1-val)
            rest = 1 - val
            return ['mul', ['pow', inner, ex], ['pow', self.expr(d, depth - 1),
                                                ['rat', rest.numerator, rest.denominator] if rest.denominator != 1
                                                else ['int', int(rest)]]]
        if k < 0.86 and d == ():
            e = r.choice(self.dims) if self.dims else ()
            return ['mul', self.expr(e, depth - 1), ['pow', self.expr(e, depth - 1), ['int', -1]]]
        if k < 0.90 and d == ():
            return ['fnN', r.choice(['Max', 'Min']), self.expr((), depth - 1), self.expr((), depth - 1)]
        return self.leaf(d)

    def ratio_exponent(self, val):
        """['mul', qty(v1, a), ['pow', qty(v2, b), -1]] with a, b of one dimension and different scale, physical value val"""
        r = self.rng
        cands = [d for d, us in self.by_dim.items() if d != () and len(us) >= 2]
        if not cands:
            return None
        us = self.by_dim[r.choice(cands)]
        a, b = r.sample(us, 2)
        sa = U.sem_of(self.sem, [tuple(x) for x in a]).scale
        sb = U.sem_of(self.sem, [tuple(x) for x in b]).scale
        ratio = sa / sb
        q = fr(ratio).limit_denominator(10 ** 6)
        if q == 0 or abs(mpmath.mpf(q.numerator) / q.denominator - ratio) > abs(ratio) * mpmath.mpf(10) ** -25:
            return None
        if not (Fraction(1, 10 ** 6) <= abs(q) <= 10 ** 6) or q == 1:
            return None
        v1 = Fraction(r.choice([1, 2, 4, 5, 8]))
        v2 = v1 * q / val
        d = v2.denominator
        while d % 2 == 0:
            d //= 2
        while d % 5 == 0:
            d //= 5
        if d != 1 or abs(v2) > 10 ** 9 or abs(v2) < Fraction(1, 10 ** 9):
            return None
        from decimal import Decimal, getcontext
        getcontext().prec = 40
        txt = format(Decimal(v2.numerator) / Decimal(v2.denominator), 'f')
        return ['mul', ['qty', str(v1), a], ['pow', ['qty', txt, b], ['int', -1]]]

    def cond(self, depth):
        r = self.rng
        e = r.choice(self.dims + [()]) if self.dims else ()
        rel = ['rel', r.choice(['Lt', 'Le', 'Gt', 'Ge', 'Eq', 'Ne']), self.expr(e, max(depth - 1, 0)), self.expr(e, max(depth - 1, 0))]
        k = r.random()
        if k < 0.2:
            return [r.choice(['and', 'or']), rel, self.cond(depth - 1) if depth > 0 else rel]
        return rel


def dimkey(d):
    return tuple(sorted((k, str(v)) for k, v in d.items() if v != 0))


def mutate_leaf(rng, ast, gen):
    """Single-leaf unit mutation: replace the unit of one random quantity/variable leaf by one of another dimension."""
    leaves = []

    def walk(a, path):
        if isinstance(a, list):
            if a and a[0] in ('qty', 'var'):
                leaves.append(path)
                return
            for i, x in enumerate(a):
                walk(x, path + [i])
    walk(ast, [])
    if not leaves:
        return None
    path = rng.choice(leaves)
    node = ast
    for i in path[:-1]:
        node = node[i]
    old = node[path[-1]] if path else ast
    dims = list(gen.by_dim)
    d = rng.choice(dims)
    new = gen.leaf(d)
    if path:
        node[path[-1]] = new
    else:
        ast = new
    return ast


# ------------------------------------------------------------------------------------------ real objects
class World:
    """The real Model with the family's units and variables; builds SymPy from the AST and serialises SymPy trees."""

    def __init__(self, ctx):
        from cellmlmanip.model import Model
        self.ctx = ctx
        self.model = Model('m')
        self.store = self.model.units
        self.stores, self.outcomes = U.build_impl(ctx['family'], stores=[self.store])
        self.vars = []
        for v in ctx['vars']:
            self.vars.append(self.model.add_variable(v['name'], U.impl_unit(self.stores, v['unit']),
                                                     initial_value=None if v['init'] is None else float(Fraction(v['init']))))
        self.index = {v: i for i, v in enumerate(self.vars)}
        self.sid = self.store._id

    def unit(self, u):
        return U.impl_unit(self.stores, u)

    def build(self, a):
        import sympy
        m = self.model
        if isinstance(a, str):
            return {'pi': sympy.pi, 'e': sympy.E, 'tt': sympy.true, 'ff': sympy.false, 'oo': sympy.oo,
                    'nan': sympy.nan}[a]
        h = a[0]
        if h == 'qty':
            return m.create_quantity(float(Fraction(a[1])), self.unit(a[2]))
        if h == 'var':
            return self.vars[a[1]]
        if h == 'int':
            return sympy.Integer(a[1])
        if h == 'rat':
            return sympy.Rational(a[1], a[2])
        if h == 'flt':
            return sympy.Float(float(Fraction(a[1])))
        if h == 'add':
            return sympy.Add(*[self.build(x) for x in a[1:]])
        if h == 'mul':
            return sympy.Mul(*[self.build(x) for x in a[1:]])
        if h == 'pow':
            return sympy.Pow(self.build(a[1]), self.build(a[2]))
        if h == 'abs':
            return sympy.Abs(self.build(a[1]))
        if h == 'floor':
            return sympy.floor(self.build(a[1]))
        if h == 'ceil':
            return sympy.ceiling(self.build(a[1]))
        if h == 'fn1':
            return getattr(sympy, a[1])(self.build(a[2]))
        if h == 'fnN':
            return getattr(sympy, a[1])(self.build(a[2]), self.build(a[3]))
        if h == 'pw':
            return sympy.Piecewise(*[(self.build(e), self.build(c)) for e, c in a[1]])
        if h == 'deriv':
            return sympy.Derivative(self.vars[a[1]], self.vars[a[2]], evaluate=False)
        if h == 'derivn':     # higher-order derivative: unsupported, must be refused with a UnitError
            return sympy.Derivative(self.vars[a[1]], (self.vars[a[2]], int(a[3])), evaluate=False)
        if h == 'rel':
            return getattr(sympy, a[1])(self.build(a[2]), self.build(a[3]))
        if h == 'and':
            return sympy.And(*[self.build(x) for x in a[1:]])
        if h == 'or':
            return sympy.Or(*[self.build(x) for x in a[1:]])
        if h == 'not':
            return sympy.Not(self.build(a[1]))
        if h == 'matrix':
            return sympy.Matrix([[self.build(a[1])]])
        raise ValueError('bad ast %r' % (a,))

    # -------------------------------------------------------------------------------- serialisation
    def unit_expr(self, unit):
        """pint Unit -> [[store index, user name, exponent Fraction]]"""
        out = []
        for name, e in unit._units.items():
            m = STORE.match(name)
            q = Fraction(e).limit_denominator(64) if not isinstance(e, int) else Fraction(e)
            if m:
                if int(m.group(1)) != self.sid:
                    raise ValueError('foreign store unit ' + name)
                out.append([0, m.group(2), q])
            else:
                out.append([0, name, q])
        return out or [[0, 'dimensionless', Fraction(1)]]

    def ser(self, x):
        """SymPy tree actually built -> nested python (wire format of lean/Cellml/Expr/Basic.lean)."""
        import sympy
        from cellmlmanip.model import Quantity, Variable
        if isinstance(x, Quantity):
            if isinstance(x.units, str):
                return ['other', 'StringUnitQuantity']
            return ['qty', Fraction(float(x)), [[s, Str(n), e] for s, n, e in self.unit_expr(x.units)]]
        if isinstance(x, Variable):
            return ['var', self.index[x]]
        if getattr(x, 'is_Matrix', False):
            return ['other', 'Matrix']
        if x is sympy.true:
            return 'tt'
        if x is sympy.false:
            return 'ff'
        if x is sympy.pi:
            return 'pi'
        if x is sympy.E:
            return 'e'
        if x is sympy.oo:
            return 'oo'
        if x is sympy.nan:
            return 'nan'
        if x.is_Integer:
            return ['int', int(x)]
        if x.is_Rational:
            return ['rat', Fraction(int(x.p), int(x.q))]
        if x.is_Float:
            if float(x) != float(x) or abs(float(x)) == float('inf'):
                raise ValueError('non-finite Float outside the generated fragment')
            return ['flt', Fraction(float(x))]
        if x.is_Matrix:
            return ['other', 'Matrix']
        if x.is_Add or x.is_Mul or isinstance(x, (sympy.And, sympy.Or)):
            tag = 'add' if x.is_Add else 'mul' if x.is_Mul else 'and' if isinstance(x, sympy.And) else 'or'
            args = [self.ser(a) for a in x.args]
            out = args[0]
            for a in args[1:]:
                out = [tag, out, a]
            return out
        if x.is_Pow:
            return ['pow', self.ser(x.args[0]), self.ser(x.args[1])]
        if x.is_Piecewise:
            out = 'undef'
            for e, c in reversed(x.args):
                out = ['ite', self.ser(c), self.ser(e), out]
            return out
        if x.is_Derivative:
            if isinstance(x.args[0], Variable) and len(x.args) == 2 and x.args[1][1] == 1 and \
                    isinstance(x.args[1][0], Variable):
                return ['deriv', self.index[x.args[0]], self.index[x.args[1][0]]]
            return ['other', 'Derivative']
        if x.is_Relational:
            return ['rel', type(x).__name__.replace('Equality', 'Eq').replace('Unequality', 'Ne')
                    .replace('StrictLessThan', 'Lt').replace('LessThan', 'Le').replace('StrictGreaterThan', 'Gt')
                    .replace('GreaterThan', 'Ge'), self.ser(x.args[0]), self.ser(x.args[1])]
        if isinstance(x, sympy.Not):
            return ['not', self.ser(x.args[0])]
        if isinstance(x, sympy.logic.boolalg.BooleanFunction):
            raise ValueError('boolean function %s outside the generated fragment' % type(x).__name__)
        if x.is_Function:
            name = x.func.__name__
            if name == 'Abs':
                return ['abs', self.ser(x.args[0])]
            if name == 'floor':
                return ['floor', self.ser(x.args[0])]
            if name == 'ceiling':
                return ['ceil', self.ser(x.args[0])]
            if len(x.args) == 1:
                return ['fn1', name, self.ser(x.args[0])]
            args = [self.ser(a) for a in x.args]
            out = args[0]
            for a in args[1:]:
                out = ['fnN', name, out, a]
            return out
        return ['other', type(x).__name__]


def vars_sx(ctx):
    out = []
    for v in ctx['vars']:
        out.append([U.unit_sx(v['unit']), 'none' if v['init'] is None else Fraction(v['init'])])
    return ['vars'] + out


# ------------------------------------------------------------------------------------------ physical semantics (oracle)
class Inconsistent(Exception):
    pass


class Unsupported(Exception):
    """the oracle declines to judge (non-real values, irrational exponents of dimensional bases it cannot classify…)"""


class Phys:
    """Independent evaluator over the serialised tree: units by the CellML rules, values in SI."""

    def __init__(self, ctx, sem):
        self.ctx, self.sem = ctx, sem
        self.vsem = [U.sem_of(sem, [tuple(x) for x in v['unit']]) for v in ctx['vars']]

    def usem(self, uexpr):
        return U.sem_of(self.sem, [(s, str(n), str(e)) for s, n, e in uexpr])

    # ---- static: unit of an expression by the CellML rules. returns (scale mpf, dims dict)
    def unit_of(self, a, strict=False):
        one = (mpmath.mpf(1), {})
        if isinstance(a, str):
            if a in ('tt', 'ff'):
                raise Inconsistent('boolean')
            if a == 'undef':
                raise Unsupported('undef')
            return one
        h = a[0]
        if h == 'qty':
            s = self.usem(a[2])
            return (s.scale, dict(s.dims))
        if h == 'cf':
            s = self.usem(a[2])
            return (s.scale, dict(s.dims))
        if h == 'var':
            s = self.vsem[a[1]]
            return (s.scale, dict(s.dims))
        if h in ('int', 'rat', 'flt'):
            return one
        if h == 'add':
            ua, ub = self.unit_of(a[1], strict), self.unit_of(a[2], strict)
            if ua[1] != ub[1] or not U.close(ua[0], ub[0]):
                raise Inconsistent('sum of different units')
            return ua
        if h == 'mul':
            ua, ub = self.unit_of(a[1], strict), self.unit_of(a[2], strict)
            return (ua[0] * ub[0], U.dim_add(ua[1], ub[1]))
        if h == 'pow':
            ub, ux = self.unit_of(a[1], strict), self.unit_of(a[2], strict)
            if ux[1] != {}:
                raise Inconsistent('exponent with dimension')
            if strict and not U.close(ux[0], 1):
                raise Inconsistent('exponent not in dimensionless')
            x = self.const_value(a[2])
            if x is None:
                if ub[1] == {} and U.close(ub[0], 1):
                    return one
                if self.mentions_initialised_var(a[2]):
                    # the code substitutes non-zero initial values for variables in unit arithmetic; the property
                    # quantifies over numeric exponents only, so the oracle does not judge this case
                    raise Unsupported('exponent mentions a variable with an initial value')
                raise Inconsistent('non-numeric exponent')
            q = fr(x).limit_denominator(64)
            if abs(mpmath.mpf(q.numerator) / q.denominator - x) > mpmath.mpf(10) ** -20 and ub[1] != {}:
                raise Unsupported('irrational exponent of a dimensional base')
            return (mpmath.power(ub[0], x), {k: v * q for k, v in ub[1].items() if v * q != 0})
        if h in ('abs', 'floor', 'ceil'):
            return self.unit_of(a[1], strict)
        if h == 'fn1':
            u = self.unit_of(a[2], strict)
            if u[1] != {}:
                raise Inconsistent('function of dimensional argument')
            if strict and not U.close(u[0], 1):
                raise Inconsistent('function argument not in dimensionless')
            return one
        if h == 'fnN':
            raise Inconsistent('unsupported function')
        if h == 'ite':
            if strict:
                self.cond_ok(a[1])
            ut = self.unit_of(a[2], strict)
            if a[3] == 'undef':
                return ut
            ue = self.unit_of(a[3], strict)
            if ut[1] != ue[1] or not U.close(ut[0], ue[0]):
                raise Inconsistent('pieces of different units')
            return ut
        if h == 'deriv':
            uv, ut = self.vsem[a[1]], self.vsem[a[2]]
            return (uv.scale / ut.scale, U.dim_add(uv.dims, ut.dims, -1))
        if h in ('rel', 'and', 'or', 'not'):
            raise Inconsistent('boolean')
        raise Inconsistent('unsupported ' + str(h))

    def cond_ok(self, c):
        if isinstance(c, str):
            return
        if c[0] == 'rel':
            ua, ub = self.unit_of(c[2], True), self.unit_of(c[3], True)
            if ua[1] != ub[1] or not U.close(ua[0], ub[0]):
                raise Inconsistent('comparison of different units')
        elif c[0] in ('and', 'or'):
            self.cond_ok(c[1])
            self.cond_ok(c[2])
        elif c[0] == 'not':
            self.cond_ok(c[1])

    def mentions_initialised_var(self, a):
        if isinstance(a, list):
            if a[0] == 'var':
                init = self.ctx['vars'][a[1]]['init']
                return init is not None and Fraction(init) != 0
            return any(self.mentions_initialised_var(x) for x in a[1:])
        return False

    def const_value(self, a):
        """numeric value of a closed subtree, or None if it mentions variables"""
        try:
            return self.plain(a, None)
        except KeyError:
            return None
        except (ZeroDivisionError, OverflowError):
            raise Unsupported('exponent not evaluable')

    # ---- plain numeric evaluation (what generated code computes): quantities are their numbers
    def plain(self, a, rho):
        mp = mpmath
        if isinstance(a, str):
            if a == 'pi':
                return mp.pi + 0
            if a == 'e':
                return mp.e + 0
            if a == 'tt':
                return True
            if a == 'ff':
                return False
            raise Unsupported(a)
        h = a[0]
        if h == 'qty':
            return mp.mpf(Fraction(a[1]).numerator) / Fraction(a[1]).denominator
        if h == 'cf':
            return U.scale_value(['scale'] + a[1])
        if h == 'var':
            if rho is None:
                raise KeyError('var')
            return rho[a[1]]
        if h == 'int':
            return mp.mpf(int(a[1]))
        if h in ('rat', 'flt'):
            q = Fraction(a[1])
            return mp.mpf(q.numerator) / q.denominator
        if h == 'add':
            return self.plain(a[1], rho) + self.plain(a[2], rho)
        if h == 'mul':
            return self.plain(a[1], rho) * self.plain(a[2], rho)
        if h == 'pow':
            b, x = self.plain(a[1], rho), self.plain(a[2], rho)
            if b == 0 and x < 0:
                raise ZeroDivisionError
            if b < 0 and x != mp.floor(x):
                raise Unsupported('complex')
            return mp.power(b, x)
        if h == 'abs':
            return abs(self.plain(a[1], rho))
        if h in ('floor', 'ceil'):
            x = self.plain(a[1], rho)
            if abs(x - mp.nint(x)) < 1e-6 * max(1, abs(x)):
                raise Unsupported('near discontinuity')
            return mp.floor(x) if h == 'floor' else mp.ceil(x)
        if h == 'fn1':
            v = self.plain(a[2], rho)
            f = {'exp': mp.exp, 'log': mp.log, 'sin': mp.sin, 'cos': mp.cos, 'tan': mp.tan, 'tanh': mp.tanh,
                 'sinh': mp.sinh, 'cosh': mp.cosh, 'acos': mp.acos, 'asin': mp.asin, 'atan': mp.atan,
                 'sqrt': mp.sqrt}.get(a[1])
            if f is None:
                raise Unsupported(a[1])
            if a[1] == 'log' and v <= 0 or a[1] in ('acos', 'asin') and abs(v) > 1:
                raise Unsupported('domain')
            if a[1] in ('exp', 'sinh', 'cosh') and abs(v) > 500:
                raise Unsupported('range')
            if a[1] in ('sin', 'cos', 'tan') and abs(v) > 1e4:
                raise Unsupported('ill-conditioned: trigonometric function of a huge argument')
            if a[1] in ('exp', 'sinh', 'cosh', 'tanh') and abs(v) > 30:
                raise Unsupported('ill-conditioned: exponential of a large argument amplifies float noise')
            return f(v)
        if h == 'fnN':
            x, y = self.plain(a[2], rho), self.plain(a[3], rho)
            if a[1] == 'Max':
                return max(x, y)
            if a[1] == 'Min':
                return min(x, y)
            raise Unsupported(a[1])
        if h == 'ite':
            if self.plain(a[1], rho):
                return self.plain(a[2], rho)
            if a[3] == 'undef':
                raise Unsupported('no piece applies')
            return self.plain(a[3], rho)
        if h == 'rel':
            x, y = self.plain(a[2], rho), self.plain(a[3], rho)
            if abs(x - y) <= 1e-6 * max(abs(x), abs(y), 1):
                raise Unsupported('near discontinuity')
            return {'Lt': x < y, 'Le': x <= y, 'Gt': x > y, 'Ge': x >= y, 'Eq': x == y, 'Ne': x != y}[a[1]]
        if h == 'and':
            return self.plain(a[1], rho) and self.plain(a[2], rho)
        if h == 'or':
            return self.plain(a[1], rho) or self.plain(a[2], rho)
        if h == 'not':
            return not self.plain(a[1], rho)
        if h == 'deriv':
            if rho is None:
                raise KeyError('deriv')
            return rho[('d', a[1], a[2])]
        raise Unsupported(str(h))

    # ---- physical evaluation: (SI value, dims); floor/ceil act in the natural unit of their argument
    def phys(self, a, rho):
        mp = mpmath
        if isinstance(a, str):
            v = self.plain(a, rho)
            return (v, {})
        h = a[0]
        if h in ('qty', 'cf'):
            s = self.usem(a[2])
            return (self.plain(a, rho) * s.scale, dict(s.dims))
        if h == 'var':
            s = self.vsem[a[1]]
            return (rho[a[1]] * s.scale, dict(s.dims))
        if h in ('int', 'rat', 'flt'):
            return (self.plain(a, rho), {})
        if h == 'add':
            (x, dx), (y, dy) = self.phys(a[1], rho), self.phys(a[2], rho)
            if dx != dy:
                raise Inconsistent('sum of different dimensions')
            return (x + y, dx)
        if h == 'mul':
            (x, dx), (y, dy) = self.phys(a[1], rho), self.phys(a[2], rho)
            return (x * y, U.dim_add(dx, dy))
        if h == 'pow':
            (b, db), (x, dx) = self.phys(a[1], rho), self.phys(a[2], rho)
            if dx != {}:
                raise Inconsistent('exponent with dimension')
            if db != {} and self.const_value(a[2]) is None:
                raise Inconsistent('non-numeric exponent of a dimensional base')
            if b == 0 and x < 0:
                raise ZeroDivisionError
            if b < 0 and x != mp.floor(x):
                raise Unsupported('complex')
            q = fr(x).limit_denominator(1024) if db != {} else 0
            return (mp.power(b, x), {k: v * q for k, v in db.items() if v * q != 0})
        if h == 'abs':
            x, d = self.phys(a[1], rho)
            return (abs(x), d)
        if h in ('floor', 'ceil'):
            x, d = self.phys(a[1], rho)
            nat = self.natural_scale(a[1])
            f = mp.floor if h == 'floor' else mp.ceil
            r = x / nat
            if abs(r - mp.nint(r)) < 1e-6:
                raise Unsupported('near discontinuity')
            return (f(r) * nat, d)
        if h == 'fn1':
            x, d = self.phys(a[2], rho)
            if d != {}:
                raise Inconsistent('function of dimensional argument')
            return (self.plain(['fn1', a[1], ['flt', fr(x)]], None), {})
        if h == 'fnN':
            (x, dx), (y, dy) = self.phys(a[2], rho), self.phys(a[3], rho)
            if dx != {} or dy != {}:
                raise Inconsistent('function of dimensional argument')
            return (self.plain(['fnN', a[1], ['flt', fr(x)], ['flt', fr(y)]], None), {})
        if h == 'ite':
            c = self.physb(a[1], rho)
            xt, dt = self.phys(a[2], rho)
            if a[3] == 'undef':
                if not c:
                    raise Unsupported('no piece applies')
                return (xt, dt)
            xe, de = self.phys(a[3], rho)
            if dt != de:
                raise Inconsistent('pieces of different dimensions')
            return (xt if c else xe, dt)
        if h == 'deriv':
            uv, ut = self.vsem[a[1]], self.vsem[a[2]]
            return (rho[('d', a[1], a[2])] * uv.scale / ut.scale, U.dim_add(uv.dims, ut.dims, -1))
        raise Inconsistent('not a value: ' + str(h))

    def physb(self, c, rho):
        if isinstance(c, str):
            return {'tt': True, 'ff': False}[c]
        if c[0] == 'rel':
            (x, dx), (y, dy) = self.phys(c[2], rho), self.phys(c[3], rho)
            if dx != dy:
                raise Inconsistent('comparison of different dimensions')
            if abs(x - y) <= 1e-6 * max(abs(x), abs(y), mpmath.mpf(10) ** -30):
                raise Unsupported('near discontinuity')
            return {'Lt': x < y, 'Le': x <= y, 'Gt': x > y, 'Ge': x >= y, 'Eq': x == y, 'Ne': x != y}[c[1]]
        if c[0] == 'and':
            return self.physb(c[1], rho) and self.physb(c[2], rho)
        if c[0] == 'or':
            return self.physb(c[1], rho) or self.physb(c[2], rho)
        if c[0] == 'not':
            return not self.physb(c[1], rho)
        raise Inconsistent('not a condition')

    def natural_scale(self, a):
        """scale of the unit an expression is written in: first operand of a sum / first piece, product of factors"""
        if isinstance(a, str):
            return mpmath.mpf(1)
        h = a[0]
        if h in ('qty', 'cf'):
            return self.usem(a[2]).scale
        if h == 'var':
            return self.vsem[a[1]].scale
        if h == 'add':
            return self.natural_scale(a[1])
        if h == 'mul':
            return self.natural_scale(a[1]) * self.natural_scale(a[2])
        if h == 'pow':
            x = self.const_value(a[2])
            return mpmath.power(self.natural_scale(a[1]), x) if x is not None else mpmath.mpf(1)
        if h in ('abs', 'floor', 'ceil'):
            return self.natural_scale(a[1])
        if h == 'ite':
            return self.natural_scale(a[2])
        if h == 'deriv':
            return self.vsem[a[1]].scale / self.vsem[a[2]].scale
        return mpmath.mpf(1)


def fr(x):
    return Fraction(mpmath.nstr(mpmath.mpf(x), 35, strip_zeros=False))


def to_json(a):
    """serialised tree -> JSON-able (Fractions as strings)"""
    if isinstance(a, Fraction):
        return str(a)
    if isinstance(a, list):
        return [to_json(x) for x in a]
    return a if not isinstance(a, Str) else str(a)


def sample_env(rng, ctx, k):
    envs = []
    for _ in range(k):
        rho = {}
        for i, v in enumerate(ctx['vars']):
            rho[i] = mpmath.mpf(rng.choice([1, 2, 3, 5, 7, 11, 13, 17])) / rng.choice([2, 3, 4, 5, 8, 16]) * rng.choice([1, 1, 1, -1])
        for i in range(len(ctx['vars'])):
            for j in range(len(ctx['vars'])):
                rho[('d', i, j)] = mpmath.mpf(rng.choice([1, 3, 5, 7, -2])) / rng.choice([2, 4, 8])
        envs.append(rho)
    return envs
