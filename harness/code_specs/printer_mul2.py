"""Code-translator spec: cellmlmanip/printer.py, the WHOLE of `_print_Mul` (sign extraction, classification loop, string
assembly) with open recursion (`self._print` is the parameter `print`), plus `_print_Derivative`, `_print_bool`,
`_print_int`. Conventions as in printer.py of this directory. The classification loop is the same source text that the
group PrinterMul translates as a step function (`for_body`); Tie/PrinterMul2.lean shows that the loop inlined here is
the fold of that step."""
from .printer import COMMON, SIG1
from .printer_mul import GROUP as _MUL

_LOOP = _MUL['functions'][0]

GROUP = {
    'name': 'PrinterMul2',
    'imports': ['Cellml.Tie.Printer2View', 'Cellml.Generated.Code.Printer'],
    'header': 'open Cellml.Tie.PPrinter Cellml.Tie.PPrinter2\nopen C11 Cellml.Gen.Printer',
    'patterns': COMMON,
    'functions': [
        {'file': 'cellmlmanip/printer.py', 'func': 'Printer._print_Mul', 'lean_name': 'printMul', 'signature': SIG1,
         'fn_class': 'printer2:PrinterFn',
         'mutable_params': ['expr'],
         # lists that python mutates in place (`append`, item assignment: statement patterns below)
         'mutable': ['a', 'b', 'pow_brackets', 'b_str'],
         # `a_str` and `b_str` are lists of strings first, strings later
         'retyped_names': ['a_str'],
         'retype': {'b_str': 'b_str_joined'},
         'var_types': {'pow_brackets': 'List E'},
         'patterns': _LOOP['patterns'] + [
             # SymPy leaves of the sign extraction (models in Tie/Printer2View.lean)
             ('__A.as_coeff_Mul()', '(asCoeffMul {A})'),
             ('_keep_coeff(-__A, __B)', '(keepCoeff (negNum {A}) {B})'),
             ('sympy.Mul.make_args(__A)', '(makeArgs {A})'),
             # a SymPy number compared with the python int 0 (same leaf as `.is_negative` of a number)
             ('c < 0', '(isNegNum c)'),
             ('sympy.S.One', '(E.int 1)'),
             ('[]', '([] : List E)'),                          # typing artefact: the lists hold SymPy objects
             # python list primitives (IndexError / ValueError as python raises them)
             ('b.index(__A)', '(← listIndex b {A})'),
             ('b_str[__A]', '(← listGet b_str {A})'),
             ('b[0]', '(← listGet b 0)'),
         ],
         'stmt_patterns': _LOOP['stmt_patterns'] + [
             ('b_str[__I] = __V', 'b_str ← listSet b_str {I} {V}'),
         ]},
        {'file': 'cellmlmanip/printer.py', 'func': 'Printer._print_Derivative', 'lean_name': 'printDerivative',
         'signature': SIG1,
         # the default `derivative_function = str`: SymPy's text of a Derivative
         'patterns': [('self._derivative_function(__A)', '(derivativeFunction {A})')]},
        # python `bool` / `int` objects (not SymPy trees): only reachable when `doprint` is called on one
        {'file': 'cellmlmanip/printer.py', 'func': 'Printer._print_bool', 'lean_name': 'printBool',
         'signature': '(print : E → Except PyErr String) (expr : Bool) : Except PyErr String',
         'patterns': [('self._print_BooleanTrue(__A)', '← printBooleanTrue print (boolE {A})'),
                      ('self._print_BooleanFalse(__A)', '← printBooleanFalse print (boolE {A})')]},
        {'file': 'cellmlmanip/printer.py', 'func': 'Printer._print_int', 'lean_name': 'printInt',
         'signature': '(print : E → Except PyErr String) (expr : Int) : Except PyErr String'},
    ]}
