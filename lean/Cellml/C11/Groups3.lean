import Cellml.C11.Groups2

/-! C11 — `print_groups`, part 3: `_print_Mul`. -/
namespace C11
set_option linter.unusedSimpArgs false

/-- a printed factor, with what the partition needs to know about it -/
def Good1 (i : Item1) : Prop :=
  wf .A i.e = true ∧ isList i.e = false ∧ PyOK i.doc = true ∧ LvA i.e i.doc ∧
    (∀ b x, i.e = .pow b x → PyOK i.base = true ∧ LvA b i.base)

/-- an operand of the numerator or denominator -/
def GoodD (i : Item1) : Prop := PyOK i.doc = true ∧ LvA i.e i.doc

/-- a bracketed operand of a product -/
def P50 (d : Doc) : Prop := PyOK d = true ∧ 50 ≤ level d

theorem num1_good (e : E) (h : wf .A e = true) (hn : isNum e = true) : GoodD (num1 e) := numDoc_ok e h hn

theorem wf_negNum (x : E) (h : wf .A x = true) (hn : isNegRat x = true) :
    wf .A (negNum x) = true ∧ isNum (negNum x) = true := by
  cases x <;> simp [isNegRat] at hn <;> simp_all [wf, negNum, isNum]

theorem classify_good (i : Item1) (hi : Good1 i) :
    (∀ j ∈ (classify i).1, GoodD j) ∧ (∀ j ∈ (classify i).2.1, GoodD j) ∧
      (∀ m ∈ (classify i).2.2, ∃ j ∈ (classify i).2.1, j.e = m) := by
  obtain ⟨hw, hl, hp, hlv, hbase⟩ := hi
  have self : GoodD i := ⟨hp, hlv⟩
  unfold classify
  split
  next b x he =>
    have hb := hbase b x he
    rw [he] at hw
    simp only [wf, Bool.and_eq_true] at hw
    split
    next hneg =>
      simp only [Bool.and_eq_true] at hneg
      split
      · refine ⟨by simp, ?_, ?_⟩
        · intro j hj; simp at hj; subst hj; exact hb
        · intro m hm
          split at hm
          · simp at hm; exact ⟨⟨b, i.base, .nil⟩, by simp, hm.symm⟩
          · simp at hm
      · have hwn := wf_negNum x hw.2 hneg.2
        have hnum := numDoc_ok _ hwn.1 hwn.2
        refine ⟨by simp, ?_, by simp⟩
        intro j hj; simp at hj; subst hj
        exact powDoc_ok b (negNum x) i.base _ hb.1 hb.2 hnum.1 hnum.2
    next => exact ⟨by intro j hj; simp at hj; subst hj; exact self, by simp, by simp⟩
  next n he =>
    refine ⟨?_, by simp, by simp⟩
    intro j hj
    split at hj
    · simp at hj
    · simp at hj; subst hj; exact num1_good _ (by simp [wf]) rfl
  next p q he =>
    rw [he] at hw
    refine ⟨?_, ?_, by simp⟩
    · intro j hj
      split at hj
      · simp at hj
      · simp at hj; subst hj; exact num1_good _ (by simp [wf]) rfl
    · intro j hj; simp at hj; subst hj; exact num1_good _ (by simp [wf]) rfl
  next => exact ⟨by intro j hj; simp at hj; subst hj; exact self, by simp, by simp⟩

theorem partition_good (fs : List Item1) (h : ∀ f ∈ fs, Good1 f) :
    (∀ j ∈ (partition fs).1, GoodD j) ∧ (∀ j ∈ (partition fs).2.1, GoodD j) ∧
      (∀ m ∈ (partition fs).2.2, ∃ j ∈ (partition fs).2.1, j.e = m) := by
  induction fs with
  | nil => simp [partition]
  | cons f fs ih =>
      have hc := classify_good f (h f (by simp))
      have ht := ih (fun g hg => h g (by simp [hg]))
      simp only [partition]
      refine ⟨?_, ?_, ?_⟩
      · intro j hj; simp only [List.mem_append] at hj
        rcases hj with hj | hj
        · exact hc.1 j hj
        · exact ht.1 j hj
      · intro j hj; simp only [List.mem_append] at hj
        rcases hj with hj | hj
        · exact hc.2.1 j hj
        · exact ht.2.1 j hj
      · intro m hm; simp only [List.mem_append] at hm
        rcases hm with hm | hm
        · obtain ⟨j, hj, e⟩ := hc.2.2 m hm; exact ⟨j, by simp [hj], e⟩
        · obtain ⟨j, hj, e⟩ := ht.2.2 m hm; exact ⟨j, by simp [hj], e⟩

theorem bracket50 (j : Item1) (h : GoodD j) : P50 (bracket j.e j.doc 50) := by
  have := bracketA_ok j.e j.doc 50 h.1 h.2; exact ⟨this.1, this.2.2.1 rfl⟩

theorem wrapFirst_P50 (m : E) (is : List Item1) : ∀ ds : List Doc, (∀ d ∈ ds, P50 d) →
    (∀ d ∈ wrapFirst m is ds, P50 d) ∧ (wrapFirst m is ds).length = ds.length := by
  induction is with
  | nil =>
      intro ds h
      have : wrapFirst m [] ds = ds := by cases ds <;> rfl
      rw [this]; exact ⟨h, rfl⟩
  | cons i is ih =>
      intro ds h
      cases ds with
      | nil => simp [wrapFirst]
      | cons d ds =>
          simp only [wrapFirst]
          have hd := h d (by simp)
          split
          · refine ⟨?_, by simp⟩
            intro x hx; simp only [List.mem_cons] at hx
            rcases hx with rfl | hx
            · exact ⟨by simp [hd.1]; have := hd.2; omega, by simp⟩
            · exact h x (by simp [hx])
          · have := ih ds (fun x hx => h x (by simp [hx]))
            refine ⟨?_, by simp [this.2]⟩
            intro x hx; simp only [List.mem_cons] at hx
            rcases hx with rfl | hx
            · exact hd
            · exact this.1 x hx

theorem foldl_wrapFirst_P50 (b : List Item1) (marks : List E) : ∀ ds : List Doc, (∀ d ∈ ds, P50 d) →
    (∀ d ∈ marks.foldl (fun acc m => wrapFirst m b acc) ds, P50 d) ∧
      (marks.foldl (fun acc m => wrapFirst m b acc) ds).length = ds.length := by
  induction marks with
  | nil => intro ds h; exact ⟨h, rfl⟩
  | cons m ms ih =>
      intro ds h
      simp only [List.foldl_cons]
      have h1 := wrapFirst_P50 m b ds h
      have h2 := ih _ h1.1
      exact ⟨h2.1, by rw [h2.2, h1.2]⟩

/-- with one denominator every `pow_brackets` entry wraps that denominator -/
theorem foldl_wrapFirst_single (j : Item1) (marks : List E) (hm : ∀ m ∈ marks, j.e = m) :
    ∀ d, P50 d → (marks = [] ∨ level d = 100 ∨ True) →
      ∃ d', marks.foldl (fun acc m => wrapFirst m [j] acc) [d] = [d'] ∧ PyOK d' = true ∧
        (marks ≠ [] → level d' = 100) := by
  induction marks with
  | nil => intro d hd _; exact ⟨d, rfl, hd.1, fun h => absurd rfl h⟩
  | cons m ms ih =>
      intro d hd _
      have he : (j.e == m) = true := by simp [hm m (by simp)]
      simp only [List.foldl_cons, wrapFirst, he, if_true]
      have hp : P50 (.paren d) := ⟨by simp [hd.1]; have := hd.2; omega, by simp⟩
      obtain ⟨d', h1, h2, h3⟩ := ih (fun x hx => hm x (by simp [hx])) (.paren d) hp (Or.inr (Or.inr trivial))
      refine ⟨d', h1, h2, fun _ => ?_⟩
      cases ms with
      | nil => simp at h1; rw [← h1]; simp
      | cons _ _ => exact h3 (by simp)

/-- every printed denominator is a product operand; a single one is tight enough to stand after `/` -/
theorem denStrs_ok (b : List Item1) (marks : List E) (hb : ∀ j ∈ b, GoodD j)
    (hm : ∀ m ∈ marks, ∃ j ∈ b, j.e = m) :
    (∀ d ∈ denStrs b marks, P50 d) ∧ (denStrs b marks).length = b.length ∧
      (∀ d, denStrs b marks = [d] → 55 ≤ level d) := by
  have hall : ∀ d ∈ b.map (fun i => bracket i.e i.doc 50), P50 d := by
    intro d hd; simp only [List.mem_map] at hd
    obtain ⟨j, hj, rfl⟩ := hd; exact bracket50 j (hb j hj)
  unfold denStrs
  split
  next d =>
    have hd := hb d (by simp)
    have := bracketA_ok d.e d.doc 60 hd.1 hd.2
    refine ⟨?_, by simp, ?_⟩
    · intro x hx; simp at hx; subst hx; exact ⟨this.1, by have := this.2.2.2.1 rfl; omega⟩
    · intro x hx; simp at hx; subst hx; exact this.2.2.2.1 rfl
  next hne =>
    have hf := foldl_wrapFirst_P50 b marks _ hall
    refine ⟨hf.1, by rw [hf.2]; simp, ?_⟩
    intro d hd
    have hlen : b.length = 1 := by have := hf.2; rw [hd] at this; simp at this; exact this.symm
    cases b with
    | nil => simp at hlen
    | cons j t =>
      cases t with
      | cons _ _ => simp at hlen
      | nil =>
        have hmj : ∀ m ∈ marks, j.e = m := by
          intro m hmm; obtain ⟨j', hj', e⟩ := hm m hmm; simp at hj'; subst hj'; exact e
        have hmne : marks ≠ [] := by intro h; exact hne j rfl h
        simp only [List.map_cons, List.map_nil] at hd
        obtain ⟨d', h1, _, h3⟩ := foldl_wrapFirst_single j marks hmj _ (bracket50 j (hb j (by simp)))
          (Or.inr (Or.inr trivial))
        rw [h1] at hd; simp at hd; subst hd
        rw [h3 hmne]; omega

theorem assemble_ok (num : Doc) (hn : P50 num) (ds : List Doc) (hd : ∀ d ∈ ds, P50 d)
    (h1 : ∀ d, ds = [d] → 55 ≤ level d) : P50 (assemble num ds) := by
  unfold assemble
  split
  · exact hn
  next d =>
    have := hd d (by simp)
    exact ⟨by simp [hn.1, this.1, hn.2, h1 d rfl], by simp⟩
  next =>
    have := prodChain_ok ds hd
    exact ⟨by simp [hn.1, this.1, hn.2]; omega, by simp⟩

theorem mulDoc_ok (sign : Bool) (fs : List Item1) (h : ∀ f ∈ fs, Good1 f) : P50 (mulDoc sign fs) := by
  have hp := partition_good fs h
  unfold mulDoc
  generalize partition fs = pt at hp
  obtain ⟨a, b, marks⟩ := pt
  simp only at hp ⊢
  have ha : ∀ d ∈ (if a.isEmpty = true then [num1 (.int 1)] else a).map (fun i => bracket i.e i.doc 50), P50 d := by
    intro d hd; simp only [List.mem_map] at hd
    obtain ⟨j, hj, rfl⟩ := hd
    apply bracket50
    split at hj
    · simp at hj; subst hj; exact num1_good _ (by simp [wf]) rfl
    · exact hp.1 j hj
  have hchain := prodChain_ok _ ha
  have hnum : P50 (if sign = true then negFirst (prodChain ((if a.isEmpty = true then [num1 (.int 1)] else a).map
      (fun i => bracket i.e i.doc 50))) else prodChain ((if a.isEmpty = true then [num1 (.int 1)] else a).map
      (fun i => bracket i.e i.doc 50))) := by
    split
    · exact negFirst_ok _ hchain.1 hchain.2
    · exact hchain
  have hden := denStrs_ok b marks hp.2.1 hp.2.2
  exact assemble_ok _ hnum _ hden.1 hden.2.2

end C11
