"""Code-translator spec (see harness/translate_code.py and harness/code_specs/__init__.py).

Parser._add_components (duplicate component names, the variables of each component, the refusal of <reaction>)
= Load.checkComps + Load.varTable + the reaction stage of C17.loadFull. Tie: lean/Cellml/Tie/LoaderComps.lean.
`self._add_variables(element)` is bound to the GENERATED Parser._add_variables (group AddVars, re-keyed by
Cellml.Tie.PAddVars.genAddVariables; Tie/AddVars.lean: genAddVariables_leaf proves it equal to the former hand-written
leaf Cellml.Tie.addVariables = Load.checkVars / Load.entry)."""

GROUP = {'name': 'LoaderComps',
 'imports': ['Cellml.Tie.LoaderView', 'Cellml.Tie.AddVarsLeaf'],
 'header': 'open Load',
 'functions': [{'file': 'cellmlmanip/parser.py',
                'func': 'Parser._add_components',
                'lean_name': 'addComponents',
                # the parser / model state written here (self.components, the model's variables) is threaded as `st`
                'params': ['self', 'model', 'st'],
                'state': ['st'],
                'mutable': ['component_variables'],
                'signature': '(self : CompsView) (model : CompsElem) (st : CompsState) : '
                             'Except PyErr (List (CompElem × List (VRef × VRef)) × CompsState)',
                'patterns': [('__A.findall(with_ns(XmlNs.CELLML, \'component\'))', '({A}).components'),
                             ('__A.findall(with_ns(XmlNs.CELLML, \'reaction\'))', '({A}).reactions'),
                             ('__A.get(\'name\')', '({A}).comp.name'),
                             ('self.components', 'st.components'),
                             ('[]', '([] : List (CompElem × List (VRef × VRef)))')],
                'stmt_patterns': [('self.components[__A] = _Component(__A)', 'st := newComponent st {A}'),
                                  ('variable_to_symbol = self._add_variables(__A)',
                                   'let (variable_to_symbol, st__) ← Cellml.Tie.PAddVars.genAddVariables self st {A}\nst := st__'),
                                  ('component_variables.append(__A)',
                                   'component_variables := component_variables ++ [{A}]'),
                                  ('return component_variables', 'return (component_variables, st)')]}]}
