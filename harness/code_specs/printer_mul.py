"""Code-translator spec: cellmlmanip/printer.py, the classification loop of `_print_Mul` (`for item in
sympy.Mul.make_args(expr):`), as a step function over the lists `a` (numerator), `b` (denominator), `pow_brackets`."""
from .printer import COMMON

GROUP = {
    'name': 'PrinterMul',
    'imports': ['Cellml.Tie.PrinterView'],
    'header': 'open Cellml.Tie.PPrinter\nopen C11',
    'patterns': COMMON,
    'functions': [
        {'file': 'cellmlmanip/printer.py', 'func': 'Printer._print_Mul', 'lean_name': 'mulClassify',
         'for_body': 0,
         'loop_state': ['a', 'b', 'pow_brackets'],
         'params': ['self', 'item', 'a', 'b', 'pow_brackets'],
         'signature': '(item : E) (a b pow_brackets : List E) : Except PyErr (List E × List E × List E)',
         'patterns': [('__A.is_Rational', '(isRational {A})'),
                      ('__A.is_negative', '(isNegNum {A})'),
                      ('__A.is_Pow', '(isPow {A})'),
                      ('__A != -1', '({A} != E.int (-1))'),          # a SymPy number compared with a python int
                      # SymPy's negation of a number: C11.negNum; an evaluated Pow(b, 1) is b: powEval
                      ('sympy.Pow(__A, -__B, evaluate=False)', '(E.pow {A} (negNum {B}))'),
                      ('sympy.Pow(__A, -__B)', '(powEval {A} (negNum {B}))'),
                      ('__A.args[0]', '(arg0 {A})'),
                      ('isinstance(__A, sympy.Mul)', '(isMul {A})'),
                      ('sympy.Rational(__A.p)', '(E.int (pOf {A}))'),
                      ('sympy.Rational(__A.q)', '(E.int ((qOf {A} : Nat) : Int))')],
         'stmt_patterns': [('a.append(__A)', 'a := a ++ [{A}]'),
                           ('b.append(__A)', 'b := b ++ [{A}]'),
                           ('pow_brackets.append(__A)', 'pow_brackets := pow_brackets ++ [{A}]')]},
    ]}
