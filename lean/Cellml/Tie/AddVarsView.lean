import Cellml.Tie.LoaderView

/-! # What `Parser._add_variables` / `Parser._get_variable_name` (parser.py) see: lxml elements, the dict `attributes`,
    the unit store, `Model.add_variable`. Core Lean only.

    Every definition here is a LEAF of the translated functions (an lxml call, a dict primitive, a constant of the
    module, a method of another class); the control flow, the keys, the namespaces and the order of the statements come
    from the source text (harness/code_specs/addvars.py). -/

namespace Cellml.Tie.PAddVars
open Load Cellml.Tie

/-- `class XmlNs(Enum)` of parser.py (module constants; `with_ns` reads `.value`) -/
structure XmlNsT where
  CELLML : String
  CMETA : String
  MATHML : String
  RDF : String

def XmlNs : XmlNsT :=
  ⟨"http://www.cellml.org/cellml/1.0#", "http://www.cellml.org/metadata/1.0#",
   "http://www.w3.org/1998/Math/MathML", "http://www.w3.org/1999/02/22-rdf-syntax-ns#"⟩

/-- `with_ns(ns_enum, name)` = `'{%s}%s' % (ns_enum.value, name)` (module function of parser.py) -/
def withNs (ns name : String) : String := "{" ++ ns ++ "}" ++ name

/-- `SYMPY_SYMBOL_DELIMITER` (`'$'`), as the marker that turns a component name into the prefix of a flat name -/
structure Delim where
deriving DecidableEq

def SYMPY_SYMBOL_DELIMITER : Delim := ⟨⟩

/-- `component_name + SYMPY_SYMBOL_DELIMITER`: the prefix `component$`; with `LoaderView`'s
    `HAdd CompPrefix String VRef` the flat name `component$variable` is the pair the models write (`Load.VRef`) -/
instance : HAdd String Delim CompPrefix := ⟨fun c _ => ⟨c⟩⟩

/-- a value in the dict `attributes`: the text of an XML attribute; the text of `initial_value` as `float()` reads it
    (`none`: not a float literal); a mangled (flat) variable name; a `Unit` object (name and pint container) -/
inductive AttrVal where
  | str (s : String)
  | floatText (v : Option Rat)
  | ref (r : VRef)
  | unit (name : String) (c : Container)
deriving DecidableEq

abbrev Attrs := List (String × AttrVal)

/-- `prefix + text` where the text comes out of the dict (`attributes['name']`, always a `str` when read from
    `element.attrib`; python raises TypeError for anything else — not reachable, the value is left as it is) -/
instance : HAdd CompPrefix AttrVal AttrVal := ⟨fun p a => match a with | .str x => .ref (p.comp, x) | other => other⟩

/-- a `<variable>` element: what `Load.VarDecl` holds; `badInit`: its `initial_value` attribute is present and is not
    a float literal (`VarDecl.init` is then meaningless) -/
structure VarElem where
  decl : VarDecl
  badInit : Bool := false

/-- the `<component>` element as `_add_variables` reads it -/
structure CompElemV where
  name : String
  vars : List VarElem

/-- the `<component>` element of `_add_components` (`Tie.CompElem`), whose variables all have a readable
    `initial_value` -/
def ofCompElem (e : CompElem) : CompElemV := ⟨e.comp.name, e.comp.vars.map (fun d => ⟨d, false⟩)⟩

/-- `component_element.findall(tag)`: the `<variable>` children in document order (only this tag is asked for) -/
def findall (e : CompElemV) (tag : String) : List VarElem :=
  if tag == withNs XmlNs.CELLML "variable" then e.vars else []

/-- `dict(variable_element.attrib)`: `name` and `units` are mandatory; an interface attribute that is absent reads like
    `"none"` (the default of `add_variable`), so it is always listed; `initial_value` and `cmeta:id` when present -/
def attribOf (v : VarElem) : Attrs :=
  [("name", .str v.decl.name), ("units", .str v.decl.units),
   ("public_interface", .str (ifaceStr v.decl.pub)), ("private_interface", .str (ifaceStr v.decl.priv))] ++
  (if v.badInit then [("initial_value", .floatText none)]
   else match v.decl.init with
     | some r => [("initial_value", .floatText (some r))]
     | none => []) ++
  (match v.decl.cmeta with
   | some id => [(withNs XmlNs.CMETA "id", .str id)]
   | none => [])

/-- `d[k]` (KeyError when absent) -/
def dictGetItem (d : Attrs) (k : String) : Except PyErr AttrVal :=
  match d.lookup k with
  | some v => .ok v
  | none => .error ⟨"KeyError"⟩

/-- the dict without the key `k` -/
def dictErase (k : String) : Attrs → Attrs
  | [] => []
  | (a, v) :: r => if a = k then dictErase k r else (a, v) :: dictErase k r

/-- `d.pop(k)`: the value and the dict without the key (KeyError when absent) -/
def dictPop (d : Attrs) (k : String) : Except PyErr (AttrVal × Attrs) :=
  match d.lookup k with
  | some v => .ok (v, dictErase k d)
  | none => .error ⟨"KeyError"⟩

/-- `self.model.units.get_unit(name)`: the `Unit` object; KeyError for a name the store does not know
    (`Units.getUnit`) -/
def unitsGetUnit (self : CompsView) (a : AttrVal) : Except PyErr AttrVal :=
  match a with
  | .str n => match Units.getUnit self.ust n with
    | .ok c => .ok (.unit n c)
    | .error _ => .error ⟨"KeyError"⟩
  | _ => .error ⟨"TypeError"⟩

/-- the python spelling of an interface value, read back -/
def ifaceOfStr (s : String) : Iface := if s == "in" then .inn else if s == "out" then .out else .none

@[simp] theorem ifaceOfStr_ifaceStr (i : Iface) : ifaceOfStr (ifaceStr i) = i := by cases i <;> decide

/-- the keyword parameters of `Model.add_variable` -/
def kwargNames : List String :=
  ["name", "units", "initial_value", "public_interface", "private_interface", "cmeta_id"]

def ifaceArg (attrs : Attrs) (k : String) : Iface :=
  match attrs.lookup k with
  | some (.str s) => ifaceOfStr s
  | _ => .none

/-- `self.model.add_variable(**attributes)` on the HAND MODEL's state (`Tie.CompsState`: the names and cmeta ids the
    Model knows = `Load.checkVars`' accumulator, and the variable table): an unexpected keyword or a missing `name` /
    `units` is a TypeError (python's calling convention); then, in the order of model.py: name clash (ValueError),
    cmeta clash (ValueError), `Variable(...)` whose `float(initial_value)` raises ValueError, the registrations.
    Returns the Variable (its flat identity). `name` must be a mangled name and `units` a Unit object (what
    `_add_variables` passes; python would also take a plain string for either - answered TypeError here, outside the
    tie theorems). -/
def modelAddVariable (_self : CompsView) (st : CompsState) (attrs : Attrs) : Except PyErr (VRef × CompsState) :=
  if attrs.any (fun p => !kwargNames.contains p.1) then .error ⟨"TypeError"⟩
  else match attrs.lookup "name", attrs.lookup "units" with
    | some (.ref r), some (.unit n c) =>
      if st.acc.1.contains r then .error ⟨"ValueError"⟩
      else
        let cm : Option String := match attrs.lookup "cmeta_id" with | some (.str id) => some id | _ => none
        if (match cm with | some id => st.acc.2.contains id | none => false) then .error ⟨"ValueError"⟩
        else match attrs.lookup "initial_value" with
          | some (.floatText none) => .error ⟨"ValueError"⟩
          | iv =>
            let init : Option Rat := match iv with | some (.floatText (some q)) => some q | _ => none
            .ok (r, { st with
              acc := (r :: st.acc.1, match cm with | some id => id :: st.acc.2 | none => st.acc.2),
              vt := st.vt ++ [(r, ⟨c, ifaceArg attrs "public_interface", ifaceArg attrs "private_interface",
                                   init, cm, n⟩)] })
    | _, _ => .error ⟨"TypeError"⟩

end Cellml.Tie.PAddVars
