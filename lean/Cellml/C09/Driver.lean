import Cellml.Basic.Sexp
/-! Channel C09 of the model driver (stub: not built yet). -/
namespace C09
def handle (_args : List Sexp) : Sexp := .atom "not-implemented"
end C09
