import Cellml.Basic.Sexp
/-! Channel C02 of the model driver (stub: not built yet). -/
namespace C02
def handle (_args : List Sexp) : Sexp := .atom "not-implemented"
end C02
