"""Code-translator spec (see harness/translate_code.py and harness/code_specs/__init__.py).

Parser._add_variables (the loop over the <variable> children of a <component>: the dict `attributes`, the renaming of
cmeta:id, the mangled name, the unit lookup, Model.add_variable) and Parser._get_variable_name
= Load.checkVars (what it raises) + Load.entry (what it records). Tie: lean/Cellml/Tie/AddVars.lean.

Every pattern is a leaf: an lxml call (findall / attrib / get), a dict primitive (d[k], d.pop(k); `k in d`, `d[k] = v`
and `{}` are generic rules through `dict_names`), a module constant / module function of parser.py (XmlNs, with_ns),
the unit store, Model.add_variable (bound to the hand model's state, see AddVarsView.lean)."""

_F = 'cellmlmanip/parser.py'

GROUP = {'name': 'AddVars',
 'imports': ['Cellml.Tie.AddVarsView'],
 'header': 'open Load\nopen Cellml.Tie.PAddVars',
 'functions': [
     {'file': _F, 'func': 'Parser._get_variable_name', 'lean_name': 'getVariableName',
      # the variable name arrives as a value of the dict `attributes`
      'signature': '(component_name : String) (variable_name : AttrVal) : Except PyErr AttrVal',
      'patterns': [], 'stmt_patterns': []},
     {'file': _F, 'func': 'Parser._add_variables', 'lean_name': 'addVariables',
      # the parser / model state written by add_variable is threaded as `st`
      'params': ['self', 'component_element', 'st'],
      'state': ['st'],
      'mutable': ['attributes', 'variable_lookup_symbol'],
      'dict_names': ['attributes', 'variable_lookup_symbol'],
      'var_types': {'variable_lookup_symbol': 'List (AttrVal × VRef)'},
      'signature': '(self : CompsView) (component_element : CompElemV) (st : CompsState) : '
                   'Except PyErr (List (AttrVal × VRef) × CompsState)',
      'patterns': [('with_ns(__A, __B)', '(withNs {A} {B})'),
                   ('__A.findall(__B)', '(findall {A} {B})'),
                   ('dict(__A.attrib)', '(attribOf {A})'),
                   ('__A.get(\'name\')', '({A}).name'),
                   ('attributes[__K]', '← dictGetItem attributes {K}'),
                   ('Parser._get_variable_name(__A, __B)', '← getVariableName {A} {B}'),
                   ('self.model.units.get_unit(__A)', '← unitsGetUnit self {A}')],
      'stmt_patterns': [('__D[__K] = __D.pop(__A)',
                         'let (v__, d__) ← dictPop {D} {A}\n{D} := Py.setItem d__ {K} v__'),
                        ('variable_lookup_symbol[__K] = self.model.add_variable(**__A)',
                         'let (v__, st__) ← modelAddVariable self st {A}\nst := st__\n'
                         'variable_lookup_symbol := Py.setItem variable_lookup_symbol {K} v__'),
                        ('return variable_lookup_symbol', 'return (variable_lookup_symbol, st)')]}]}
