import Cellml.Tie.CmetaView
import Cellml.Model.RdfQ

/-! # What the remaining annotation / RDF functions see of rdflib, lxml and the `Model` / `Variable` objects

    Pattern table: `harness/code_specs/rdfq.py`; generated code: `Cellml/Generated/Code/RdfQ.lean`; tie theorems:
    `Cellml/Tie/RdfQ.lean`. Every accessor below stands for ONE python leaf (an rdflib / lxml / builtin call, an
    attribute read, an `isinstance` test on an rdflib class); none contains a decision of a translated function.
    Core Lean only. Python values are those of CmetaView.lean (`RdfArg`: `None`, an rdflib node, a `(namespace, local)`
    tuple, a `str`). -/

namespace Cellml.Tie.PRdfQ
open Model Model.RdfQ Cellml.Tie.PCmeta

-- ------------------------------------------------------------------------------------------------ create_rdf_node
/-- `x is None` -/
def _root_.Cellml.Tie.PCmeta.RdfArg.isNone : RdfArg → Bool
  | .none => true
  | _ => false

/-- `isinstance(x, rdflib.term.Node)` -/
def isNode : RdfArg → Bool
  | .node _ => true
  | _ => false

/-- `isinstance(x, tuple)` -/
def isTuple : RdfArg → Bool
  | .pair _ _ => true
  | _ => false

/-- `isinstance(x, str)` (an rdflib node is never passed here: the `Node` test comes first in the source) -/
def isStr : RdfArg → Bool
  | .str _ => true
  | _ => false

/-- `a, b = x` for a 2-tuple; anything else cannot be unpacked into two names (python: TypeError / ValueError) -/
def unpack2 : RdfArg → Except PyErr (String × String)
  | .pair a b => .ok (a, b)
  | _ => .error ⟨"TypeError"⟩

/-- the `str` an argument is, where python calls a `str` method on it (`""` for what is not a `str`: python would
    raise AttributeError; the tie theorems show such a call is never reached) -/
def strText : RdfArg → String
  | .str s => s
  | _ => ""

/-- `s.endswith(suffix)` -/
def pyEndsWith (s suffix : String) : Bool := suffix.toList.reverse.isPrefixOf s.toList.reverse

/-- `s.startswith(prefix)` -/
def pyStartsWith (s pre : String) : Bool := pre.toList.isPrefixOf s.toList

/-- `rdflib.Namespace(uri)[local_name]`: the `URIRef` of the concatenation -/
def namespaceTerm (uri loc : String) : RdfArg := .node (.uri (uri ++ loc))

/-- `rdflib.URIRef(s)` -/
def mkURIRef (s : String) : RdfArg := .node (.uri s)

/-- `rdflib.Literal(x)`: of a `str`, the plain literal with that text (the other kinds of `RdfArg` never reach it;
    python values that are none of the four kinds — numbers … — are outside `RdfArg`) -/
def mkLiteral (x : RdfArg) : RdfArg := .node (.lit (strText x))

-- ------------------------------------------------------------------------------------------------ Variable objects
/-- `'#' + self._cmeta_id` reads the attribute where a `str` is needed: `None` there is python's TypeError -/
def strOf : Option String → Except PyErr String
  | some s => .ok s
  | none => .error ⟨"TypeError"⟩

/-- what `self._rdf_identity` holds when a value of `create_rdf_node` is stored: the node (`None` stays `None`) -/
def nodeOf : RdfArg → Option RNode
  | .node n => some n
  | _ => none

/-- `variable.rdf_identity` of variable number `v` of the hand model's state: the attribute of the `Variable` object
    the state stands for (`Model.RdfQ.varObjOf`) -/
def rdfIdentityOf (self : AState) (v : Nat) : Option RNode := (varObjOf self v)._rdf_identity

-- ------------------------------------------------------------------------------------------------ the rdflib graph
/-- one position of an rdflib triple pattern given as a python value: `None` matches everything, a node itself; a
    tuple or `str` is not a node and matches nothing -/
def argMatches (pat : RdfArg) (n : RNode) : Bool := nodeMatches pat n

/-- `self.rdf.triples((s, p, o))` -/
def rdfTriples (self : AState) (s p o : RdfArg) : List Triple :=
  self.rdf.filter (fun t => argMatches s (subjNode t) && argMatches p (predNode t) && argMatches o t.obj)

/-- `self.rdf.objects(subject, predicate)`; the subject is a `Variable.rdf_identity` (a node or `None`) -/
def rdfObjects (self : AState) (s : Option RNode) (p : RdfArg) : List RNode :=
  (self.rdf.filter (fun t => patMatches s (subjNode t) && argMatches p (predNode t))).map (fun t => t.obj)

/-- `triple[2]`: the object of an rdflib triple -/
def tripleObj (t : Triple) : RNode := t.obj

/-- `isinstance(x, rdflib.Literal)` -/
def isLiteral : RNode → Bool
  | .lit _ => true
  | .uri _ => false

/-- `str(node)` -/
def nodeStr (n : RNode) : String := n.text

/-- `s.strip()` -/
def pyStrip (s : String) : String := strip s

/-- one-character separator split on the characters: the pieces between the separators -/
def splitChars (sep : Char) : List Char → List Char → List (List Char)
  | [], cur => [cur.reverse]
  | c :: r, cur => if c = sep then cur.reverse :: splitChars sep r [] else splitChars sep r (c :: cur)

/-- `s.split(sep)` for a one-character separator (the only kind the translated functions use; for any other
    separator the string is answered whole) -/
def pySplit (s sep : String) : List String :=
  match sep.toList with
  | [c] => (splitChars c s.toList []).map String.ofList
  | _ => [s]

/-- `l[-1]`; IndexError on an empty list -/
def listLast {α} (l : List α) : Except PyErr α :=
  match l.getLast? with
  | some x => .ok x
  | none => .error ⟨"IndexError"⟩

-- ------------------------------------------------------------------------------------------------ add_rdf, Parser._add_rdf
/-- an RDF/XML string as rdflib's parser sees it: the triples it denotes in document order, or `none` when
    `Graph.parse` raises (the class is the SAX parser's `SAXParseException` with the rdflib of this image, see notes/tie5_rdfq_probe.py) -/
structure RdfXml where
  parsed : Option (List Triple)
deriving Repr, Inhabited

/-- `self.rdf.parse(StringIO(s), format='xml')`: the triples of the document are added to the graph (a set);
    nothing is added when the parser raises (rdflib parses, then adds — an over-approximation for documents that fail
    half-way, which the hand model does not speak about) -/
def rdfParseXml (s : RdfXml) : M Unit := PyM.updE fun a =>
  match s.parsed with
  | some ts => (.ok (), ts.foldl addRdf a)
  | none => (.error ⟨"SAXParseException"⟩, a)

/-- an `Enum` member of `parser.XmlNs`: `.value` is its string -/
structure XmlNsMember where
  value : String
deriving Repr, DecidableEq

/-- `XmlNs.RDF` -/
def xmlNsRDF : XmlNsMember := ⟨"http://www.w3.org/1999/02/22-rdf-syntax-ns#"⟩

/-- `element.iter(tag)` (lxml): the element and its descendants with that tag, in document order -/
def elemIter (e : Elem) (tag : String) : List Elem := e.descendants.filter (fun x => x.tag == tag)

/-- `etree.tostring(rdf, encoding=str)`: the serialisation, as what it parses to -/
def etreeToString (e : Elem) : RdfXml := ⟨e.parsed⟩

end Cellml.Tie.PRdfQ
