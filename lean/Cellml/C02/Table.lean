import Cellml.C02.Semantics

/-! # C02, part 1 — the GENERATED operator table means what MathML 2 says

    `Cellml.Gen.mathmlOps` is re-extracted from the text of `_SIMPLE_MATHML_TO_SYMPY_CLASSES` on every run. One small
    theorem per tag, so that a semantic edit of an entry (`'arccosh': sympy.acos`) breaks exactly the theorem naming that
    tag; this module is compiled before everything else of C02 (`Cellml.C02.Lemmas` imports it). -/

namespace Cellml.Props.C02
open _root_.C02 Cellml

/-- the class the GENERATED table gives for `tag` computes what MathML 2 says `tag` means -/
def entrySound (tag : String) : Bool :=
  match Gen.mathmlOps.lookup tag, mmlMeaning tag with
  | some c, some m => syMeaning c == m
  | _, _ => false

macro "table_entry " n:ident t:str : command => `(theorem $n : entrySound $t = true := by decide +kernel)

table_entry table_abs "abs"
table_entry table_and "and"
table_entry table_arccos "arccos"
table_entry table_arccosh "arccosh"
table_entry table_arccot "arccot"
table_entry table_arccoth "arccoth"
table_entry table_arccsc "arccsc"
table_entry table_arccsch "arccsch"
table_entry table_arcsec "arcsec"
table_entry table_arcsech "arcsech"
table_entry table_arcsin "arcsin"
table_entry table_arcsinh "arcsinh"
table_entry table_arctan "arctan"
table_entry table_arctanh "arctanh"
table_entry table_ceiling "ceiling"
table_entry table_cos "cos"
table_entry table_cosh "cosh"
table_entry table_cot "cot"
table_entry table_coth "coth"
table_entry table_csc "csc"
table_entry table_csch "csch"
table_entry table_eq "eq"
table_entry table_exp "exp"
table_entry table_exponentiale "exponentiale"
table_entry table_false "false"
table_entry table_floor "floor"
table_entry table_geq "geq"
table_entry table_gt "gt"
table_entry table_infinity "infinity"
table_entry table_leq "leq"
table_entry table_ln "ln"
table_entry table_lt "lt"
table_entry table_max "max"
table_entry table_min "min"
table_entry table_neq "neq"
table_entry table_not "not"
table_entry table_notanumber "notanumber"
table_entry table_or "or"
table_entry table_pi "pi"
table_entry table_plus "plus"
table_entry table_sec "sec"
table_entry table_sech "sech"
table_entry table_sin "sin"
table_entry table_sinh "sinh"
table_entry table_tan "tan"
table_entry table_tanh "tanh"
table_entry table_times "times"
table_entry table_true "true"
table_entry table_xor "xor"

/-- KNOWN FINDING (rem-sign): `rem ↦ sympy.Mod`; MathML's rem has the sign of the dividend, Mod that of the divisor -/
theorem table_rem_is_Mod : Gen.mathmlOps.lookup "rem" = some "Mod" := by decide +kernel
theorem table_rem_differs : entrySound "rem" = false := by decide +kernel
theorem rem_differs_from_mod (I : Interp) :
    Meaning.rem.apply I [.num (-7), .num 3] = some (.num (-1)) ∧
    Meaning.mod.apply I [.num (-7), .num 3] = some (.num 2) := by
  constructor <;> (simp only [Meaning.apply]; decide +kernel)

/-- the key set of the table is exactly the 50 elements whose meaning is written down above, no duplicates -/
theorem table_keys :
    (Gen.mathmlOps.map (·.1)).length = 50 ∧
    (Gen.mathmlOps.all fun p => (mmlMeaning p.1).isSome && Gen.mathmlOps.lookup p.1 == some p.2) = true ∧
    (mmlTable.all fun p => (Gen.mathmlOps.lookup p.1).isSome) = true := by
  refine ⟨?_, ?_, ?_⟩ <;> decide +kernel

/-- the n-ary (chained) relations are exactly MathML 2's: eq, leq, lt, geq, gt -/
theorem nary_relations_sound : Gen.naryRelations = ["eq", "geq", "gt", "leq", "lt"] := by decide +kernel

def expectedHandlers : List (String × String) := [
  ("apply", "_apply_handler"), ("bvar", "_bvar_handler"), ("ci", "_ci_handler"), ("cn", "_cn_handler"),
  ("degree", "_degree_handler"), ("diff", "_diff_handler"), ("divide", "_divide_handler"), ("log", "_log_handler"),
  ("logbase", "_logbase_handler"), ("math", "transpile"), ("minus", "_minus_handler"),
  ("otherwise", "_otherwise_handler"), ("piece", "_piece_handler"), ("piecewise", "_piecewise_handler"),
  ("power", "_power_handler"), ("root", "_root_handler")]

/-- the explicit handlers: exactly these 16 keys, each bound to the method of its own name -/
theorem handler_keys_sound :
    Gen.handlerKeys.length = 16 ∧
    (expectedHandlers.all fun p => Gen.handlerKeys.lookup p.1 == some p.2) = true ∧
    (Gen.handlerKeys.all fun p => (Gen.mathmlOps.lookup p.1).isNone) = true := by
  refine ⟨?_, ?_, ?_⟩ <;> decide +kernel

end Cellml.Props.C02
