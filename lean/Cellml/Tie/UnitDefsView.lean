import Cellml.Tie.Prelude
import Cellml.Units.Worklist

/-! # What the translated functions `Parser._make_pint_unit_definition` and `Parser._add_units` see

    The pattern tables of harness/code_specs/unitdefs.py bind every python leaf of the two functions (dict access on the
    attribute dicts of `<unit>` elements, the `%`-formats that build the pint expression, the table `UNIT_PREFIXES`,
    `float`, the etree queries, the `UnitStore` methods, the deque operations) to one
    of the definitions below. Core Lean only. -/

namespace Cellml.Tie.PUnitDefs
open Units

/-! ## the attribute dict of a `<unit>` element (`etree._Attrib`) -/

/-- `d[k]` for the five attributes of the schema; python raises `KeyError` for an absent key, the stand-in returns
    `""` (total). `units` is a required attribute: the model's `UnitElem` always has it. -/
def _root_.Units.UnitElem.get! (e : UnitElem) (k : String) : String :=
  if k = "units" then e.units
  else if k = "prefix" then e.pfx.getD ""
  else if k = "exponent" then e.exponent.getD ""
  else if k = "multiplier" then e.multiplier.getD ""
  else if k = "offset" then e.offset.getD ""
  else ""

/-- `k in d` -/
def _root_.Units.UnitElem.has (e : UnitElem) (k : String) : Bool :=
  if k = "units" then true
  else if k = "prefix" then e.pfx.isSome
  else if k = "exponent" then e.exponent.isSome
  else if k = "multiplier" then e.multiplier.isSome
  else if k = "offset" then e.offset.isSome
  else false

@[simp] theorem get_units (e : UnitElem) : e.get! "units" = e.units := by simp [UnitElem.get!]
@[simp] theorem get_prefix (e : UnitElem) : e.get! "prefix" = e.pfx.getD "" := by simp [UnitElem.get!]
@[simp] theorem get_exponent (e : UnitElem) : e.get! "exponent" = e.exponent.getD "" := by simp [UnitElem.get!]
@[simp] theorem get_multiplier (e : UnitElem) : e.get! "multiplier" = e.multiplier.getD "" := by simp [UnitElem.get!]
@[simp] theorem get_offset (e : UnitElem) : e.get! "offset" = e.offset.getD "" := by simp [UnitElem.get!]
@[simp] theorem has_prefix (e : UnitElem) : e.has "prefix" = e.pfx.isSome := by simp [UnitElem.has]
@[simp] theorem has_exponent (e : UnitElem) : e.has "exponent" = e.exponent.isSome := by simp [UnitElem.has]
@[simp] theorem has_multiplier (e : UnitElem) : e.has "multiplier" = e.multiplier.isSome := by simp [UnitElem.has]
@[simp] theorem has_offset (e : UnitElem) : e.has "offset" = e.offset.isSome := by simp [UnitElem.has]

/-! ## the pint expression `_make_pint_unit_definition` builds

    The function pastes attribute texts into `%`-formats; pint later parses the string. The tree below names the
    formats (one constructor per format string, the argument TYPES fix the role of each argument), and `UExpr.den` is
    what pint's evaluation of such an expression gives: `*` multiplies quantities, `**` raises to a number, a name is
    the unit of that name (after the `_WORD` prefix substitution of `UnitStore.add_unit`), a number is a number. -/

/-- the value `power` -/
inductive PowLit where
  /-- `UNIT_PREFIXES[p]` formatted with `%s`: the float of the table (`p` is a key of the table) -/
  | table (p : String)
  /-- `'1e%s' % p` -/
  | sci (p : String)
deriving Repr, DecidableEq

inductive UExpr where
  /-- `unit_element['units']` pasted as it is -/
  | name (n : String)
  /-- `'(%s * %s)' % (expr, power)` -/
  | timesPow (e : UExpr) (p : PowLit)
  /-- `'((%s)**%s)' % (expr, x)`, `x` an attribute text -/
  | pow (e : UExpr) (x : String)
  /-- `'(%s * %s)' % (m, expr)`, `m` an attribute text -/
  | mult (m : String) (e : UExpr)
deriving Repr, DecidableEq

/-- a python `str` used where the expression is expected: the unit name the loop starts from -/
instance : Coe String UExpr := ⟨UExpr.name⟩

/-- `'*'.join(full_unit_expr)` -/
structure PintDef where
  factors : List UExpr
deriving Repr, DecidableEq

/-- a python `float` object, as far as `== 0` / `!= 0` can see it -/
inductive PyFloat where
  | nan
  | inf
  /-- a finite double; the rational is zero exactly when the double is -/
  | fin (q : Rat)
deriving Repr, DecidableEq

/-- the python literal `0` compared with a float: `0.0` -/
instance : OfNat PyFloat 0 := ⟨.fin 0⟩

/-- python `==` on floats: `nan` equals nothing (not even itself) -/
instance : BEq PyFloat where
  beq
    | .fin a, .fin b => a == b
    | .inf, .inf => true
    | _, _ => false

namespace Pint

/-- `'(%s * %s)' % (a, b)`: the two uses in the function differ by the types of their arguments -/
class FmtMul (α β : Type) where
  fmtMul : α → β → UExpr
export FmtMul (fmtMul)
instance : FmtMul UExpr PowLit := ⟨UExpr.timesPow⟩
instance : FmtMul String UExpr := ⟨UExpr.mult⟩

/-- `'((%s)**%s)' % (a, b)` -/
def fmtPow (a : UExpr) (b : String) : UExpr := .pow a b

/-- `'*'.join(xs)` -/
def joinStar (xs : List UExpr) : PintDef := ⟨xs⟩

/-- `UNIT_PREFIXES[p]` (the table is `Cellml.Gen.unitPrefixes`, generated from the source); `KeyError` otherwise -/
def prefixTable (p : String) : Except PyErr PowLit :=
  if (Cellml.Gen.unitPrefixes.lookup p).isSome then .ok (.table p) else .error ⟨"KeyError"⟩

/-- `'%s' % UNIT_PREFIXES[p]`: python's `str` of the float of the table. Representation: the text `1e<k>` for the
    float `10^k` (python prints `0.001`, `1e-24`, `1000.0`, … — another spelling of the same number) -/
def floatStr (p : String) : String :=
  match Cellml.Gen.unitPrefixes.lookup p with
  | some (some k) => "1e" ++ toString k
  | _ => "nan"

/-- `UNIT_PREFIXES[p]` where the value is only pasted into a string -/
def prefixTableStr (p : String) : Except PyErr String :=
  if (Cellml.Gen.unitPrefixes.lookup p).isSome then .ok (floatStr p) else .error ⟨"KeyError"⟩

/-- `float(s)`: CPython's conversion of ASCII text (`Units.floatText`: white space stripped, `inf` / `nan`, decimal
    literals with PEP 515 underscores; `ValueError` for anything else), rounded to binary64 as far as a comparison with
    zero can see (`Units.roundsToZero`: the nearest double is zero exactly for `|value| ≤ 2^-1075`; any other value is
    kept as it is and stands for its non-zero double) -/
def float (s : String) : Except PyErr PyFloat :=
  match floatText s with
  | none => .error ⟨"ValueError"⟩
  | some .nan => .ok .nan
  | some .inf => .ok .inf
  | some (.dec q) => .ok (.fin (if roundsToZero q then 0 else q))

end Pint

/-- the text of `power` inside the expression -/
def PowLit.render : PowLit → String
  | .table p => Pint.floatStr p
  | .sci p => Py.fmt "1e%s" [p]

/-- the python string the tree stands for -/
def UExpr.render : UExpr → String
  | .name n => n
  | .timesPow e p => Py.fmt "(%s * %s)" [e.render, p.render]
  | .pow e x => Py.fmt "((%s)**%s)" [e.render, x]
  | .mult m e => Py.fmt "(%s * %s)" [m, e.render]

def PintDef.render (d : PintDef) : String := String.intercalate "*" (d.factors.map UExpr.render)

/-- the number `power` stands for -/
def PowLit.den : PowLit → Except DefErr Scale
  | .table p => match Cellml.Gen.unitPrefixes.lookup p with
      | some (some k) => .ok (pow10 k)
      | _ => .error (.badNumber ("prefix " ++ p))
  | .sci p => match Decimal.parseInt p with
      | some k => .ok (pow10 k)
      | none => .error (.badNumber ("prefix " ++ p))

/-- pint's value of the expression in the store `storeId`: (scale, units, mentions `dimensionless`) -/
def UExpr.den (storeId : Nat) : UExpr → Except DefErr (Scale × Container × Bool)
  | .name n => .ok ([], nameContainer (mangle storeId n), n == "dimensionless")
  | .timesPow e p => do
      let (s, c, d) ← e.den storeId
      let k ← p.den
      pure (PMap.add s k, c, d)
  | .pow e x => do
      let (s, c, d) ← e.den storeId
      match Decimal.parse x with
      | some q => pure (PMap.smul q s, PMap.smul q c, d)
      | none => throw (.badNumber ("exponent " ++ x))
  | .mult m e => do
      let (s, c, d) ← e.den storeId
      match Decimal.parse m with
      | some q => match Factor.rat q with
          | some ms => pure (PMap.add ms s, c, d)
          | none => throw (.unsupported ("multiplier " ++ m))
      | none => throw (.badNumber ("multiplier " ++ m))

/-- the unit names that occur in the expression -/
def UExpr.names : UExpr → List String
  | .name n => [n]
  | .timesPow e _ => e.names
  | .pow e _ => e.names
  | .mult _ e => e.names

/-- value of `a*b*…` -/
def denAll (storeId : Nat) : List UExpr → Except DefErr (Scale × Container × Bool)
  | [] => pure ([], [], false)
  | e :: es => do
      let (s, c, d) ← e.den storeId
      let (s', c', d') ← denAll storeId es
      pure (PMap.add s s', PMap.add c c', d || d')

/-! ## the `UnitStore` (`self.model.units`) and the collections of `_add_units` -/

/-- class of an error of the unit store as the differential harness names it (`Units.addErrSexp`) -/
def addErrClass : AddErr → String
  | .valueError _ => "ValueError"
  | .undefinedUnit => "UndefinedUnitError"
  | .badDefinition _ => "BadDefinition"
  | .unsupported _ => "Unsupported"

/-- the state of `self.model.units`: pint registry and `_known_units` -/
abbrev UStore := Registry × Store

/-- `self.model.units.is_defined(name)`: `name in self._known_units` — the set starts as `set(_CELLML_UNITS)` and
    receives every name added through the store, so this is the hand model's `Store.isDefined` (built-ins included;
    tied to the source of `UnitStore.is_defined` / `__init__` by `PUnits.isDefined_tie`, `init_tie`) -/
def isDefined (u : UStore) (name : String) : Bool := u.2.isDefined name

/-- `self.model.units.add_base_unit(name)` -/
def addBaseUnitLeaf (u : UStore) (name : String) : Except PyErr UStore :=
  errClass addErrClass (addBaseUnit u.1 u.2 name)

/-- `self.model.units.add_unit(name, definition)` (units.py 143-181): the hand model `Units.addUnitWith` (the three
    tests on the name in the order of the source, every identifier of the expression must be a key of the pint
    registry, then the definition proper) on what pint makes of the expression the generated
    `_make_pint_unit_definition` built: its identifiers and its value (`denAll`). `Units.addUnit` is the same function
    on the `<unit>` elements (`addUnit_eq_with` in Tie/UnitDefs.lean). -/
def addUnitLeaf (u : UStore) (name : String) (d : PintDef) : Except PyErr UStore :=
  errClass addErrClass (
    Units.addUnitWith (d.factors.all (fun e => e.names.all (fun n => allKnown u.1 (nameContainer (mangle u.2.id n)))))
      (denAll u.2.id d.factors) u.1 u.2 name)

/-- the python spelling of the `base_units` attribute of a `<units>` element (`units_element.get('base_units')`):
    the model keeps only whether it is `yes` -/
def baseUnitsAttr (d : UDef) : String := if d.base then "yes" else "no"

/-- `t.attrib` of a `<unit>` child: the model's `UnitElem` IS the attribute dict -/
def _root_.Units.UnitElem.attrib (e : UnitElem) : UnitElem := e

/-- `deque.pop()`: from the RIGHT end -/
def popRight {α} (l : List α) : Except PyErr (α × List α) :=
  match l.getLast? with
  | none => .error ⟨"IndexError"⟩
  | some a => .ok (a, l.dropLast)

end Cellml.Tie.PUnitDefs
