import Cellml.C09.Closure

/-! "Acyclic" in the usual sense — no node reaches itself — is the same as the existence of a ranking
    (`C09.Acyclic`), for every finite edge list. Proof: remove one vertex `x` at a time, bridging each pair
    predecessor → successor of `x` (which creates no new cycle), rank the smaller graph, and slot `x` in between. -/

namespace C09

def EdgeIn (es : List Edge) (u v : Node) : Prop := (u, v) ∈ es

/-- the edges of the graph with vertex `x` short-circuited -/
def bypass (es : List Edge) (x : Node) : List Edge :=
  es.filter (fun e => e.1 != x && e.2 != x) ++
    ((es.filter (fun e => e.2 == x)).map (·.1)).flatMap fun a =>
      ((es.filter (fun e => e.1 == x)).map (·.2)).map fun d => (a, d)

theorem mem_bypass {es : List Edge} {x u v : Node} :
    (u, v) ∈ bypass es x ↔ ((u, v) ∈ es ∧ u ≠ x ∧ v ≠ x) ∨ ((u, x) ∈ es ∧ (x, v) ∈ es) := by
  simp only [bypass, List.mem_append, List.mem_filter, List.mem_flatMap, List.mem_map, Bool.and_eq_true,
    bne_iff_ne, ne_eq, beq_iff_eq, Prod.mk.injEq]
  constructor
  · rintro (⟨h1, h2, h3⟩ | ⟨a, ⟨⟨p, q⟩, ⟨hp, hq⟩, rfl⟩, d, ⟨⟨r, s⟩, ⟨hr, hs⟩, rfl⟩, rfl, rfl⟩)
    · exact Or.inl ⟨h1, h2, h3⟩
    · simp only at hq hs; subst hq; subst hs
      exact Or.inr ⟨hp, hr⟩
  · rintro (⟨h1, h2, h3⟩ | ⟨h1, h2⟩)
    · exact Or.inl ⟨h1, h2, h3⟩
    · exact Or.inr ⟨u, ⟨(u, x), ⟨h1, rfl⟩, rfl⟩, v, ⟨(x, v), ⟨h2, rfl⟩, rfl⟩, rfl, rfl⟩

theorem tc_of_bypass {es : List Edge} {x u v : Node} (t : TC (EdgeIn (bypass es x)) u v) : TC (EdgeIn es) u v := by
  induction t with
  | base r =>
      rcases mem_bypass.mp r with ⟨h, _, _⟩ | ⟨h1, h2⟩
      · exact .base h
      · exact .tail (.base h1) h2
  | tail _ r ih =>
      rcases mem_bypass.mp r with ⟨h, _, _⟩ | ⟨h1, h2⟩
      · exact .tail ih h
      · exact .tail (.tail ih h1) h2

theorem foldr_max_lt : ∀ (l : List Nat) (b : Nat), 0 < b → (∀ a ∈ l, a < b) → l.foldr max 0 < b
  | [], b, hb, _ => by simpa using hb
  | a :: l, b, hb, h => by
      have ih := foldr_max_lt l b hb (fun c hc => h c (List.mem_cons_of_mem _ hc))
      have ha := h a (by simp)
      simp only [List.foldr_cons]
      exact Nat.max_lt.mpr ⟨ha, ih⟩

theorem le_foldr_max : ∀ (l : List Nat) (a : Nat), a ∈ l → a ≤ l.foldr max 0
  | [], a, h => by simp at h
  | c :: l, a, h => by
      simp only [List.foldr_cons]
      rcases List.mem_cons.mp h with rfl | h
      · exact Nat.le_max_left _ _
      · exact Nat.le_trans (le_foldr_max l a h) (Nat.le_max_right _ _)

theorem rank_of_no_cycle : ∀ (vs : List Node) (es : List Edge),
    (∀ u v, (u, v) ∈ es → u ∈ vs ∧ v ∈ vs) → (∀ v, ¬ TC (EdgeIn es) v v) →
    ∃ rank : Node → Nat, ∀ u v, (u, v) ∈ es → rank u < rank v
  | [], es, hends, _ => ⟨fun _ => 0, fun u v h => by have := (hends u v h).1; simp at this⟩
  | x :: vs, es, hends, hno => by
      have hself : (x, x) ∉ es := fun h => hno x (.base h)
      obtain ⟨rank', hrank'⟩ := rank_of_no_cycle vs (bypass es x)
        (by
          intro u v h
          rcases mem_bypass.mp h with ⟨h0, hu, hv⟩ | ⟨h1, h2⟩
          · obtain ⟨h1, h2⟩ := hends u v h0
            exact ⟨(List.mem_cons.mp h1).resolve_left hu, (List.mem_cons.mp h2).resolve_left hv⟩
          · have hu : u ≠ x := fun e => hself (e ▸ h1)
            have hv : v ≠ x := fun e => hself (e ▸ h2)
            exact ⟨(List.mem_cons.mp (hends u x h1).1).resolve_left hu,
                   (List.mem_cons.mp (hends x v h2).2).resolve_left hv⟩)
        (fun v t => hno v (tc_of_bypass t))
      let below : List Nat := ((es.filter (fun e => e.2 == x)).map (·.1)).map fun a => 2 * rank' a + 2
      refine ⟨fun v => if v = x then below.foldr max 0 + 1 else 2 * rank' v + 2, ?_⟩
      intro u v huv
      by_cases hu : u = x
      · by_cases hv : v = x
        · subst hu; subst hv; exact absurd huv hself
        · subst hu
          simp only [if_true, hv, if_false]
          have : below.foldr max 0 < 2 * rank' v + 1 := by
            apply foldr_max_lt _ _ (by omega)
            intro c hc
            simp only [below, List.mem_map, List.mem_filter, beq_iff_eq] at hc
            obtain ⟨a, ⟨⟨p, q⟩, ⟨hp, hq⟩, rfl⟩, rfl⟩ := hc
            simp only at hq; subst hq
            have := hrank' p v (mem_bypass.mpr (Or.inr ⟨hp, huv⟩))
            simp only; omega
          omega
      · by_cases hv : v = x
        · subst hv
          simp only [hu, if_false, if_true]
          have : 2 * rank' u + 2 ≤ below.foldr max 0 := by
            apply le_foldr_max
            simp only [below, List.mem_map, List.mem_filter, beq_iff_eq]
            exact ⟨u, ⟨(u, v), ⟨huv, rfl⟩, rfl⟩, rfl⟩
          omega
        · simp only [hu, hv, if_false]
          have := hrank' u v (mem_bypass.mpr (Or.inl ⟨huv, hu, hv⟩))
          omega

/-- **Acyclic = no node reaches itself.** -/
theorem acyclic_iff_no_cycle (g : Graph) : Acyclic g ↔ ∀ v, ¬ TC (Edge' g) v v := by
  constructor
  · rintro ⟨rank, hrank⟩ v t
    exact Nat.lt_irrefl _ (TC.rank_lt rank hrank t)
  · intro hno
    exact rank_of_no_cycle (g.edges.map (·.1) ++ g.edges.map (·.2)) g.edges
      (fun u v h => ⟨List.mem_append_left _ (List.mem_map.mpr ⟨(u, v), h, rfl⟩),
                     List.mem_append_right _ (List.mem_map.mpr ⟨(u, v), h, rfl⟩)⟩)
      hno

end C09
