"""C14 — every number written in a document reaches the generated code bit for bit.

One case = one generated CellML document with ~50 literals (plain <cn>, e-notation <cn>, initial_value of constants
and of state variables), loaded with cellmlmanip.load_model. For every literal the bit pattern of the double is
observed in the Quantity, in get_value, in the unit-stripped equation and in the text the printer emits.

  * correspondence: the Lean model (lean/Cellml/C14) computes, from the SOURCE text and from every EMITTED text, the
    bits exactly; all must coincide with the observation (exact comparison of 64-bit patterns);
  * oracle: the same statement with an independent exact reference written here (fractions.Fraction, nearest-even),
    never float().
"""
import os
import re
import struct
import tempfile
from fractions import Fraction

from common import Str, sx

ID = 'C14'
LEAN_MODULES = ['Cellml.Props.C14', 'Cellml.Tie.Transpile', 'Cellml.Tie.NumPipe', 'Cellml.Tie.NumPipeAll', 'Cellml.Props.C14Gen',
                'Cellml.Props.C14GenAll', 'Cellml.Tie.Units']
LITS_PER_DOC = 50
N = {'quick': 44, 'thorough': 4200}
RULE = ('one case = one generated CellML document of %d literals (quick 44 documents ≈ 2 100 literals, thorough 4 200 '
        'documents ≈ 200 000 literals; every 15th document is a single malformed text). Literal values: '
        'random finite 64-bit patterns, subnormals, the extremes (largest double, smallest normal/subnormal, the '
        'halfway points to infinity and to zero and their neighbours), exact halfway points between adjacent doubles '
        'and their neighbours one digit away, integers beyond 2^53 (incl. ties 2^53+1, 50-digit integers), doubles '
        'whose shortest form has 17 digits, zeros of both signs, underflowing literals. Spellings: shortest repr, '
        '25-40 significant digits (exact expansion, or with a random tail), positional and scientific, upper-case E, '
        'explicit +, leading/trailing zeros, ".5"/"5." forms, padding blanks; every value also as mantissa<sep/>exponent '
        'with a random split of the power of ten between the two parts (exponent with +, leading zeros, blanks). '
        'Positions: <cn> (plain), <cn type="e-notation">, initial_value of a constant (becomes a Quantity), '
        'initial_value of a state variable. Non-trivial = the document loads and at least 10 literals need rounding '
        '(their decimal value is not a double); distinct = distinct document JSON') % LITS_PER_DOC
TRUSTED = ['Lean 4.33 kernel', 'axioms: propext, Classical.choice, Quot.sound',
           'harness/translate_tables.py (FLOAT_PRECISION)',
           'correspondence harness harness/props/c14.py',
           "CPython's float()/repr, sympy 1.14 Float/evalf and mpmath are the runtime: modelled (exact reference in "
           'Lean, compared bit for bit on every run), not verified',
           'lxml hands attribute and text content to the parser unchanged']
ASSUMPTIONS = ['literals are finite decimal texts in the grammar of float() without "_", "inf", "nan" (those spellings '
               'are the business of C02)',
               'doubles are IEEE-754 binary64 and float() is correctly rounded (checked against the exact model on '
               'every case, not assumed by the theorems)']
FINGERPRINT = {'cellmlmanip/parser.py': ['Transpiler._cn_handler', 'Parser._transform_constants'],
               'cellmlmanip/model.py': ['FLOAT_PRECISION', 'Quantity.__init__', 'Quantity.__float__',
                                        'Quantity._eval_evalf', 'Variable.__init__', 'Model._get_value',
                                        'Model.graph_with_sympy_numbers', 'Model.create_quantity'],
               'cellmlmanip/printer.py': ['Printer._print_float', 'Printer._print_Float']}

MAXD = (2 ** 53 - 1) * 2 ** 971
INF_BITS = 0x7ff0000000000000
NEG0 = 0x8000000000000000


# ---------------------------------------------------------------------------------------------- exact reference
_WS = ' \t\n\r\x0b\x0c'
_DEC = re.compile(r'^([+-]?)(?:(\d+)(?:\.(\d*))?|\.(\d+))(?:[eE]([+-]?\d+))?$', re.ASCII)
_INT = re.compile(r'^([+-]?)(\d+)$', re.ASCII)


def parse_decimal(text):
    """text -> (negative, Fraction magnitude) or None; grammar of finite decimal literals, exact."""
    m = _DEC.match(text.strip(_WS))
    if not m:
        return None
    sign, ip, fp, fp2, ex = m.groups()
    frac = fp if fp is not None else (fp2 or '')
    digits = (ip or '') + frac
    k = int(ex or 0) - len(frac)
    mag = Fraction(int(digits)) * (Fraction(10) ** k)
    return sign == '-', mag


def nearest_bits(x):
    """magnitude bits of the double nearest to the positive Fraction x, ties to even, overflow to infinity."""
    if x == 0:
        return 0
    e = x.numerator.bit_length() - x.denominator.bit_length()
    while Fraction(2) ** e > x:
        e -= 1
    while Fraction(2) ** (e + 1) <= x:
        e += 1
    lsb = max(e - 52, -1074)
    q = x / (Fraction(2) ** lsb)
    n = q.numerator // q.denominator
    rem = q - n
    half = Fraction(1, 2)
    if rem > half or (rem == half and n % 2 == 1):
        n += 1
    if n == 2 ** 53:
        n, lsb = 2 ** 52, lsb + 1
    if n < 2 ** 52:
        return n
    field = lsb + 52 + 1023
    if field >= 2047:
        return INF_BITS
    return (field << 52) | (n - 2 ** 52)


def exact_bits(text):
    p = parse_decimal(text)
    if p is None:
        return None
    neg, mag = p
    return nearest_bits(mag) | (NEG0 if neg else 0)


def exact_bits_enot(mant, expo):
    p = parse_decimal(mant)
    m = _INT.match(expo.strip(_WS))
    if p is None or m is None or re.search('[eE]', mant):
        return None
    neg, mag = p
    return nearest_bits(mag * Fraction(10) ** int(m.group(1) + m.group(2))) | (NEG0 if neg else 0)


def needs_rounding(lit):
    if lit['kind'] == 'enot':
        p = parse_decimal(lit['mant'])
        m = _INT.match(lit['exp'].strip(_WS))
        if p is None or m is None:
            return False
        x = p[1] * Fraction(10) ** int(m.group(1) + m.group(2))
    else:
        p = parse_decimal(lit['text'])
        if p is None:
            return False
        x = p[1]
    b = nearest_bits(x)
    return b >= INF_BITS or bits_fraction(b) != x


def bits_fraction(b):
    """exact value of a finite bit pattern"""
    mag = b & (NEG0 - 1)
    e, f = mag >> 52, mag & (2 ** 52 - 1)
    v = Fraction(f, 2 ** 1074) if e == 0 else Fraction(2 ** 52 + f) * Fraction(2) ** (e - 1075)
    return -v if b & NEG0 else v


def fbits(x):
    return struct.unpack('>Q', struct.pack('>d', x))[0]


def bits_float(b):
    return struct.unpack('>d', struct.pack('>Q', b))[0]


def hx(b):
    return '0x%016x' % b


# ---------------------------------------------------------------------------------------------- generator
def dec_triple(x):
    """a finite float -> (digits, k) of its shortest repr: |x| = int(digits) * 10**k"""
    r = repr(abs(x))
    m = re.match(r'^(\d+)(?:\.(\d*))?(?:e([+-]?\d+))?$', r)
    ip, fp, ex = m.group(1), m.group(2) or '', int(m.group(3) or 0)
    digits = (ip + fp).lstrip('0') or '0'
    return digits, ex - len(fp)


def exact_triple(fr):
    """a non-negative Fraction with a power-of-two denominator -> (digits, k), exact"""
    num, den = fr.numerator, fr.denominator
    k = 0
    while den % 2 == 0:
        den //= 2
        num *= 5
        k -= 1
    assert den == 1
    return str(num), k


def spell_plain(rng, digits, k):
    """one of the plain spellings of int(digits) * 10**k"""
    n = len(digits)
    style = rng.random()
    if style < 0.45 and -30 <= k <= 25 and n + abs(k) <= 60:       # positional
        if k >= 0:
            s = digits + '0' * k + rng.choice(['', '.', '.0', '.000'])
        elif -k < n:
            s = digits[:n + k] + '.' + digits[n + k:] + rng.choice(['', '', '0', '000'])
        else:
            s = rng.choice(['0', '', '00']) + '.' + '0' * (-k - n) + digits + rng.choice(['', '0'])
        if s.startswith('.') and not re.search(r'\d', s[1:]):
            s = '0' + s
    else:                                                           # scientific, point anywhere
        f = rng.choice([0, n - 1, n - 1, n - 1, rng.randrange(0, n + 4)])
        ex = k + f
        mant = digits[:n - f] + '.' + digits[n - f:] if f < n else rng.choice(['0.', '.']) + '0' * (f - n) + digits
        if f == 0:
            mant = digits + rng.choice(['', '.', '.0'])
        es = ('%d' % ex) if rng.random() < 0.6 else ('%+03d' % ex)
        s = mant + rng.choice(['e', 'e', 'E']) + es
    if rng.random() < 0.15:
        s = rng.choice(['0', '00']) + s if s[0].isdigit() else s
    return s


def spell_enot(rng, digits, k):
    """mantissa / exponent with a random split of the power of ten"""
    n = len(digits)
    f = rng.choice([0, n - 1, n - 1, rng.randrange(0, n + 6), max(0, n - 1 + rng.randrange(-8, 9))])
    ex = k + f
    if f == 0:
        z = rng.choice([0, 0, 1, 3]) if k > -300 else 0
        mant, ex = digits + '0' * z + rng.choice(['', '.', '.0']), k - z
    elif f < n:
        mant = digits[:n - f] + '.' + digits[n - f:]
    else:
        mant = rng.choice(['0.', '.', '00.']) + '0' * (f - n) + digits
    r = rng.random()
    es = ('%d' % ex) if r < 0.6 else ('%+d' % ex) if r < 0.8 else ('%+04d' % ex)
    if rng.random() < 0.15:
        es = ' ' + es + rng.choice(['', ' ', '\t'])
    return mant, es


def pad(rng, s):
    r = rng.random()
    if r < 0.08:
        return ' ' + s
    if r < 0.16:
        return s + ' '
    if r < 0.2:
        return ' \t' + s + '  '
    return s


def long_form(rng, b):
    """25-40 significant digits around the double with pattern b: exact expansion cut, or cut + random tail"""
    digits, k = exact_triple(abs(bits_fraction(b)))
    want = rng.randrange(25, 41)
    if len(digits) > want:
        cut = len(digits) - want
        digits, k = digits[:want], k + cut
        if rng.random() < 0.5:
            tail = ''.join(rng.choice('0123456789') for _ in range(rng.randrange(1, 6)))
            digits, k = digits + tail, k - len(tail)
    else:
        z = want - len(digits)
        digits, k = digits + '0' * z, k - z
    return digits.lstrip('0') or '0', k


def rand_finite_bits(rng):
    while True:
        b = rng.getrandbits(63)
        if b < INF_BITS:
            return b


def gen_value(rng):
    """-> (category, negative, digits, k)"""
    neg = rng.random() < 0.3
    c = rng.random()
    if c < 0.22:                                                    # random bit pattern, shortest spelling
        b = rand_finite_bits(rng)
        return ('randbits', neg) + dec_triple(bits_float(b))
    if c < 0.34:                                                    # random bit pattern, 25-40 digits
        return ('long', neg) + long_form(rng, rand_finite_bits(rng))
    if c < 0.42:                                                    # moderate magnitudes (as in real models)
        e = rng.randrange(1023 - 40, 1023 + 40)
        b = (e << 52) | rng.getrandbits(52)
        if rng.random() < 0.5:
            return ('moderate', neg) + dec_triple(bits_float(b))
        return ('moderate-long', neg) + long_form(rng, b)
    if c < 0.50:                                                    # subnormals
        b = rng.getrandbits(rng.choice([1, 8, 30, 52, 52, 52]))
        if rng.random() < 0.6:
            return ('subnormal', neg) + dec_triple(bits_float(b))
        return ('subnormal-long', neg) + long_form(rng, b)
    if c < 0.58:                                                    # 17 significant digits in the shortest form
        for _ in range(50):
            b = rand_finite_bits(rng) if rng.random() < 0.5 else ((rng.randrange(900, 1150) << 52) | rng.getrandbits(52))
            d, k = dec_triple(bits_float(b))
            if len(d) == 17:
                return ('seventeen', neg, d, k)
        return ('randbits', neg, d, k)
    if c < 0.68:                                                    # integers beyond 2^53
        r = rng.random()
        if r < 0.3:
            n = 2 ** 53 + rng.randrange(0, 64)
        elif r < 0.6:
            n = rng.randrange(2 ** 53, 2 ** 70)
        elif r < 0.8:
            t = rng.randrange(53, 200)
            n = 2 ** t + rng.choice([0, 1, -1, 2 ** (t - 53), 2 ** (t - 53) + 1, 2 ** (t - 53) - 1, 3 * 2 ** (t - 53)])
        else:
            n = rng.randrange(10 ** 49, 10 ** 50)
        return ('bigint', neg, str(n), 0)
    if c < 0.82:                                                    # halfway between adjacent doubles, and next to it
        r = rng.random()
        if r < 0.6:
            e = rng.randrange(1023 - 60, 1023 + 70)
        elif r < 0.8:
            e = rng.randrange(0, 3)                                 # subnormal / first binades
        else:
            e = rng.randrange(2040, 2047)
        b = (e << 52) | rng.getrandbits(52)
        if rng.random() < 0.2:
            b |= 2 ** 52 - 1                                        # carry into the exponent
        if b >= INF_BITS - 1:
            b = INF_BITS - 2
        mid = (bits_fraction(b) + bits_fraction(b + 1)) / 2
        digits, k = exact_triple(mid)
        r = rng.random()
        if r < 0.4:
            return ('halfway', neg, digits, k)
        if r < 0.7:
            tail = '0' * rng.randrange(0, 20) + '1'
            return ('halfway+', neg, digits + tail, k - len(tail))
        tail = '9' * rng.randrange(1, 20)
        return ('halfway-', neg, str(int(digits) - 1) + tail, k - len(tail))
    if c < 0.90:                                                    # extremes
        name, fr = rng.choice([
            ('max', Fraction(MAXD)),
            ('to-inf', Fraction((2 ** 54 - 1) * 2 ** 970)),          # halfway to 2^1024: rounds to infinity
            ('below-to-inf', Fraction((2 ** 54 - 1) * 2 ** 970) - 1),
            ('above-to-inf', Fraction((2 ** 54 - 1) * 2 ** 970) + 1),
            ('min-sub', Fraction(1, 2 ** 1074)),
            ('half-min-sub', Fraction(1, 2 ** 1075)),                # tie between 0 and the smallest subnormal: 0
            ('min-normal', Fraction(1, 2 ** 1022)),
            ('max-sub', Fraction(2 ** 52 - 1, 2 ** 1074)),
            ('sub-normal-mid', Fraction(2 ** 53 - 1, 2 ** 1075)),    # tie between largest subnormal and smallest normal
            ('three-half-min-sub', Fraction(3, 2 ** 1075)),          # tie between 1 and 2 units: 2
        ])
        digits, k = exact_triple(fr)
        r = rng.random()
        if r < 0.5:
            return ('extreme:' + name, neg, digits, k)
        if r < 0.75:
            tail = '0' * rng.randrange(0, 5) + '1'
            return ('extreme:' + name + '+', neg, digits + tail, k - len(tail))
        tail = '9' * rng.randrange(1, 5)
        return ('extreme:' + name + '-', neg, str(int(digits) - 1) + tail, k - len(tail))
    if c < 0.94:                                                    # short everyday numbers
        d = str(rng.randrange(0, 10 ** rng.randrange(1, 8)))
        return ('short', neg, d, rng.randrange(-8, 6))
    if c < 0.97:                                                    # zeros and underflow
        if rng.random() < 0.5:
            return ('zero', neg, '0', rng.choice([0, 0, -3, 5, -400]))
        return ('underflow', neg, str(rng.randrange(1, 10 ** 6)), rng.randrange(-420, -335))
    return ('powers-of-ten', neg, '1', rng.randrange(-330, 309))


def make_literal(rng):
    v = gen_value(rng)
    cat, neg, digits, k = v
    sign = '-' if neg else ('+' if rng.random() < 0.08 else '')
    kind = rng.choices(['cn', 'enot', 'init', 'state'], [45, 27, 18, 10])[0]
    if kind == 'enot':
        mant, es = spell_enot(rng, digits, k)
        return {'kind': 'enot', 'mant': pad(rng, sign + mant), 'exp': es, 'cat': cat}
    text = sign + spell_plain(rng, digits, k)
    return {'kind': kind, 'text': pad(rng, text), 'cat': cat}


MALFORMED = ['1e', '.', 'e5', '1.2.3', '--1', '1 2', '0x10', '1d5', '1,5', '+', '1e+', '1e5.0', '1.5f', '', '- 1',
             '1e 5', '1..', 'abc']


def gen(rng, n, tier):
    for i in range(n):
        if i % 15 == 4:                                             # the malformed stream: ~7% of the documents
            bad = rng.choice(MALFORMED)
            if rng.random() < 0.5:
                lit = {'kind': 'cn', 'text': bad, 'cat': 'malformed'}
            else:
                good = rng.choice(['1.5', '2', '-0.25'])
                lit = rng.choice([{'kind': 'enot', 'mant': bad, 'exp': '3', 'cat': 'malformed'},
                                  {'kind': 'enot', 'mant': good, 'exp': rng.choice(['', '1.0', 'e', '2e1', '+-3', '1 0']),
                                   'cat': 'malformed'},
                                  {'kind': 'enot', 'mant': good + 'e2', 'exp': '3', 'cat': 'malformed'}])
            yield {'lits': [lit], 'extras': gen_extras(rng)}
            continue
        lits = [make_literal(rng) for _ in range(LITS_PER_DOC)]
        yield {'lits': lits, 'extras': gen_extras(rng)}


def gen_extras(rng):
    """small side correspondences of the auxiliary model functions: dps_to_prec, exact value of a pattern, evalf at
    other precisions (where it does round), and the two-step contrast"""
    ev = []
    for _ in range(4):
        e = rng.randrange(1023 - 50, 1023 + 50)
        ev.append([rng.choice([3, 7, 10, 12, 13, 14, 15, 16, 17, 20]), hx((e << 52) | rng.getrandbits(52) | (rng.getrandbits(1) << 63))])
    ev.append([rng.choice([10, 14, 15, 17]), hx(rng.getrandbits(rng.choice([4, 30, 52])) | (rng.getrandbits(1) << 63))])
    two = []
    for _ in range(3):
        d = str(rng.randrange(1, 10 ** rng.randrange(1, 18)))
        f = rng.randrange(0, len(d) + 3)
        mant = (d[:len(d) - f] + '.' + d[len(d) - f:]) if f < len(d) else '0.' + '0' * (f - len(d)) + d
        two.append([mant, rng.randrange(0, 23)])
    return {'dps': [rng.randrange(0, 400) for _ in range(6)] + [17],
            'value': [hx(rand_finite_bits(rng) | (rng.getrandbits(1) << 63)) for _ in range(3)],
            'evalf': ev, 'twostep': two}


def corpus():
    lits = [
        {'kind': 'cn', 'text': '0.1', 'cat': 'corpus'},
        {'kind': 'cn', 'text': '9007199254740993', 'cat': 'corpus'},                 # 2^53 + 1: tie, to even
        {'kind': 'cn', 'text': '9007199254740995', 'cat': 'corpus'},                 # 2^53 + 3: tie, to even (up)
        {'kind': 'cn', 'text': '1.7976931348623157e308', 'cat': 'corpus'},
        {'kind': 'cn', 'text': '17976931348623158079372897140530341507993413271003782693617377898044496829276475094664901797758720709633028641669288791094655554785194040263065748867150582068190890200070838367627385484581771153176447573027006985557136695962284291481986083493647529271907416844436551070434271155969950809304288017790417449779.1', 'cat': 'corpus'},
        {'kind': 'cn', 'text': '5e-324', 'cat': 'corpus'},
        {'kind': 'cn', 'text': '2.4703282292062328e-324', 'cat': 'corpus'},
        {'kind': 'cn', 'text': '2.4703282292062327e-324', 'cat': 'corpus'},
        {'kind': 'cn', 'text': '2.2250738585072014e-308', 'cat': 'corpus'},
        {'kind': 'cn', 'text': '2.2250738585072011e-308', 'cat': 'corpus'},                # the famous slow-path literal
        {'kind': 'enot', 'mant': '0.14', 'exp': '1', 'cat': 'corpus'},                      # two-step reading differs
        {'kind': 'enot', 'mant': ' 12.5 ', 'exp': ' +07 ', 'cat': 'corpus'},
        {'kind': 'enot', 'mant': '8.5', 'exp': '-324', 'cat': 'corpus'},
        {'kind': 'enot', 'mant': '17976931348623157', 'exp': '292', 'cat': 'corpus'},
        {'kind': 'init', 'text': '0.30000000000000004', 'cat': 'corpus'},
        {'kind': 'init', 'text': '123456789012345678901234567890', 'cat': 'corpus'},
        {'kind': 'state', 'text': '-4.9406564584124654e-324', 'cat': 'corpus'},
        {'kind': 'state', 'text': '0.1e-1', 'cat': 'corpus'},
        {'kind': 'cn', 'text': '0', 'cat': 'corpus'},
        {'kind': 'cn', 'text': '0.0', 'cat': 'corpus'},
        {'kind': 'cn', 'text': '1e-400', 'cat': 'corpus'},
        {'kind': 'cn', 'text': '1E23', 'cat': 'corpus'},
        {'kind': 'cn', 'text': '8.41e21', 'cat': 'corpus'},
        {'kind': 'cn', 'text': '1.8e308', 'cat': 'corpus'},                            # rounds to infinity
    ]
    ex = {'dps': [0, 1, 13, 14, 15, 16, 17, 60, 64], 'value': [hx(1), hx(MAXD.bit_length() and fbits(1.7976931348623157e308)), hx(fbits(-0.1))],
          'evalf': [[14, hx(fbits(0.1))], [15, hx(fbits(0.1))], [17, hx(fbits(0.1))], [3, hx(fbits(-1234.5678))]],
          'twostep': [['0.14', 1], ['0.7', 1], ['1.5', 22]]}
    return [{'lits': lits, 'extras': ex}]


# ---------------------------------------------------------------------------------------------- implementation
def xml_attr(s):
    return s.replace('&', '&amp;').replace('<', '&lt;').replace('"', '&quot;').replace('\t', '&#9;')


def xml_text(s):
    return s.replace('&', '&amp;').replace('<', '&lt;')


def document(lits):
    vs = ['<variable name="t" units="dimensionless"/>']
    eqs = []
    for i, l in enumerate(lits):
        n = 'v%d' % i
        if l['kind'] in ('init', 'state'):
            vs.append('<variable name="%s" units="dimensionless" initial_value="%s"/>' % (n, xml_attr(l['text'])))
            if l['kind'] == 'state':
                eqs.append('<apply><eq/><apply><diff/><bvar><ci>t</ci></bvar><ci>%s</ci></apply>'
                           '<cn cellml:units="dimensionless">1</cn></apply>' % n)
        elif l['kind'] == 'cn':
            vs.append('<variable name="%s" units="dimensionless"/>' % n)
            eqs.append('<apply><eq/><ci>%s</ci><cn cellml:units="dimensionless">%s</cn></apply>' % (n, xml_text(l['text'])))
        else:
            vs.append('<variable name="%s" units="dimensionless"/>' % n)
            eqs.append('<apply><eq/><ci>%s</ci><cn cellml:units="dimensionless" type="e-notation">%s<sep/>%s</cn></apply>'
                       % (n, xml_text(l['mant']), xml_text(l['exp'])))
    return ('<?xml version="1.0" encoding="utf-8"?>\n<model name="m" xmlns="http://www.cellml.org/cellml/1.0#" '
            'xmlns:cellml="http://www.cellml.org/cellml/1.0#">\n<component name="c">\n' + '\n'.join(vs) +
            '\n<math xmlns="http://www.w3.org/1998/Math/MathML">\n' + '\n'.join(eqs) +
            '\n</math>\n</component>\n</model>\n')


def impl(case):
    import sympy
    import cellmlmanip
    from cellmlmanip.model import FLOAT_PRECISION, Quantity, Variable
    from cellmlmanip.printer import Printer
    from sympy.core.evalf import dps_to_prec

    out = {'float_precision': FLOAT_PRECISION, 'float_prec_bits': sympy.Float(1.0, FLOAT_PRECISION)._prec}
    ex = case.get('extras') or {}
    out['dps'] = [dps_to_prec(d) for d in ex.get('dps', [])]
    out['value'] = []
    for h in ex.get('value', []):
        fr = Fraction(bits_float(int(h, 16)))            # CPython's exact float -> ratio
        out['value'].append('%d/%d' % (fr.numerator, fr.denominator) if fr.denominator != 1 else str(fr.numerator))
    out['twostep'] = [hx(fbits(float(m) * 10 ** e)) for m, e in ex.get('twostep', [])]

    fd, path = tempfile.mkstemp(suffix='.cellml', prefix='c14_')
    try:
        with os.fdopen(fd, 'w', encoding='utf-8') as f:
            f.write(document(case['lits']))
        try:
            model = cellmlmanip.load_model(path)
        except Exception as e:
            out['load'] = 'err:' + type(e).__name__
            return out
    finally:
        try:
            os.remove(path)
        except OSError:
            pass
    out['load'] = 'ok'
    out['evalf'] = []
    dimless = model.units.get_unit('dimensionless')
    for fp, h in ex.get('evalf', []):
        try:
            q = model.create_quantity(bits_float(int(h, 16)), dimless)
            out['evalf'].append(hx(fbits(float(q.evalf(fp)))))
        except Exception as e:
            out['evalf'].append('err:' + type(e).__name__)
    printer = Printer()
    variables = [model.get_variable_by_name('c$v%d' % i) for i in range(len(case['lits']))]
    defined = [v for v, l in zip(variables, case['lits']) if l['kind'] != 'state']
    stripped = {}
    try:
        for eq in model.get_equations_for(defined, strip_units=True):
            if isinstance(eq, sympy.Eq):
                stripped[eq.lhs] = eq.rhs
    except Exception as e:
        out['stripped_error'] = 'err:' + type(e).__name__
    res = []
    for v, l in zip(variables, case['lits']):
        o = {}
        try:
            o['gv'] = hx(fbits(float(model.get_value(v))))
            if l['kind'] == 'state':
                o['iv'] = hx(fbits(v.initial_value))
                o['iv_type'] = type(v.initial_value).__name__
                o['printed_iv'] = printer.doprint(v.initial_value)
            else:
                rhs = model.get_definition(v).rhs
                o['q_type'] = type(rhs).__name__
                o['q'] = hx(fbits(float(rhs)))
                o['q_str'] = str(rhs)
                o['printed_q'] = printer.doprint(rhs)
                if v in stripped:
                    s = stripped[v]
                    o['st_type'] = type(s).__name__
                    o['st'] = hx(fbits(float(s)))
                    o['printed'] = printer.doprint(s)
        except Exception as e:
            o['err'] = 'err:' + type(e).__name__ + ':' + str(e)[:80]
        res.append(o)
    out['lits'] = res
    return out


# ---------------------------------------------------------------------------------------------- model
def emitted_texts(l, o):
    if l['kind'] == 'state':
        return [o[k] for k in ('printed_iv',) if k in o]
    return [o[k] for k in ('q_str', 'printed_q', 'printed') if k in o]


def requests(case, obs):
    reqs = []
    ex = case.get('extras') or {}
    for d in ex.get('dps', []):
        reqs.append(sx(['C14', 'prec', d]))
    reqs.append(sx(['C14', 'prec', obs['float_precision']]))
    for h in ex.get('value', []):
        reqs.append(sx(['C14', 'value', h]))
    for m, e in ex.get('twostep', []):
        reqs.append(sx(['C14', 'twostep', Str(m), e]))
    if obs.get('load') == 'ok':
        for fp, h in ex.get('evalf', []):
            reqs.append(sx(['C14', 'evalf', fp, h]))
    for i, l in enumerate(case['lits']):
        o = obs['lits'][i] if obs.get('load') == 'ok' else {}
        src = ['enot', Str(l['mant']), Str(l['exp'])] if l['kind'] == 'enot' else \
            ['init' if l['kind'] in ('init', 'state') else 'plain', Str(l['text'])]
        reqs.append(sx(['C14', 'lit', src, ['emitted'] + [Str(t) for t in emitted_texts(l, o)]]))
    return reqs


def compare(case, obs, replies):
    ex = case.get('extras') or {}
    it = iter(replies)
    for d, want in zip(ex.get('dps', []), obs['dps']):
        r = next(it)
        if r != ['prec', str(want)]:
            return 'dps_to_prec(%d): sympy %s, model %s' % (d, want, r)
    r = next(it)
    if r != ['prec', str(obs['float_prec_bits'])]:
        return 'precision of sympy.Float(x, FLOAT_PRECISION=%s): sympy %s bits, model %s' % (
            obs['float_precision'], obs['float_prec_bits'], r)
    for h, want in zip(ex.get('value', []), obs['value']):
        r = next(it)
        if r != ['value', want]:
            return 'exact value of %s: CPython %s, model %s' % (h, want, r)
    for (m, e), want in zip(ex.get('twostep', []), obs['twostep']):
        r = next(it)
        if r != ['bits', want]:
            return 'float(%r) * 10**%d: CPython %s, model %s' % (m, e, want, r)
    if obs.get('load') == 'ok':
        for (fp, h), want in zip(ex.get('evalf', []), obs['evalf']):
            r = next(it)
            if r != ['bits', want]:
                return 'float(Quantity(%s).evalf(%d)): sympy %s, model %s' % (h, fp, want, r)
    lit_replies = list(it)
    if obs.get('load') != 'ok':
        # the implementation refused the document: the model must refuse at least one literal
        if all(isinstance(r, list) and r and r[0] == 'ok' for r in lit_replies):
            return 'document refused (%s) but the model reads every literal: %s' % (
                obs.get('load'), [l.get('text', l.get('mant')) for l in case['lits']][:3])
        return None
    for i, (l, o, r) in enumerate(zip(case['lits'], obs['lits'], lit_replies)):
        name = 'v%d %s %r' % (i, l['kind'], l.get('text', (l.get('mant'), l.get('exp'))))
        if not (isinstance(r, list) and r and r[0] == 'ok'):
            return '%s: loaded by the implementation, refused by the model (%s)' % (name, r)
        m = {k: v for k, v in (x for x in r[1:] if x[0] != 'emitted')}
        em = [x for x in r[1:] if x[0] == 'emitted'][0][1:]
        nonfinite = m['source'] in (hx(INF_BITS), hx(INF_BITS | NEG0))
        if 'err' in o:
            if nonfinite:
                continue        # an infinite number makes sympy fold the equation away; outside the property
            return '%s: implementation raised %s' % (name, o['err'])
        pairs = [('get_value', o.get('gv'), m['getvalue'])]
        if nonfinite:           # the literal overflows: only the stored double is compared ('inf' is not a decimal text)
            pairs.append(('quantity', o.get('iv') if l['kind'] == 'state' else o.get('q'), m['quantity']))
            for what, impl_bits, model_bits in pairs:
                if impl_bits != model_bits:
                    return '%s: %s: implementation %s, model %s' % (name, what, impl_bits, model_bits)
            continue
        if l['kind'] == 'state':
            pairs.append(('initial_value', o.get('iv'), m['quantity']))
            pairs += [('printed initial_value %r' % t, o.get('iv'), b) for t, b in zip(emitted_texts(l, o), em)]
        else:
            pairs.append(('quantity', o.get('q'), m['quantity']))
            texts = emitted_texts(l, o)
            if 'st' in o:
                pairs.append(('stripped', o['st'], m['stripped']))
                # text printed from the stripped equation: reads back as the stripped number
                pairs.append(('printed %r' % o['printed'], o['st'], em[len(texts) - 1]))
                texts_q = texts[:-1]
            else:
                texts_q = texts
            pairs += [('text of the quantity %r' % t, o.get('q'), b) for t, b in zip(texts_q, em)]
        for what, impl_bits, model_bits in pairs:
            if impl_bits != model_bits:
                return '%s: %s: implementation %s, model %s' % (name, what, impl_bits, model_bits)
    return None


# ---------------------------------------------------------------------------------------------- property oracle
def oracle(case, obs):
    """Every observed double equals the exactly rounded value of the source text, bit for bit; every emitted text,
    exactly rounded, is that double again. Reference: Fraction arithmetic above, not float()."""
    fails = []
    if obs.get('load') != 'ok':
        bad = [l for l in case['lits'] if (exact_bits_enot(l['mant'], l['exp']) if l['kind'] == 'enot'
                                          else exact_bits(l['text'])) is None]
        if not bad:
            fails.append({'key': 'finite-literal-refused', 'detail': 'document of finite decimal literals refused: %s'
                          % obs.get('load')})
        return fails
    for i, (l, o) in enumerate(zip(case['lits'], obs['lits'])):
        want = exact_bits_enot(l['mant'], l['exp']) if l['kind'] == 'enot' else exact_bits(l['text'])
        name = 'v%d %s %r' % (i, l['kind'], l.get('text', (l.get('mant'), l.get('exp'))))
        if want is None:
            continue    # not a finite decimal literal (what float() accepts beyond that grammar is the business of C02)
        nonfinite = (want & (NEG0 - 1)) >= INF_BITS
        if 'err' in o:
            if not nonfinite:
                fails.append({'key': 'observation-error', 'detail': '%s: %s' % (name, o['err'])})
            continue
        negzero = want == NEG0
        seen = [('get_value', o.get('gv'))]
        if l['kind'] == 'state':
            seen.append(('initial_value', o.get('iv')))
            if not nonfinite:
                b = exact_bits(o['printed_iv'])
                seen.append(('printed-initial_value', hx(b) if b is not None else 'unreadable:' + o['printed_iv']))
        else:
            seen.append(('quantity', o.get('q')))
            if nonfinite:
                seen = seen[:2]
            else:
                for k, where in (('q_str', 'str-quantity'), ('printed_q', 'printed-quantity'), ('printed', 'printed')):
                    if k in o:
                        b = exact_bits(o[k])
                        seen.append((where, hx(b) if b is not None else 'unreadable:' + o[k]))
                seen.append(('stripped', o.get('st', 'missing')))
        for where, got in seen:
            if got != hx(want):
                if negzero and got == hx(0) and where in ('stripped', 'printed'):
                    key = 'negative-zero-sign-lost:' + where
                else:
                    key = 'bits-differ:' + where
                fails.append({'key': key, 'detail': '%s: %s is %s, the nearest double to the text is %s'
                              % (name, where, got, hx(want))})
    return fails[:8]


def nontrivial(case, obs):
    return obs.get('load') == 'ok' and sum(1 for l in case['lits'] if needs_rounding(l)) >= 10


def tag(case, obs):
    if obs.get('load') != 'ok':
        return 'refused:' + str(obs.get('load'))
    kinds = sorted({l['kind'] for l in case['lits']})
    return 'loaded lits=%d kinds=%s' % (len(case['lits']), '+'.join(kinds))


def shrink(v):
    """reduce a failing document to one failing literal"""
    case, best = v['case'], None
    for l in case['lits']:
        c = {'lits': [l], 'extras': {}}
        o = impl(c)
        f = oracle(c, o)
        if f:
            best = {'case': c, 'failures': f, 'obs': o}
            break
    return best


MANIFEST = {
    'technique': 'Lean 4 theorems over an exact from-scratch binary64 model + bit-exact differential correspondence',
    'text': ('Proved in Lean (lean/Cellml/Props/C14.lean over lean/Cellml/C14/*.lean, core Lean, standard axioms only) for '
             'ALL rationals / texts / bit patterns: roundDivEven_correct (within half a unit, even on ties, identity on '
             'exact multiples); round_nearest (the double returned for num/den is at least as close as every finite '
             'double, within half a unit of the spacing, even on exact ties — normal range, subnormal range and zero '
             'alike), round_nearest_text (the same for every parsed decimal literal), round_overflow (infinity exactly '
             'from the halfway point above the largest double, iff), round_representable (bits -> exact value -> bits '
             'is the identity); widen_narrow_id (float(quantity.evalf(FLOAT_PRECISION)) is the identity on every finite '
             'non-zero double: the 216-bit and 60-bit sympy.Float steps and the 53-bit step of float() do not round, '
             'stated over the translated FLOAT_PRECISION with 53 <= dps_to_prec(FLOAT_PRECISION) by decide, sharp: 14 '
             'digits round, proved witness); pipeline_id_partial (plain <cn>, e-notation <cn>, initial_value -> Quantity '
             '-> get_value -> stripped equation are the identity on bit patterns, so the composite is decToBits of the '
             'ONE source text; generated_code_bits: any emitted text that reads back as the stripped number denotes the '
             'double of the source text); enotation_single (mantissa<sep/>exponent is rounded once: the double nearest to '
             'the exact product, for every mantissa/exponent text; two_step_differs: float(m)*10**e is a different '
             'double for 0.14<sep/>1). Tie: bit-exact correspondence on generated documents (random bit patterns, '
             'subnormals, extremes and halfway points, integers beyond 2^53, 17-digit forms, 25-40 digit spellings, '
             'both spellings) of source text and every emitted text, plus dps_to_prec, exact values, evalf at other '
             'precisions and the two-step product; independent Fraction oracle.'),
    'note': ('pipeline_id is _partial: a literal whose nearest double is -0.0 loses its sign bit in the stripped equations '
             'and the printed code (sympy has no signed zero) — known finding negative-zero-sign-lost, proved '
             'counterexample pipeline_negzero_sign_lost. Literals that overflow to infinity are outside the property '
             '(sympy folds the equation away); only their Quantity/get_value are compared. Trusted: Lean kernel; '
             'propext, Classical.choice, Quot.sound; the translator for FLOAT_PRECISION; the harness. CPython float()/'
             'repr, sympy Float/evalf, mpmath are modelled and compared bit for bit, not verified.'),
}
