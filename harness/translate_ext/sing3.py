"""Extension of the code translator for the Sing3 package (the rest of `_get_singularity` of _singularity_fixes.py).

`Sing3Fn` (a subclass of `sing2.BlockFn`, so the spec key `'block': '<loop target>'` still selects ONE `for` statement of
the function as the translated text) adds four rules; everything else defers to `translate_code.Fn`:

 * `for … else` (python runs the `else` suite when the loop ended WITHOUT `break`): a flag `broke_<target>__` is declared
   before the loop, every `break` that belongs to this loop first sets it, and the `else` suite is emitted after the loop
   under `if !broke_<target>__ then`.

 * in-place update of the element a loop visits (spec key `'inplace_for': {'<target>': {'list': '<name>', 'fields':
   [f0, f1, …]}}`): python's `for sing in singularities: … sing[0] = X` mutates the element OF THE LIST (aliasing). The
   loop is emitted as `for (<t>0__, <t>_i__) in (<list>).zipIdx do  let mut <t> := <t>0__`, a read `<t>[k]` becomes
   `(<t>).f_k`, and an assignment `<t>[k] = X` becomes `<t> := { <t> with f_k := X }` followed by the write-back
   `<list> := (<list>).set <t>_i__ <t>`. This is python's semantics as long as the body does not touch `<list>` in any
   other way (then the element at position i when the iterator reaches it is the one the snapshot holds): the rule checks
   that the body never mentions `<list>` and raises a translation error otherwise. (The `else` suite may: it runs after
   the loop.)

 * a `for` over a literal tuple (`for a, b in ((x, y), (y, x)):`), and `all(… for v in (p, q, r))`: the tuple is a
   container, written as a Lean list (as `translate_code.Fn.container` does for `in`).

 * spec key `'call_blocks': {'<target>': {'state': [names…], 'call': '<lean call text>'}}`: the `for` statement whose
   target is `<target>` is translated as a function of its own (another spec of the group with `'block': '<target>'`), and
   in THIS function the statement becomes `state ← call`. Soundness check (translation error when violated): every name
   the loop binds or mutates (assignment targets, the loop targets, `x.append(…)` receivers, `x[i] = …` bases) that is READ
   anywhere else in the function must be listed in `state`; names bound by a comprehension are local to it.
"""
import ast
import copy

import sys

from translate_code import TranslationError, mangle, src
from translate_ext.sing2 import BlockFn

# when the translator runs as a script its own `TranslationError` is `__main__.TranslationError`, not the one of the
# imported module `translate_code` that this extension (and `Fn`) raise: re-raise as the class the driver catches
_MAIN_TE = getattr(sys.modules.get('__main__'), 'TranslationError', TranslationError)


def _mutated(nodes):
    out = set()
    for root in nodes:
        for x in ast.walk(root):
            if isinstance(x, ast.Name) and isinstance(x.ctx, ast.Store):
                out.add(x.id)
            elif isinstance(x, (ast.Subscript, ast.Attribute)) and isinstance(x.ctx, ast.Store):
                b = x
                while isinstance(b, (ast.Subscript, ast.Attribute)):
                    b = b.value
                if isinstance(b, ast.Name):
                    out.add(b.id)
            elif isinstance(x, ast.Call) and isinstance(x.func, ast.Attribute) and \
                    x.func.attr in ('append', 'extend', 'insert', 'pop', 'remove', 'clear', 'sort', 'reverse', 'update',
                                    'add', 'discard', 'setdefault') and isinstance(x.func.value, ast.Name):
                out.add(x.func.value.id)
    return out


def _loads_outside(func, block):
    """names READ in `func` outside the statement `block` (comprehension-bound names are local to the comprehension)"""
    inside = {id(x) for x in ast.walk(block)}
    out = set()

    def visit(n, bound):
        if id(n) in inside:
            return
        if isinstance(n, (ast.ListComp, ast.SetComp, ast.GeneratorExp, ast.DictComp)):
            local = set(bound)
            for g in n.generators:
                for t in ast.walk(g.target):
                    if isinstance(t, ast.Name):
                        local.add(t.id)
            for c in ast.iter_child_nodes(n):
                visit(c, local)
            return
        if isinstance(n, (ast.FunctionDef, ast.Lambda)) and n is not func:
            local = set(bound) | {a.arg for a in n.args.args + n.args.kwonlyargs + n.args.posonlyargs}
            for c in ast.iter_child_nodes(n):
                visit(c, local)
            return
        if isinstance(n, ast.Name) and isinstance(n.ctx, ast.Load) and n.id not in bound:
            out.add(n.id)
        for c in ast.iter_child_nodes(n):
            visit(c, bound)
    visit(func, set())
    return out


class Sing3Fn(BlockFn):
    def __init__(self, spec, node):
        self.full_node = node
        self.forelse = []                # [(for_depth of the loop, flag name)]
        self.inplace = []                # [(target, list name, fields, index name)]
        try:
            super().__init__(spec, node)
        except TranslationError as e:
            raise _MAIN_TE(str(e))

    def translate(self):
        try:
            return super().translate()
        except TranslationError as e:
            raise _MAIN_TE(str(e))

    # ---------------------------------------------------------------- expressions
    def expr(self, n):
        if isinstance(n, ast.Subscript) and isinstance(n.value, ast.Name) and isinstance(n.ctx, ast.Load):
            for tgt, _, fields, _ in self.inplace:
                if n.value.id == tgt:
                    k = n.slice
                    if isinstance(k, ast.Constant) and isinstance(k.value, int) and 0 <= k.value < len(fields):
                        return '(%s).%s' % (mangle(tgt), fields[k.value])
                    raise TranslationError('no rule for the element access `%s`' % src(n))
        if isinstance(n, ast.Call) and isinstance(n.func, ast.Name) and n.func.id in ('all', 'any') and \
                len(n.args) == 1 and isinstance(n.args[0], (ast.GeneratorExp, ast.ListComp)) and \
                len(n.args[0].generators) == 1 and isinstance(n.args[0].generators[0].iter, ast.Tuple) and \
                self.try_patterns(n) is None:
            n = copy.deepcopy(n)
            g = n.args[0].generators[0]
            g.iter = ast.List(elts=g.iter.elts, ctx=ast.Load())
        return super().expr(n)

    # ---------------------------------------------------------------- statements
    def stmt(self, s, ind):
        calls = self.spec.get('call_blocks', {})
        if isinstance(s, ast.For) and isinstance(s.target, ast.Name) and s.target.id in calls:
            cfg = calls[s.target.id]
            need = _mutated([s]) & _loads_outside(self.full_node, s)
            missing = sorted(need - set(cfg['state']))
            if missing:
                raise TranslationError('the loop `for %s in …` changes %s, read elsewhere in the function, but the '
                                       'call of its block does not return them' % (s.target.id, ', '.join(missing)))
            st = [mangle(x) for x in cfg['state']]
            for nm in cfg['state']:
                if nm not in self.declared or nm not in self.mut:
                    raise TranslationError('state `%s` of the block `%s` is not a declared mutable name here'
                                           % (nm, s.target.id))
            self.emit(ind, '%s ← %s' % (st[0] if len(st) == 1 else '(' + ', '.join(st) + ')', cfg['call']))
            return
        if isinstance(s, ast.For) and (s.orelse or (isinstance(s.target, ast.Name) and
                                                    s.target.id in self.spec.get('inplace_for', {}))):
            if not isinstance(s.target, ast.Name):
                raise TranslationError('for … else with a tuple target: ' + src(s.target))
            tgt = s.target.id
            flag = 'broke_%s__' % tgt
            if s.orelse:
                self.emit(ind, 'let mut %s := false' % flag)
            cfg = self.spec.get('inplace_for', {}).get(tgt)
            saved = set(self.declared)
            if cfg:
                lst = cfg['list']
                if not (isinstance(s.iter, ast.Name) and s.iter.id == lst):
                    raise TranslationError('in-place loop over `%s`, expected the list `%s`' % (src(s.iter), lst))
                for b in s.body:
                    for x in ast.walk(b):
                        if isinstance(x, ast.Name) and x.id == lst:
                            raise TranslationError('the body of the in-place loop over `%s` mentions the list' % lst)
                if lst not in self.declared or lst not in self.mut:
                    raise TranslationError('the list `%s` of an in-place loop must be a declared mutable name' % lst)
                idx = '%s_i__' % tgt
                self.emit(ind, 'for (%s0__, %s) in (%s).zipIdx do' % (tgt, idx, mangle(lst)))
                self.emit(ind + 1, 'let mut %s := %s0__' % (mangle(tgt), tgt))
                self.inplace.append((tgt, lst, cfg['fields'], idx))
                self.mut.add(tgt)
            else:
                it = self.container(s.iter) if isinstance(s.iter, ast.Tuple) else self.expr(s.iter)
                self.emit(ind, 'for %s in %s do' % (mangle(tgt), it))
                self.loop_vars.append(([tgt], ind + 1))
            self.declared.add(tgt)
            self.for_depth += 1
            if s.orelse:
                self.forelse.append((self.for_depth, flag))
            self.stmts(s.body, ind + 1)
            if s.orelse:
                self.forelse.pop()
            self.for_depth -= 1
            if cfg:
                self.inplace.pop()
            else:
                self.loop_vars.pop()
            self.declared = saved
            if s.orelse:
                self.emit(ind, 'if !%s then' % flag)
                self.stmts(s.orelse, ind + 1)
                self.declared = saved
            return
        if isinstance(s, ast.For) and not s.orelse and isinstance(s.iter, ast.Tuple) and self.try_patterns(s.iter) is None:
            s = copy.copy(s)
            s.iter = ast.List(elts=s.iter.elts, ctx=ast.Load())
            return super().stmt(s, ind)
        if isinstance(s, ast.Break) and self.forelse and self.forelse[-1][0] == self.for_depth:
            self.emit(ind, '%s := true' % self.forelse[-1][1])
            self.emit(ind, 'break')
            return
        if isinstance(s, ast.Assign) and len(s.targets) == 1 and isinstance(s.targets[0], ast.Subscript) and \
                isinstance(s.targets[0].value, ast.Name):
            t = s.targets[0]
            for tgt, lst, fields, idx in self.inplace:
                if t.value.id == tgt:
                    k = t.slice
                    if not (isinstance(k, ast.Constant) and isinstance(k.value, int) and 0 <= k.value < len(fields)):
                        raise TranslationError('no rule for the element assignment `%s`' % src(s))
                    rhs = self.expr(s.value)
                    if '←' in rhs:
                        raise TranslationError('monadic right-hand side of an element assignment: ' + src(s))
                    self.emit(ind, '%s := { %s with %s := %s }' % (mangle(tgt), mangle(tgt), fields[k.value], rhs))
                    self.emit(ind, '%s := (%s).set %s %s' % (mangle(lst), mangle(lst), idx, mangle(tgt)))
                    return
        return super().stmt(s, ind)
