import Cellml.C02.Lemmas

/-! # C02 — MathML → SymPy transpilation preserves meaning for every supported operator

    Model: `C02.transpile : Mml → Except Err Sy` (lean/Cellml/C02/Model.lean), a branch-by-branch model of
    `cellmlmanip.parser.Transpiler` whose dispatch is driven by the GENERATED tables `Cellml.Gen.mathmlOps`,
    `Cellml.Gen.naryRelations`, `Cellml.Gen.handlerKeys` (re-extracted from parser.py on every run).
    Semantics (lean/Cellml/C02/Semantics.lean): `evalMml` — MathML 2 chapter 4 written on the tree; `evalSy` — the value
    of the SymPy term built; both over `Rat`, transcendental functions / real powers / named constants uninterpreted.

    1. `table_*`            one theorem per tag: the SymPy class of the generated table computes what MathML 2 says
                            the element means (`rem ↦ Mod` is the proved exception); key set; n-ary relations; handlers.
    2. `transpile_sound_partial`  every tree, every depth, every interpretation: transpiled term and tree have the same
                            value — outside the two regions where that is false of the code, each with a proved
                            counterexample (`transpile_sound_fails_nullary`, `transpile_sound_fails_rem`).
    3. `transpile_rejects_*` unknown element, container arities, `<cn>` type/shape/text, operand counts ⇒ error;
                            the inputs that are NOT rejected are theorems too (`nullary_apply_returns_operator`,
                            `ln_two_operands_accepted`, `plain_operand_as_qualifier`, `qualifiers_are_transparent`,
                            `other_accepted_malformed_inputs`).
    The tie to the Python code is the correspondence check harness/props/c02.py. -/

namespace Cellml.Props.C02
open _root_.C02 Cellml

/-! ## 1. The generated operator table (per-tag theorems: `Cellml.C02.Table`) -/

/-- every entry except `rem`: the meaning of the class is the meaning of the element -/
theorem table_sound (tag c : String) (h : Gen.mathmlOps.lookup tag = some c) (hrem : tag ≠ "rem") :
    mmlMeaning tag = some (syMeaning c) := by
  have hmem := lookup_mem _ _ _ h
  have ht := tableCheck_ok
  simp only [tableCheck, List.all_eq_true] at ht
  have ht1 := ht _ hmem
  simp only [Bool.and_eq_true, Bool.or_eq_true, beq_iff_eq] at ht1
  rcases ht1.2 with hr | hm
  · exact absurd hr hrem
  · exact hm

/-! ## 2. Transpilation preserves meaning -/

/-- **transpile_sound** (partial: `noNullary`, `remFree` exclude the two known findings proved below).
    For every content-MathML tree of ANY depth and every interpretation (values of the identifiers, of the
    transcendental functions, of real powers): if the transpiler returns `e` and MathML 2 assigns the tree the value
    `v`, then the SymPy term `e` evaluates to `v`. Fragment covered by `evalMml`: ci, cn (plain and e-notation),
    constants, plus/times/minus/divide/power/root±degree/log±logbase/abs/floor/ceiling/max/min/exp/ln/24 trigonometric
    names (uninterpreted `fn`), n-ary relations (chained), neq, and/or/xor/not, piecewise. -/
theorem transpile_sound_partial (I : Interp) (t : Mml) (e : Sy) (v : Val)
    (hn : t.noNullary = true) (hr : t.remFree = true)
    (ht : transpile t = .ok e) (hv : evalMml I t = some v) : evalSy I e = some v :=
  sound_aux I (t.size + 1) t (Nat.lt_succ_self _) hn hr e v ht hv

def I0 : Interp := { var := fun _ => .num 3, fn := fun _ x => x, pow := fun a _ => a, constant := fun _ => 0 }
def ap (xs : List Mml) : Mml := .el "apply" (Mml.ofList xs)
def op (t : String) : Mml := .el t .nil
def cnum (s : String) : Mml := .cn none (some s) []

/-- the full-strength statement is FALSE of the code: `<apply><plus/></apply>` is the empty sum 0 in MathML 2, the
    transpiler returns the class `Add` (KNOWN FINDING arity0) -/
theorem transpile_sound_fails_nullary :
    transpile (ap [op "plus"]) = .ok (.cls "Add") ∧ evalMml I0 (ap [op "plus"]) = some (.num 0) ∧
    evalSy I0 (.cls "Add") = none := by
  refine ⟨?_, ?_, ?_⟩ <;> decide +kernel

/-- … and of `rem`: MathML 2 gives rem(−7, 3) = −1, the transpiled `Mod(-7, 3)` is 2 (KNOWN FINDING rem-sign) -/
theorem transpile_sound_fails_rem :
    transpile (ap [op "rem", cnum "-7", cnum "3"]) = .ok (.app "Mod" (.cons (.num (-7)) (.cons (.num 3) .nil))) ∧
    evalMml I0 (ap [op "rem", cnum "-7", cnum "3"]) = some (.num (-1)) ∧
    evalSy I0 (.app "Mod" (.cons (.num (-7)) (.cons (.num 3) .nil))) = some (.num 2) := by
  refine ⟨?_, ?_, ?_⟩ <;> decide +kernel


/-- non-vacuity: a depth-4 tree with a qualifier, a chained relation and a piecewise meets every hypothesis and has a
    value: piecewise(root₃(x+5) if 1 < x ≤ 4, otherwise −x) at x = 3 -/
def sample : Mml :=
  .el "piecewise" (Mml.ofList [
    .el "piece" (Mml.ofList [ap [op "root", .el "degree" (Mml.ofList [cnum "3"]), ap [op "plus", .ci "x", cnum "5"]],
                              ap [op "and", ap [op "lt", cnum "1", .ci "x"], ap [op "leq", .ci "x", cnum "4e0"]]]),
    .el "otherwise" (Mml.ofList [ap [op "minus", .ci "x"]])])

example : sample.noNullary = true ∧ sample.remFree = true ∧ (transpile sample).toOption.isSome = true ∧
    evalMml I0 sample = some (.num 8) := by
  refine ⟨?_, ?_, ?_, ?_⟩ <;> decide +kernel

example : evalSy I0 ((transpile sample).toOption.getD .nil) = some (.num 8) := by decide +kernel

/-- the qualifiers are placed as MathML 2 says: `<degree>` first then operand ↦ root(operand, degree) -/
example : transpile (ap [op "root", .el "degree" (Mml.ofList [.ci "n"]), .ci "x"]) =
    .ok (.app "root" (.cons (.sym "x") (.cons (.sym "n") .nil))) := by decide +kernel
example : transpile (ap [op "log", .el "logbase" (Mml.ofList [.ci "b"]), .ci "x"]) =
    .ok (.app "logb" (.cons (.sym "x") (.cons (.sym "b") .nil))) := by decide +kernel
example : transpile (ap [op "log", .ci "x"]) = .ok (.app "logb" (.cons (.sym "x") (.cons (.int 10) .nil))) := by
  decide +kernel

theorem transpile_cons_of_ok {h t : Mml} {a r : Sy} (ha : transpile h = .ok a) (hr : transpile t = .ok r) :
    transpile (.cons h t) = .ok (.cons a r) := by
  simp [transpile, ha, hr]

/-- derivatives (outside `evalMml`: uninterpreted): bound variable first, optional integer degree -/
theorem diff_shape (x y : String) (k : Mml) :
    transpile (.el "apply" (.cons (.el "diff" k) (.cons (.el "bvar" (.cons (.ci x) .nil)) (.cons (.ci y) .nil)))) =
      .ok (.app "Derivative" (.cons (.sym y) (.cons (.sym x) (.cons (.int 1) .nil)))) := by
  have h1 := transpile_wrapped "diff" "_diff_handler" k (by decide +kernel) (by decide)
  have hb : handlerOf "bvar" = some "_bvar_handler" := by decide +kernel
  have hx : transpile (.cons (.ci x) .nil) = .ok (.cons (.sym x) .nil) := by simp [transpile]
  have hbv : transpile (.el "bvar" (.cons (.ci x) .nil)) = .ok (.sym x) := by
    rw [transpile_container _ _ _ hb (by decide) (by decide) (by decide), hx]; simp [assemble]
  have hy : transpile (.cons (.ci y) .nil) = .ok (.cons (.sym y) .nil) := by simp [transpile]
  have hl := transpile_cons_of_ok h1 (transpile_cons_of_ok hbv hy)
  rw [transpile_container _ _ _ handlerOf_apply (by decide) (by decide) (by decide), hl]
  simp [assemble, call, callWrapped, diffCb, isBoolConst, mkDeriv, numLike, Sy.srt]

example : transpile (ap [op "diff", .el "bvar" (Mml.ofList [.ci "t", .el "degree" (Mml.ofList [cnum "2"])]), .ci "V"]) =
    .ok (.app "Derivative" (.cons (.sym "V") (.cons (.sym "t") (.cons (.int 2) .nil)))) := by decide +kernel


/-! ## 3. What is rejected — and, precisely, what is not -/

/-- an element without handler that the transpiler visits (not below an operator leaf, whose children are never read) -/
def visitsUnknown : Mml → Bool
  | .cons h t => visitsUnknown h || visitsUnknown t
  | .el tag kids =>
    match handlerOf tag with
    | none => true
    | some m => if m == "_simple_operator_handler" || wrappedHandlers.contains m || m == "transpile" then false
                else visitsUnknown kids
  | _ => false

/-- **unknown element ⇒ error**, wherever it occurs, at any depth -/
theorem transpile_rejects_unknown (t : Mml) (h : visitsUnknown t = true) : ∃ err, transpile t = .error err := by
  induction t with
  | cons a b iha ihb =>
    simp only [visitsUnknown, Bool.or_eq_true] at h
    simp only [transpile]
    cases ha : transpile a with
    | error e => exact ⟨e, rfl⟩
    | ok x =>
      cases hb : transpile b with
      | error e => exact ⟨e, rfl⟩
      | ok y =>
        rcases h with h | h
        · obtain ⟨e, he⟩ := iha h; rw [ha] at he; cases he
        · obtain ⟨e, he⟩ := ihb h; rw [hb] at he; cases he
  | el tag kids ih =>
    simp only [visitsUnknown] at h
    cases hh : handlerOf tag with
    | none => exact ⟨.value, by simp [transpile, hh]⟩
    | some m =>
      simp only [hh] at h
      split at h
      · cases h
      · rename_i hm
        simp only [Bool.or_eq_true, not_or, Bool.not_eq_true, beq_eq_false_iff_ne, ne_eq] at hm
        obtain ⟨e, he⟩ := ih h
        refine ⟨e, ?_⟩
        rw [transpile_container _ _ _ hh (by simpa using hm.1.1) (by simpa using hm.1.2) (by simpa using hm.2), he]
  | _ => simp [visitsUnknown] at h

theorem unknown_tag_is_ValueError (tag : String) (kids : Mml) (h : handlerOf tag = none) :
    transpile (.el tag kids) = .error .value := by simp [transpile, h]

example : handlerOf "factorial" = none ∧ visitsUnknown (ap [op "plus", .ci "x", ap [op "factorial", .ci "n"]]) = true := by
  constructor <;> decide +kernel

theorem transpile_ofList_ok : ∀ (ks : List Mml) (r : Sy), transpile (Mml.ofList ks) = .ok r →
    ∃ rs : List Sy, r = Sy.ofList rs ∧ rs.length = ks.length := by
  intro ks
  induction ks with
  | nil => intro r h; simp [Mml.ofList, transpile] at h; exact ⟨[], by simp [Sy.ofList, h]⟩
  | cons k ks ih =>
    intro r h
    obtain ⟨a, r', rfl, _, hr'⟩ := transpile_cons_ok h
    obtain ⟨rs, rfl, hl⟩ := ih r' hr'
    exact ⟨a :: rs, by simp [Sy.ofList], by simp [hl]⟩

/-- the children of a container are transpiled first: their error is the container's error -/
theorem container_propagates (tag m : String) (kids : Mml) (e : Err) (h : handlerOf tag = some m)
    (h1 : (m == "_simple_operator_handler") = false) (h2 : m ∉ wrappedHandlers) (h3 : (m == "transpile") = false)
    (hk : transpile kids = .error e) : transpile (.el tag kids) = .error e := by
  rw [transpile_container _ _ _ h h1 h2 h3, hk]

/-- `<piece>` without exactly 2 children, `<otherwise>` / `<degree>` without exactly 1, `<bvar>` with none or more than
    2, `<apply>` / `<logbase>` with none ⇒ error -/
theorem transpile_rejects_containers (ks : List Mml) (r : Sy) (hr : transpile (Mml.ofList ks) = .ok r) :
    (ks.length ≠ 2 → transpile (.el "piece" (Mml.ofList ks)) = .error .value) ∧
    (ks.length ≠ 1 → transpile (.el "otherwise" (Mml.ofList ks)) = .error .value) ∧
    (ks.length ≠ 1 → transpile (.el "degree" (Mml.ofList ks)) = .error .value) ∧
    (ks.length ≠ 1 → ks.length ≠ 2 → transpile (.el "bvar" (Mml.ofList ks)) = .error .value) ∧
    (ks.length = 0 → transpile (.el "apply" (Mml.ofList ks)) = .error .index) ∧
    (ks.length = 0 → transpile (.el "logbase" (Mml.ofList ks)) = .error .index) := by
  obtain ⟨rs, rfl, hl⟩ := transpile_ofList_ok ks r hr
  have hb : handlerOf "bvar" = some "_bvar_handler" := by decide +kernel
  rw [← hl]
  refine ⟨?_, ?_, ?_, ?_, ?_, ?_⟩
  · intro hn
    rw [transpile_container _ _ _ handlerOf_piece (by decide) (by decide) (by decide), hr]
    match rs, hn with
    | [], _ => simp [assemble, Sy.ofList]
    | [_], _ => simp [assemble, Sy.ofList]
    | [_, _], hn => simp at hn
    | _ :: _ :: _ :: _, _ => simp [assemble, Sy.ofList]
  · intro hn
    rw [transpile_container _ _ _ handlerOf_otherwise (by decide) (by decide) (by decide), hr]
    match rs, hn with
    | [], _ => simp [assemble, Sy.ofList]
    | [_], hn => simp at hn
    | _ :: _ :: _, _ => simp [assemble, Sy.ofList]
  · intro hn
    rw [transpile_container _ _ _ handlerOf_degree (by decide) (by decide) (by decide), hr]
    match rs, hn with
    | [], _ => simp [assemble, Sy.ofList]
    | [_], hn => simp at hn
    | _ :: _ :: _, _ => simp [assemble, Sy.ofList]
  · intro h1 h2
    rw [transpile_container _ _ _ hb (by decide) (by decide) (by decide), hr]
    match rs, h1, h2 with
    | [], _, _ => simp [assemble, Sy.ofList]
    | [_], h1, _ => simp at h1
    | [_, _], _, h2 => simp at h2
    | _ :: _ :: _ :: _, _, _ => simp [assemble, Sy.ofList]
  · intro h0
    rw [transpile_container _ _ _ handlerOf_apply (by decide) (by decide) (by decide), hr]
    match rs, h0 with
    | [], _ => simp [assemble, Sy.ofList]
  · intro h0
    rw [transpile_container _ _ _ handlerOf_logbase (by decide) (by decide) (by decide), hr]
    match rs, h0 with
    | [], _ => simp [assemble, Sy.ofList]

example : transpile (.el "piece" (Mml.ofList [.ci "x"])) = .error .value := by decide +kernel
example : transpile (.el "piecewise" (Mml.ofList [.el "otherwise" (Mml.ofList [.ci "x", .ci "y"])])) = .error .value := by
  decide +kernel

/-- `<cn>`: a `type` other than e-notation, e-notation without exactly one `<sep/>`, text that is not a number ⇒
    ValueError -/
theorem transpile_rejects_cn (ty : String) (text : Option String) (kids : List (Bool × Option String)) (s : String) :
    (ty ≠ "e-notation" → transpile (.cn (some ty) text kids) = .error .value) ∧
    ((∀ k, kids ≠ [(true, k)]) → transpile (.cn (some "e-notation") text kids) = .error .value) ∧
    (pyFloat s.toList = none → transpile (.cn none (some s) kids) = .error .value) := by
  refine ⟨?_, ?_, ?_⟩
  · intro h
    have : (ty == "e-notation") = false := by simpa using h
    simp [transpile, cnHandler, this]
  · intro h
    simp only [transpile, cnHandler]
    simp
  · intro h
    simp [transpile, cnHandler, h]

/-- what counts as malformed: a few of the texts the generator uses -/
example : (["", " ", ".", "1 2", "1,5", "0x10", "--1", "1e", "e5", "1__0", "_1", "1_", "1e_5", "abc", "1.5.2"].all
    fun s => pyFloat s.toList == none) = true := by decide +kernel
example : transpile (.cn (some "e-notation") (some "1e2") [(true, some "3")]) = .error .value := by decide +kernel
example : transpile (.cn (some "e-notation") (some "1.5") [(true, some "3.0")]) = .error .value := by decide +kernel

/-- operand counts the wrapped callbacks reject (Python's TypeError): minus takes 1 or 2, divide and power exactly 2,
    root and log 1 or 2 (qualifier included), diff 2 or 3 (bvar included; 3 is the KNOWN FINDING diff/3) -/
theorem transpile_rejects_wrapped_arity (opk : Mml) (ks : List Mml) (r : Sy) (hr : transpile (Mml.ofList ks) = .ok r)
    (h0 : ks ≠ []) :
    (ks.length > 2 → transpile (.el "apply" (.cons (.el "minus" opk) (Mml.ofList ks))) = .error .type) ∧
    (ks.length ≠ 2 → transpile (.el "apply" (.cons (.el "divide" opk) (Mml.ofList ks))) = .error .type) ∧
    (ks.length ≠ 2 → transpile (.el "apply" (.cons (.el "power" opk) (Mml.ofList ks))) = .error .type) ∧
    (ks.length > 2 → transpile (.el "apply" (.cons (.el "root" opk) (Mml.ofList ks))) = .error .type) ∧
    (ks.length > 2 → transpile (.el "apply" (.cons (.el "log" opk) (Mml.ofList ks))) = .error .type) ∧
    (ks.length ≠ 2 → ks.length ≠ 3 →
      transpile (.el "apply" (.cons (.el "diff" opk) (Mml.ofList ks))) = .error .type) := by
  obtain ⟨rs, rfl, hl⟩ := transpile_ofList_ok ks r hr
  have hne : rs ≠ [] := by intro h; subst h; simp at hl; exact h0 (List.eq_nil_of_length_eq_zero hl.symm)
  rw [← hl]
  have step : ∀ (opn m : String), handlerOf opn = some m → m ∈ wrappedHandlers →
      transpile (.el "apply" (.cons (.el opn opk) (Mml.ofList ks))) = assemble "_apply_handler" (.cons (.wrapped m) (Sy.ofList rs)) := by
    intro opn m hh hm
    rw [transpile_container _ _ _ handlerOf_apply (by decide) (by decide) (by decide),
      transpile_cons_of_ok (transpile_wrapped opn m opk hh hm) hr]
  refine ⟨?_, ?_, ?_, ?_, ?_, ?_⟩
  · intro hn
    rw [step _ _ handlerOf_minus (by decide)]
    match rs, hne, hn with
    | _ :: _ :: _ :: _, _, _ => simp [assemble, Sy.ofList, call, callWrapped]
  · intro hn
    rw [step _ _ handlerOf_divide (by decide)]
    match rs, hne, hn with
    | [_], _, _ => simp [assemble, Sy.ofList, call, callWrapped]
    | [_, _], _, hn => simp at hn
    | _ :: _ :: _ :: _, _, _ => simp [assemble, Sy.ofList, call, callWrapped]
  · intro hn
    rw [step _ _ handlerOf_power (by decide)]
    match rs, hne, hn with
    | [_], _, _ => simp [assemble, Sy.ofList, call, callWrapped]
    | [_, _], _, hn => simp at hn
    | _ :: _ :: _ :: _, _, _ => simp [assemble, Sy.ofList, call, callWrapped]
  · intro hn
    rw [step _ _ handlerOf_root (by decide)]
    match rs, hne, hn with
    | _ :: _ :: _ :: _, _, _ => simp [assemble, Sy.ofList, call, callWrapped]
  · intro hn
    rw [step _ _ handlerOf_log (by decide)]
    match rs, hne, hn with
    | _ :: _ :: _ :: _, _, _ => simp [assemble, Sy.ofList, call, callWrapped]
  · intro h2 h3
    rw [step "diff" "_diff_handler" (by decide +kernel) (by decide)]
    match rs, hne, h2, h3 with
    | [_], _, _, _ => simp [assemble, Sy.ofList, call, callWrapped]
    | [_, _], _, h2, _ => simp at h2
    | [_, _, _], _, _, h3 => simp at h3
    | _ :: _ :: _ :: _ :: _, _, _, _ => simp [assemble, Sy.ofList, call, callWrapped]


theorem ofList_len (rs : List Sy) : (Sy.ofList rs).len = rs.length := by
  induction rs with
  | nil => rfl
  | cons a r ih => simp [Sy.ofList, Sy.len, ih]

/-- how an `<apply>` of a table operator to `ks ≠ []` operands unfolds: the operator value called on the operands -/
theorem apply_simple_unfold (tag c : String) (opk : Mml) (ks : List Mml) (rs : List Sy)
    (hc : Gen.mathmlOps.lookup tag = some c) (hr : transpile (Mml.ofList ks) = .ok (Sy.ofList rs)) (hne : rs ≠ []) :
    transpile (.el "apply" (.cons (.el tag opk) (Mml.ofList ks))) =
      call (if tag ∈ Gen.naryRelations then .rel c else if c ∈ sympyConstants then .const c else .cls c)
        (Sy.ofList rs) := by
  rw [transpile_container _ _ _ handlerOf_apply (by decide) (by decide) (by decide),
    transpile_cons_of_ok (transpile_simple tag opk c hc) hr]
  match rs, hne with
  | _ :: _, _ => simp [assemble, Sy.ofList]

/-- **wrong operand count for a table operator ⇒ TypeError**: a class of the generated table applied to a number of
    operands outside the range its SymPy constructor accepts; a constant (pi, true …) applied to anything -/
theorem transpile_rejects_class_arity (tag c : String) (opk : Mml) (ks : List Mml) (r : Sy)
    (hc : Gen.mathmlOps.lookup tag = some c) (hnr : tag ∉ Gen.naryRelations)
    (hr : transpile (Mml.ofList ks) = .ok r) (h0 : ks ≠ []) :
    (c ∈ sympyConstants → transpile (.el "apply" (.cons (.el tag opk) (Mml.ofList ks))) = .error .type) ∧
    (∀ lo hi, c ∉ sympyConstants → sympyArity c = some (lo, hi) →
        (ks.length < lo ∨ (∃ h, hi = some h ∧ h < ks.length)) →
        transpile (.el "apply" (.cons (.el tag opk) (Mml.ofList ks))) = .error .type) := by
  obtain ⟨rs, rfl, hl⟩ := transpile_ofList_ok ks r hr
  have hne : rs ≠ [] := by intro h; subst h; simp at hl; exact h0 (List.eq_nil_of_length_eq_zero hl.symm)
  rw [apply_simple_unfold tag c opk ks rs hc hr hne]
  constructor
  · intro hcon; simp [hnr, hcon, call]
  · intro lo hi hcon har hbad
    simp only [hnr, hcon, if_false, call, callClass, har, ofList_len, hl]
    rcases hbad with hlt | ⟨h, rfl, hgt⟩
    · simp [hlt]
    · simp [hgt]

/-- an n-ary relation with a single operand ⇒ TypeError (IndexError when that operand is `true`/`false` and the
    relation an inequality: the error message indexes the missing second operand) -/
theorem transpile_rejects_relation_unary (tag c : String) (opk k : Mml) (a : Sy)
    (hc : Gen.mathmlOps.lookup tag = some c) (hnr : tag ∈ Gen.naryRelations) (hk : transpile k = .ok a)
    (har : sympyArity c = some (2, some 2)) :
    transpile (.el "apply" (.cons (.el tag opk) (Mml.ofList [k]))) = .error .type ∨
    transpile (.el "apply" (.cons (.el tag opk) (Mml.ofList [k]))) = .error .index := by
  have hr : transpile (Mml.ofList [k]) = .ok (Sy.ofList [a]) := by
    simp [Mml.ofList, Sy.ofList, transpile, hk]
  rw [apply_simple_unfold tag c opk [k] [a] hc hr (by simp)]
  simp only [hnr, if_true, call]
  unfold callRel
  have hl : (Sy.ofList [a]).len = 1 := rfl
  rw [if_neg (by rw [hl]; decide)]
  by_cases h1 : (isIneqClass c && (Sy.ofList [a]).any isBoolConst) = true
  · rw [if_pos h1, if_pos (by rw [hl]; decide)]; right; rfl
  · rw [if_neg h1]
    by_cases h2 : (isEqClass c && (Sy.ofList [a]).any isBoolConst && !(Sy.ofList [a]).all isBoolConst &&
        (Sy.ofList [a]).any isDerivative) = true
    · rw [if_pos h2]; left; rfl
    · rw [if_neg h2]; left
      simp [callClass, har, hl]

/-- SymPy's arity of every class of the table is the arity MathML 2 gives the element — except `ln` (KNOWN FINDING ln/2).
    `(lo, hi)`: unary 1..1, binary 2..2, n-ary 0.. (plus, times, and, or, xor), 1.. (max, min); constants: not callable -/
def specArity : List (String × Option (Nat × Option Nat)) := [
  ("plus", some (0, none)), ("times", some (0, none)), ("and", some (0, none)), ("or", some (0, none)), ("xor", some (0, none)),
  ("max", some (1, none)), ("min", some (1, none)), ("not", some (1, some 1)),
  ("eq", some (2, some 2)), ("neq", some (2, some 2)), ("lt", some (2, some 2)), ("leq", some (2, some 2)),
  ("gt", some (2, some 2)), ("geq", some (2, some 2)), ("rem", some (2, some 2)),
  ("abs", some (1, some 1)), ("floor", some (1, some 1)), ("ceiling", some (1, some 1)), ("exp", some (1, some 1)),
  ("ln", some (1, some 1)),
  ("sin", some (1, some 1)), ("cos", some (1, some 1)), ("tan", some (1, some 1)), ("sec", some (1, some 1)),
  ("csc", some (1, some 1)), ("cot", some (1, some 1)), ("sinh", some (1, some 1)), ("cosh", some (1, some 1)),
  ("tanh", some (1, some 1)), ("sech", some (1, some 1)), ("csch", some (1, some 1)), ("coth", some (1, some 1)),
  ("arcsin", some (1, some 1)), ("arccos", some (1, some 1)), ("arctan", some (1, some 1)), ("arcsec", some (1, some 1)),
  ("arccsc", some (1, some 1)), ("arccot", some (1, some 1)), ("arcsinh", some (1, some 1)), ("arccosh", some (1, some 1)),
  ("arctanh", some (1, some 1)), ("arcsech", some (1, some 1)), ("arccsch", some (1, some 1)), ("arccoth", some (1, some 1)),
  ("pi", none), ("exponentiale", none), ("infinity", none), ("notanumber", none), ("true", none), ("false", none)]

theorem class_arities_match_spec :
    (Gen.mathmlOps.all fun p =>
      p.1 == "ln" ||
      specArity.lookup p.1 == some (if sympyConstants.contains p.2 then none else sympyArity p.2)) = true ∧
    (Gen.mathmlOps.lookup "ln").bind sympyArity = some (1, some 2) := by
  constructor <;> decide +kernel

example : transpile (ap [op "sin", .ci "x", .ci "y"]) = .error .type ∧
    transpile (ap [op "rem", .ci "x"]) = .error .type ∧ transpile (ap [op "neq", .ci "x", .ci "y", .ci "z"]) = .error .type ∧
    transpile (ap [op "pi", .ci "x"]) = .error .type ∧ transpile (ap [op "eq", .ci "x"]) = .error .type ∧
    transpile (ap [op "lt", op "true"]) = .error .index ∧ transpile (ap [op "not", .ci "p", .ci "q"]) = .error .type := by
  refine ⟨?_, ?_, ?_, ?_, ?_, ?_, ?_⟩ <;> decide +kernel

/-! ### The wrong-arity / malformed inputs the code does NOT reject (KNOWN FINDINGS), as theorems about the model -/

/-- arity0: an `<apply>` with the operator as its only child returns the operator itself — for EVERY operator -/
theorem nullary_apply_returns_operator (tag : String) (opk : Mml) (f : Sy) (h : transpile (.el tag opk) = .ok f) :
    transpile (.el "apply" (.cons (.el tag opk) .nil)) = .ok f := by
  rw [transpile_container _ _ _ handlerOf_apply (by decide) (by decide) (by decide),
    transpile_cons_of_ok h (show transpile .nil = .ok .nil by simp [transpile])]
  simp [assemble]

example : transpile (ap [op "divide"]) = .ok (.wrapped "_divide_handler") ∧ transpile (ap [op "sin"]) = .ok (.cls "sin") ∧
    transpile (ap [op "eq"]) = .ok (.rel "Eq") := by refine ⟨?_, ?_, ?_⟩ <;> decide +kernel
/-- … and such a result is applied by an enclosing `<apply>` -/
example : transpile (ap [ap [op "plus"], .ci "x", .ci "y"]) = .ok (.app "Add" (.cons (.sym "x") (.cons (.sym "y") .nil))) := by
  decide +kernel

/-- ln/2: `sympy.ln` is `sympy.log`, the second operand becomes a base -/
theorem ln_two_operands_accepted :
    transpile (ap [op "ln", .ci "x", .ci "y"]) = .ok (.app "ln" (.cons (.sym "x") (.cons (.sym "y") .nil))) ∧
    evalMml I0 (ap [op "ln", .ci "x", .ci "y"]) = none := by constructor <;> decide +kernel

/-- plain-operand-as-qualifier: without `<degree>`/`<logbase>`/`<bvar>` the FIRST of two operands is taken as one -/
theorem plain_operand_as_qualifier :
    transpile (ap [op "root", .ci "x", .ci "y"]) = .ok (.app "root" (.cons (.sym "y") (.cons (.sym "x") .nil))) ∧
    transpile (ap [op "log", .ci "x", .ci "y"]) = .ok (.app "logb" (.cons (.sym "y") (.cons (.sym "x") .nil))) ∧
    transpile (ap [op "diff", .ci "x", .ci "y"]) =
      .ok (.app "Derivative" (.cons (.sym "y") (.cons (.sym "x") (.cons (.int 1) .nil)))) ∧
    evalMml I0 (ap [op "root", .ci "x", .ci "y"]) = none := by refine ⟨?_, ?_, ?_, ?_⟩ <;> decide +kernel

/-- qualifier-misplaced: `<degree>`, `<logbase>`, one-child `<bvar>` are transparent wherever they stand -/
theorem qualifiers_are_transparent (d : Mml) (a : Sy) (h : transpile d = .ok a) :
    transpile (.el "degree" (.cons d .nil)) = .ok a ∧ transpile (.el "logbase" (.cons d .nil)) = .ok a ∧
    transpile (.el "bvar" (.cons d .nil)) = .ok a := by
  have hl : transpile (.cons d .nil) = .ok (.cons a .nil) := transpile_cons_of_ok h (by simp [transpile])
  have hb : handlerOf "bvar" = some "_bvar_handler" := by decide +kernel
  refine ⟨?_, ?_, ?_⟩
  · rw [transpile_container _ _ _ handlerOf_degree (by decide) (by decide) (by decide), hl]; simp [assemble]
  · rw [transpile_container _ _ _ handlerOf_logbase (by decide) (by decide) (by decide), hl]; simp [assemble]
  · rw [transpile_container _ _ _ hb (by decide) (by decide) (by decide), hl]; simp [assemble]

example : transpile (ap [op "plus", .el "degree" (Mml.ofList [.ci "x"]), .ci "y"]) =
    .ok (.app "Add" (.cons (.sym "x") (.cons (.sym "y") .nil))) := by decide +kernel
/-- operand first, degree second: operand and degree swap roles -/
example : transpile (ap [op "root", .ci "y", .el "degree" (Mml.ofList [.ci "x"])]) =
    .ok (.app "root" (.cons (.sym "x") (.cons (.sym "y") .nil))) := by decide +kernel

/-- logbase-arity:2, diff/3, diff degree truncation, cn leniency, cn children ignored -/
theorem other_accepted_malformed_inputs :
    transpile (ap [op "log", .el "logbase" (Mml.ofList [cnum "3", cnum "4"]), .ci "x"]) =
      .ok (.app "logb" (.cons (.sym "x") (.cons (.num 3) .nil))) ∧
    transpile (ap [op "diff", .el "bvar" (Mml.ofList [.ci "t"]), .ci "x", op "true"]) =
      .ok (.app "DerivativeEval" (.cons (.sym "x") (.cons (.sym "t") (.cons (.int 1) (.cons (.const "true") .nil))))) ∧
    transpile (ap [op "diff", .el "bvar" (Mml.ofList [.ci "t", .el "degree" (Mml.ofList [cnum "2.5"])]), .ci "x"]) =
      .ok (.app "Derivative" (.cons (.sym "x") (.cons (.sym "t") (.cons (.int 2) .nil)))) ∧
    transpile (cnum "1_000") = .ok (.num 1000) ∧ transpile (cnum "inf") = .ok (.special "inf") ∧
    transpile (cnum "-Infinity") = .ok (.special "-inf") ∧ transpile (cnum "nan") = .ok (.special "nan") ∧
    transpile (.cn none (some "1.5") [(true, some "3")]) = .ok (.num (3/2)) ∧
    evalMml I0 (cnum "1_000") = none ∧ evalMml I0 (cnum "inf") = none ∧
    evalMml I0 (.cn none (some "1.5") [(true, some "3")]) = none := by
  refine ⟨?_, ?_, ?_, ?_, ?_, ?_, ?_, ?_, ?_, ?_, ?_⟩ <;> decide +kernel

end Cellml.Props.C02
