/-! Property theorems for C18 (not built yet). -/
