"""Scratch probe: random unit families loaded from generated CellML <units> elements, against an exact oracle (C03, C07)."""
import random, sys, collections, logging, os, tempfile, itertools, math
from fractions import Fraction as F
import mpmath as mp, cellmlmanip
logging.disable(logging.CRITICAL); mp.mp.dps = 40
seed = int(sys.argv[1]) if len(sys.argv) > 1 else 0; N = int(sys.argv[2]) if len(sys.argv) > 2 else 60
rng = random.Random(seed); finds = collections.defaultdict(list); stats = collections.Counter()
HDR = '<?xml version="1.0"?>\n<model name="m" xmlns="http://www.cellml.org/cellml/1.0#">\n'
PREF = {'yocto': -24, 'zepto': -21, 'atto': -18, 'femto': -15, 'pico': -12, 'nano': -9, 'micro': -6, 'milli': -3, 'centi': -2, 'deci': -1, 'deka': 1, 'hecto': 2, 'kilo': 3, 'mega': 6, 'giga': 9, 'tera': 12, 'peta': 15, 'exa': 18, 'zetta': 21, 'yotta': 24}
# SI meaning of built-ins: (scale, dims over [m, kg, s, A, K, mol, cd])
B = lambda **k: tuple(F(k.get(x, 0)) for x in ('m', 'kg', 's', 'A', 'K', 'mol', 'cd'))
BUILTIN = {'ampere': (1, B(A=1)), 'candela': (1, B(cd=1)), 'kelvin': (1, B(K=1)), 'kilogram': (1, B(kg=1)), 'meter': (1, B(m=1)), 'metre': (1, B(m=1)), 'mole': (1, B(mol=1)), 'second': (1, B(s=1)),
           'becquerel': (1, B(s=-1)), 'coulomb': (1, B(A=1, s=1)), 'farad': (1, B(m=-2, kg=-1, s=4, A=2)), 'gram': (F(1, 1000), B(kg=1)), 'gray': (1, B(m=2, s=-2)), 'henry': (1, B(m=2, kg=1, s=-2, A=-2)),
           'hertz': (1, B(s=-1)), 'joule': (1, B(m=2, kg=1, s=-2)), 'katal': (1, B(mol=1, s=-1)), 'liter': (F(1, 1000), B(m=3)), 'litre': (F(1, 1000), B(m=3)), 'lumen': (1, B(cd=1)), 'lux': (1, B(cd=1, m=-2)),
           'newton': (1, B(m=1, kg=1, s=-2)), 'ohm': (1, B(m=2, kg=1, s=-3, A=-2)), 'pascal': (1, B(m=-1, kg=1, s=-2)), 'radian': (1, B()), 'siemens': (1, B(m=-2, kg=-1, s=3, A=2)), 'sievert': (1, B(m=2, s=-2)),
           'steradian': (1, B()), 'tesla': (1, B(kg=1, s=-2, A=-1)), 'volt': (1, B(m=2, kg=1, s=-3, A=-1)), 'watt': (1, B(m=2, kg=1, s=-3)), 'weber': (1, B(m=2, kg=1, s=-2, A=-1)), 'dimensionless': (1, B())}
PINTDIM = {'[length]': 0, '[mass]': 1, '[time]': 2, '[current]': 3, '[temperature]': 4, '[substance]': 5, '[luminosity]': 6}
def gen_family(allow_dimless_mix):
    defs = []; meaning = {k: (mp.mpf(v[0].numerator) / v[0].denominator if isinstance(v[0], F) else mp.mpf(v[0]), v[1]) for k, v in BUILTIN.items()}
    names = []
    for i in range(rng.randint(3, 9)):
        nm = rng.choice(['u%d', 'U_%d', '_u%d', 'mV%d', 'per_%d_x']) % i
        parts = []; scale = mp.mpf(1); dims = B()
        for j in range(rng.randint(1, 3)):
            pool = list(BUILTIN) + names
            if not allow_dimless_mix: pool = [p for p in pool if any(meaning[p][1])] or pool
            ref = rng.choice(pool)
            att = {'units': ref}; s_, d_ = meaning[ref]
            if rng.random() < 0.5:
                if rng.random() < 0.8: p = rng.choice(list(PREF)); att['prefix'] = p; s_ = s_ * mp.mpf(10) ** PREF[p]
                else: p = rng.randint(-6, 6); att['prefix'] = str(p); s_ = s_ * mp.mpf(10) ** p
            if rng.random() < 0.5:
                e = rng.choice([F(2), F(-1), F(3), F(-2), F(1, 2), F(-1, 2), F(3, 2)]); att['exponent'] = str(float(e)) if e.denominator != 1 else str(int(e)); s_ = s_ ** (mp.mpf(e.numerator) / e.denominator); d_ = tuple(x * e for x in d_)
            if rng.random() < 0.4:
                mlt = rng.choice(['2', '0.5', '1000', '0.001', '60', '2.54', '1e3', '3600', '1.000001']); att['multiplier'] = mlt; s_ = s_ * mp.mpf(mlt)
            parts.append(att); scale *= s_; dims = tuple(a + b for a, b in zip(dims, d_))
        defs.append((nm, parts)); meaning[nm] = (scale, dims); names.append(nm)
    return defs, meaning, names
def xml_of(defs):
    s = HDR
    for nm, parts in defs:
        s += '<units name="%s">' % nm + ''.join('<unit ' + ' '.join('%s="%s"' % kv for kv in p.items()) + '/>' for p in parts) + '</units>\n'
    return s + '</model>\n'
def close(a, b, tol=1e-9): return abs(mp.mpf(a) - b) <= tol * max(abs(b), mp.mpf('1e-300'))
for case in range(N):
    mix = rng.random() < 0.3
    defs, meaning, names = gen_family(mix)
    perm = defs[:]; rng.shuffle(perm)
    results = []
    for dd in (defs, perm):
        fd, p = tempfile.mkstemp(suffix='.cellml', dir='/tmp/pr'); os.write(fd, xml_of(dd).encode()); os.close(fd)
        try: m = cellmlmanip.load_model(p); results.append(m)
        except Exception as ex: results.append(ex)
        finally: os.unlink(p)
    if any(isinstance(r, Exception) for r in results):
        ex = next(r for r in results if isinstance(r, Exception))
        finds['load EXC %s: %s [dimless mixed in: %s]' % (type(ex).__name__, str(ex)[:50], mix)].append((case, defs)); continue
    stats['families'] += 1
    for which, m in enumerate(results):
        s = m.units
        got = {}
        for nm in names:
            u = s.get_unit(nm)
            try: f, b = s._registry.get_base_units(u)
            except Exception as ex: finds['loaded unit unusable: %s %s' % (type(ex).__name__, str(ex)[:30])].append((case, [x for x in defs if x[0] == nm])); got[nm] = None; continue
            d = [F(0)] * 7
            for k, v in dict(b._units).items():
                if k in ('kilogram', 'meter', 'second', 'ampere', 'kelvin', 'mole', 'candela'):
                    d[{'meter': 0, 'kilogram': 1, 'second': 2, 'ampere': 3, 'kelvin': 4, 'mole': 5, 'candela': 6}[k]] += F(v).limit_denominator(1000)
            got[nm] = (float(f), tuple(d)); stats['units'] += 1
            if tuple(d) != meaning[nm][1]: finds['WRONG DIMS'].append((case, nm, tuple(map(str, d)), tuple(map(str, meaning[nm][1]))))
            elif not close(float(f), meaning[nm][0]): finds['WRONG SCALE (order %d)' % which].append((case, nm, float(f), mp.nstr(meaning[nm][0], 17), [x for x in defs if x[0] == nm]))
        # conversion laws on pairs
        if which == 0:
            for a, b in itertools.permutations([n_ for n_ in names if got.get(n_)], 2):
                ua, ub = s.get_unit(a), s.get_unit(b); same = meaning[a][1] == meaning[b][1]
                try: cf = s.get_conversion_factor(ua, ub); kind = 'ok'
                except Exception as ex: kind = type(ex).__name__
                stats['pairs'] += 1
                if same:
                    exp = meaning[a][0] / meaning[b][0]
                    if kind != 'ok': finds['same-dimension pair raised ' + kind].append((case, a, b))
                    elif not close(cf, exp): finds['WRONG FACTOR'].append((case, a, b, cf, mp.nstr(exp, 17)))
                    else:
                        eq = s.is_equivalent(ua, ub)
                        if eq != bool(close(1, exp, 1e-9)): finds['is_equivalent disagrees with factor'].append((case, a, b, eq, mp.nstr(exp, 17)))
                        try:
                            q = s.convert(s.Quantity(2.5, ua), ub)
                            if not close(q.magnitude, 2.5 * exp) or not (q.units == ub): finds['convert wrong'].append((case, a, b, str(q)))
                        except Exception as ex: finds['convert raised ' + type(ex).__name__].append((case, a, b))
                elif kind == 'ok': finds['MISMATCH NOT REPORTED'].append((case, a, b, cf))
                elif kind != 'DimensionalityError': finds['mismatch raised ' + kind].append((case, a, b))
print(dict(stats))
for k, v in finds.items(): print('##', k, len(v), str(v[0])[:330])
