import Cellml.Units.Define

/-! The work list of `Parser._add_units` (parser.py 182-236), composed with `Units.addUnit` / `Units.addBaseUnit`.

    ```
    definitions_to_add = deque()
    for units_element in units_elements:                 # document order
        if base unit: self.model.units.add_base_unit(name); units_found.add(name)
        else:         definitions_to_add.append((name, unit_elements))
    iteration = 0
    while definitions_to_add:
        name, elems = definitions_to_add.pop()           # from the RIGHT
        if some elem['units'] not in units_found:
            definitions_to_add.appendleft((name, elems)) # back in on the LEFT
            iteration += 1
            if iteration > len(definitions_to_add): raise ValueError('... Cycles or unknown units.')
        else:
            definition = self._make_pint_unit_definition(name, elems)    # ValueError for offsets
            if self.model.units.is_defined(name): raise ValueError('Duplicate unit definition ...')
            self.model.units.add_unit(name, definition); units_found.add(name); iteration = 0
    ```

    The deque is a `List` whose HEAD is the RIGHT end: `pop()` takes the head, `appendleft` appends at the end.
    `units_found` starts as `_CELLML_UNITS` and receives exactly the names the store receives in `_known_units`
    (a `Model` always creates a fresh `UnitStore`), so `name in units_found` is `Store.isDefined`.

    The loop is a TOTAL function by well-founded recursion on the lexicographic measure
    `(|deque|, |deque| + 1 − iteration)` under the invariant `iteration ≤ |deque|`: Lean accepting the definition is
    the proof that `_add_units` cannot hang. `loopFuel` is the same loop by structural recursion on a step budget
    (`Units/WorklistLemmas.lean` proves they agree once the budget is ≥ `stepBound`); it reduces in the kernel.
    Core Lean only. -/

namespace Units

/-- one `<units>` element of the document: name, `base_units` flag, attribute dicts of the `<unit>` children -/
structure UDef where
  name  : String
  base  : Bool := false
  elems : List UnitElem := []
deriving Repr, DecidableEq

/-- `for unit in unit_elements: if unit['units'] not in units_found: … add_now = False` -/
def ready (st : Store) (d : UDef) : Bool := d.elems.all (fun e => st.isDefined e.units)

/-- pint's `parse_expression` evaluates every identifier of the (prefixed) expression: each must be a registry key -/
def refsResolve (reg : Registry) (st : Store) (d : UDef) : Bool := refsKnown reg st.id d.elems

/-- the `add_now` branch: `_make_pint_unit_definition` (offset test), `is_defined` (`name in _known_units`, a set
    that starts as `_CELLML_UNITS`: `Store.isDefined`), `add_unit` -/
def addNow (reg : Registry) (st : Store) (d : UDef) : Except AddErr (Registry × Store) :=
  if d.elems.any elemOffsetBad then .error (.valueError "offset")
  else if st.isDefined d.name then .error (.valueError "duplicate")
  else addUnit reg st d.name d.elems

/-- first pass, document order: base units are added at once, the others are queued -/
def addBases (reg : Registry) (st : Store) : List UDef → Except AddErr (Registry × Store)
  | [] => .ok (reg, st)
  | d :: ds =>
      if d.base then
        match addBaseUnit reg st d.name with
        | .ok (reg', st') => addBases reg' st' ds
        | .error e => .error e
      else addBases reg st ds

/-- the deque after the first pass, head = right end -/
def queue (defs : List UDef) : List UDef := (defs.filter (fun d => !d.base)).reverse

def stuck : AddErr := .valueError "Cycles or unknown units"

/-- the `while definitions_to_add` loop -/
def loop (reg : Registry) (st : Store) (dq : List UDef) (it : Nat) (hit : it ≤ dq.length) :
    Except AddErr (Registry × Store) :=
  match dq with
  | [] => .ok (reg, st)
  | d :: rest =>
      if ready st d then
        match addNow reg st d with
        | .ok (reg', st') => loop reg' st' rest 0 (Nat.zero_le _)
        | .error e => .error e
      else
        if hgt : it + 1 > (rest ++ [d]).length then .error stuck
        else loop reg st (rest ++ [d]) (it + 1) (by omega)
termination_by (dq.length, dq.length + 1 - it)
decreasing_by
  · apply Prod.Lex.left; simp
  · have hl : (rest ++ [d]).length = (d :: rest).length := by simp
    rw [hl]; apply Prod.Lex.right
    simp only [List.length_append, List.length_cons, List.length_nil] at hgt hit ⊢
    omega

/-- `Parser._add_units` on a fresh model whose unit store has id `id` -/
def addUnits (id : Nat) (defs : List UDef) : Except AddErr (Registry × Store) :=
  match addBases builtinRegistry { id := id, known := [] } defs with
  | .error e => .error e
  | .ok (reg, st) => loop reg st (queue defs) 0 (Nat.zero_le _)

/-! ### the same loop with an explicit step budget (structural recursion: evaluates in the kernel) -/

def loopFuel : Nat → Registry → Store → List UDef → Nat → Option (Except AddErr (Registry × Store))
  | 0, _, _, _, _ => none
  | fuel + 1, reg, st, dq, it =>
      match dq with
      | [] => some (.ok (reg, st))
      | d :: rest =>
          if ready st d then
            match addNow reg st d with
            | .ok (reg', st') => loopFuel fuel reg' st' rest 0
            | .error e => some (.error e)
          else
            if it + 1 > (rest ++ [d]).length then some (.error stuck)
            else loopFuel fuel reg st (rest ++ [d]) (it + 1)

/-- triangular number: steps needed to empty a deque of `n` definitions in the worst case, minus the final one -/
def tri : Nat → Nat
  | 0 => 0
  | n + 1 => tri n + (n + 1)

/-- budget that always suffices: at most `n(n+1)/2 + n + 1` passes through the `while` test for `n` definitions -/
def stepBound (n it : Nat) : Nat := tri n + (n + 1 - it) + 1

def addUnitsFuel (id : Nat) (defs : List UDef) : Option (Except AddErr (Registry × Store)) :=
  match addBases builtinRegistry { id := id, known := [] } defs with
  | .error e => some (.error e)
  | .ok (reg, st) => loopFuel (stepBound (queue defs).length 0) reg st (queue defs) 0

/-- what `model.units.get_unit(name)` expands to after loading: (scale, root units) -/
def meaningOf (reg : Registry) (st : Store) (name : String) : Scale × Container :=
  toRoot reg (nameContainer (prefixName st.id name))

end Units
