import Cellml.C11.SemMain

/-! C11 — `print_means`, part 6: every constructor. -/
namespace C11
set_option linter.unusedSimpArgs false
variable {K : Type} [Field K] (S : Sem K)

theorem items_T (a : E) (s : Srt) (hl : isList a = true) (hw : wf s a = true) (hst : (pr a).st = .ok)
    (ht : ∀ h ∈ toList a, T S h) : ∀ h ∈ toList a, Tc S s h := by
  have hf := items_facts a s hl hw hst (fun h _ => (all_M h).1.1)
  intro h hh
  have := hf.2 h hh
  exact T_elim S h (ht h hh) this.2.1 s this.1 this.2.2.1

theorem T_leafA (e : E) (hA : ∀ s, wf s e = true → s = .A) (h : (evD S (pr e).doc).num = (ev S e).num) : T S e := by
  refine Or.inr (fun s hw _ => ?_)
  have := hA s hw; subst this; exact h

theorem MT_of_leaf (e : E) (ht : T S e) (hk : kids e = []) (hl : toList e = []) : MT S e := by
  refine ⟨⟨ht, ?_⟩, ?_⟩
  · intro c hc; rw [hk] at hc; cases hc
  · intro c hc; rw [hl] at hc; cases hc

theorem T_num (hL : Laws S) (e : E) (hn : isNum e = true) (hdoc : (pr e).doc = numDoc e) : T S e := by
  refine Or.inr (fun s hw _ => ?_)
  have hs : s = .A := by cases e <;> simp [isNum] at hn <;> simp [wf] at hw <;> simp_all
  subst hs
  show (evD S (pr e).doc).num = _
  rw [hdoc]; exact numDoc_num S hL e hw hn

theorem T_add (a : E) (ht : ∀ h ∈ toList a, T S h) : T S (.add a) := by
  refine Or.inr (fun s hw hst => ?_)
  simp only [wf, Bool.and_eq_true, beq_iff_eq] at hw
  obtain ⟨⟨rfl, hl⟩, hwa⟩ := hw
  show (evD S (pr (.add a)).doc).num = (ev S (.add a)).num
  simp only [pr] at hst ⊢
  split at hst
  · cases hst
  next hne =>
    have hp := proper_of_wf .A a hl hwa
    have hf := items_facts a .A hl hwa hst (fun h _ => (all_M h).1.1)
    have hT := items_T S a .A hl hwa hst ht
    have hall : ∀ i ∈ (pr a).items, (PyOK i.doc = true ∧ 40 ≤ level i.doc) ∧ 40 ≤ prec i.e := by
      rw [hf.1]; intro i hi; simp only [List.mem_map] at hi
      obtain ⟨h, hh, rfl⟩ := hi
      have := hf.2 h hh
      exact ⟨⟨this.2.2.2.1, this.2.2.2.2.1⟩, precA_ge_40 h this.1 this.2.1⟩
    rw [addDoc_num S _ (by intro h; simp [h] at hne) hall, hf.1, List.map_map]
    simp only [ev, (ev_nums_list S a hp).1]
    congr 1
    apply List.map_congr_left
    intro h hh; exact hT h hh

theorem two_of_twoPlus (a : E) (h : twoPlus a = true) : ∃ x y t, a = .cons x (.cons y t) := by
  cases a with
  | cons x t => cases t with
    | cons y t' => exact ⟨x, y, t', rfl⟩
    | _ => simp [twoPlus] at h
  | _ => simp [twoPlus] at h

theorem T_and (a : E) (ht : ∀ h ∈ toList a, T S h) : T S (.and a) := by
  refine Or.inr (fun s hw hst => ?_)
  simp only [wf, Bool.and_eq_true, beq_iff_eq] at hw
  obtain ⟨⟨⟨rfl, hl⟩, hwa⟩, h2⟩ := hw
  show (evD S (pr (.and a)).doc).num = (ev S (.and a)).num ∧ (evD S (pr (.and a)).doc).bool = (ev S (.and a)).bool
  simp only [pr] at hst ⊢
  split at hst
  · cases hst
  next hne =>
    have hp := proper_of_wf .B a hl hwa
    have hf := items_facts a .B hl hwa hst (fun h _ => (all_M h).1.1)
    have hT := items_T S a .B hl hwa hst ht
    obtain ⟨x, y, t, rfl⟩ := two_of_twoPlus a h2
    have hb : ((toList (.cons x (.cons y t))).map mk).map (fun k => (evD S k.doc).bool) =
        (ev S (.cons x (.cons y t))).bools := by
      rw [(ev_nums_list S _ hp).2, List.map_map]
      apply List.map_congr_left; intro h hh; exact (hT h hh).2
    have := andChain_val S (mk x) (mk y) ((toList t).map mk)
    rw [hf.1]
    simp only [toList, List.map_cons] at this hb ⊢
    rw [this.1, this.2, hb]
    simp [ev]

theorem T_or (a : E) (ht : ∀ h ∈ toList a, T S h) : T S (.or a) := by
  refine Or.inr (fun s hw hst => ?_)
  simp only [wf, Bool.and_eq_true, beq_iff_eq] at hw
  obtain ⟨⟨⟨rfl, hl⟩, hwa⟩, h2⟩ := hw
  show (evD S (pr (.or a)).doc).num = (ev S (.or a)).num ∧ (evD S (pr (.or a)).doc).bool = (ev S (.or a)).bool
  simp only [pr] at hst ⊢
  split at hst
  · cases hst
  next hne =>
    have hp := proper_of_wf .B a hl hwa
    have hf := items_facts a .B hl hwa hst (fun h _ => (all_M h).1.1)
    have hT := items_T S a .B hl hwa hst ht
    obtain ⟨x, y, t, rfl⟩ := two_of_twoPlus a h2
    have hb : ((toList (.cons x (.cons y t))).map mk).map (fun k => (evD S k.doc).bool) =
        (ev S (.cons x (.cons y t))).bools := by
      rw [(ev_nums_list S _ hp).2, List.map_map]
      apply List.map_congr_left; intro h hh; exact (hT h hh).2
    have := orChain_val S (mk x) (mk y) ((toList t).map mk)
    rw [hf.1]
    simp only [toList, List.map_cons] at this hb ⊢
    rw [this.1, this.2, hb]
    simp [ev]

theorem T_fn (hL : Laws S) (name : String) (a : E) (ht : ∀ h ∈ toList a, T S h) : T S (.fn name a) := by
  refine Or.inr (fun s hw hst => ?_)
  simp only [wf, Bool.and_eq_true, beq_iff_eq] at hw
  obtain ⟨⟨rfl, hl⟩, hwa⟩ := hw
  show (evD S (pr (.fn name a)).doc).num = (ev S (.fn name a)).num
  simp only [pr] at hst ⊢
  split at hst
  next f hf =>
    simp only [hf]
    simp only at hst
    have hp := proper_of_wf .A a hl hwa
    have hT := items_T S a .A hl hwa hst ht
    simp only [evD, ev, evD_nums_list S a hp, (ev_nums_list S a hp).1, hL.fn_table name f hf]
    congr 1
    apply List.map_congr_left
    intro h hh; exact hT h hh
  next =>
    simp only [join_ok] at hst
    cases hst.2

theorem T_rel (r : Rel) (a b : E) (ha : T S a) (hb : T S b) : T S (.rel r a b) := by
  refine Or.inr (fun s hw hst => ?_)
  simp only [wf, Bool.and_eq_true, beq_iff_eq, Bool.or_eq_true, Bool.not_eq_true'] at hw
  obtain ⟨⟨⟨rfl, hla⟩, hlb⟩, hsort⟩ := hw
  simp only [pr, join_ok] at hst
  have hnum : (evD S (pr a).doc).num = (ev S a).num ∧ (evD S (pr b).doc).num = (ev S b).num := by
    rcases hsort with ⟨hwa, hwb⟩ | ⟨hwa, hwb⟩
    · exact ⟨Tc_num S _ a (T_elim S a ha hla .A hwa hst.1), Tc_num S _ b (T_elim S b hb hlb .A hwb hst.2)⟩
    · exact ⟨Tc_num S _ a (T_elim S a ha hla .B hwa.2 hst.1), Tc_num S _ b (T_elim S b hb hlb .B hwb hst.2)⟩
  show (evD S (pr (.rel r a b)).doc).num = _ ∧ (evD S (pr (.rel r a b)).doc).bool = _
  simp only [pr, evD, ev, evD_bracket, hnum.1, hnum.2, and_self]

theorem T_pow (hL : Laws S) (b x : E) (hb : T S b) (hx : T S x) : T S (.pow b x) := by
  refine Or.inr (fun s hw hst => ?_)
  simp only [wf, Bool.and_eq_true, beq_iff_eq, Bool.not_eq_true'] at hw
  obtain ⟨⟨⟨⟨rfl, hlb⟩, hlx⟩, hwb⟩, hwx⟩ := hw
  have hs := pow_st b x hst
  have tb : (evD S (pr b).doc).num = (ev S b).num := T_elim S b hb hlb .A hwb hs.1
  have tx : (evD S (pr x).doc).num = (ev S x).num := T_elim S x hx hlx .A hwx hs.2
  show (evD S (pr (.pow b x)).doc).num = (ev S (.pow b x)).num
  rw [pow_doc, powDoc_num S hL b x _ _ tx, tb]; rfl

theorem T_pair (v c : E) (hv : T S v) (hc : T S c) : T S (.pair v c) := by
  refine Or.inr (fun s hw hst => ?_)
  simp only [wf, Bool.and_eq_true, beq_iff_eq, Bool.not_eq_true'] at hw
  obtain ⟨⟨⟨⟨rfl, hlv⟩, hlc⟩, hwv⟩, hwc⟩ := hw
  simp only [pr, join_ok] at hst
  have tv : (evD S (pr v).doc).num = (ev S v).num := T_elim S v hv hlv .A hwv hst.1
  have tc := T_elim S c hc hlc .B hwc hst.2
  show (evD S (pr (.pair v c)).doc).num = _ ∧ (evD S (pr (.pair v c)).base).bool = _
  simp only [pr, ev, tv, tc.2, and_self]

theorem T_pw (ps : E) (ht : ∀ h ∈ toList ps, T S h) : T S (.pw ps) := by
  refine Or.inr (fun s hw hst => ?_)
  simp only [wf, Bool.and_eq_true, beq_iff_eq] at hw
  obtain ⟨⟨rfl, hl⟩, hwp⟩ := hw
  have hp := proper_of_wf .P ps hl hwp
  show (evD S (pr (.pw ps)).doc).num = (ev S (.pw ps)).num
  simp only [pr] at hst ⊢
  have hall : ∀ i ∈ (pr ps).items, i.st = .ok → (evD S i.doc).num = (ev S i.e).num ∧
      (isTruePair i.e = false → (evD S i.base).bool = (ev S i.e).bool) := by
    rw [items_list ps hp]
    intro i hi hsti
    simp only [List.mem_map] at hi
    obtain ⟨h, hh, rfl⟩ := hi
    have hwf := wf_list .P ps hwp h hh
    have := T_elim S h (ht h hh) hwf.2 .P hwf.1 hsti
    exact ⟨this.1, fun _ => this.2⟩
  have htrue : ∀ i ∈ (pr ps).items, isTruePair i.e = true → (ev S i.e).bool = true := by
    rw [items_list ps hp]
    intro i hi htp
    simp only [List.mem_map] at hi
    obtain ⟨h, hh, rfl⟩ := hi
    simp only [mk] at htp ⊢
    cases h <;> simp [isTruePair] at htp
    rename_i v c
    cases c <;> simp [isTruePair] at htp
    simp [ev]
  have h2 := pwInner_val S (pr ps).items hst hall htrue
  rw [items_list ps hp, List.map_map, List.map_map] at h2
  simp only [evD_paren, ev, (ev_nums_list S ps hp).1, (ev_nums_list S ps hp).2]
  rw [items_list ps hp]
  exact h2

end C11
