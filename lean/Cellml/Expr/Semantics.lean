import Mathlib.Algebra.Field.Basic
import Mathlib.Algebra.Order.Field.Basic
import Mathlib.Tactic.Ring
import Mathlib.Tactic.FieldSimp
import Mathlib.Tactic.Linarith
import Cellml.Expr.Convert
import Cellml.Units.Lemmas

/-! The two semantics of expressions (DESIGN.md 2.2) over an arbitrary ordered field `K`.

    * `evalNum` / `evalB`  : plain arithmetic on magnitudes — what generated code computes.
    * `evalPhys` / `physB` : the physical quantity denoted (value in SI, dimension) — `none` on a dimension clash.

    Everything that is not field arithmetic is a parameter (`Interp`): the meaning `φ` of a scale (prime ↦ exponent map,
    ⟦s⟧ = ∏ pᵉ), rational powers `pw`, the transcendental functions `fn`. The laws the proofs need are FIELDS of the
    structure, i.e. hypotheses of every theorem, never axioms. The intended instance is `K = ℝ`, `φ s = ∏ p ^ e`,
    `pw = Real.rpow`; a (degenerate) instance over `Rat` is exhibited at the end so that the hypotheses are consistent.
    Not linked into the driver; proof-side only. -/

namespace Sem
open Units Infer

variable {K : Type} [Field K] [LinearOrder K] [IsStrictOrderedRing K]

structure Interp (K : Type) [Field K] [LinearOrder K] [IsStrictOrderedRing K] where
  /-- ⟦s⟧ = ∏ pᵉ, a positive number -/
  φ        : Scale → K
  φ_pos    : ∀ s, 0 < φ s
  φ_congr  : ∀ {a b : Scale}, PMap.Equiv a b → φ a = φ b
  φ_add    : ∀ a b, φ (PMap.add a b) = φ a * φ b
  φ_nil    : φ [] = 1
  /-- `x ** q` for a rational exponent -/
  pw       : K → Rat → K
  /-- powers are covariant under positive rescaling: (x·c)^q = x^q · c^q -/
  pw_cov   : ∀ x s q, pw (x * φ s) q = pw x q * φ (PMap.smul q s)
  /-- an integer exponent is the integer power (wherever Python does not raise ZeroDivisionError) -/
  pw_int   : ∀ (x : K) (n : Int), ¬ (x = 0 ∧ n < 0) → pw x (n : Rat) = x ^ n
  /-- `x ** y` for an exponent that is not a closed number (never produced by a successful conversion) -/
  pwK      : K → K → K
  /-- exp, log, sin, … : uninterpreted -/
  fn       : String → K → K
  fn2      : String → K → K → K
  flr      : K → K
  clg      : K → K
  /-- values of pi, e (and placeholders for oo, nan) -/
  cst      : E → K

def relHolds (r : Rel) (x y : K) : Bool :=
  match r with
  | .eq => decide (x = y) | .ne => decide (x ≠ y)
  | .lt => decide (x < y) | .le => decide (x ≤ y)
  | .gt => decide (y < x) | .ge => decide (y ≤ x)

mutual
/-- plain arithmetic on magnitudes -/
noncomputable def evalNum (I : Interp K) (ρ : Nat → K) (δ : Nat → Nat → K) : E → K
  | .qty v _ => (v : K)
  | .cf s _ => I.φ s
  | .var i => ρ i
  | .deriv v t => δ v t
  | .int n => (n : K)
  | .rat q => (q : K)
  | .flt q => (q : K)
  | .pi => I.cst .pi
  | .e => I.cst .e
  | .oo => I.cst .oo
  | .nan => I.cst .nan
  | .add a b => evalNum I ρ δ a + evalNum I ρ δ b
  | .mul a b => evalNum I ρ δ a * evalNum I ρ δ b
  | .pow b x =>
      match Convert.evalClosed x with
      | some (some q) => I.pw (evalNum I ρ δ b) q
      | _ => I.pwK (evalNum I ρ δ b) (evalNum I ρ δ x)
  | .abs a => |evalNum I ρ δ a|
  | .floor a => I.flr (evalNum I ρ δ a)
  | .ceil a => I.clg (evalNum I ρ δ a)
  | .fn1 f a => I.fn f (evalNum I ρ δ a)
  | .fnN f a b => I.fn2 f (evalNum I ρ δ a) (evalNum I ρ δ b)
  | .ite c t el => if evalB I ρ δ c then evalNum I ρ δ t else evalNum I ρ δ el
  -- no piece applies: SymPy yields nan, which is absorbing for the multiplication by a factor; 0 stands for it
  | .undef => 0
  | .rel _ _ _ => 0
  | .and _ _ => 0
  | .or _ _ => 0
  | .not _ => 0
  | .tt => 0
  | .ff => 0
  | .other _ => 0
/-- conditions, by the order of `K` -/
noncomputable def evalB (I : Interp K) (ρ : Nat → K) (δ : Nat → Nat → K) : E → Bool
  | .rel r a b => relHolds r (evalNum I ρ δ a) (evalNum I ρ δ b)
  | .and a b => evalB I ρ δ a && evalB I ρ δ b
  | .or a b => evalB I ρ δ a || evalB I ρ δ b
  | .not a => !evalB I ρ δ a
  | .tt => true
  | .ff => false
  | .qty _ _ => false
  | .cf _ _ => false
  | .var _ => false
  | .deriv _ _ => false
  | .int _ => false
  | .rat _ => false
  | .flt _ => false
  | .pi => false
  | .e => false
  | .oo => false
  | .nan => false
  | .add _ _ => false
  | .mul _ _ => false
  | .pow _ _ => false
  | .abs _ => false
  | .floor _ => false
  | .ceil _ => false
  | .fn1 _ _ => false
  | .fnN _ _ _ => false
  | .ite _ _ _ => false
  | .undef => false
  | .other _ => false
end

mutual
/-- the physical quantity denoted: (value in SI, dimension); `none` = no physical meaning (dimension clash, …) -/
noncomputable def evalPhys (I : Interp K) (reg : Registry) (Γ : VarEnv) (ρ : Nat → K) (δ : Nat → Nat → K) :
    E → Option (K × Dims)
  | .qty v u => some ((v : K) * I.φ (scaleOf reg u), dimsOf reg u)
  | .cf s u => some (I.φ s * I.φ (scaleOf reg u), dimsOf reg u)
  | .var i =>
      match Γ[i]? with
      | some vi => some (ρ i * I.φ (scaleOf reg vi.unit), dimsOf reg vi.unit)
      | none => none
  | .deriv v t =>
      match Γ[v]?, Γ[t]? with
      | some vv, some vt =>
          some (δ v t * (I.φ (scaleOf reg vv.unit) / I.φ (scaleOf reg vt.unit)),
                PMap.sub (dimsOf reg vv.unit) (dimsOf reg vt.unit))
      | _, _ => none
  | .int n => some ((n : K), [])
  | .rat q => some ((q : K), [])
  | .flt q => some ((q : K), [])
  | .pi => some (I.cst .pi, [])
  | .e => some (I.cst .e, [])
  | .oo => none
  | .nan => none
  | .add a b =>
      match evalPhys I reg Γ ρ δ a, evalPhys I reg Γ ρ δ b with
      | some (x, d), some (y, d') => if PMap.beq d d' then some (x + y, d) else none
      | _, _ => none
  | .mul a b =>
      match evalPhys I reg Γ ρ δ a, evalPhys I reg Γ ρ δ b with
      | some (x, d), some (y, d') => some (x * y, PMap.add d d')
      | _, _ => none
  | .pow b x =>
      -- the exponent is a dimensionless quantity whose PHYSICAL value is the number q
      match evalPhys I reg Γ ρ δ b, evalPhys I reg Γ ρ δ x, Convert.evalClosed x with
      | some (xb, db), some (xx, dx), some (some q) =>
          if PMap.isZero dx ∧ xx = (q : K) then some (I.pw xb q, PMap.smul q db) else none
      | _, _, _ => none
  | .abs a =>
      match evalPhys I reg Γ ρ δ a with
      | some (x, d) => some (|x|, d)
      | none => none
  -- floor / ceiling are not scale-covariant: no unit-independent physical meaning (known finding)
  | .floor _ => none
  | .ceil _ => none
  | .fn1 f a =>
      match evalPhys I reg Γ ρ δ a with
      | some (x, d) => if PMap.isZero d then some (I.fn f x, []) else none
      | none => none
  | .fnN f a b =>
      match evalPhys I reg Γ ρ δ a, evalPhys I reg Γ ρ δ b with
      | some (x, d), some (y, d') => if PMap.isZero d ∧ PMap.isZero d' then some (I.fn2 f x y, []) else none
      | _, _ => none
  | .ite c t el =>
      match physB I reg Γ ρ δ c, evalPhys I reg Γ ρ δ t with
      | some bc, some (x, d) =>
          if el = .undef then some (if bc then x else 0, d)
          else
            match evalPhys I reg Γ ρ δ el with
            | some (y, d') => if PMap.beq d d' then some (if bc then x else y, d) else none
            | none => none
      | _, _ => none
  | .undef => none
  | .rel _ _ _ => none
  | .and _ _ => none
  | .or _ _ => none
  | .not _ => none
  | .tt => none
  | .ff => none
  | .other _ => none
/-- the truth value of a condition between physical quantities; `none` when two comparands differ in dimension -/
noncomputable def physB (I : Interp K) (reg : Registry) (Γ : VarEnv) (ρ : Nat → K) (δ : Nat → Nat → K) :
    E → Option Bool
  | .rel r a b =>
      match evalPhys I reg Γ ρ δ a, evalPhys I reg Γ ρ δ b with
      | some (x, d), some (y, d') => if PMap.beq d d' then some (relHolds r x y) else none
      | _, _ => none
  | .and a b =>
      match physB I reg Γ ρ δ a, physB I reg Γ ρ δ b with
      | some p, some q => some (p && q)
      | _, _ => none
  | .or a b =>
      match physB I reg Γ ρ δ a, physB I reg Γ ρ δ b with
      | some p, some q => some (p || q)
      | _, _ => none
  | .not a =>
      match physB I reg Γ ρ δ a with
      | some p => some (!p)
      | none => none
  | .tt => some true
  | .ff => some false
  | .qty _ _ => none
  | .cf _ _ => none
  | .var _ => none
  | .deriv _ _ => none
  | .int _ => none
  | .rat _ => none
  | .flt _ => none
  | .pi => none
  | .e => none
  | .oo => none
  | .nan => none
  | .add _ _ => none
  | .mul _ _ => none
  | .pow _ _ => none
  | .abs _ => none
  | .floor _ => none
  | .ceil _ => none
  | .fn1 _ _ => none
  | .fnN _ _ _ => none
  | .ite _ _ _ => none
  | .undef => none
  | .other _ => none
end

/-! ### consequences of the laws -/
namespace Interp
variable (I : Interp K)

theorem φ_ne (s : Scale) : I.φ s ≠ 0 := ne_of_gt (I.φ_pos s)

theorem φ_norm (s : Scale) : I.φ (PMap.norm s) = I.φ s := I.φ_congr (PMap.norm_equiv s)

theorem φ_neg (s : Scale) : I.φ (PMap.neg s) = (I.φ s)⁻¹ := by
  have h : I.φ (PMap.add (PMap.neg s) s) = 1 := by
    rw [← I.φ_nil]; apply I.φ_congr
    intro k; simp only [PMap.get_add, PMap.get_neg, PMap.get_nil]; grind
  rw [I.φ_add] at h
  exact eq_inv_of_mul_eq_one_left h

theorem φ_sub (a b : Scale) : I.φ (PMap.sub a b) = I.φ a / I.φ b := by
  rw [PMap.sub, I.φ_add, I.φ_neg, div_eq_mul_inv]

/-- two scales with the same meaning as a difference that is `[]` -/
theorem φ_eq_of_sub_nil {a b : Scale} (h : PMap.Equiv (PMap.sub a b) []) : I.φ a = I.φ b := by
  apply I.φ_congr
  intro k; have := h k; simp only [PMap.get_sub, PMap.get_nil] at this; grind

end Interp

/-! ### SI scale and dimension of products, quotients, powers of units -/
section units
variable (I : Interp K) (reg : Registry)

theorem φ_scaleOf (c : Container) : I.φ (scaleOf reg c) = I.φ (toRoot reg c).1 := I.φ_norm _

theorem φ_scaleOf_congr {a b : Container} (h : PMap.Equiv a b) : I.φ (scaleOf reg a) = I.φ (scaleOf reg b) := by
  rw [φ_scaleOf, φ_scaleOf]; exact I.φ_congr (toRoot_congr reg h).1

theorem φ_scaleOf_mulC (a b : Container) :
    I.φ (scaleOf reg (mulC a b)) = I.φ (scaleOf reg a) * I.φ (scaleOf reg b) := by
  rw [mulC, φ_scaleOf_congr I reg (PMap.norm_equiv _), φ_scaleOf, I.φ_congr (toRoot_add reg a b).1, I.φ_add,
    φ_scaleOf, φ_scaleOf]

theorem φ_scaleOf_powC (a : Container) (q : Rat) :
    I.φ (scaleOf reg (powC a q)) = I.φ (PMap.smul q (scaleOf reg a)) := by
  rw [powC, φ_scaleOf_congr I reg (PMap.norm_equiv _), φ_scaleOf, I.φ_congr (toRoot_smul reg q a).1]
  exact I.φ_congr (PMap.smul_congr q (PMap.norm_equiv _).symm)

theorem φ_scaleOf_divC (a b : Container) :
    I.φ (scaleOf reg (divC a b)) = I.φ (scaleOf reg a) / I.φ (scaleOf reg b) := by
  have h1 : I.φ (scaleOf reg (divC a b)) = I.φ (scaleOf reg (PMap.add a (PMap.smul (-1) b))) :=
    φ_scaleOf_congr I reg (PMap.norm_equiv _)
  rw [h1, φ_scaleOf, I.φ_congr (toRoot_add reg a _).1, I.φ_add, I.φ_congr (toRoot_smul reg (-1) b).1]
  have h2 : I.φ (PMap.smul (-1) (toRoot reg b).1) = (I.φ (toRoot reg b).1)⁻¹ := I.φ_neg _
  rw [h2, φ_scaleOf, φ_scaleOf, div_eq_mul_inv]

theorem φ_scaleOf_nil : I.φ (scaleOf reg []) = 1 := by
  have h := (toRoot_smul reg 0 []).1
  rw [φ_scaleOf]
  have : (PMap.smul 0 ([] : Container)) = [] := rfl
  rw [this] at h
  rw [I.φ_congr h, ← I.φ_nil]
  apply I.φ_congr
  intro k; simp only [PMap.get_smul, PMap.get_nil]; grind

end units

section dims
variable (reg : Registry)
open PMap

theorem dimsOf_congr {a b : Container} (h : a ≃ b) : dimsOf reg a ≃ dimsOf reg b :=
  (dimsOf_equiv reg a).trans ((dimsOfRoot_congr reg (toRoot_congr reg h).2).trans (dimsOf_equiv reg b).symm)

theorem dimsOf_mulC (a b : Container) : dimsOf reg (mulC a b) ≃ add (dimsOf reg a) (dimsOf reg b) := by
  refine (dimsOf_congr reg (norm_equiv _)).trans ?_
  refine (dimsOf_equiv reg _).trans ?_
  refine (dimsOfRoot_congr reg (toRoot_add reg a b).2).trans ?_
  refine (dimsOfRoot_add reg _ _).trans ?_
  exact add_congr (dimsOf_equiv reg a).symm (dimsOf_equiv reg b).symm

theorem dimsOf_smul (q : Rat) (a : Container) : dimsOf reg (smul q a) ≃ smul q (dimsOf reg a) := by
  refine (dimsOf_equiv reg _).trans ?_
  refine (dimsOfRoot_congr reg (toRoot_smul reg q a).2).trans ?_
  refine (dimsOfRoot_smul reg q _).trans ?_
  exact smul_congr q (dimsOf_equiv reg a).symm

theorem dimsOf_powC (a : Container) (q : Rat) : dimsOf reg (powC a q) ≃ smul q (dimsOf reg a) :=
  (dimsOf_congr reg (norm_equiv _)).trans (dimsOf_smul reg q a)

theorem dimsOf_divC (a b : Container) : dimsOf reg (divC a b) ≃ sub (dimsOf reg a) (dimsOf reg b) := by
  refine (dimsOf_congr reg (norm_equiv _)).trans ?_
  refine (dimsOf_equiv reg _).trans ?_
  refine (dimsOfRoot_congr reg (toRoot_add reg a _).2).trans ?_
  refine (dimsOfRoot_add reg _ _).trans ?_
  refine add_congr (dimsOf_equiv reg a).symm ?_
  refine (dimsOf_equiv reg _).symm.trans ?_
  exact dimsOf_smul reg (-1) b

theorem dimsOf_nil : dimsOf reg [] ≃ [] := by
  have h := dimsOf_smul reg 0 []
  have e : (smul 0 ([] : Container)) = [] := rfl
  rw [e] at h
  refine h.trans ?_
  intro k; simp only [get_smul, get_nil]; grind

end dims

/-! ### order facts -/

/-- a common positive factor does not change a comparison -/
theorem relHolds_scale (r : Rel) (a b c : K) (hc : 0 < c) : relHolds r (a * c) (b * c) = relHolds r a b := by
  cases r <;> simp only [relHolds]
  · exact decide_eq_decide.mpr ⟨fun h => mul_right_cancel₀ (ne_of_gt hc) h, fun h => by rw [h]⟩
  · exact decide_eq_decide.mpr (not_congr ⟨fun h => mul_right_cancel₀ (ne_of_gt hc) h, fun h => by rw [h]⟩)
  · exact decide_eq_decide.mpr (mul_lt_mul_iff_left₀ hc)
  · exact decide_eq_decide.mpr (mul_le_mul_iff_left₀ hc)
  · exact decide_eq_decide.mpr (mul_lt_mul_iff_left₀ hc)
  · exact decide_eq_decide.mpr (mul_le_mul_iff_left₀ hc)

theorem cast_ratPowInt (x : Rat) (n : Int) : ((ratPowInt x n : Rat) : K) = (x : K) ^ n := by
  unfold ratPowInt
  split
  · rename_i h
    rw [Rat.cast_pow]
    conv_rhs => rw [← Int.toNat_of_nonneg h]
    exact (zpow_natCast _ _).symm
  · rename_i h
    have hn : 0 ≤ -n := by omega
    rw [Rat.cast_pow, Rat.cast_div, Rat.cast_one, one_div]
    have : n = -((-n).toNat : Int) := by rw [Int.toNat_of_nonneg hn]; omega
    conv_rhs => rw [this]
    rw [zpow_neg, zpow_natCast, inv_pow]

/-- `float(expr)` on a closed numeric expression is what plain arithmetic computes -/
theorem evalClosed_evalNum (I : Interp K) (ρ : Nat → K) (δ : Nat → Nat → K) :
    ∀ (t : E) (q : Rat), Convert.evalClosed t = some (some q) → evalNum I ρ δ t = (q : K) := by
  intro t
  induction t with
  | qty v u => intro q h; simp only [Convert.evalClosed, Option.some.injEq] at h; subst h; simp only [evalNum]
  | cf s u =>
      intro q h
      simp only [Convert.evalClosed] at h
      split at h
      · rename_i hs; simp only [Option.some.injEq] at h; subst h; subst hs
        simp only [evalNum, I.φ_nil, Rat.cast_one]
      · simp at h
  | int n => intro q h; simp only [Convert.evalClosed, Option.some.injEq] at h; subst h; simp only [evalNum, Rat.cast_intCast]
  | rat v => intro q h; simp only [Convert.evalClosed, Option.some.injEq] at h; subst h; simp only [evalNum]
  | flt v => intro q h; simp only [Convert.evalClosed, Option.some.injEq] at h; subst h; simp only [evalNum]
  | mul a b iha ihb =>
      intro q h
      simp only [Convert.evalClosed] at h
      split at h <;> simp only [Option.some.injEq, reduceCtorEq] at h
      rename_i x y hx hy
      subst h
      simp only [evalNum, iha x hx, ihb y hy, Rat.cast_mul]
  | add a b iha ihb =>
      intro q h
      simp only [Convert.evalClosed] at h
      split at h <;> simp only [Option.some.injEq, reduceCtorEq] at h
      rename_i x y hx hy
      subst h
      simp only [evalNum, iha x hx, ihb y hy, Rat.cast_add]
  | pow a b iha ihb =>
      intro q h
      simp only [Convert.evalClosed] at h
      split at h <;> try (simp only [Option.some.injEq, reduceCtorEq] at h)
      rename_i x y hx hy
      split at h <;> simp only [Option.some.injEq, reduceCtorEq] at h
      rename_i hc
      subst h
      obtain ⟨hden, hz⟩ := hc
      have hy' : y = ((y.num : Int) : Rat) := by
        have := Rat.num_div_den y
        rw [hden] at this; simpa using this.symm
      simp only [evalNum, hy, iha x hx, cast_ratPowInt]
      rw [hy']
      have hz' : ¬ ((x : K) = 0 ∧ y.num < 0) := by
        intro ⟨h0, hn⟩
        apply hz
        refine ⟨by exact_mod_cast h0, ?_⟩
        exact Rat.num_neg.mp hn
      simpa using I.pw_int (x : K) y.num hz'
  | abs a iha =>
      intro q h
      simp only [Convert.evalClosed] at h
      split at h
      · rename_i x hx
        simp only [Option.some.injEq] at h; subst h
        simp only [evalNum, iha x hx]
        split
        · rename_i hneg
          have : (x : K) < 0 := by exact_mod_cast hneg
          rw [abs_of_neg this, Rat.cast_neg]
        · rename_i hnn
          have : (0 : K) ≤ (x : K) := by exact_mod_cast (not_lt.mp hnn)
          rw [abs_of_nonneg this]
      · rename_i hr
        exact (hr q h).elim
  | floor a _ => intro q h; simp only [Convert.evalClosed] at h; split at h <;> simp at h
  | ceil a _ => intro q h; simp only [Convert.evalClosed] at h; split at h <;> simp at h
  | fn1 f a _ => intro q h; simp only [Convert.evalClosed] at h; split at h <;> simp at h
  | _ => intro q h; simp [Convert.evalClosed] at h

/-! ### non-vacuity: the hypotheses (fields of `Interp`) are consistent

    Over `Rat` the only multiplicative `φ` is the trivial one (the exponent group is divisible, `ℚ₊` is free), so this
    instance is degenerate; the intended instance is `ℝ` with `φ s = ∏ p ^ e` and `pw = Real.rpow`, for which
    `pw_cov` is `(x·c)^q = x^q·c^q` (`c > 0`) and `pw_int` is `Real.rpow_intCast`. -/
noncomputable def ratInterp : Interp Rat where
  φ _ := 1
  φ_pos _ := one_pos
  φ_congr _ := rfl
  φ_add _ _ := (mul_one 1).symm
  φ_nil := rfl
  pw x q := if q.den = 1 then x ^ q.num else 1
  pw_cov x s q := by simp
  pw_int x n _ := by simp
  pwK _ _ := 0
  fn _ x := x
  fn2 _ x _ := x
  flr x := (Rat.floor x : Rat)
  clg x := (Rat.ceil x : Rat)
  cst _ := 3

/-! ### a computable evaluator over `Rat` with the TRUE value of integer-exponent scales
    (used only for the proved counterexample `floor_value_changes`; no theorem depends on it) -/

/-- ∏ pᵉ for integer exponents -/
def scaleQ : Scale → Rat
  | [] => 1
  | (p, x) :: t => ratPowInt (p : Rat) x.num * scaleQ t

/-- plain arithmetic over `Rat` with genuine floor / ceiling -/
def evalQ (ρ : Nat → Rat) : E → Rat
  | .qty v _ => v
  | .cf s _ => scaleQ s
  | .var i => ρ i
  | .int n => n
  | .rat q => q
  | .flt q => q
  | .add a b => evalQ ρ a + evalQ ρ b
  | .mul a b => evalQ ρ a * evalQ ρ b
  | .abs a => if evalQ ρ a < 0 then - evalQ ρ a else evalQ ρ a
  | .floor a => (Rat.floor (evalQ ρ a) : Int)
  | .ceil a => (Rat.ceil (evalQ ρ a) : Int)
  | _ => 0

end Sem
