"""Code-translator spec (package Sing2): the decision logic of `_is_negative_power`, `_solve_real`, and of
`_get_singularity` as far as the hand model `C12/Detect.lean` has it: the nested `check_U_match` (comparison of the
matched `SP_wildcard` with the singular point, the assertion on `P_wildcard`) and the loop
`for fp1 in fraction_part_1:` (the three patterns in the order they are tried, `match[P_wildcard] != 0`, the `break`).

The hand model classifies the factors of the canonical product (`C12.Base × Int`); SymPy's `match` / `solveset` /
`evalf` are leaves read on those classes (`lean/Cellml/Tie/SingDetView.lean`)."""

_MATCH = [
    ('__F.match(P_wildcard * u)', '(matchMulU {F} u)'),
    ('__F.match(P_wildcard * V - P_wildcard * SP_wildcard)', '(matchLin {F})'),
    ('__F.match(exp_function(P_wildcard * V - P_wildcard * SP_wildcard))', '(matchExpLin {F})'),
    ('P_wildcard in __M', '(hasP {M})'),
    ('__M[P_wildcard]', '(getP {M})'),
    ('__M[SP_wildcard]', '(getSP {M})'),
]

GROUP = {'name': 'SingDet',
 'imports': ['Cellml.Tie.SingDetView'],
 'header': 'open Cellml.Tie.PSing2 C12',
 'functions': [
     {'file': 'cellmlmanip/_singularity_fixes.py',
      'func': '_is_negative_power',
      'lean_name': 'isNegativePower',
      'signature': '(evalf : Expr → Except PyErr Rat) (expr : Expr) : Except PyErr Bool',
      'patterns': [('isinstance(__A, Pow)', '(isPowE {A})'),
                   # the comparison `< 0` and `bool(...)` come from the source; `evalf()` is the leaf
                   ('bool(__A)', '{A}'),
                   ('__A.args[1].evalf()', '← evalf {A}')]},
     {'file': 'cellmlmanip/_singularity_fixes.py',
      'func': '_solve_real',
      'lean_name': 'solveReal',
      'signature': '(solveset_ : Aff → SolveSet) (u : Aff) : Except PyErr SolveSet',
      'params': ['u', 'V'],
      'immutable_params': ['u'],
      'patterns': [('solveset(__U, V, domain=S.Reals)', '(solveset_ {U})'),
                   ('isinstance(__R, Intersection)', '(SolveSet.isInter {R})'),
                   ('__R.args[0] == S.Reals', '(SolveSet.arg0IsReals {R})'),
                   ('__R.args[1]', '(SolveSet.arg1 {R})')],
      # `optimize(u, (_POW_OPT,))` rewrites float exponents that are whole numbers into ints: no counterpart on (k, c)
      'stmt_patterns': [('u = optimize(u, (_POW_OPT,))', '')]},
     {'file': 'cellmlmanip/_singularity_fixes.py',
      'func': '_get_singularity.check_U_match',
      'lean_name': 'checkUMatch',
      'signature': '(isclose_ : Rat → Rat → Bool) (m : Option Bind) (sp : Rat) : Except PyErr Bool',
      'patterns': _MATCH + [("getattr(__X, 'is_number', True)", '(isNumber {X})'),
                            ('isclose(__A, __B)', '(isclose_ {A} {B})')]},
     {'file': 'cellmlmanip/_singularity_fixes.py',
      'func': '_get_singularity',
      'fn_class': 'sing2:BlockFn',
      'block': 'fp1',
      'lean_name': 'onTopLoop',
      'signature': '(fraction_part_1 : List Fac) (u : Aff) (sp : Rat) (found_on_top : Bool) : Except PyErr Bool',
      'params': ['fraction_part_1', 'u', 'sp', 'found_on_top', 'V', 'exp_function'],
      'state': ['found_on_top'],
      'returns': 'found_on_top',
      'patterns': _MATCH + [('check_U_match(__M, __S)', '← checkUMatch isClose {M} {S}')]},
 ]}
