import Cellml.Units.Wire
import Cellml.Units.Worklist

/-! Channel C03: load one document's `<units>` elements through the work-list model.

    `(C03 (id k) (defs d…) )` with `d` = `(base s name)` | `(def s name (elem…))` | `(def s name (elem…) :base_units "no")`
    (the store index `s` of the shared wire format is ignored: a document has one store, whose id is `k`)
    →  `(ok (name (scale…) (root…) (dims…)) …)` for every definition in request order
     | `(err ValueError|UndefinedUnitError|BadDefinition …)` | `(unsupported "what")`.

    `(C03 offset "text")` → `(offset refused)` | `(offset accepted)`: the offset test alone (`Units.offsetRejected`),
    compared with `Parser._make_pint_unit_definition` on ONE `<unit>` element whose offset attribute is any ASCII text
    (the RELAX NG validation of `load_model` lets only `xsd:decimal` through).

    `base_units`: the parser tests `units_element.get('base_units') == 'yes'`; the attribute text travels on the wire
    so that `base_units="no"` is decided here, by the model. -/
namespace C03
open Sexp Units Units.Wire

/-- is the `<units>` element a base unit, given the text of its `base_units` attribute (if any) -/
def isBaseAttr : Option String → Bool
  | some "yes" => true      -- after `fix: treat base_units="no" as an ordinary units definition` (was: truthiness)
  | _ => false

def udef? : Sexp → Option UDef
  | .list [.atom "base", _, n] => do
      let name ← atomOf? n
      some { name := name, base := isBaseAttr (some "yes"), elems := [] }
  | .list (.atom "def" :: _ :: n :: es :: rest) => do
      let name ← atomOf? n
      let elems ← elems? es
      let attr := (kw? rest "base_units").bind atomOf?
      some { name := name, base := isBaseAttr attr, elems := elems }
  | _ => none

def report (reg : Registry) (st : Store) (d : UDef) : Sexp :=
  let m := meaningOf reg st d.name
  .list [.str d.name, ofScale m.1, ofContainer "root" m.2,
         ofContainer "dims" (dimsOf reg (nameContainer (prefixName st.id d.name)))]

def handle (args : List Sexp) : Sexp :=
  match args with
  | [.list [.atom "id", k], .list (.atom "defs" :: ds)] =>
      match nat? k, ds.mapM udef? with
      | some id, some defs =>
          match addUnits id defs with
          | .ok (reg, st) => .list (.atom "ok" :: defs.map (report reg st))
          | .error e => addErrSexp e
      | _, _ => .atom "bad-request"
  | [.atom "offset", t] =>
      -- the offset test of `_make_pint_unit_definition` on one attribute text (`float(text) != 0`)
      match atomOf? t with
      | some text => .list [.atom "offset", .atom (if offsetRejected text then "refused" else "accepted")]
      | none => .atom "bad-request"
  | _ => .atom "bad-request"

end C03
