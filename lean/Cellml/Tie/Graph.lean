import Cellml.Tie.GraphEqs
import Cellml.Tie.GraphNum
import Cellml.Tie.GraphBuild

/-! # Ties of package Graph (C09, also C15): cellmlmanip/model.py `Model.graph`, `Model.graph_with_sympy_numbers`,
    `Model.get_equations_for` = the hand model `Cellml/C09/Model.lean`

    * `Cellml.Tie.PGraph.graph_tie`, `graph_tie_types` (+ `graph_cached`, `graph_independent`,
      `graph_set_order_irrelevant`, `graph_types_equation_order`)                          — GraphBuild.lean
    * `Cellml.Tie.PGraph.graphNum_tie`, `graphNum_tie_built` (+ `graphNum_cached`, `graphNum_error`) — GraphNum.lean
    * `Cellml.Tie.PGraph.getEquationsFor_tie`                                              — GraphEqs.lean

    The two theorems below connect the three: what the generated `graph` / `graph_with_sympy_numbers` return is what
    the view of `get_equations_for` reads as `self.graph` / `self.graph_with_sympy_numbers`. -/

namespace Cellml.Tie.PGraph
open C09 Cellml.Gen

theorem addRefs_err (sf : Node → Bool) (lhs : Node) : ∀ (rs : List Node) (g : Graph) (x : Err),
    addRefs sf lhs rs g = .error x → x = .badRef
  | [], g, x, h => by simp [addRefs] at h
  | r :: rs, g, x, h => by
    simp only [addRefs] at h
    split_ifs at h
    · exact addRefs_err sf lhs rs _ x h
    · exact addRefs_err sf lhs rs _ x h
    · cases h; rfl

theorem addEqs_err (key : Node → String) (sf : Node → Bool) : ∀ (es : List Eqn) (g : Graph) (x : Err),
    addEqs key sf es g = .error x → x = .badRef
  | [], g, x, h => by simp [addEqs] at h
  | e :: es, g, x, h => by
    simp only [addEqs] at h
    cases h1 : addRefs sf e.lhs (sortStr key e.refs) g with
    | error y => rw [h1] at h; cases h; exact addRefs_err sf e.lhs (sortStr key e.refs) g _ h1
    | ok g1 => rw [h1] at h; exact addEqs_err key sf es _ x h

/-- `Model.graph` never raises the errors whose python class depends on the recursion mode -/
theorem buildGraph_errName (key : Node → String) (eqs : List Eqn) (x : Err) (recurse : Bool)
    (h : buildGraph key eqs = .error x) : errName recurse x = "AssertionError" := by
  simp only [buildGraph] at h
  by_cases h1 : (eqs.map (·.lhs)).Nodup
  · by_cases h2 : ((eqs.map (·.lhs)).map key).Nodup
    · simp only [h1, h2, not_true_eq_false, if_false] at h
      rw [addEqs_err _ _ _ _ _ h]; rfl
    · simp only [h1, h2, not_true_eq_false, not_false_eq_true, if_false, if_true] at h
      cases h; rfl
  · simp only [h1, not_false_eq_true, if_true] at h
    cases h; rfl

theorem graph_feeds_eqsView (key : Node → String) (eqs : List Eqn) (vars : List Node) (rq : Eqn → Bool)
    (ty0 : TyMap) (recurse : Bool) :
    (GraphBuild.graph (buildView key eqs vars rq) none ty0).map (·.1) = (eqsView key eqs recurse).graph := by
  have h := congrArg (Except.map Prod.fst) (graph_tie key eqs vars rq ty0)
  cases hb : buildGraph key eqs with
  | ok g =>
    rw [hb] at h
    cases hg : GraphBuild.graph (buildView key eqs vars rq) none ty0 with
    | ok r => rw [hg] at h; simpa [eqsView, hb, errClass, Except.map] using h
    | error e => rw [hg] at h; simp [errClass, Except.map] at h
  | error x =>
    rw [hb] at h
    cases hg : GraphBuild.graph (buildView key eqs vars rq) none ty0 with
    | ok r => rw [hg] at h; simp [errClass, Except.map] at h
    | error e =>
      rw [hg] at h
      simp only [eqsView, hb, errClass, Except.map, buildGraph_errName key eqs x _ hb] at h ⊢
      simpa using h

/-- … and likewise for the graph with sympy numbers (no domain condition: `graphNum_tie_built`) -/
theorem graphNum_feeds_eqsView (key : Node → String) (eqs : List Eqn) (g : Graph)
    (recurse : Bool) (hb : buildGraph key eqs = .ok g) :
    (GraphNum.graphWithSympyNumbers (numView eqs (.ok g)) none).map (·.1)
      = (eqsView key eqs recurse).graphNum := by
  rw [graphNum_tie_built key eqs g hb]
  simp [eqsView, hb, errClass, Except.map]

end Cellml.Tie.PGraph
