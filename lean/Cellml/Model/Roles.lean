import Cellml.Model.Inv

/-! # Role queries and the recursive evaluator of `cellmlmanip.model.Model` (model.py `get_free_variable`,
      `get_state_variables`, `get_derivatives`, `get_derived_quantities`, `is_state`, `is_constant`, `get_value`,
      `_get_value`)

    Core Lean only. Built on the C08 state model (`MState`): an `RModel` is a model state together with the
    right-hand side of every equation (by the equation's token: two equations with the same token are `==`, hence have
    the same right-hand side). Right-hand sides are arithmetic trees over numbers, variables and first-order
    derivatives (+ - * / and integer powers, exact over `Rat`); anything else SymPy can hold (a function application:
    `exp`, `log`, a trigonometric function, `Piecewise` …) is an UNINTERPRETED application `opq id args`: `id` names the
    term (the harness sends the printed term), `args` are its argument places, one per variable / derivative the term
    refers to - initially the reference itself (`Expr.ofWire`), later whatever `expand_derivatives` substitutes for it
    (python's `xreplace` reaches inside a function application). Its value is given by an INTERPRETATION
    `fn : Interp` (`fn id vals` = the float SymPy computes for the term `id` when its references have the values
    `vals`; `none`: SymPy yields no finite float), a parameter of `evalE`, `getValueAux`, `getValue`, `roles`: the
    theorems of `Props/C10.lean` hold for EVERY interpretation (as `Props/C02`, `Props/C05` treat transcendental
    functions).

    `_get_value` is modelled as it stands after the two `fix:` commits recorded in findings/C10.json:
    derivatives on a right-hand side are first replaced, recursively, by the right-hand side of their ODE
    (`expand`), then `deps = expr.atoms(Variable)`, the loop over `deps` with the `evaluated` memo (created with the
    states at their initial values and the free variable at 0), `xreplace` and `float` (`evalE`). The recursion of the
    Python code is on the call stack; here it is on fuel (`fuel` = `RecursionError`). -/

namespace Model

inductive BinOp | add | sub | mul | div
deriving DecidableEq, Repr, Inhabited

inductive Expr
  | num (q : Rat)
  | var (v : Nat)
  | deriv (s t : Nat)
  | bin (op : BinOp) (a b : Expr)
  | pow (a : Expr) (n : Int)
  | opq (id : String) (args : List Expr)
deriving Repr, Inhabited

/-- a reference as an expression -/
def nodeExpr : Node → Expr
  | .var v => .var v
  | .deriv s t => .deriv s t

/-- an opaque sub-term as it comes from the wire (`(opq "id" node…)`): every argument place is the reference itself -/
def Expr.ofWire (id : String) (refs : List Node) : Expr := .opq id (refs.map nodeExpr)

/-- what an uninterpreted application evaluates to: `fn id vals` is the value of the opaque term `id` when its
    argument places have the values `vals` (`none`: no finite float) -/
abbrev Interp := String → List Rat → Option Rat

/-- the interpretation that knows no function (what the compiled driver uses) -/
def Interp.none : Interp := fun _ _ => Option.none

mutual
  /-- `find_variables_and_derivatives([rhs])`, as a list in traversal order -/
  def Expr.nodes : Expr → List Node
    | .num _ => []
    | .var v => [.var v]
    | .deriv s t => [.deriv s t]
    | .bin _ a b => a.nodes ++ b.nodes
    | .pow a _ => a.nodes
    | .opq _ args => Expr.nodesL args
  def Expr.nodesL : List Expr → List Node
    | [] => []
    | a :: as => a.nodes ++ Expr.nodesL as
end

/-- induction over expressions: for an opaque term the hypothesis holds of every argument place (the `induction`
    tactic uses this principle: `Expr` is a nested inductive type) -/
@[induction_eliminator]
theorem Expr.induct {P : Expr → Prop} (num : ∀ q, P (.num q)) (var : ∀ v, P (.var v)) (deriv : ∀ s t, P (.deriv s t))
    (bin : ∀ op a b, P a → P b → P (.bin op a b)) (pow : ∀ a n, P a → P (.pow a n))
    (opq : ∀ id args, (∀ a ∈ args, P a) → P (.opq id args)) : ∀ e, P e :=
  @Expr.rec P (fun l => ∀ a ∈ l, P a) num var deriv bin pow opq
    (fun _ h => by cases h)
    (fun _ _ hh ht a ha => by
      rcases List.mem_cons.mp ha with rfl | ha
      · exact hh
      · exact ht a ha)

theorem Expr.nodesL_eq (l : List Expr) : Expr.nodesL l = l.flatMap Expr.nodes := by
  induction l with
  | nil => rfl
  | cons a as ih => simp [Expr.nodesL, ih]

theorem Expr.nodes_ofWire (id : String) (refs : List Node) : (Expr.ofWire id refs).nodes = refs := by
  simp only [Expr.ofWire, Expr.nodes, Expr.nodesL_eq]
  induction refs with
  | nil => rfl
  | cons r rs ih => cases r <;> simp [nodeExpr, Expr.nodes, ih]

/-- `rhs.atoms(Variable)` (the variables inside a derivative included) -/
def Expr.vars (e : Expr) : List Nat := e.nodes.flatMap Node.atoms

def applyBin : BinOp → Rat → Rat → Option Rat
  | .add, p, q => some (p + q)
  | .sub, p, q => some (p - q)
  | .mul, p, q => some (p * q)
  | .div, p, q => if q = 0 then none else some (p / q)

/-- integer power; `0 ** negative` has no value -/
def powInt (p : Rat) (n : Int) : Option Rat :=
  if 0 ≤ n then some (p ^ n.toNat) else if p = 0 then none else some ((p ^ n.natAbs)⁻¹)

/-- why `get_value` raised: ValueError (no definition), TypeError (`float(None)`), RecursionError, a division by
    zero (SymPy: `zoo`), an opaque term to which the interpretation gives no value (`unsupported`) -/
inductive VErr | noDefinition | noInit | fuel | arith | unsupported | derivativeWrtNumber | floatHasNoAtoms
deriving DecidableEq, Repr, Inhabited

mutual
  /-- replace every derivative by what `f` gives for it, also inside the argument places of an opaque term (first
      error in traversal order) -/
  def Expr.bindD (f : Nat → Nat → Except VErr Expr) : Expr → Except VErr Expr
    | .deriv s t => f s t
    | .bin op a b =>
      match a.bindD f, b.bindD f with
      | .ok a', .ok b' => .ok (.bin op a' b')
      | .error e, _ => .error e
      | _, .error e => .error e
    | .pow a n =>
      match a.bindD f with
      | .ok a' => .ok (.pow a' n)
      | .error e => .error e
    | .opq id args =>
      match Expr.bindDL f args with
      | .ok args' => .ok (.opq id args')
      | .error e => .error e
    | .num q => .ok (.num q)
    | .var v => .ok (.var v)
  def Expr.bindDL (f : Nat → Nat → Except VErr Expr) : List Expr → Except VErr (List Expr)
    | [] => .ok []
    | a :: as =>
      match a.bindD f, Expr.bindDL f as with
      | .ok a', .ok as' => .ok (a' :: as')
      | .error e, _ => .error e
      | _, .error e => .error e
end

/-- a model state with the right-hand side of every equation (by token) -/
structure RModel where
  st : MState
  rhs : Nat → Expr

/-- `is_state`: `variable in self._ode_definition_map` -/
def isState (M : RModel) (v : Nat) : Bool := hasKey v M.st.odeDef

/-- `self._var_definition_map[variable].rhs` -/
def varRhs (M : RModel) (v : Nat) : Option Expr := (M.st.varDef.lookup v).map (fun e => M.rhs e.tok)

/-- the right-hand side of the ODE whose left-hand side is this derivative
    (`ode = self._ode_definition_map.get(d.args[0])`, `ode.lhs == d`) -/
def odeRhs (M : RModel) (s t : Nat) : Option Expr :=
  match M.st.odeDef.lookup s with
  | some e => if lhsNode e.lhs = some (.deriv s t) then some (M.rhs e.tok) else none
  | none => none

/-- `get_free_variable` -/
def freeVar (M : RModel) : Option Nat := getFreeVariable M.st

/-- `get_state_variables()` -/
def stateVars (M : RModel) : List Nat := getStateVariables M.st

/-- `is_constant`: defined by an assignment whose right-hand side has no `Variable` atoms -/
def isConstant (M : RModel) (v : Nat) : Bool :=
  match varRhs M v with
  | some r => r.vars.isEmpty
  | none => false

-- ------------------------------------------------------------------------------------------------ graph-based roles
/-- insert `x` before the first element whose key is greater or equal (a stable insertion) -/
def insertBy {α} (key : α → Nat) (x : α) : List α → List α
  | [] => [x]
  | y :: ys => if key x ≤ key y then x :: y :: ys else y :: insertBy key x ys

/-- `list.sort(key=…)`: stable -/
def sortBy {α} (key : α → Nat) : List α → List α
  | [] => []
  | x :: xs => insertBy key x (sortBy key xs)

/-- `[v for v in graph if isinstance(v, Derivative)]` -/
def derivNodesL (ns : List GNode) : List (Nat × Nat) :=
  ns.filterMap (fun n => match n.node with | .deriv s t => some (s, t) | .var _ => none)

def derivNodes (g : Graph) : List (Nat × Nat) := derivNodesL g.nodes

/-- the variable nodes whose `variable_type` is none of FREE, STATE, PARAMETER -/
def derivedNodesL (ns : List GNode) : List Nat :=
  ns.filterMap (fun n => match n.node with
    | .var v => if n.vtype = some .free ∨ n.vtype = some .state ∨ n.vtype = some .parameter then none else some v
    | .deriv _ _ => none)

def derivedNodes (g : Graph) : List Nat := derivedNodesL g.nodes

/-- `get_derivatives()`: sorted by the `order_added` of the state variable -/
def derivatives (M : RModel) : Except GErr (List (Nat × Nat)) :=
  match (queryGraph M.st).2 with
  | .ok g => .ok (sortBy (fun p => orderOf M.st p.1) (derivNodes g))
  | .error e => .error e

/-- `get_derived_quantities()`: sorted by `order_added` -/
def derivedQuantities (M : RModel) : Except GErr (List Nat) :=
  match (queryGraph M.st).2 with
  | .ok g => .ok (sortBy (orderOf M.st) (derivedNodes g))
  | .error e => .error e

-- ------------------------------------------------------------------------------------------------ get_value
/-- `expand_derivatives` inside `_get_value`: every derivative is replaced by the expanded right-hand side of its ODE -/
def expand (M : RModel) : Nat → Expr → Except VErr Expr
  | 0, e => e.bindD (fun _ _ => .error .fuel)
  | f + 1, e => e.bindD (fun s t =>
      match odeRhs M s t with
      | none => .error .noDefinition
      | some r => expand M f r)

/-- the `evaluated` dictionary -/
abbrev Memo := List (Nat × Rat)

mutual
  /-- `float(expr.xreplace(evaluated))` under the interpretation `fn` of the opaque terms (`fn … = none`: SymPy gives no
      finite float there: `unsupported`) -/
  def evalE (fn : Interp) (m : Memo) : Expr → Except VErr Rat
    | .num q => .ok q
    | .var v => match m.lookup v with | some q => .ok q | none => .error .noDefinition
    | .deriv _ _ => .error .noDefinition
    | .bin op a b =>
      match evalE fn m a, evalE fn m b with
      | .ok p, .ok q => (match applyBin op p q with | some r => .ok r | none => .error .arith)
      | .error e, _ => .error e
      | _, .error e => .error e
    | .pow a n =>
      match evalE fn m a with
      | .ok p => (match powInt p n with | some r => .ok r | none => .error .arith)
      | .error e => .error e
    | .opq id args =>
      match evalEL fn m args with
      | .ok vals => (match fn id vals with | some r => .ok r | none => .error .unsupported)
      | .error e => .error e
  def evalEL (fn : Interp) (m : Memo) : List Expr → Except VErr (List Rat)
    | [] => .ok []
    | a :: as =>
      match evalE fn m a, evalEL fn m as with
      | .ok p, .ok ps => .ok (p :: ps)
      | .error e, _ => .error e
      | _, .error e => .error e
end

/-- `{x: x.initial_value for x in self._ode_definition_map}` and `evaluated[time] = 0`
    (a state without initial value is left out: its evaluation then fails with `noInit`) -/
def memo0 (M : RModel) : Memo :=
  let states := M.st.odeDef.filterMap (fun p => (initOf M.st p.1).map (fun q => (p.1, q)))
  match freeVar M with
  | some t => insertKey t 0 states
  | none => states

/-- `for dep in deps: if dep not in evaluated: evaluated[dep] = self._get_value(dep, evaluated)` -/
def evalDeps (rec : Nat → Memo → Except VErr (Rat × Memo)) : List Nat → Memo → Except VErr Memo
  | [], m => .ok m
  | d :: ds, m =>
    if hasKey d m then evalDeps rec ds m
    else match rec d m with
      | .error e => .error e
      | .ok (q, m') => evalDeps rec ds (insertKey d q m')

/-- `_get_value(variable, evaluated)`; returns the value and the dictionary as the call leaves it.
    `F`: fuel for `expand`; the third argument: fuel for the recursion over variables. -/
def getValueAux (fn : Interp) (M : RModel) (F : Nat) : Nat → Nat → Memo → Except VErr (Rat × Memo)
  | 0, _, _ => .error .fuel
  | f + 1, v, m =>
    if isState M v then
      match initOf M.st v with
      | some q => .ok (q, m)
      | none => .error .noInit
    else match varRhs M v with
      | none => if freeVar M = some v then .ok (0, m) else .error .noDefinition
      | some r =>
        match expand M F r with
        | .error e => .error e
        | .ok r' =>
          match evalDeps (getValueAux fn M F f) r'.vars m with
          | .error e => .error e
          | .ok m' =>
            match evalE fn m' r' with
            | .ok q => .ok (q, m')
            | .error e => .error e

/-- `_get_value` as it was before the two `fix:` commits: no expansion of derivatives, so `xreplace` puts numbers
    inside the `Derivative` atom and SymPy raises `ValueError: Can't calculate derivative wrt 0`; and a right-hand side
    that is a bare variable comes back from `xreplace` as a Python float, on which `.atoms` raises `AttributeError` -/
def getValueAuxToday (fn : Interp) (M : RModel) : Nat → Nat → Memo → Except VErr (Rat × Memo)
  | 0, _, _ => .error .fuel
  | f + 1, v, m =>
    if isState M v then
      match initOf M.st v with
      | some q => .ok (q, m)
      | none => .error .noInit
    else match varRhs M v with
      | none => if freeVar M = some v then .ok (0, m) else .error .noDefinition
      | some r =>
        match evalDeps (getValueAuxToday fn M f) r.vars m with
        | .error e => .error e
        | .ok m' =>
          if !r.nodes.all (fun n => match n with | .var _ => true | .deriv _ _ => false) then .error .derivativeWrtNumber
          else match r with
            | .var _ => .error .floatHasNoAtoms
            | _ => match evalE fn m' r with
              | .ok q => .ok (q, m')
              | .error e => .error e

def getValueToday (fn : Interp) (M : RModel) (v : Nat) : Except VErr Rat :=
  match getValueAuxToday fn M (M.st.live.length + 1) v (memo0 M) with
  | .ok (q, _) => .ok q
  | .error e => .error e

def getValueFuel (fn : Interp) (M : RModel) (F : Nat) (v : Nat) : Except VErr Rat :=
  match getValueAux fn M F F v (memo0 M) with
  | .ok (q, _) => .ok q
  | .error e => .error e

/-- `get_value(variable)`: `|variables| + 1` levels of recursion are enough for acyclic definitions
    (`Props/C10.lean: getValue_fuel`) -/
def getValue (fn : Interp) (M : RModel) (v : Nat) : Except VErr Rat := getValueFuel fn M (M.st.live.length + 1) v

/-- everything C10 is about: the answers of the role queries and of `get_value` -/
structure Roles where
  states : List Nat
  free : Option Nat
  derivatives : Except GErr (List (Nat × Nat))
  derivedQuantities : Except GErr (List Nat)
  isState : Nat → Bool
  isConstant : Nat → Bool
  value : Nat → Except VErr Rat

def roles (fn : Interp) (M : RModel) : Roles :=
  ⟨stateVars M, freeVar M, derivatives M, derivedQuantities M, isState M, isConstant M, getValue fn M⟩

end Model
