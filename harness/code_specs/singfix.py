"""Code-translator spec: `_fix_expr_parts` (open recursion: the recursive call is the parameter `rec`) and
`_remove_singularities` of _singularity_fixes.py (C12 `C12.fixBody` / `C12.fixParts` / `C12.removeSing`).

SymPy trees are the model's `C12.Expr`; the 5-tuple `(Vmin, Vmax, sp, expr, has_piecewise)` is `PyRes` (a quantity is
its number, `None` is `none`). Bound leaves: `isinstance`, `.args`, `.has(exp)`, `Mul(*…)` / `Add(*…)` / `ONE / x`
(tree constructors), `_get_singularity` (the detector `det`, an arbitrary function as in the model),
`_generate_piecewise` (tied on its own, see singpw.py), `min` / `max` with the float key, `set`, `str` of a quantity."""

_PATTERNS = [
    ('__A.has(exp_function)', '(Expr.hasExp {A})'),
    ('isinstance(__A, Mul)', '(isMul {A})'),
    ('isinstance(__A, Add)', '(isAdd {A})'),
    ('isinstance(__A, Pow)', '(isPow {A})'),
    # a quantity (or an integer) one: `Expr.isOne` (the number is a rational in the model, a float / its name in python)
    ("str(__A) in ('1.0', '1')", '(Expr.isOne {A})'),
    ("str(getattr(__A, 'units', 'dimensionless')) == 'dimensionless'", '(unitless {A})'),
    ('Mul(*__A)', '(Expr.mkMul {A})'),
    ('Add(*__A)', '(Expr.add {A})'),
    # Quantity dummies -> floats for the pattern matcher: the model's detector reads the same tree
    ('__A.xreplace(subs_dict)', '{A}'),
    ('_fix_expr_parts(__A, V, U_offset, exp_function)', '(rec {A})'),
    ('[item for (Vmin, Vmax, _, _, _) in __A for item in (Vmin, Vmax)]', '(bounds5 {A})'),
    ('[item for (Vmin, Vmax, _) in __A for item in (Vmin, Vmax)]', '(bounds3 {A})'),
    ('set([str(sp) for (_, _, sp, _, _) in __A])', '(pySet (spStrs {A}))'),
    ('isinstance(__A, Quantity)', '({A}).isSome'),
    ('__A[0][2]', '(({A}).headD pyResDefault).2.2.1'),
    ('min(__A, key=lambda v: float(str(v)))', '(pyMin {A})'),
    ('max(__A, key=lambda v: float(str(v)))', '(pyMax {A})'),
    ('_generate_piecewise(__E, V, __S, __A, __B)', '(genPw {E} {S} {A} {B})'),
    ('__A.args[1] == -1.0', '(powExp {A} == -1)'),
    ('__A.args[1]', '(powExp {A})'),
    ('__A.args[0]', '(arg0 {A})'),
    ('__A.args', '(args {A})'),
    # sympy: ONE / x is Mul(ONE, Pow(x, -1))
    ('ONE / __A', '(Expr.mul [Expr.num 1, Expr.pow {A} (-1)])'),
    ('_get_singularity(__A, V, U_offset, exp_function)', '((det (args {A})).map winTuple)'),
    ('__A[0]', '(({A}).headD (none, none, none))'),
    ('__A[__N:]', '(({A}).drop {N})'),
]

GROUP = {'name': 'SingFix',
 'imports': ['Cellml.Tie.SingView'],
 'header': 'open Cellml.Tie.Sing C12 C12.Expr',
 'functions': [{'file': 'cellmlmanip/_singularity_fixes.py',
                'func': '_fix_expr_parts',
                'lean_name': 'fixExprParts',
                'signature': '(det : List Expr → List (Win Rat)) (rec : Expr → PyRes) (expr : Expr) : '
                             'Except PyErr PyRes',
                'params': ['expr', 'V', 'U_offset', 'exp_function'],
                'patterns': _PATTERNS,
                'stmt_patterns': [('subs_dict = {d: d.evalf(FLOAT_PRECISION) for d in expr.atoms(Quantity)}', ''),
                                  ('new_expr_parts = []', 'let mut new_expr_parts : List PyRes := []'),
                                  ('new_expr_parts.append(__A)', 'new_expr_parts := new_expr_parts ++ [{A}]'),
                                  ('expr_parts = []', 'let mut expr_parts : List Expr := []'),
                                  ('expr_parts.append(__A)', 'expr_parts := expr_parts ++ [{A}]')]},
               {'file': 'cellmlmanip/_singularity_fixes.py',
                'func': '_remove_singularities',
                'lean_name': 'removeSingularities',
                'signature': '(fp : Expr → Except PyErr PyRes) (expr : Expr) : Except PyErr (Bool × Expr)',
                'params': ['expr', 'V', 'U_offset', 'exp_function'],
                'mutable': ['Vmin', 'Vmax', 'sp', 'ex', 'changed'],
                'patterns': [('__A.has(exp_function)', '(Expr.hasExp {A})'),
                             ('_fix_expr_parts(__A, V, U_offset, exp_function)', '← fp {A}'),
                             ('_generate_piecewise(__E, V, __S, __A, __B)', '(genPw {E} {S} {A} {B})')]}]}
