#!/bin/bash
# tools/verify_seed.sh <seed dir with mutationK.diff demoK.py metaK.json> <K> <Cxx>
# Confirms in a fresh scratch worktree of /repo HEAD: demo passes without the change, suite passes with the change,
# demo fails with the change. On success stores the seed under /verif/seeded/<Cxx>-<K>/.
set -u
src=$1; k=$2; p=$3; dk=${4:-$k}
wt=/tmp/vs-$$-repo
trap 'git -C /repo worktree remove --force $wt >/dev/null 2>&1; rm -rf $wt' EXIT
git -C /repo worktree add -q --detach $wt HEAD || exit 2
mkdir -p $wt/_seed; cp $src/demo$k.py $wt/_seed/
cd $wt
PYTHONPATH=$wt /venv/bin/python _seed/demo$k.py >/tmp/vs-$$-clean.out 2>&1; clean=$?
git apply $src/mutation$k.diff || { echo "PATCH DOES NOT APPLY to current HEAD"; exit 2; }
suite=$(/venv/bin/python -m pytest -q -p no:cacheprovider 2>&1 | tail -1)
PYTHONPATH=$wt /venv/bin/python _seed/demo$k.py >/tmp/vs-$$-mut.out 2>&1; mut=$?
echo "$p-$dk: demo clean exit=$clean, suite with change: $suite, demo with change exit=$mut"
if [ $clean -eq 0 ] && [ $mut -ne 0 ] && echo "$suite" | grep -q "252 passed"; then
  d=/verif/seeded/$p-$dk; mkdir -p $d
  cp $src/mutation$k.diff $d/patch.diff; cp $src/demo$k.py $d/demo.py
  /venv/bin/python - "$src/meta$k.json" "$d/meta.json" "$p" "$clean" "$mut" "$suite" <<'PY'
import json, sys
src, dst, p, clean, mut, suite = sys.argv[1:7]
try:
    m = json.load(open(src))
except Exception:
    m = {}
m.update({'property': p, 'confirmed_by_integrator': {
    'what_was_run': 'fresh scratch worktree of /repo HEAD: demo without change, full pytest suite with change, demo with change (tools/verify_seed.sh)',
    'demo_exit_without_change': int(clean), 'demo_exit_with_change': int(mut), 'suite_with_change': suite}})
json.dump(m, open(dst, 'w'), indent=1)
PY
  echo "stored $d"
else
  echo "NOT CONFIRMED"; tail -5 /tmp/vs-$$-clean.out /tmp/vs-$$-mut.out
fi
rm -f /tmp/vs-$$-*.out
