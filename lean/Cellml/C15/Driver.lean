import Cellml.Basic.Sexp
/-! Channel C15 of the model driver (stub: not built yet). -/
namespace C15
def handle (_args : List Sexp) : Sexp := .atom "not-implemented"
end C15
