import Cellml.C06.Units3

/-! C06: unit consistency, the free-variable case, and the theorem for every case. -/

namespace Model.CV
open Model

theorem freeStep_unit (v nv : Nat) (cfq : X) (st : CState) (rep : Rep) (ode : CEqn) (x : Nat)
    (hl : ode.lhs = .deriv x v) :
    unitOfV (freeStep v nv cfq (st, rep) ode).1 st.vars.length = lhsUnit st ode.lhs := by
  have : (freeStep v nv cfq (st, rep) ode).1.vars = (removeOdeAssign st ode x).1.vars := by
    rw [freeStep_eq v nv cfq st rep ode x hl]
    simp only [convertFreeDeriv, hl]
    exact (addEq_vars _ _ _).1
  unfold unitOfV; rw [this]; exact removeOdeAssign_unit st ode x

/-- the loop over the ODEs keeps the model unit-consistent; `UU` are the units of the original variables -/
theorem loop_units (J : UI) (UU : Nat → U) (n0 v : Nat) (cf : Rat) (u : U) (hUv : (UU v).scale ≠ 0) (hvn0 : v < n0) :
    ∀ (L : List CEqn) (st : CState) (rep : Rep), LoopInv v n0 st rep L → UnitsOK J st →
    (∀ i, i < n0 → unitOfV st i = UU i) → unitOfV st n0 = u →
    (∀ k w, rep.lookup k = some w → k.1 < n0 ∧ k.2 < n0 ∧ unitOfV st w = (UU k.1).div (UU k.2)) →
    LoopInv v n0 (L.foldl (freeStep v n0 (.lit cf (u.div (UU v)))) (st, rep)).1
      (L.foldl (freeStep v n0 (.lit cf (u.div (UU v)))) (st, rep)).2 [] ∧
    UnitsOK J (L.foldl (freeStep v n0 (.lit cf (u.div (UU v)))) (st, rep)).1 ∧
    (∀ i, i < n0 → unitOfV (L.foldl (freeStep v n0 (.lit cf (u.div (UU v)))) (st, rep)).1 i = UU i) ∧
    (∀ k w, (L.foldl (freeStep v n0 (.lit cf (u.div (UU v)))) (st, rep)).2.lookup k = some w →
      k.1 < n0 ∧ k.2 < n0 ∧
      unitOfV (L.foldl (freeStep v n0 (.lit cf (u.div (UU v)))) (st, rep)).1 w = (UU k.1).div (UU k.2)) := by
  intro L
  induction L with
  | nil => intro st rep Jl hu hA _ hC; exact ⟨Jl, hu, hA, hC⟩
  | cons ode L ih =>
    intro st rep Jl hu hA hB hC
    obtain ⟨ho, x, hl, hxnv⟩ := Jl.inL ode (List.mem_cons_self ..)
    obtain ⟨s1, s2, s3, J1⟩ := freeStep_spec (.lit cf (u.div (UU v))) rfl Jl x hl hxnv
    have hext := ext_freeStep v n0 (.lit cf (u.div (UU v))) (st, rep) ode
    have hw := freeStep_unit v n0 (.lit cf (u.div (UU v))) st rep ode x hl
    simp only [List.foldl_cons]
    generalize hst1 : (freeStep v n0 (.lit cf (u.div (UU v))) (st, rep) ode).1 = st1 at s2 s3 J1 hext hw
    generalize hrep1 : (freeStep v n0 (.lit cf (u.div (UU v))) (st, rep) ode).2 = rep1 at s1 J1
    have hacc : freeStep v n0 (.lit cf (u.div (UU v))) (st, rep) ode = (st1, rep1) := by rw [← hst1, ← hrep1]
    rw [hacc]
    have hn0 : n0 < st.vars.length := Jl.nvlt
    have hsame : ∀ i, i < st.vars.length → unitOfV st1 i = unitOfV st i := fun i hi => unitOfV_of_ext hext hi
    have hA1 : ∀ i, i < n0 → unitOfV st1 i = UU i := fun i hi => (hsame i (by omega)).trans (hA i hi)
    have hB1 : unitOfV st1 n0 = u := (hsame n0 hn0).trans hB
    have hw1 : unitOfV st1 st.vars.length = (UU x).div (UU v) := by
      rw [hw, hl]; simp only [lhsUnit, hA x hxnv, hA v hvn0]
    apply ih st1 rep1 J1 _ hA1 hB1
    · -- the map
      intro k w hk
      rw [s1, lookup_insertKey] at hk
      by_cases hkk : k = (x, v)
      · rw [if_pos hkk] at hk; cases hk; rw [hkk]; exact ⟨hxnv, hvn0, hw1⟩
      · rw [if_neg hkk] at hk
        obtain ⟨h1, h2, h3⟩ := hC k w hk
        have hwlt := (Jl.repKeys _ (mem_of_lookup' _ _ _ hk)).2
        exact ⟨h1, h2, (hsame w hwlt).trans h3⟩
    · -- the equations
      intro e he
      rw [s2] at he
      simp only [List.mem_append, List.mem_cons, List.not_mem_nil, or_false] at he
      rcases he with he | he | he
      · have hm := List.mem_of_mem_erase he
        exact (consistent_congr J (Jl.inv.scopedE e hm) hsame).mpr (hu e hm)
      · rw [he]
        have hc := (consistent_congr J (Jl.inv.scopedE ode ho) hsame).mpr (hu ode ho)
        simp only [Consistent, hl, lhsUnit, hsame x (by omega), hsame v (by omega), hA x hxnv, hA v hvn0] at hc
        simp only [Consistent, hc, lhsUnit, hw1]
      · rw [he]
        simp only [Consistent, unitOf, lhsUnit, hw1, hA1 x hxnv, hB1, U.free_law _ _ _ hUv]

/-- `convert_variable(v, units, INPUT)` for the free variable keeps the model unit-consistent -/
theorem units_free (J : UI) {s : CState} (hwf : WF s) (hu : UnitsOK J s) (v : Nat) (hv : v < s.vars.length) (u : U)
    (cf : Rat) (hcf1 : cf ≠ 1) (move : Bool) (hst : hasKey v s.odeDef = false) (hfr : getFree s = some v)
    (hvs : (unitOfV s v).scale ≠ 0) (hus : u.scale ≠ 0) : UnitsOK J (convertVariable s v u cf .input move).1 := by
  have hall : ∀ e ∈ s.equations, ∀ x t, e.lhs = .deriv x t → t = v ∧ x ≠ v ∧ x < s.vars.length := by
    intro e he x t hl
    have := getFree_of_ode hwf.inv hwf.oneFree he hl
    rw [hfr] at this; cases this
    refine ⟨rfl, ?_, ?_⟩
    · intro hx; subst hx
      have := (hwf.inv.hasKey_odeDef x).mpr ⟨e, he, _, hl⟩
      rw [hst] at this; cases this
    · have := hwf.inv.defKey_lt he; rwa [defKey_deriv hl] at this
  obtain ⟨c1, c2, c3, c4⟩ := convertInstance_spec hwf.inv v hv cf u .input move
  obtain ⟨w1, w2⟩ := units_convertInstance_vars s v hv cf u .input move
  have hU1 := units_instance J hwf.inv hu v hv cf u .input move hvs hus
  have hcross1 : Cross (convertInstance s v cf u .input move).1.equations := by
    rw [c2]; exact cross_instEqs hwf.inv hwf.cross v _ .input (fun _ e he x t hl => (hall e he x t hl).2.1)
  have hode1 : ∀ e ∈ (convertInstance s v cf u .input move).1.equations, ∀ x t, e.lhs = .deriv x t →
      e ∈ s.equations := by
    rw [c2]; intro e he x t hl
    rcases instEqs_lhs s v _ .input e he with h | h | ⟨_, h⟩
    · exact h
    · rw [h] at hl; cases hl
    · rw [h] at hl; cases hl
  have Jl : LoopInv v s.vars.length (convertInstance s v cf u .input move).1 []
      (sortedOdes (convertInstance s v cf u .input move).1) :=
    { inv := c4, cross := hcross1, vlt := hv, nvlt := by rw [c3]; omega,
      inL := by
        intro ode ho
        obtain ⟨h1, x, t, h2⟩ := (mem_sortedOdes c4 ode).mp ho
        obtain ⟨h3, _, h4⟩ := hall ode (hode1 ode h1 x t h2) x t h2
        subst h3
        exact ⟨h1, x, h2, h4⟩
      nodup := nodup_sortedOdes c4,
      odes := fun e he x t hl => Or.inr ((mem_sortedOdes c4 e).mpr ⟨he, x, t, hl⟩),
      noLhs := fun _ _ _ _ _ => rfl,
      repKeys := fun p hp => by cases hp }
  obtain ⟨i1, i2, i3, i4⟩ := loop_units J (unitOfV s) s.vars.length v cf u hvs hv
    (sortedOdes (convertInstance s v cf u .input move).1) _ [] Jl hU1 w1 w2 (fun k w hk => by cases hk)
  rw [convertVariable_input_free s v u cf move hcf1 hst hfr]
  simp only [c1]
  have hq : cfQ s v u cf = .lit cf (u.div (unitOfV s v)) := rfl
  rw [hq]
  generalize (sortedOdes (convertInstance s v cf u .input move).1).foldl
      (freeStep v s.vars.length (.lit cf (u.div (unitOfV s v)))) ((convertInstance s v cf u .input move).1, []) = lp
    at i1 i2 i3 i4
  split
  · exact i2
  · apply units_replaceRefs J i1.inv i1.cross i1.noLhs (fun p hp => (i1.repKeys p hp).2) i2
    intro k w hk
    obtain ⟨h1, h2, h3⟩ := i4 k w hk
    rw [h3, i3 k.1 h1, i3 k.2 h2]

/-- **`convert_variable` keeps a unit-consistent model unit-consistent** — every case -/
theorem units_convertVariable (J : UI) {s : CState} (hwf : WF s) (hu : UnitsOK J s) (v : Nat) (hv : v < s.vars.length)
    (u : U) (cf : Rat) (dir : Dir) (move : Bool) (hvs : (unitOfV s v).scale ≠ 0) (hus : u.scale ≠ 0) :
    UnitsOK J (convertVariable s v u cf dir move).1 := by
  by_cases hcf1 : cf = 1
  · rw [hcf1, convertVariable_noop]; exact hu
  · cases dir with
    | output =>
      rw [convertVariable_output s v u cf move hcf1]
      exact units_instance J hwf.inv hu v hv cf u .output move hvs hus
    | input =>
      cases hst : hasKey v s.odeDef with
      | true => exact units_state J hwf hu v hv u cf hcf1 move hst hvs hus
      | false =>
        by_cases hfr : getFree s = some v
        · exact units_free J hwf hu v hv u cf hcf1 move hst hfr hvs hus
        · rw [convertVariable_input_plain s v u cf move hcf1 hst hfr]
          exact units_instance J hwf.inv hu v hv cf u .input move hvs hus

end Model.CV
