import Cellml.Tie.PrinterClosed

/-! # The sign condition of `_print_Add`, discharged

    `Printer._print_Add` peels the sign off the printed TEXT of a term (`t.startswith('-')`, `t[1:]`), the model peels it
    off the layout tree (`startsMinus`, `peelLeft`); `printAdd_tie` holds where the two agree (`MinusOK`), and the
    closing induction carries that as `AddOK`. Here: `AddOK e` holds for every expression of the domain in which no
    symbol name starts with `-` (`symOK`; `Symbol('-x')` is the input on which code and model really differ, see
    notes/reports/TIE_Printer.md) — because the text of every tree the model builds starts with `-` only at a `neg`
    node: the leftmost token is a symbol name, a number, a name of the function / literal tables, `1`, `True`, `False`,
    `Derivative`, or an opening bracket (`signOK`). -/

set_option linter.unusedSimpArgs false
set_option linter.unusedVariables false

namespace Cellml.Tie.PPrinter2
open C11 Cellml.Gen Cellml.Tie.PPrinter

/-- no symbol name starts with `-` -/
def symOK : E → Bool
  | .sym n _ => !headMinus n
  | .add a | .mul a | .and a | .or a | .pw a | .fn _ a => symOK a
  | .pow b x | .rel _ b x | .pair b x | .cons b x => symOK b && symOK x
  | _ => true

/-- the leftmost token of the text is not a name starting with `-` -/
def signOK : Doc → Bool
  | .atom s => !headMinus s
  | .call f _ => !headMinus f
  | .neg _ | .paren _ | .nil => true
  | .bin _ a _ | .cmp _ a _ | .and a _ | .or a _ | .ite a _ _ | .cons a _ => signOK a

theorem minusOK_of_signOK (d : Doc) (h : signOK d = true) : MinusOK d := by
  induction d with
  | atom s => simp only [signOK, Bool.not_eq_true'] at h; exact ⟨by simp [flatten, startsMinus, h], by simp [startsMinus]⟩
  | call f args ih =>
    simp only [signOK, Bool.not_eq_true'] at h
    refine ⟨?_, by simp [startsMinus]⟩
    simp only [flatten, startsMinus, String.append_assoc]
    rw [headMinus_append]; split_ifs
    · rw [headMinus_append]; simp; rfl
    · exact h
  | neg d ih =>
    refine ⟨by simp [flatten, startsMinus, headMinus_append]; rfl, fun _ => ?_⟩
    simp only [flatten, peelLeft, tailStr]
    apply String.toList_injective; simp
  | paren d ih => exact ⟨by simp [flatten, startsMinus, String.append_assoc, headMinus_append]; rfl, by simp [startsMinus]⟩
  | nil => exact ⟨by simp [flatten, startsMinus]; rfl, by simp [startsMinus]⟩
  | bin op a b iha ihb =>
    simp only [signOK] at h
    have := minusOK_prefix a (op.text ++ flatten b) (iha h) (by cases op <;> simp [Bop.text, headMinus_append] <;> rfl)
    simpa [flatten, startsMinus, peelLeft, MinusOK, String.append_assoc] using this
  | cmp r a b iha ihb =>
    simp only [signOK] at h
    have := minusOK_prefix a (" " ++ r.text ++ " " ++ flatten b) (iha h) (by simp [String.append_assoc, headMinus_append]; rfl)
    simpa [flatten, startsMinus, peelLeft, MinusOK, String.append_assoc] using this
  | and a b iha ihb =>
    simp only [signOK] at h
    have := minusOK_prefix a (" and " ++ flatten b) (iha h) (by simp [headMinus_append]; rfl)
    simpa [flatten, startsMinus, peelLeft, MinusOK, String.append_assoc] using this
  | or a b iha ihb =>
    simp only [signOK] at h
    have := minusOK_prefix a (" or " ++ flatten b) (iha h) (by simp [headMinus_append]; rfl)
    simpa [flatten, startsMinus, peelLeft, MinusOK, String.append_assoc] using this
  | ite a b c iha ihb ihc =>
    simp only [signOK] at h
    have := minusOK_prefix a (" if " ++ flatten b ++ " else " ++ flatten c) (iha h)
      (by simp [String.append_assoc, headMinus_append]; rfl)
    simpa [flatten, startsMinus, peelLeft, MinusOK, String.append_assoc] using this
  | cons a t iha iht =>
    simp only [signOK] at h
    by_cases ht : t = .nil
    · subst ht
      have := iha h
      simpa [flatten, startsMinus, peelLeft, MinusOK] using this
    · have := minusOK_prefix a (", " ++ flatten t) (iha h) (by simp [headMinus_append]; rfl)
      have e1 : flatten (.cons a t) = flatten a ++ ", " ++ flatten t := by
        cases t <;> first | exact absurd rfl ht | rfl
      have e2 : flatten (.cons (peelLeft a) t) = flatten (peelLeft a) ++ ", " ++ flatten t := by
        cases t <;> first | exact absurd rfl ht | rfl
      simpa [e1, e2, startsMinus, peelLeft, MinusOK, String.append_assoc] using this

/-! ## the leftmost token of the trees the model builds -/

theorem signOK_bracket (e : E) (d : Doc) (p : Nat) (h : signOK d = true) : signOK (bracket e d p) = true := by
  unfold bracket; split_ifs <;> simp [signOK, h]

theorem signOK_spliceProd (a d : Doc) : signOK (spliceProd a d) = signOK a := by
  induction d with
  | bin op x y ihx ihy => cases op <;> simp_all [spliceProd, signOK]
  | _ => simp [spliceProd, signOK]

theorem signOK_spliceSum (a : Doc) (m : Bool) (d : Doc) : signOK (spliceSum a m d) = signOK a := by
  induction d with
  | bin op x y ihx ihy => cases op <;> simp_all [spliceSum, signOK]
  | _ => simp [spliceSum, signOK]

theorem signOK_spliceAnd (a d : Doc) : signOK (spliceAnd a d) = signOK a := by
  induction d <;> simp_all [spliceAnd, signOK]

theorem signOK_spliceOr (a d : Doc) : signOK (spliceOr a d) = signOK a := by
  induction d <;> simp_all [spliceOr, signOK]

theorem signOK_negFirst (d : Doc) : signOK (negFirst d) = true := by
  induction d with
  | bin op x y ihx ihy => cases op <;> simp_all [negFirst, signOK]
  | _ => simp [negFirst, signOK]

theorem signOK_foldl (f : Doc → Doc → Doc) (hf : ∀ a d, signOK (f a d) = signOK a) (ds : List Doc) (d : Doc) :
    signOK (ds.foldl f d) = signOK d := by
  induction ds generalizing d with
  | nil => rfl
  | cons x xs ih => rw [List.foldl_cons, ih, hf]

theorem headMinus_nat (n : Nat) : headMinus (toString n) = false := by
  have h1 : (toString n).toList = Nat.toDigits 10 n := by
    rw [Nat.toString_eq_repr]; exact Nat.toList_repr
  unfold headMinus
  rw [h1]
  cases hd : Nat.toDigits 10 n with
  | nil => rfl
  | cons c cs =>
    by_cases hc : c = '-'
    · subst hc
      have : ('-' : Char) ∈ Nat.toDigits 10 n := by rw [hd]; simp
      have := Nat.isDigit_of_mem_toDigits (by decide) (by decide) this
      exact absurd this (by decide)
    · split
      · rename_i heq; simp at heq; exact absurd heq.1 hc
      · rfl

theorem signOK_natDoc (n : Nat) : signOK (natDoc n) = true := by
  show (!headMinus (toString n)) = true
  rw [headMinus_nat]; rfl

theorem signOK_intDoc (n : Int) : signOK (intDoc n) = true := by
  unfold intDoc; split_ifs <;> simp [signOK, signOK_natDoc]

theorem signOK_numDoc (k : E) (hk : numOK k = true) : signOK (numDoc k) = true := by
  cases k <;> simp_all [numOK, numDoc, signOK, signOK_intDoc]
  rename_i t neg
  cases neg <;> simp_all [fltOK, fltDoc, signOK]

theorem lookup_mem (t : List (String × String)) (k v : String) (h : lookup t k = some v) : (k, v) ∈ t := by
  induction t with
  | nil => simp [lookup] at h
  | cons p r ih =>
    rcases p with ⟨a, b⟩
    simp only [lookup] at h
    split_ifs at h with hk
    · simp only [Option.some.injEq] at h
      simp only [beq_iff_eq] at hk
      simp [hk, h]
    · exact List.mem_cons_of_mem _ (ih h)

theorem fn_table_sign : Cellml.Gen.printerFunctionNames.all (fun p => !headMinus p.2) = true := by decide +kernel

theorem fnName_sign (n f : String) (h : fnName n = some f) : headMinus f = false := by
  have := List.all_eq_true.mp fn_table_sign (n, f) (lookup_mem _ n f h)
  simpa using this

theorem sqrt_sign : headMinus sqrtName = false := by decide +kernel
theorem pi_sign : headMinus (litName "pi") = false := by decide +kernel
theorem e_sign : headMinus (litName "e") = false := by decide +kernel

theorem signOK_assemble (num : Doc) (D : List Doc) : signOK (assemble num D) = signOK num := by
  match D with
  | [] => rfl
  | [d] => rfl
  | d :: d' :: ds => rfl

theorem classify_sign (i : Item1) (h : signOK i.doc = true) : ∀ j ∈ (classify i).1, signOK j.doc = true := by
  rcases i with ⟨e, d, bs⟩
  cases e <;> simp only [classify]
  all_goals (try split_ifs)
  all_goals simp_all [num1, numDoc, signOK_intDoc]

theorem signOK_mulDoc (s : Bool) (fs : List Item1) (h : ∀ f ∈ fs, signOK f.doc = true) :
    signOK (mulDoc s fs) = true := by
  rw [mulDoc_eq, signOK_assemble]
  cases s
  · simp only [Bool.false_eq_true, if_false]
    obtain ⟨hpa, _, _⟩ := partition_mem fs
    have hA : ∀ j ∈ (if (partition fs).1.isEmpty then [num1 (.int 1)] else (partition fs).1), signOK j.doc = true := by
      intro j hj
      split_ifs at hj with he
      · simp only [List.mem_singleton] at hj; subst hj; exact signOK_intDoc 1
      · obtain ⟨i, hi, hji⟩ := hpa j hj
        exact classify_sign i (h i hi) j hji
    generalize (if (partition fs).1.isEmpty then [num1 (.int 1)] else (partition fs).1) = A at hA
    cases A with
    | nil => simp [prodChain, signOK]; rfl
    | cons x xs =>
      simp only [List.map_cons, prodChain]
      rw [signOK_foldl spliceProd signOK_spliceProd]
      exact signOK_bracket _ _ _ (hA x (by simp))
  · simp only [if_true]; exact signOK_negFirst _

theorem signOK_addFold (r : List Item) (a : Doc) (h : signOK a = true) :
    signOK ((r.foldl addStep (some a)).getD .nil) = true := by
  induction r generalizing a with
  | nil => simpa using h
  | cons i r ih =>
    rw [List.foldl_cons]
    simp only [addStep]
    exact ih _ (by rw [signOK_spliceSum]; exact h)

theorem signOK_addDoc (i : Item) (r : List Item) (h : signOK i.doc = true) : signOK (addDoc (i :: r)) = true := by
  unfold addDoc
  rw [List.foldl_cons]
  have : ∃ d, addStep none i = some d ∧ signOK d = true := by
    simp only [addStep]
    refine ⟨_, rfl, ?_⟩
    split_ifs <;> simp [signOK, h]
  obtain ⟨d, hd, hs⟩ := this
  rw [hd]
  exact signOK_addFold r d hs

theorem signOK_boolChain (f : Doc → Doc → Doc) (hf : ∀ a d, signOK (f a d) = signOK a) (p : Nat) (i : Item)
    (r : List Item) (h : signOK i.doc = true) : signOK (boolChain f p (i :: r)) = true := by
  simp only [boolChain]
  have := signOK_foldl f hf (r.map (fun j => bracket j.e j.doc p)) (bracket i.e i.doc p)
  rw [List.foldl_map] at this
  rw [this]
  exact signOK_bracket _ _ _ h

/-! ## every printed tree of the domain -/

def Sg (x : E) : Prop :=
  ∀ s, s ≠ Srt.P → wf s x = true → isList x = false → genOK x = true → symOK x = true → (pr x).st = .ok →
    signOK (pr x).doc = true

theorem symOK_elem (l x : E) (hg : symOK l = true) (h : x ∈ elems l) : symOK x = true := by
  induction l with
  | cons a t _ iht =>
    simp only [elems, List.mem_cons] at h
    simp only [symOK, Bool.and_eq_true] at hg
    rcases h with rfl | h
    · exact hg.1
    · exact iht hg.2 h
  | _ => simp [elems] at h

/-- the first element of a non-empty list of the domain, with the Item the parent receives for it -/
theorem first_item (a : E) (s : Srt) (hla : isList a = true) (hwa : wf s a = true) (hne : (pr a).items.isEmpty = false) :
    ∃ hd tl, a = .cons hd tl ∧ (pr a).items = mk hd :: (C11.toList tl).map mk := by
  rcases isList_cases a hla with rfl | ⟨hd, tl, rfl⟩
  · simp [pr, okDoc] at hne
  · refine ⟨hd, tl, rfl, ?_⟩
    have := items_list _ (proper_of_wf s _ hla hwa)
    simpa [C11.toList] using this

theorem sign_step (e : E) (IH : ∀ x, height x < height e → Sg x) : Sg e := by
  intro s hs hw hl hg hy hst
  cases e with
  | sym n c => simpa [pr, okDoc, signOK, symOK] using hy
  | int n => exact signOK_intDoc n
  | rat p q => simp [pr, numDoc, signOK, signOK_intDoc]
  | flt t neg =>
    simp only [wf, Bool.and_eq_true] at hw
    exact signOK_numDoc (.flt t neg) hw.2
  | pi => simpa [pr, okDoc, signOK] using pi_sign
  | e1 => simpa [pr, okDoc, signOK] using e_sign
  | tt => decide
  | ff => decide
  | deriv x t => show (!headMinus "Derivative") = true; decide
  | other w => simp [pr] at hst
  | pair v c => simp_all [wf]
  | nil => simp [isList] at hl
  | cons a t => simp [isList] at hl
  | add a =>
    simp only [wf, Bool.and_eq_true] at hw
    obtain ⟨⟨_, hla⟩, hwa⟩ := hw
    simp only [genOK] at hg
    simp only [symOK] at hy
    have hsa : (pr a).st = .ok ∧ (pr a).items.isEmpty = false := by
      simp only [pr] at hst
      split_ifs at hst with h0
      exact ⟨hst, by simpa using h0⟩
    obtain ⟨hd, tl, rfl, hit⟩ := first_item a .A hla hwa hsa.2
    have hmem : hd ∈ C11.toList (.cons hd tl) := by simp [C11.toList]
    have hmem' : hd ∈ elems (.cons hd tl) := by simp [elems]
    have h1 := wf_list .A _ hwa hd hmem
    have := IH hd (by have := height_elem _ hd hmem'; simp only [height] at this ⊢; omega) .A (by decide) h1.1 h1.2
      (genOK_elem _ hd hg hmem') (symOK_elem _ hd hy hmem') (st_list _ (proper_of_wf .A _ hla hwa) hsa.1 hd hmem)
    have hdoc : (pr (.add (.cons hd tl))).doc = addDoc (mk hd :: (C11.toList tl).map mk) := by
      simp only [pr] at hit ⊢; rw [hit]
    rw [hdoc]
    exact signOK_addDoc _ _ this
  | and a =>
    simp only [wf, Bool.and_eq_true] at hw
    obtain ⟨⟨⟨_, hla⟩, hwa⟩, _⟩ := hw
    simp only [genOK] at hg
    simp only [symOK] at hy
    have hsa : (pr a).st = .ok ∧ (pr a).items.isEmpty = false := by
      simp only [pr] at hst
      split_ifs at hst with h0
      exact ⟨hst, by simpa using h0⟩
    obtain ⟨hd, tl, rfl, hit⟩ := first_item a .B hla hwa hsa.2
    have hmem : hd ∈ C11.toList (.cons hd tl) := by simp [C11.toList]
    have hmem' : hd ∈ elems (.cons hd tl) := by simp [elems]
    have h1 := wf_list .B _ hwa hd hmem
    have := IH hd (by have := height_elem _ hd hmem'; simp only [height] at this ⊢; omega) .B (by decide) h1.1 h1.2
      (genOK_elem _ hd hg hmem') (symOK_elem _ hd hy hmem') (st_list _ (proper_of_wf .B _ hla hwa) hsa.1 hd hmem)
    have hdoc : (pr (.and (.cons hd tl))).doc = boolChain spliceAnd 30 (mk hd :: (C11.toList tl).map mk) := by
      simp only [pr] at hit ⊢; rw [hit]
    rw [hdoc]
    exact signOK_boolChain _ signOK_spliceAnd _ _ _ this
  | or a =>
    simp only [wf, Bool.and_eq_true] at hw
    obtain ⟨⟨⟨_, hla⟩, hwa⟩, _⟩ := hw
    simp only [genOK] at hg
    simp only [symOK] at hy
    have hsa : (pr a).st = .ok ∧ (pr a).items.isEmpty = false := by
      simp only [pr] at hst
      split_ifs at hst with h0
      exact ⟨hst, by simpa using h0⟩
    obtain ⟨hd, tl, rfl, hit⟩ := first_item a .B hla hwa hsa.2
    have hmem : hd ∈ C11.toList (.cons hd tl) := by simp [C11.toList]
    have hmem' : hd ∈ elems (.cons hd tl) := by simp [elems]
    have h1 := wf_list .B _ hwa hd hmem
    have := IH hd (by have := height_elem _ hd hmem'; simp only [height] at this ⊢; omega) .B (by decide) h1.1 h1.2
      (genOK_elem _ hd hg hmem') (symOK_elem _ hd hy hmem') (st_list _ (proper_of_wf .B _ hla hwa) hsa.1 hd hmem)
    have hdoc : (pr (.or (.cons hd tl))).doc = boolChain spliceOr 20 (mk hd :: (C11.toList tl).map mk) := by
      simp only [pr] at hit ⊢; rw [hit]
    rw [hdoc]
    exact signOK_boolChain _ signOK_spliceOr _ _ _ this
  | fn name a =>
    simp only [pr] at hst ⊢
    cases hf : fnName name with
    | none => simp only [hf] at hst; rw [join_ok] at hst; exact absurd hst.2 (by decide)
    | some f => simp [signOK, fnName_sign name f hf]
  | pw ps => simp [pr, signOK]
  | rel r a b =>
    simp only [wf, Bool.and_eq_true, Bool.not_eq_true', Bool.or_eq_true] at hw
    obtain ⟨⟨⟨_, hla⟩, hlb⟩, hwab⟩ := hw
    simp only [genOK, Bool.and_eq_true] at hg
    simp only [symOK, Bool.and_eq_true] at hy
    have hsab : (pr a).st = .ok ∧ (pr b).st = .ok := by
      simp only [pr] at hst
      exact (join_ok _ _).mp hst
    have hha : height a < height (.rel r a b) := by simp only [height]; omega
    have hda : signOK (pr a).doc = true := by
      rcases hwab with ⟨hwa, _⟩ | ⟨⟨_, hwa⟩, _⟩
      · exact IH a hha .A (by decide) hwa hla hg.1 hy.1 hsab.1
      · exact IH a hha .B (by decide) hwa hla hg.1 hy.1 hsab.1
    simp only [pr, signOK]
    exact signOK_bracket _ _ _ hda
  | pow b x =>
    simp only [wf, Bool.and_eq_true, Bool.not_eq_true'] at hw
    simp only [genOK, Bool.and_eq_true] at hg
    simp only [symOK, Bool.and_eq_true] at hy
    have hsb : (pr b).st = .ok := by
      simp only [pr] at hst
      split_ifs at hst
      exact ((join_ok _ _).mp hst).1
    have hdb := IH b (by simp only [height]; omega) .A (by decide) hw.1.2 hw.1.1.1.2 hg.1 hy.1 hsb
    simp only [pr, powDoc]
    split_ifs
    · simp [signOK, sqrt_sign]
    · simp only [signOK]; decide
    · simp only [signOK]; decide
    · simp only [signOK]; exact signOK_bracket _ _ _ hdb
  | mul a =>
    simp only [wf, Bool.and_eq_true] at hw
    obtain ⟨⟨_, hla⟩, hwa⟩ := hw
    simp only [genOK, Bool.and_eq_true] at hg
    simp only [symOK] at hy
    obtain ⟨c, r1, t, rfl⟩ := twoPlus_cases a hg.1
    obtain ⟨s', fs, hmi, hd, _, hgood, _, _⟩ :=
      mul_good (fun x => symOK x = true) symOK_elem (fun l h => h) (· = .ok)
        (fun a b h => (join_ok a b).mp h) (by decide) c r1 t hla hwa hg.2 hy hst
    rw [hd]
    apply signOK_mulDoc
    intro f hf
    cases hgood f hf with
    | sub g hh hw' hl' hg' ha' hs' => exact IH g hh .A (by decide) hw' hl' hg' ha' hs'
    | num k hk => exact signOK_numDoc k hk

theorem sg_all (n : Nat) (e : E) (hn : height e < n) : Sg e := by
  induction n generalizing e with
  | zero => omega
  | succ n ih => exact sign_step e (fun x hx => ih x (by omega))

/-- **`addOK_of_symOK`**: the sign condition of the closing induction holds on the whole domain as soon as no symbol
    name starts with `-` -/
theorem addOK_of_symOK (e : E) : ∀ s, wf s e = true → genOK e = true → symOK e = true → AddOK e := by
  induction e with
  | add a ih =>
    intro s hw hg hy
    simp only [wf, Bool.and_eq_true] at hw
    obtain ⟨⟨_, hla⟩, hwa⟩ := hw
    simp only [genOK] at hg
    simp only [symOK] at hy
    refine ⟨?_, ih .A hwa hg hy⟩
    intro hst x hx
    have hx' : x ∈ C11.toList a := by rwa [← elems_eq_toList]
    have h1 := wf_list .A _ hwa x hx'
    exact minusOK_of_signOK _ (sg_all (height x + 1) x (by omega) .A (by decide) h1.1 h1.2 (genOK_elem _ x hg hx)
      (symOK_elem _ x hy hx) (st_list _ (proper_of_wf .A _ hla hwa) hst x hx'))
  | mul a ih =>
    intro s hw hg hy
    simp only [wf, Bool.and_eq_true] at hw
    simp only [genOK, Bool.and_eq_true] at hg
    exact ih .A hw.2 hg.2 hy
  | fn name a ih =>
    intro s hw hg hy
    simp only [wf, Bool.and_eq_true] at hw
    exact ih .A hw.2 hg hy
  | and a ih =>
    intro s hw hg hy
    simp only [wf, Bool.and_eq_true] at hw
    exact ih .B hw.1.2 hg hy
  | or a ih =>
    intro s hw hg hy
    simp only [wf, Bool.and_eq_true] at hw
    exact ih .B hw.1.2 hg hy
  | pw a ih =>
    intro s hw hg hy
    simp only [wf, Bool.and_eq_true] at hw
    exact ih .P hw.2 hg hy
  | pow b x ihb ihx =>
    intro s hw hg hy
    simp only [wf, Bool.and_eq_true] at hw
    simp only [genOK, Bool.and_eq_true] at hg
    simp only [symOK, Bool.and_eq_true] at hy
    exact ⟨ihb .A hw.1.2 hg.1 hy.1, ihx .A hw.2 hg.2 hy.2⟩
  | rel r a b iha ihb =>
    intro s hw hg hy
    simp only [wf, Bool.and_eq_true, Bool.or_eq_true] at hw
    simp only [genOK, Bool.and_eq_true] at hg
    simp only [symOK, Bool.and_eq_true] at hy
    rcases hw.2 with ⟨hwa, hwb⟩ | ⟨⟨_, hwa⟩, hwb⟩
    · exact ⟨iha .A hwa hg.1 hy.1, ihb .A hwb hg.2 hy.2⟩
    · exact ⟨iha .B hwa hg.1 hy.1, ihb .B hwb hg.2 hy.2⟩
  | pair v c ihv ihc =>
    intro s hw hg hy
    simp only [wf, Bool.and_eq_true] at hw
    simp only [genOK, Bool.and_eq_true] at hg
    simp only [symOK, Bool.and_eq_true] at hy
    exact ⟨ihv .A hw.1.2 hg.1 hy.1, ihc .B hw.2 hg.2 hy.2⟩
  | cons h t ihh iht =>
    intro s hw hg hy
    simp only [wf, Bool.and_eq_true] at hw
    simp only [genOK, Bool.and_eq_true] at hg
    simp only [symOK, Bool.and_eq_true] at hy
    exact ⟨ihh s hw.1.1.1 hg.1 hy.1, iht s hw.2 hg.2 hy.2⟩
  | _ => intros; trivial

end Cellml.Tie.PPrinter2
