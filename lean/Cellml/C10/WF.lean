import Cellml.C10.Eval

/-! # C10: well-formed models, and `getValue` on them

    `WF M`: the conditions under which the property is claimed — the C08 invariant (each variable at most one
    definition, the maps agree with the equation list, `order_added` increasing), `refs` of every equation are the
    references of its right-hand side, all ODEs share one bound variable which is neither a state nor defined, every
    variable mentioned is in the model, every reference is defined, the definitions are acyclic (a ranking exists),
    every state has an initial value. All fields except `inv` and the ranking are bounded statements that `decide`
    evaluates on a concrete model. Core Lean only. -/

namespace Model

/-- the bound variable of an ODE -/
def bvarOf (e : Eqn) : Option Nat :=
  match e.lhs with
  | .deriv _ t _ => some t
  | _ => none

/-- the reference is a state, the free variable or defined by an equation; a derivative is the left-hand side of an ODE -/
def definedRef (M : RModel) : Node → Bool
  | .var v => isState M v || (varRhs M v).isSome || freeVar M == some v
  | .deriv s t => (odeRhs M s t).isSome

/-- the free variable is neither a state nor defined by an equation -/
def freeOkB (M : RModel) : Bool :=
  match freeVar M with
  | some t => !isState M t && (varRhs M t).isNone
  | none => true

/-- every reference of every equation ranks below the left-hand side -/
def rankedByB (M : RModel) (rank : Node → Nat) : Bool :=
  M.st.equations.all fun e => e.refs.all fun r =>
    match lhsNode e.lhs with
    | some l => rank r < rank l
    | none => true

structure WF (M : RModel) : Prop where
  inv : Inv M.st
  refs : ∀ e ∈ M.st.equations, (∀ n ∈ e.refs, n ∈ (M.rhs e.tok).nodes) ∧ (∀ n ∈ (M.rhs e.tok).nodes, n ∈ e.refs)
  oneBvar : ∀ e ∈ M.st.equations, ∀ e' ∈ M.st.equations, bvarOf e = none ∨ bvarOf e' = none ∨ bvarOf e = bvarOf e'
  freeOk : freeOkB M = true
  live : ∀ e ∈ M.st.equations, ∀ v ∈ e.atoms, v ∈ M.st.live
  closed : ∀ e ∈ M.st.equations, ∀ n ∈ e.refs, definedRef M n = true
  acyclic : ∃ rank : Node → Nat, rankedByB M rank = true
  inits : ∀ s ∈ stateKeys M.st, (initOf M.st s).isSome = true

variable {fn : Interp} {M : RModel}

-- ------------------------------------------------------------------------------------------------ the definition maps
theorem varRhs_spec (E : EqInv M.st) {v : Nat} {r : Expr} (h : varRhs M v = some r) :
    ∃ e ∈ M.st.equations, e.lhs = .var v ∧ r = M.rhs e.tok := by
  unfold varRhs at h
  rcases hl : M.st.varDef.lookup v with _ | e
  · rw [hl] at h; cases h
  · rw [hl] at h
    have hm := mem_of_lookup _ _ _ hl
    rw [E.varDef] at hm
    obtain ⟨he, hlhs⟩ := (mem_deriveVarDef _ _ _).mp hm
    exact ⟨e, he, hlhs, by simpa using h.symm⟩

theorem odeRhs_spec (E : EqInv M.st) {s t : Nat} {r : Expr} (h : odeRhs M s t = some r) :
    ∃ e ∈ M.st.equations, lhsNode e.lhs = some (.deriv s t) ∧ r = M.rhs e.tok := by
  unfold odeRhs at h
  rcases hl : M.st.odeDef.lookup s with _ | e
  · rw [hl] at h; cases h
  · rw [hl] at h
    have hm := mem_of_lookup _ _ _ hl
    rw [E.odeDef] at hm
    obtain ⟨he, _⟩ := (mem_deriveOdeDef _ _ _).mp hm
    dsimp only at h
    by_cases hc : lhsNode e.lhs = some (.deriv s t)
    · rw [if_pos hc] at h; exact ⟨e, he, hc, by simpa using h.symm⟩
    · rw [if_neg hc] at h; cases h

/-- `get_free_variable` is the bound variable of every ODE when they all share one -/
theorem freeVar_of_ode (W : WF M) {e : Eqn} (he : e ∈ M.st.equations) {s t o : Nat} (hl : e.lhs = .deriv s t o) :
    freeVar M = some t := by
  have hmem : (s, e) ∈ M.st.odeDef := by
    rw [W.inv.eq.odeDef]; exact (mem_deriveOdeDef _ _ _).mpr ⟨he, t, o, hl⟩
  unfold freeVar getFreeVariable
  rcases hod : M.st.odeDef with _ | ⟨⟨s0, e0⟩, rest⟩
  · rw [hod] at hmem; cases hmem
  · have h0 : (s0, e0) ∈ M.st.odeDef := by rw [hod]; exact List.mem_cons_self ..
    rw [W.inv.eq.odeDef] at h0
    obtain ⟨he0, t0, o0, hl0⟩ := (mem_deriveOdeDef _ _ _).mp h0
    dsimp only
    rw [hl0]
    have := W.oneBvar e he e0 he0
    simp only [bvarOf, hl, hl0] at this
    rcases this with h | h | h
    · cases h
    · cases h
    · simp at h; rw [h]

theorem countP_lt_of {α} (p q : α → Bool) (l : List α) (hpq : ∀ x ∈ l, p x = true → q x = true) (x : α) (hx : x ∈ l)
    (hq : q x = true) (hp : p x = false) : l.countP p < l.countP q := by
  induction l with
  | nil => cases hx
  | cons y ys ih =>
    have hmono : ys.countP p ≤ ys.countP q :=
      List.countP_mono_left (fun z hz hpz => hpq z (List.mem_cons_of_mem _ hz) hpz)
    rcases List.mem_cons.mp hx with rfl | hx'
    · rw [List.countP_cons_of_pos hq, List.countP_cons_of_neg (by simp [hp])]
      omega
    · have ih := ih (fun z hz => hpq z (List.mem_cons_of_mem _ hz)) hx'
      by_cases hpy : p y = true
      · rw [List.countP_cons_of_pos hpy, List.countP_cons_of_pos (hpq y (List.mem_cons_self ..) hpy)]; omega
      · rw [List.countP_cons_of_neg hpy]
        by_cases hqy : q y = true
        · rw [List.countP_cons_of_pos hqy]; omega
        · rw [List.countP_cons_of_neg hqy]; exact ih

-- ------------------------------------------------------------------------------------------------ ranking
/-- occurs on the right-hand side of an equation of the model -/
def OccIn (M : RModel) (n : Node) : Prop := ∃ e ∈ M.st.equations, n ∈ e.refs

/-- how many variables of the model rank below a node (among the nodes of its own kind): what fuel is compared with -/
def measure (M : RModel) (rank : Node → Nat) (t0 : Nat) : Node → Nat
  | .var v => M.st.live.countP (fun w => rank (.var w) < rank (.var v))
  | .deriv s t => M.st.live.countP (fun w => rank (.deriv w t0) < rank (.deriv s t))

theorem measure_le (rank : Node → Nat) (t0 : Nat) (n : Node) : measure M rank t0 n ≤ M.st.live.length := by
  cases n <;> exact List.countP_le_length

theorem rankedBy_spec {rank : Node → Nat} (hr : rankedByB M rank = true) {e : Eqn} (he : e ∈ M.st.equations)
    {l : Node} (hl : lhsNode e.lhs = some l) {r : Node} (hrr : r ∈ e.refs) : rank r < rank l := by
  simp only [rankedByB, List.all_eq_true] at hr
  have := hr e he r hrr
  rw [hl] at this
  simpa using this

theorem lhs_of_lhsNode_deriv {l : Lhs} {s t : Nat} (h : lhsNode l = some (.deriv s t)) : ∃ o, l = .deriv s t o := by
  cases l with
  | var v => simp [lhsNode] at h
  | deriv s' t' o => simp [lhsNode] at h; obtain ⟨rfl, rfl⟩ := h; exact ⟨o, rfl⟩
  | other => simp [lhsNode] at h

theorem mem_atoms_of_ref {e : Eqn} {n : Node} (hn : n ∈ e.refs) {v : Nat} (hv : v ∈ n.atoms) : v ∈ e.atoms := by
  unfold Eqn.atoms
  exact List.mem_append_right _ (List.mem_flatMap.mpr ⟨n, hn, hv⟩)

theorem ranked_of_wf (W : WF M) {rank : Node → Nat} (hr : rankedByB M rank = true) :
    Ranked M rank (OccIn M) (measure M rank ((freeVar M).getD 0)) where
  varDec := by
    intro v r h n hn
    obtain ⟨e, he, hl, rfl⟩ := varRhs_spec W.inv.eq h
    have hnr := (W.refs e he).2 n hn
    exact ⟨rankedBy_spec hr he (by rw [hl]; rfl) hnr, e, he, hnr⟩
  odeDec := by
    intro s t r h n hn
    obtain ⟨e, he, hl, rfl⟩ := odeRhs_spec W.inv.eq h
    have hnr := (W.refs e he).2 n hn
    exact ⟨rankedBy_spec hr he hl hnr, e, he, hnr⟩
  mVar := by
    intro a b ⟨e, he, hae⟩ hab
    have halive : a ∈ M.st.live := W.live e he a (mem_atoms_of_ref hae (by simp [Node.atoms]))
    exact countP_lt_of _ _ _ (fun w _ hw => by
      simp only [decide_eq_true_eq] at hw ⊢; omega) a halive (by simpa using hab) (by simp)
  mDer := by
    intro s t s' t' ⟨e, he, hse⟩ hlt
    have hslive : s ∈ M.st.live := W.live e he s (mem_atoms_of_ref hse (by simp [Node.atoms]))
    have hdef := W.closed e he _ hse
    simp only [definedRef] at hdef
    obtain ⟨r, hr'⟩ := Option.isSome_iff_exists.mp hdef
    obtain ⟨e', he', hl', _⟩ := odeRhs_spec W.inv.eq hr'
    obtain ⟨o, hlhs⟩ := lhs_of_lhsNode_deriv hl'
    have hfree := freeVar_of_ode W he' hlhs
    simp only [measure, hfree, Option.getD_some]
    exact countP_lt_of _ _ _ (fun w _ hw => by
      simp only [decide_eq_true_eq] at hw ⊢; omega) s hslive (by simpa using hlt) (by simp)

-- ------------------------------------------------------------------------------------------------ the initial dictionary
theorem lookup_states (init : Nat → Option Rat) (l : List (Nat × Eqn)) (d : Nat) (q : Rat)
    (h : (l.filterMap (fun p => (init p.1).map (fun q => (p.1, q)))).lookup d = some q) :
    hasKey d l = true ∧ init d = some q := by
  induction l with
  | nil => simp at h
  | cons p rest ih =>
    obtain ⟨a, e⟩ := p
    have hk : hasKey d ((a, e) :: rest) = true ↔ a = d ∨ hasKey d rest = true := by
      simp only [hasKey, List.any_cons, Bool.or_eq_true, decide_eq_true_eq]
    rcases hi : init a with _ | qa
    · simp only [List.filterMap_cons, hi, Option.map_none] at h
      obtain ⟨h1, h2⟩ := ih h
      exact ⟨hk.mpr (.inr h1), h2⟩
    · simp only [List.filterMap_cons, hi, Option.map_some] at h
      by_cases hda : d = a
      · subst hda
        simp only [List.lookup_cons_self, Option.some.injEq] at h
        subst h
        exact ⟨hk.mpr (.inl rfl), hi⟩
      · simp only [List.lookup_cons, beq_ne hda] at h
        obtain ⟨h1, h2⟩ := ih h
        exact ⟨hk.mpr (.inr h1), h2⟩

/-- the dictionary `_get_value` starts from holds denoted values only -/
theorem memo0_ok (W : WF M) : MemoOK fn M (memo0 M) := by
  intro d q h
  unfold memo0 at h
  have hstates : ∀ q, (M.st.odeDef.filterMap (fun p => (initOf M.st p.1).map (fun q => (p.1, q)))).lookup d = some q →
      Den fn M (.v d) q := fun q hq => by
    obtain ⟨h1, h2⟩ := lookup_states (initOf M.st) M.st.odeDef d q hq
    exact Den.state h1 h2
  rcases hf : freeVar M with _ | t
  · rw [hf] at h; exact hstates q h
  · rw [hf] at h
    dsimp only at h
    rw [lookup_insertKey] at h
    by_cases hdt : d = t
    · subst hdt
      simp only [if_true, Option.some.injEq] at h
      subst h
      have hok := W.freeOk
      simp only [freeOkB, hf, Bool.and_eq_true, Bool.not_eq_true', Option.isNone_iff_eq_none] at hok
      exact Den.free hok.1 hok.2 hf
    · rw [if_neg hdt] at h; exact hstates q h

-- ------------------------------------------------------------------------------------------------ get_value
/-- what a correct answer of `get_value` is -/
def GoodAnswer (fn : Interp) (M : RModel) (v : Nat) : Except VErr Rat → Prop
  | .ok q => Den fn M (.v v) q
  | .error err => err ≠ .fuel ∧ ∀ q, ¬ Den fn M (.v v) q

theorem getValueFuel_good (fn : Interp) (W : WF M) (F : Nat) (hF : M.st.live.length < F) (v : Nat) :
    GoodAnswer fn M v (getValueFuel fn M F v) := by
  obtain ⟨rank, hr⟩ := W.acyclic
  have R := ranked_of_wf W hr
  have hm := fun n => measure_le (M := M) rank ((freeVar M).getD 0) n
  have h := getValueAux_good fn R F (fun s t _ => Nat.lt_of_le_of_lt (hm _) hF) F v (memo0 M) (memo0_ok W)
    (Nat.lt_of_le_of_lt (hm _) hF)
  unfold getValueFuel
  rcases hg : getValueAux fn M F F v (memo0 M) with err | ⟨q, memo'⟩
  · rw [hg] at h; exact h
  · rw [hg] at h; exact h.1

end Model
