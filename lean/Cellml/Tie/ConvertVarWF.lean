import Cellml.Tie.ConvertVarDriver
import Cellml.Props.C06

/-! # Tie on well-formed models: `convert_variable` (generated from model.py) RETURNS the hand model's result

    `Props/C06.lean` (`convert_var_wf`) shows that from a well-formed model (`WF`) the hand model's flag `raised` stays
    down; with `convertVariable_tie` the python code then raises nothing and returns exactly the state and the variable
    the theorems of `Props/C06.lean` speak about. -/

namespace Cellml.Tie.CV
open Model Model.CV Cellml.Gen Cellml.Tie

theorem convertVariable_tie_wf (view : CVView) (s : CState) (v : Nat) (u : U) (dir : Dir) (move : Bool) (cf : Rat)
    (h : WF s) (hv : v < s.vars.length) (hcf : view.getConversionFactor (unitOfV s v) u = .ok cf) :
    ConvertVar.convertVariable view s v u dir move =
      .ok ((convertVariable s v u cf dir move).1, (convertVariable s v u cf dir move).2.1) := by
  have ht := convertVariable_tie_inv0 view s v u dir move cf h.inv hv hcf
  have hr := (Cellml.Props.C06.convert_var_wf h v hv u cf dir move).2
  cases hg : ConvertVar.convertVariable view s v u dir move with
  | ok r =>
    rw [hg] at ht
    rw [ht.1]
  | error e =>
    rw [hg] at ht
    have := ht.1
    simp only at this
    rw [hr] at this
    cases this

end Cellml.Tie.CV
