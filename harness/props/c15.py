"""C15 — the same document always yields the same model (hash seeds, element permutations)."""
import copy
import hashlib
import json
import os
import shutil
import subprocess
import sys
import tempfile

import docgen as D
from common import REPO, Str, sx

ID = 'C15'
LEAN_MODULES = ['Cellml.Props.C15', 'Cellml.Tie.ConnLoop', 'Cellml.Tie.LoaderConsts', 'Cellml.Tie.GraphBuild', 'Cellml.Props.C15Gen', 'Cellml.Tie.ConvertVarDriver', 'Cellml.Tie.RolesQueries']
N = {'quick': 10, 'thorough': 60}
SEEDS = {'quick': 8, 'thorough': 64}
RULE = ('cases = every file of tests/cellml_files (the four big models a case each, the small ones sharing their '
        'interpreters in one case; the ones that load: all hash seeds + 9 XML-level element permutations; the refused '
        'ones: 2 seeds, outcome class only) + the witnesses of findings/C15.json + N documents from harness/docgen.py '
        '(2-7 components, 4-9 signals, relay chains with unit conversions, states, plus 3-7 extra initial-value '
        'constants so that the loop of transform_constants has something to reorder). Every text is loaded in '
        'SEPARATE python processes, one per PYTHONHASHSEED (quick 8, thorough 64; seed 0 = randomisation off, the '
        'others drawn from the case rng; x4 in the quick tier when setscan.py finds a set iteration the model does '
        'not know), each dumping variables(), equations, the sorted and unsorted role queries, graph nodes/edges and '
        'get_equations_for (all variables; recursive, direct, with and without units); 9 permuted spellings (units, '
        'components, variables, groups, connections + map_variables, connection ends, <math> elements, equations '
        'inside <math>, interleaved top level) are loaded under 1-2 seeds and compared under PERM_RULES. '
        'non-trivial = loads, >= 2 equations added by transform_constants, >= 2 processes; distinct = distinct case')
TRUSTED = ['Lean 4.33 kernel', 'axioms: propext, Classical.choice, Quot.sound',
           'correspondence harness harness/props/c15.py + docgen.py + setscan.py',
           'CPython/SymPy: what varies between two processes is the iteration order of sets (str hashes follow '
           'PYTHONHASHSEED; SymPy Dummy hashes also mix a per-process random dummy_index base, so a fixed '
           'PYTHONHASHSEED alone does NOT pin the order of a set of Variables) - dicts, lists, deques are ordered',
           'networkx lexicographical_topological_sort / ancestors are modelled (C09), not verified',
           'SymPy (which references survive simplification, str of an equation) is observed, not modelled']
ASSUMPTIONS = ['hash randomisation is a runtime phenomenon: the theorems cover every order the runtime could choose AT THE '
               'MODELLED SITES (harness/setscan.py re-lists the sites on every run and reports any new one as drift)',
               'str keys of graph nodes are pairwise distinct (variable names are unique per model, component and variable '
               'names are CellML identifiers, so `c$v` and `Derivative(_c$x, _c$t)` cannot collide): hypothesis KeyInj of '
               'the query theorems',
               'unit definitions reach the loader model in dependency order (their permutation is C03\'s worklist_perm)']
FINGERPRINT = {'cellmlmanip/parser.py': ['Parser.transform_constants', 'Parser._add_maths', 'Parser._add_connections',
                                        'Parser._add_components', 'Parser._add_variables', 'Parser.parse'],
               'cellmlmanip/model.py': ['Model.variables', 'Model.get_state_variables', 'Model.get_derivatives',
                                       'Model.get_derived_quantities', 'Model.get_equations_for', 'Model.graph',
                                       'Model.add_variable', 'Model.find_variables_and_derivatives']}
BUNDLED = os.path.join(REPO, 'tests', 'cellml_files')
try:                                  # static scan of the working tree: set iterations the Lean model does not know
    import setscan as _setscan
    SETSCAN = _setscan.report()
    SETSCAN_DRIFT = _setscan.drift()
except Exception as _e:               # a scanner that cannot run is treated like drift (more seeds), never ignored
    SETSCAN, SETSCAN_DRIFT = {'sites': []}, ['setscan failed: %s' % _e]
ASSUMPTIONS.append('setscan: %d set-iteration sites in cellmlmanip/*.py, %d modelled, %s' % (
    len(SETSCAN['sites']), len([x for x in SETSCAN['sites'] if x.get('class') == 'modelled']),
    ('DRIFT (new or re-introduced sites, seeds x4): ' + '; '.join(SETSCAN_DRIFT)) if SETSCAN_DRIFT else 'no drift'))
THREADS = int(os.environ.get('C15_THREADS', '3'))

# ---------------------------------------------------------------------------------------------- the dump (subprocess)
# Runs in a fresh interpreter (env PYTHONHASHSEED=k): loads every path given and prints one JSON list. Public API only.
DUMP_SRC = r'''
import sys, json, logging, re
logging.disable(logging.CRITICAL)
import cellmlmanip

def nm(x):
    if x.is_Derivative:
        return 'd(%s)/d(%s)' % (x.args[0].name, x.args[1][0].name)
    return x.name

def leaves(model, e):
    return sorted(nm(x) for x in model.find_variables_and_derivatives([e]))

def dump(path):
    try:
        m = cellmlmanip.load_model(path)
    except Exception as e:
        return {'outcome': 'err:' + type(e).__name__, 'msg': str(e)[:160]}
    o = {'outcome': 'ok'}
    vs = list(m.variables())
    o['variables'] = [v.name for v in vs]
    o['vars_full'] = [[v.name, re.sub(r'store\d+_', '', str(v.units)),   # the store id counts models per process (C16)
                       None if v.initial_value is None else repr(float(v.initial_value)),
                       v.cmeta_id] for v in vs]
    o['equations'] = [str(e) for e in m.equations]
    o['eq_lhs'] = [nm(e.lhs) for e in m.equations]
    # a conversion equation is the only kind of equation that defines a variable with an `in` interface
    o['eq_conv'] = [(not e.lhs.is_Derivative) and 'in' in (e.lhs.public_interface, e.lhs.private_interface)
                    for e in m.equations]
    o['eq_const'] = [(not e.lhs.is_Derivative) and e.rhs.is_Dummy and not hasattr(e.rhs, 'initial_value')
                     for e in m.equations]
    try:
        o['eq_leaves'] = [leaves(m, e.rhs) for e in m.equations]
        o['states'] = [v.name for v in m.get_state_variables()]
        o['state_inits'] = [[v.name, repr(float(v.initial_value))] for v in m.get_state_variables()
                            if v.initial_value is not None]
        o['derivs'] = [nm(v) for v in m.get_derivatives()]
        o['derived'] = [v.name for v in m.get_derived_quantities()]
        try:
            o['free'] = m.get_free_variable().name
        except ValueError:
            o['free'] = None
        o['states_unsorted'] = [v.name for v in m.get_state_variables(sort=False)]
        o['derivs_unsorted'] = [nm(v) for v in m.get_derivatives(sort=False)]
        o['derived_unsorted'] = [v.name for v in m.get_derived_quantities(sort=False)]
        g = m.graph
        o['graph_nodes'] = [nm(v) for v in g.nodes]
        o['graph_edges'] = sorted([nm(a), nm(b)] for a, b in g.edges)
        # the role of every node (graph attribute `variable_type`): a function of the SET of equations
        o['node_types'] = sorted([nm(v), None if t is None else t.name] for v, t in g.nodes(data='variable_type'))
        nodes = [v for v in vs if v in g.nodes] + m.get_derivatives()
        o['eqsfor'] = [[nm(v), [nm(e.lhs) for e in m.get_equations_for([v])]] for v in nodes]
        o['eqsfor_all'] = [nm(e.lhs) for e in m.get_equations_for(nodes)]
        o['eqsfor_all_units'] = [nm(e.lhs) for e in m.get_equations_for(nodes, strip_units=False)]
        o['eqsfor_direct'] = [[nm(v), [nm(e.lhs) for e in m.get_equations_for([v], recurse=False)]] for v in nodes]
        gs = m.graph_with_sympy_numbers
        o['eq_leaves_num'] = [leaves(m, gs.nodes[e.lhs]['equation'].rhs) for e in m.equations]
        pos = {v.name: i for i, v in enumerate(vs)}
        o['sorted_follow_variables'] = (
            o['states'] == sorted(o['states'], key=pos.get) and o['derived'] == sorted(o['derived'], key=pos.get)
            and [d.args[0].name for d in m.get_derivatives()] == sorted((d.args[0].name for d in m.get_derivatives()),
                                                                        key=pos.get))
    except Exception as e:
        o['query_err'] = type(e).__name__ + ': ' + str(e)[:120]
    # annotations: the ontology terms of a variable come back in the order of the document's RDF
    try:
        ox = 'https://chaste.comlab.ox.ac.uk/cellml/ns/oxford-metadata#'
        o['terms'] = [[v.name, list(m.get_ontology_terms_by_variable(v)), list(m.get_ontology_terms_by_variable(v, ox)),
                       m.get_display_name(v, ox)] for v in vs if v.rdf_identity is not None]
    except Exception as e:
        o['terms'] = 'err:' + type(e).__name__
    # the model AFTER a manipulation must not depend on hash seeds / element order either: convert the free variable
    # (every ODE is rewritten, one new variable per state, in the order of introduction of the states)
    try:
        free = m.get_free_variable()
    except Exception:
        free = None
    if free is not None and o.get('query_err') is None:
        try:
            from cellmlmanip.model import DataDirectionFlow
            nu = m.units.add_unit('c15_kilo_t', '1000 * %s' % m.units.format(free.units))
            m.convert_variable(free, nu, DataDirectionFlow.INPUT)
            o['ac_variables'] = [v.name for v in m.variables()]
            o['ac_equations'] = [re.sub(r'store\d+_', '', str(e)) for e in m.equations]
            o['ac_derived'] = [v.name for v in m.get_derived_quantities()]
        except Exception as e:
            o['ac_variables'] = 'err:' + type(e).__name__
    return o

print(json.dumps([dump(p) for p in sys.argv[1:]]))
'''

# the order in which dumps are compared: the first differing entry names the oracle key
OXMETA = 'https://chaste.comlab.ox.ac.uk/cellml/ns/oxford-metadata#'
QUERIES = ['outcome', 'query_err', 'terms', 'ac_variables', 'ac_equations', 'ac_derived', 'variables', 'vars_full', 'equations', 'states', 'state_inits', 'derivs', 'derived',
           'free', 'node_types', 'states_unsorted', 'derivs_unsorted', 'derived_unsorted', 'eqsfor', 'eqsfor_all', 'eqsfor_all_units',
           'eqsfor_direct', 'graph_edges', 'sorted_follow_variables', 'eq_leaves', 'eq_leaves_num', 'graph_nodes']


def run_dump(paths, seed, timeout=900):
    """Load `paths` in ONE fresh interpreter with PYTHONHASHSEED=seed ('random' = unset). Returns list of dumps."""
    env = dict(os.environ)
    env.pop('PYTHONHASHSEED', None)
    if seed != 'random':
        env['PYTHONHASHSEED'] = str(seed)
    p = subprocess.run([sys.executable, '-c', DUMP_SRC] + list(paths), stdout=subprocess.PIPE, stderr=subprocess.PIPE,
                       text=True, env=env, timeout=timeout, cwd='/')
    try:
        return json.loads(p.stdout.strip().split('\n')[-1])
    except Exception:
        return [{'outcome': 'crash', 'msg': (p.stderr or p.stdout)[-300:]} for _ in paths]


# ---------------------------------------------------------------------------------------------- permutations
# kind -> what legitimately follows the document (see PERM_RULES below). All keep the MEANING of the document.
PERM_KINDS = ['units', 'components', 'variables', 'groups', 'connections', 'ends', 'maths', 'equations', 'toplevel']


def _default_order(doc):
    return ([['units', i] for i in range(len(doc['units']))] + [['component', i] for i in range(len(doc['components']))] +
            [['group', i] for i in range(len(doc['groups']))] + [['connection', i] for i in range(len(doc['connections']))])


def _shuffle_kind(order, kind, rng):
    pos = [i for i, (k, _) in enumerate(order) if k == kind]
    vals = [order[i] for i in pos]
    rng.shuffle(vals)
    for i, v in zip(pos, vals):
        order[i] = v


def permute_json(doc, kind, rng):
    """One order-insensitive aspect of a docgen document permuted; everything else as it was."""
    d = copy.deepcopy(doc)
    d['order'] = [list(x) for x in (d.get('order') or _default_order(d))]
    if kind == 'units':
        _shuffle_kind(d['order'], 'units', rng)
    elif kind == 'components':
        _shuffle_kind(d['order'], 'component', rng)
    elif kind == 'groups':
        _shuffle_kind(d['order'], 'group', rng)
        for g in d['groups']:
            rng.shuffle(g['refs'])

            def walk(r):
                rng.shuffle(r['children'])
                for c in r['children']:
                    walk(c)
            for r in g['refs']:
                walk(r)
    elif kind == 'connections':
        _shuffle_kind(d['order'], 'connection', rng)
        for cn in d['connections']:
            rng.shuffle(cn['vars'])
    elif kind == 'ends':
        for cn in d['connections']:
            if rng.random() < 0.6:
                cn['c1'], cn['c2'] = cn['c2'], cn['c1']
                cn['vars'] = [[w, v] for v, w in cn['vars']]
    elif kind == 'variables':
        for c in d['components']:
            rng.shuffle(c['variables'])
    elif kind == 'maths':
        for c in d['components']:
            rng.shuffle(c['maths'])
    elif kind == 'equations':
        for c in d['components']:
            for m in c['maths']:
                rng.shuffle(m)
    elif kind == 'toplevel':
        # random interleaving of the four kinds of children of <model>; the order inside each kind is kept
        byk = {}
        for k, i in d['order']:
            byk.setdefault(k, []).append([k, i])
        out = []
        while byk:
            k = rng.choice(sorted(byk))
            out.append(byk[k].pop(0))
            if not byk[k]:
                del byk[k]
        d['order'] = out
    else:
        raise ValueError(kind)
    return d


def permute_xml(text, kind, rng):
    """The same permutations on CellML text (for the bundled files). Returns the new text."""
    from lxml import etree
    C, M = '{%s}' % D.CELLML_NS, '{%s}' % D.MATHML_NS
    root = etree.fromstring(text.encode('utf-8') if isinstance(text, str) else text)
    if root.tag != C + 'model':
        C = '{http://www.cellml.org/cellml/1.1#}'

    def shuffle_children(parent, tags):
        pos = [i for i, ch in enumerate(parent) if ch.tag in tags]
        els = [parent[i] for i in pos]
        tails = [e.tail for e in els]
        new = list(els)
        rng.shuffle(new)
        for i, e, t in sorted(zip(pos, new, tails), key=lambda x: x[0]):
            parent.remove(e)
        for i, e, t in sorted(zip(pos, new, tails), key=lambda x: x[0]):
            parent.insert(i, e)
            e.tail = t
    top = {'units': [C + 'units'], 'components': [C + 'component'], 'groups': [C + 'group'],
           'connections': [C + 'connection']}
    if kind in top:
        shuffle_children(root, top[kind])
        if kind == 'connections':
            for cn in root.iter(C + 'connection'):
                shuffle_children(cn, [C + 'map_variables'])
        if kind == 'groups':
            for g in list(root.iter(C + 'group')) + list(root.iter(C + 'component_ref')):
                shuffle_children(g, [C + 'component_ref'])
    elif kind == 'ends':
        for cn in root.iter(C + 'connection'):
            if rng.random() < 0.6:
                mc = cn.find(C + 'map_components')
                a, b = mc.get('component_1'), mc.get('component_2')
                mc.set('component_1', b)
                mc.set('component_2', a)
                for mv in cn.iter(C + 'map_variables'):
                    a, b = mv.get('variable_1'), mv.get('variable_2')
                    mv.set('variable_1', b)
                    mv.set('variable_2', a)
    elif kind == 'variables':
        for c in root.iter(C + 'component'):
            shuffle_children(c, [C + 'variable'])
    elif kind == 'maths':
        for c in root.iter(C + 'component'):
            shuffle_children(c, [M + 'math'])
    elif kind == 'equations':
        for m in root.iter(M + 'math'):
            shuffle_children(m, [M + 'apply'])
    elif kind == 'toplevel':
        kinds = [C + 'units', C + 'component', C + 'group', C + 'connection']
        pos = [i for i, ch in enumerate(root) if ch.tag in kinds]
        byk = {}
        for i in pos:
            byk.setdefault(root[i].tag, []).append(root[i])
        new = []
        while byk:
            k = rng.choice(sorted(byk))
            new.append(byk[k].pop(0))
            if not byk[k]:
                del byk[k]
        for e in new:
            root.remove(e)
        for i, e in zip(pos, new):
            root.insert(i, e)
    else:
        raise ValueError(kind)
    return etree.tostring(root, encoding='unicode')


# ---------------------------------------------------------------------------------------------- the property, on dumps
def _setform(q, val):
    """order-free form of a query result (lists inside eqsfor stay ordered: they are sorted by NAME by the code)"""
    if isinstance(val, list):
        return sorted(val, key=lambda x: json.dumps(x))
    return val


# per permutation kind: query -> 'set' (compare order-free) | 'skip'; every query not listed must be IDENTICAL.
# This table IS the statement of which orders follow the document:
#   variables(): component order, then <variable> order;   equations: conversion equations in work-list order, then
#   component maths in document order, then constants in variables() order;   sorted role queries: variables() order;
#   unsorted role queries and graph nodes: equations order;   get_equations_for: dependency, then NAME — no document order.
_EQ_ORDER = {'ac_equations': 'set', 'equations': 'set', 'states_unsorted': 'set', 'derivs_unsorted': 'set', 'derived_unsorted': 'set',
             'graph_nodes': 'set', 'eq_leaves': 'skip', 'eq_leaves_num': 'skip'}
_VAR_ORDER = dict(_EQ_ORDER, ac_variables='set', ac_derived='set', terms='set', variables='set', vars_full='set', states='set', state_inits='set', derivs='set',
                  derived='set', eqsfor='set', eqsfor_direct='set')
_SAME = {}      # nothing may change - graph.nodes included: its order follows Model.equations alone (Model.graph sorts the
#                 references of an equation by str before it walks them; fixed finding hashseed:graph_nodes)
PERM_RULES = {'units': _SAME, 'groups': _SAME, 'ends': _SAME, 'toplevel': _SAME,
              'connections': {'ac_equations': 'set', 'equations': 'set', 'derived_unsorted': 'set', 'graph_nodes': 'set', 'eq_leaves': 'skip',
                              'eq_leaves_num': 'skip'},
              'maths': _EQ_ORDER, 'equations': _EQ_ORDER, 'components': _VAR_ORDER, 'variables': _VAR_ORDER}


def _first_diff(a, b):
    if isinstance(a, list) and isinstance(b, list):
        for i, (x, y) in enumerate(zip(a, b)):
            if x != y:
                return 'position %d: %s  vs  %s' % (i, json.dumps(x)[:150], json.dumps(y)[:150])
        return 'lengths %d vs %d' % (len(a), len(b))
    return '%s  vs  %s' % (json.dumps(a)[:150], json.dumps(b)[:150])


def _part(d, flag, want):
    return [e for e, f in zip(d.get('equations', []), d.get(flag, [])) if f == want]


def property_failures(runs):
    """runs: [{'variant': 'base'|kind, 'seed': s, 'dump': {...}}]. The property C15 stated on the dumps:
    (1) same text => identical dump in every process; (2) permuted text => equal up to PERM_RULES;
    (3) sorted role queries are in variables() order. Returns [{'key', 'detail'}]."""
    fails = []
    by = {}
    for r in runs:
        by.setdefault(r['variant'], []).append(r)
    for variant, rs in by.items():
        ref = rs[0]
        for r in rs[1:]:
            for q in QUERIES:
                if ref['dump'].get(q) != r['dump'].get(q):
                    fails.append({'key': 'hashseed:' + q,
                                  'detail': '%s text, PYTHONHASHSEED %s vs %s, first differing query %s: %s' % (
                                      variant, ref['seed'], r['seed'], q, _first_diff(ref['dump'].get(q), r['dump'].get(q)))})
                    break
    for r in runs:
        if r['dump'].get('sorted_follow_variables') is False:
            fails.append({'key': 'order:sorted-query-not-in-variable-order',
                          'detail': '%s text, seed %s: %s / %s / %s vs variables %s' % (
                              r['variant'], r['seed'], r['dump'].get('states'), r['dump'].get('derived'),
                              r['dump'].get('derivs'), r['dump'].get('variables'))[:600]})
            break
    base = by.get('base', [None])[0]
    if base is None:
        return fails
    for variant, rs in by.items():
        if variant == 'base':
            continue
        rules = PERM_RULES[variant]
        p = rs[0]
        for q in QUERIES:
            mode = rules.get(q, 'same')
            a, b = base['dump'].get(q), p['dump'].get(q)
            if mode == 'skip':
                continue
            if mode == 'set':
                a, b = _setform(q, a), _setform(q, b)
            if a != b:
                fails.append({'key': 'permutation:%s:%s' % (variant, q),
                              'detail': 'permuting %s changed %s (%s): %s' % (
                                  variant, q, 'compared as a set' if mode == 'set' else 'must be identical', _first_diff(a, b))})
                break
        else:
            # the parts of Model.equations whose order does NOT follow the permuted element stay in place
            if variant in ('maths', 'equations') and _part(base['dump'], 'eq_conv', True) != _part(p['dump'], 'eq_conv', True):
                fails.append({'key': 'permutation:%s:equations-conv' % variant,
                              'detail': 'permuting %s reordered the conversion equations: %s' % (
                                  variant, _first_diff(_part(base['dump'], 'eq_conv', True), _part(p['dump'], 'eq_conv', True)))})
            if variant == 'connections':
                a = [e for e, f in zip(base['dump']['equations'], base['dump']['eq_conv']) if not f]
                b = [e for e, f in zip(p['dump']['equations'], p['dump']['eq_conv']) if not f]
                if a != b:
                    fails.append({'key': 'permutation:connections:equations-nonconv',
                                  'detail': 'permuting connections reordered component maths: ' + _first_diff(a, b)})
    return fails


# ---------------------------------------------------------------------------------------------- cases
def _seeds(rng, n):
    """seed 0 (hash randomisation off) + n-1 distinct seeds from the case rng"""
    out = [0]
    while len(out) < n:
        s = rng.randrange(1, 2 ** 32)
        if s not in out:
            out.append(s)
    return out


def n_seeds(tier):
    """quick 8 / thorough 64; a set-iteration site the model does not know multiplies the quick budget by 4"""
    n = SEEDS[tier]
    if SETSCAN_DRIFT and tier == 'quick':
        n *= 4
    return n


def add_constants(doc, rng, n):
    """n extra initial-value constants (what transform_constants turns into equations), spread over the components"""
    d = copy.deepcopy(doc)
    for i in range(n):
        c = rng.choice(d['components'])
        used = {v['name'] for v in c['variables']}
        name = next(x for x in ('k%d' % j for j in range(i, i + 99)) if x not in used)
        units = rng.choice([v['units'] for v in c['variables']] or ['dimensionless'])
        c['variables'].insert(rng.randint(0, len(c['variables'])),
                              {'name': name, 'units': units, 'pub': rng.choice([None, 'none', 'out']),
                               'priv': rng.choice([None, 'none']), 'init': rng.choice(D.NUM_TEXTS), 'cmeta': None})
    return d


SEARCH_BUDGET = 1500            # interpreters for the base texts of a search (run.py asks for n x 8 'thorough' cases)


def gen(rng, n, tier):
    searching = n > N['thorough']
    ns = max(2, SEARCH_BUDGET // n) if searching else n_seeds(tier)
    for i in range(n):
        r = rng.random()
        if r < 0.15:
            parent, far = D.far_forest(rng)
            doc = D.gen_valid_doc(rng, parent=parent, far=far, n_signals=rng.randint(3, 6))
        else:
            doc = D.gen_valid_doc(rng, k=rng.choice([2, 3, 3, 4, 5, 6, 7]), n_signals=rng.randint(4, 9))
        doc = add_constants(doc, rng, rng.randint(3, 7))
        seeds = _seeds(rng, ns)
        yield {'kind': 'gen', 'doc': doc, 'seeds': seeds, 'perms': list(PERM_KINDS), 'perm_seed': rng.randrange(10 ** 9),
               'perm_seeds': [seeds[-1]] if searching else [seeds[0], seeds[-1]]}


def _tier():
    """run.py does not hand the tier to corpus(): read it where run.py reads it"""
    if '--tier' in sys.argv[:-1]:
        return sys.argv[sys.argv.index('--tier') + 1]
    for a in sys.argv:
        if a.startswith('--tier='):
            return a.split('=', 1)[1]
    return os.environ.get('VERIF_TIER', 'quick')


BIG_FILES = ['aslanidi_model_2009.cellml', 'beeler_reuter_model_1977.cellml',
             'hodgkin_huxley_squid_axon_model_1952_modified.cellml', 'test_simple_odes.cellml']


def corpus():
    """every bundled document. The four big models are a case each; the small ones share their interpreters (one case,
    every process loads them all); all under every seed + permutations. Documents the loader refuses: two seeds."""
    import random
    ns = n_seeds(_tier())
    rng = random.Random('C15-corpus|%s' % os.environ.get('VERIF_SEED', '0'))
    files = sorted(f for f in os.listdir(BUNDLED) if f.endswith('.cellml'))
    groups = [[f] for f in BIG_FILES if f in files] + [[f for f in files if f not in BIG_FILES]]
    out = []
    for g in groups:
        seeds = _seeds(rng, ns)
        out.append({'kind': 'file', 'files': g, 'seeds': seeds, 'perms': list(PERM_KINDS),
                    'perm_seed': rng.randrange(10 ** 9), 'perm_seeds': [seeds[-1]]})
    # a document with several ontology terms on one variable and ODEs listed in another order than their states
    seeds = _seeds(rng, ns)
    out.append({'kind': 'file', 'files': [os.path.join(os.path.dirname(os.path.dirname(os.path.abspath(__file__))), 'data', 'c15_terms_odes.cellml')], 'seeds': seeds,
                'perms': list(PERM_KINDS), 'perm_seed': rng.randrange(10 ** 9), 'perm_seeds': [seeds[-1]]})
    # past disagreement (thorough tier): `offset = -(-2.5)` reaches Model.graph as a bare Quantity (PARAMETER), no leaf lost
    import json
    doc = json.load(open(os.path.join(os.path.dirname(os.path.dirname(os.path.abspath(__file__))), 'data', 'c15_negneg_doc.json')))
    seeds = _seeds(rng, 2)
    out.append({'kind': 'gen', 'doc': doc, 'seeds': seeds, 'perms': list(PERM_KINDS), 'perm_seed': rng.randrange(10 ** 9),
                'perm_seeds': [seeds[-1]]})
    return out


# ---------------------------------------------------------------------------------------------- implementation
def _texts(case):
    """{document label: {'base': text, kind: permuted text, ...}}"""
    import random
    if case.get('doc') is not None:
        bases = {'doc': D.to_xml(case['doc'])}
    else:
        bases = {f: open(os.path.join(BUNDLED, f), encoding='utf-8').read()
                 for f in (case.get('files') or [case['file']])}
    out = {}
    for label, base in bases.items():
        out[label] = {'base': base}
        for kind in case.get('perms', []):
            prng = random.Random('%s|%s|%s' % (case.get('perm_seed', 0), kind, label if label != 'doc' else ''))
            try:
                if case.get('doc') is not None:
                    out[label][kind] = D.to_xml(permute_json(case['doc'], kind, random.Random('%s|%s' % (case.get('perm_seed', 0), kind))))
                else:
                    out[label][kind] = permute_xml(base, kind, prng)
            except Exception:      # text that lxml cannot parse: nothing to permute (the loader refuses it anyway)
                pass
    return out


def _digest(x):
    return hashlib.sha1(json.dumps(x, sort_keys=True).encode()).hexdigest()[:10]


def impl(case):
    from concurrent.futures import ThreadPoolExecutor
    texts = _texts(case)
    labels = list(texts)
    tmp = tempfile.mkdtemp(prefix='c15_')
    runs = []            # {'doc', 'variant', 'seed', 'dump'}
    try:
        paths = {}
        for n, label in enumerate(labels):
            for k, t in texts[label].items():
                paths[label, k] = os.path.join(tmp, '%d_%s.cellml' % (n, k))
                with open(paths[label, k], 'w', encoding='utf-8') as f:
                    f.write(t)
        seeds = list(case['seeds'])
        first = run_dump([paths[l, 'base'] for l in labels], seeds[0])
        ok = [l for l, d in zip(labels, first) if d['outcome'] == 'ok']
        bad = [l for l in labels if l not in ok]
        for l, d in zip(labels, first):
            runs.append({'doc': l, 'variant': 'base', 'seed': seeds[0], 'dump': d})
        # one fresh interpreter per (seed, chunk of texts), a few at a time. A refused document: second seed only
        # (only the outcome class can vary).
        tasks = [(s, [(l, 'base') for l in ok]) for s in seeds[1:] if ok]
        if bad and len(seeds) > 1:
            tasks.append((seeds[1], [(l, 'base') for l in bad]))
        for s in [s for s in case.get('perm_seeds', []) if s in seeds]:
            todo = [(l, k) for l in ok for k in texts[l] if k != 'base']
            size = 3 if len(ok) == 1 else 24
            tasks += [(s, todo[i:i + size]) for i in range(0, len(todo), size)]
        with ThreadPoolExecutor(max_workers=THREADS) as ex:
            results = list(ex.map(lambda t: run_dump([paths[x] for x in t[1]], t[0]), tasks))
        for (s, xs), ds in zip(tasks, results):
            for (l, k), d in zip(xs, ds):
                runs.append({'doc': l, 'variant': k, 'seed': s, 'dump': d})
    finally:
        shutil.rmtree(tmp, ignore_errors=True)
    fails = []
    for l in labels:
        for f in property_failures([r for r in runs if r['doc'] == l]):
            fails.append({'key': f['key'], 'detail': ('' if l == 'doc' else l + ': ') + f['detail']})
    bases = {l: d for l, d in zip(labels, first)}
    obs = {'outcome': 'ok' if ok else first[0]['outcome'], 'msg': first[0].get('msg'),
           'outcomes': {l: bases[l]['outcome'] for l in labels},
           'n_runs': len(runs), 'n_seeds': len({r['seed'] for r in runs}), 'n_docs_ok': len(ok),
           'n_equations': sum(len(bases[l].get('equations', [])) for l in ok),
           'n_constants': max([sum(bases[l].get('eq_const', [])) for l in ok] or [0]),
           'n_conversions': sum(sum(bases[l].get('eq_conv', [])) for l in ok),
           'query_errs': {l: bases[l]['query_err'] for l in ok if bases[l].get('query_err')},
           'digests': sorted({'%s:%s:%s' % (r['doc'], r['variant'], _digest({q: r['dump'].get(q) for q in QUERIES}))
                              for r in runs})[:40],
           'failures': fails[:8]}
    if case.get('doc') is not None:
        obs['base'] = first[0]
        ps = [s for s in case.get('perm_seeds', []) if s in seeds]
        obs['perm_dumps'] = {r['variant']: r['dump'] for r in runs if r['variant'] != 'base' and r['seed'] == ps[0]} \
            if ps and ok else {}
    return obs


def oracle(case, obs):
    fails = [dict(f) for f in obs.get('failures', [])]
    if obs['outcome'] == 'crash':
        fails.append({'key': 'harness-crash', 'detail': str(obs.get('msg'))})
    if case.get('kind') == 'gen' and obs['outcome'] != 'ok':
        fails.append({'key': 'raises-on-valid-document:' + obs['outcome'][4:], 'detail': str(obs.get('msg'))})
    return fails


def nontrivial(case, obs):
    return obs['outcome'] == 'ok' and obs.get('n_constants', 0) >= 2 and obs.get('n_seeds', 0) >= 2


def tag(case, obs):
    if obs['outcome'] != 'ok':
        return '%s refused %s' % (case.get('kind'), obs['outcome'])
    if case.get('files') and len(case['files']) > 1:
        return 'files: %d load, %d refused' % (obs['n_docs_ok'], len(case['files']) - obs['n_docs_ok'])
    nc = obs.get('n_constants', 0)
    return '%s ok consts=%s convs=%s' % (case.get('kind'), '0' if nc == 0 else '1' if nc == 1 else '2-4' if nc < 5 else '5+',
                                          'yes' if obs.get('n_conversions') else 'no')


# ---------------------------------------------------------------------------------------------- model
ADVS = ['id', 'rev', ['rot', 1], ['rot', 2], ['rot', 3]]


def _variants(case, obs):
    """(label, document, dump of the implementation) for every spelling of a generated document"""
    import random
    if case.get('doc') is None or obs['outcome'] == 'crash':
        return []
    out = [('base', case['doc'], obs['base'])]
    for kind, dump in sorted((obs.get('perm_dumps') or {}).items()):
        prng = random.Random('%s|%s' % (case.get('perm_seed', 0), kind))
        out.append((kind, permute_json(case['doc'], kind, prng), dump))
    return out


def requests(case, obs):
    from props import c01
    lines = []
    for i, (label, doc, dump) in enumerate(_variants(case, obs)):
        lines.append(sx(['C15', 'load', ADVS[i % len(ADVS)]] + c01.doc_sx(doc)))
    return lines


def _names(x):
    return [str(a) for a in x]


def compare_dump(label, dump, rep):
    if not isinstance(rep, list) or not rep:
        return '%s: model reply malformed: %r' % (label, rep)
    if rep[0] == 'err':
        if dump['outcome'] == 'ok':
            return '%s: model refuses the document (%s), implementation loads it' % (label, rep[1:])
        if dump['outcome'] != 'err:' + rep[1]:
            return '%s: model raises %s, implementation %s (%s)' % (label, rep[1], dump['outcome'], dump.get('msg'))
        return None
    if dump['outcome'] != 'ok':
        return '%s: model loads the document, implementation raises %s (%s)' % (label, dump['outcome'], dump.get('msg'))
    parts = {p[0]: p[1:] for p in rep[1:]}
    if dump.get('query_err'):
        # Model.graph refuses the equations (a free input that is no ODE's free variable, ...): so must the model
        if parts['derivs'] and isinstance(parts['derivs'][0], list) and parts['derivs'][0][0] == 'qerr' and \
                _names(parts['vars']) == dump['variables'] and _names(parts['eqs']) == dump['eq_lhs']:
            return None
        return '%s: a query of the implementation raised %s, the model answers %s' % (label, dump['query_err'], parts['derivs'])
    for mine, theirs in (('vars', 'variables'), ('eqs', 'eq_lhs'), ('states', 'states'), ('derivs', 'derivs')):
        if _names(parts[mine]) != dump[theirs]:
            return '%s: %s differ: model %s, implementation %s' % (label, theirs, _names(parts[mine])[:12], dump[theirs][:12])
    mleaves = [sorted(set(_names(ls))) for _, ls in parts['leaves']]
    if mleaves != dump['eq_leaves'] or dump['eq_leaves_num'] != dump['eq_leaves']:
        return None         # SymPy cancelled a reference (x - x, 0*x after substitution): the graph queries are not compared
    #                         (nor get_derived_quantities: `z = 10 + (I - I)` reaches Model.graph as the bare Quantity 10, so z
    #                         is PARAMETER for the implementation and COMPUTED for the model, which does not simplify)
    # SymPy may also collapse a right-hand side to the bare Quantity without losing a leaf (`-(-2.5)` reaches
    # Model.graph as the Quantity 2.5): that left-hand side is PARAMETER for the implementation, by its own rule
    # `isinstance(equation.rhs, Quantity)`, and COMPUTED for the model, which does not simplify. `eq_const` says which
    # equations of the implementation have a bare Quantity on the right.
    bare = {lhs for lhs, c in zip(dump['eq_lhs'], dump.get('eq_const') or []) if c}
    mderived = [n for n in _names(parts['derived']) if n not in bare]
    if mderived != dump['derived']:
        return '%s: derived differ: model %s, implementation %s' % (label, mderived[:12], dump['derived'][:12])
    # the node LIST (networkx insertion order): left-hand sides in equation order, then late state / free nodes in the
    # str order of the references of the equation that brings them in - whatever adversary the model was given
    if _names(parts['nodes']) != dump['graph_nodes']:
        return '%s: graph nodes (in order) differ: model %s, implementation %s' % (label, _names(parts['nodes']), dump['graph_nodes'])
    for mine, theirs in (('eqsfor', 'eqsfor'), ('eqsfordirect', 'eqsfor_direct')):
        m = [[str(n), _names(l)] for n, l in parts[mine]]
        if m != dump[theirs]:
            return '%s: %s differ: %s' % (label, theirs, _first_diff(m, dump[theirs]))
    for mine, theirs in (('eqsforall', 'eqsfor_all'), ('eqsforallunits', 'eqsfor_all_units')):
        if _names(parts[mine]) != dump[theirs]:
            return '%s: %s differ: %s' % (label, theirs, _first_diff(_names(parts[mine]), dump[theirs]))
    return None


def compare(case, obs, replies):
    vs = _variants(case, obs)
    if len(vs) != len(replies):
        return 'model answered %d requests for %d spellings' % (len(replies), len(vs))
    for (label, doc, dump), rep in zip(vs, replies):
        mm = compare_dump(label, dump, rep)
        if mm:
            return mm
    return None


MANIFEST = {
    'technique': 'Lean 4 theorems over the loader model of C01 and the graph model of C09 with every Python set '
                 'iteration of the code made an adversarial order parameter + cross-process differential runs '
                 '(PYTHONHASHSEED) + element permutations + a static AST scan for set iterations',
    'text': ('Proved in Lean (lean/Cellml/Props/C15.lean; all documents, all fair adversaries, standard axioms only): '
             'load_order_independent (after the fix no set is iterated while loading: variables(), equations, initial '
             'values are independent of the adversary); queries_order_independent (get_derivatives, '
             'get_derived_quantities, get_equations_for for every request / recursion mode / number representation '
             'answer the same list, or are refused alike, for any two iteration orders at '
             'find_variables_and_derivatives and nx.ancestors); sorted_queries_deterministic + sortBy_spec (stable sort '
             'by pairwise distinct keys depends only on the set), order_added_distinct (keys come from a counter that '
             'only grows: strictly increasing along variables() after any add/remove history), '
             'lexTopo_insertion_independent (C09). The unfixed code is kept as transformConstantsSet / loadSet with '
             'proved counterexamples (transform_constants_set_order_dependent, loadSet_order_dependent) and '
             'loadSet_perm (same equation set). graph_order_independent / graph_nodes_order_independent: Model.graph '
             'itself - node list in networkx insertion order, edge list - is the same for every iteration order of '
             'the reference sets (the property sorts them by str; str keys distinct), so the node order is a function '
             'of Model.equations alone; the code before that fix is kept as graphSet with the proved counterexample '
             'graph_nodes_set_order_dependent. roles_equation_order_independent / derived_equation_order_independent: '
             'Variable.type of every variable and get_derived_quantities() are invariant under permuting '
             'Model.equations (Model.graph types all left-hand sides first and assigns STATE, then FREE, afterwards: '
             'the roles that come from the ODEs win wherever the ODEs stand); the code before that fix is kept as '
             'typesOld / getDerivedQuantitiesOld with the proved counterexample '
             'derived_depended_on_equation_order_before_fix. Element permutations: '
             'variables_follow_document and equations_follow_document state exactly which orders follow the document; '
             'element_perm_connections (same roots, variables, maths and constants lists; only the block of conversion '
             'equations is in work-list order), element_perm_ends (identical flat model), element_perm_equations '
             '(equations inside <math>: same variables, same conversion and constant blocks, maths the same set), '
             'element_perm_components (variables() permuted accordingly). Tie: every bundled document and N generated '
             'documents are loaded in separate processes under 8/64 hash seeds and in 9 permuted spellings; the dumps '
             '(variables, equations, role queries sorted and unsorted, graph nodes with their variable_type and edges, get_equations_for of '
             'every variable) must be identical across processes, equal up to the documented orders across '
             'permutations, and equal to the dump of the compiled Lean model for the generated documents (all '
             'spellings, five different adversaries).'),
    'note': ('Partial: the theorems cover the iteration orders AT THE MODELLED SITES (setscan.py lists the sites from '
             'the source on every run; a new one is reported as drift and multiplies the seeds by 4); that the block of '
             'conversion equations is the same SET under permuted connections, group order and component order '
             '(beyond variables()) are tested, not proved; SymPy (which references survive number substitution, str '
             'of an equation) is observed, not modelled; Declared / OdeOnce / distinct str keys are hypotheses of '
             'queries_order_independent (checked on examples, enforced by the loader). Trusted: Lean kernel; propext, '
             'Classical.choice, Quot.sound; the harness.'),
}
